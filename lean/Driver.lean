/-
  JSON-lines driver: one request per line on stdin, one answer per line on stdout.
  Imports model files only (no Mathlib), so it links as a native executable.
-/
import Driver.Codec
import ProphyModel.Spec
import ProphyModel.Py
import ProphyModel.PLayout
import ProphyModel.Topo
import ProphyModel.Expr
import ProphyModel.Resolve
import ProphyModel.Lemmas.ExprHost
import ProphyModel.Cpp
import ProphyModel.Text
import ProphyModel.Raw
import ProphyModel.Api
import ProphyModel.Typing
import ProphyModel.Copy
import ProphyModel.Files
import ProphyModel.FilesL
import ProphyModel.FilesW
import ProphyModel.CppLit
import ProphyModel.NameScan
import ProphyModel.Patch
import ProphyModel.Accept
import ProphyModel.WF
open Lean Prophy Prophy.Driver

structure DState where
  types : Std.HashMap Nat Ty := {}

def getTy (st : DState) (j : Json) : Except String Ty := do
  let t ← j.getObjVal? "t"
  match t with
  | .num _ =>
    let id ← t.getNat?
    match st.types[id]? with
    | some ty => pure ty
    | none => throw s!"unknown type id {id}"
  | _ => tyOfJson t

def stJson (s : Py.St) : Json :=
  Json.mkObj [("size", s.size), ("align", s.align), ("dyn", s.dyn), ("unl", s.unl)]

partial def astOfJson (j : Json) : Except String Expr.Ast := do
  let a ← j.getArr?
  let tag ← a[0]!.getStr?
  match tag with
  | "num" => pure (.num (← a[1]!.getNat?))
  | "name" => pure (.name (← a[1]!.getStr?))
  | "neg" => do pure (.neg (← astOfJson a[1]!))
  | "bin" =>
    let op ← (match (← a[1]!.getStr?) with
      | "+" => pure Expr.BinOp.add | "-" => pure Expr.BinOp.sub | "*" => pure Expr.BinOp.mul
      | "/" => pure Expr.BinOp.div | "<<" => pure Expr.BinOp.shl | ">>" => pure Expr.BinOp.shr
      | "|" => pure Expr.BinOp.bor
      | s => throw s!"bad operator {s}")
    pure (.bin op (← astOfJson a[2]!) (← astOfJson a[3]!))
  | s => throw s!"bad ast tag {s}"

def envOfJson (j : Json) : Except String (String → Option Int) := do
  let o ← j.getObj?
  let pairs ← o.toList.mapM (fun (k, v) => do pure (k, (← v.getInt?)))
  pure (fun s => pairs.lookup s)

def evalErrJson : Expr.EvalErr → Json
  | .divZero => Json.str "division by zero"
  | .negShift => Json.str "negative shift"
  | .outOfRange => Json.str "out of range"
  | .unknown s => Json.str ("unknown name " ++ s)

partial def argOfJson (j : Json) : Except String Api.Arg := do
  match j with
  | .null => pure .none
  | .bool true => pure .true_
  | .str "flt" => pure .flt
  | .str "other" => pure .other
  | .obj _ =>
    if let .ok v := j.getObjVal? "int" then pure (.int (← v.getInt?))
    else if let .ok v := j.getObjVal? "str" then pure (.str (← v.getStr?))
    else if let .ok v := j.getObjVal? "bytes" then pure (.bytes (← ofHex (← v.getStr?)))
    else if let .ok v := j.getObjVal? "list" then do pure (.list (← (← v.getArr?).toList.mapM argOfJson))
    else if let .ok v := j.getObjVal? "iter" then do pure (.iter (← (← v.getArr?).toList.mapM argOfJson))
    else if let .ok v := j.getObjVal? "msg" then do
      let a ← v.getArr?
      pure (.msg (← a[0]!.getStr?) (← valOfJson a[1]!))
    else throw "bad arg object"
  | _ => throw "bad arg"

def pathOfJson (j : Json) : Except String (List Api.Step) := do
  (← j.getArr?).toList.mapM fun s => do
    let a ← s.getArr?
    match (← a[0]!.getStr?) with
    | "f" => pure (Api.Step.field (← a[1]!.getNat?))
    | "e" => pure (Api.Step.elem (← a[1]!.getInt?))
    | x => throw s!"bad step {x}"

def optInt (j : Json) (k : String) : Except String (Option Int) :=
  match j.getObjVal? k with
  | .ok .null => pure none
  | .ok v => do pure (some (← v.getInt?))
  | .error _ => pure none

def opOfJson (j : Json) : Except String Api.Op := do
  let k ← getStr j "op"
  let p ← pathOfJson (← j.getObjVal? "path")
  let i := (getNat j "i").toOption.getD 0
  let a := (j.getObjVal? "a").toOption.getD Json.null
  match k with
  | "set" => do pure (.set p i (← argOfJson a))
  | "setDisc" => do pure (.setDisc p (← argOfJson a))
  | "append" => do pure (.append p i (← argOfJson a))
  | "insert" => do pure (.insert p i (← (← j.getObjVal? "idx").getInt?) (← argOfJson a))
  | "extend" => do pure (.extend p i (← argOfJson a))
  | "setItem" => do pure (.setItem p i (← (← j.getObjVal? "idx").getInt?) (← argOfJson a))
  | "setSlice" => do pure (.setSlice p i (← optInt j "lo") (← optInt j "hi") (← optInt j "step") (← argOfJson a))
  | "delItem" => do pure (.delItem p i (← (← j.getObjVal? "idx").getInt?))
  | "delSlice" => do pure (.delSlice p i (← optInt j "lo") (← optInt j "hi"))
  | "remove" => do pure (.remove p i (← argOfJson a))
  | "add" => pure (.add p i)
  | x => throw s!"bad op {x}"

def optStr (j : Json) (k : String) : Option String :=
  match j.getObjVal? k with
  | .ok (.str s) => some s
  | _ => none

def pmToJson (m : Patch.PM) : Json :=
  Json.mkObj [("name", m.name), ("type", m.type),
    ("bound", match m.bound with | some b => Json.str b | none => Json.null),
    ("size", match m.size with | some b => Json.str b | none => Json.null),
    ("greedy", m.greedy), ("optional", m.optional)]

def pmOfJson (j : Json) : Except String Patch.PM := do
  pure { name := ← getStr j "name", type := ← getStr j "type", bound := optStr j "bound", size := optStr j "size",
         greedy := (j.getObjVal? "greedy" >>= Json.getBool?).toOption.getD false,
         optional := (j.getObjVal? "optional" >>= Json.getBool?).toOption.getD false }

def actionOfJson (j : Json) : Except String Patch.Action := do
  let a ← j.getArr?
  let w ← a.toList.mapM (·.getStr?)
  match w with
  | ["type", m, t] => pure (.type m t)
  | ["insert", i, n, t] => match i.toInt? with
    | some k => pure (.insert k n t)
    | none => throw "bad index"
  | ["remove", m] => pure (.remove m)
  | ["dynamic", m, l] => pure (.dynamic m l)
  | ["greedy", m] => pure (.greedy m)
  | ["static", m, s] => pure (.static m s)
  | ["limited", m, l] => pure (.limited m l)
  | ["rename", m, n] => pure (.rename m n)
  | _ => throw "bad action"

def handle (st : DState) (j : Json) : Except String (DState × Json) := do
  let op ← getStr j "op"
  match op with
  | "deft" =>
    let id ← getNat j "id"
    let ty ← tyOfJson (← j.getObjVal? "t")
    pure ({ st with types := st.types.insert id ty }, Json.mkObj [("ok", true)])
  | "spec_enc" =>
    let ty ← getTy st j
    let v ← valOfJson (← j.getObjVal? "v")
    let e ← endianOf (← getStr j "e")
    pure (st, Json.mkObj [("bytes", toHex (Spec.enc ty v e))])
  | "spec_chunks" =>
    let ty ← getTy st j
    let v ← valOfJson (← j.getObjVal? "v")
    let cs := (Spec.chunksTy ty v).map (fun c => match c with
      | .scalar k _ => Json.arr #[Json.str "s", Json.num k]
      | .pad n => Json.arr #[Json.str "p", Json.num n]
      | .raw b => Json.arr #[Json.str "r", Json.num b.length])
    pure (st, Json.mkObj [("chunks", Json.arr cs.toArray), ("gal", Spec.galTy ty v)])
  | "spec_member_lens" =>
    let ty ← getTy st j
    let v ← valOfJson (← j.getObjVal? "v")
    match ty, v with
    | .struct _ ms, .struct vs =>
      let lens := Spec.memberLens ms vs ms vs
      pure (st, Json.mkObj [("lens", Json.arr (lens.map (fun (n : Nat) => (n : Json))).toArray),
                            ("starts", Json.arr ((Spec.memberStarts ms lens 0 false).map (fun (n : Nat) => (n : Json))).toArray),
                            ("unlimited", Spec.unlTy ty),
                            ("total", (Spec.enc ty v .little).length)])
    | _, _ => pure (st, Json.mkObj [("lens", Json.null), ("total", (Spec.enc ty v .little).length)])
  | "spec_layout" =>
    let ty ← getTy st j
    pure (st, Json.mkObj [("size", Spec.sizeTy ty), ("align", Spec.alignTy ty),
      ("dyn", Spec.dynTy ty), ("unl", Spec.unlTy ty)])
  | "cpp_encode" =>
    let ty ← getTy st j
    let v ← valOfJson (← j.getObjVal? "v")
    let e ← endianOf (← getStr j "e")
    let cells := Cpp.encodePtr ty v e
    let size := Cpp.getByteSize ty v
    let vec := match Cpp.encodeVec ty v e with
      | .ok b => Json.str (toHex b)
      | .fault => Json.str "fault"
    pure (st, Json.mkObj [("size", size), ("ptr_written", cells.length),
      ("ptr_bytes_zero", toHex (cells.map (·.getD 0))),
      ("written_mask", String.ofList (cells.map fun c => if c.isSome then 'w' else '.')),
      ("vec", vec), ("encoded_byte_size", Json.num (JsonNumber.fromInt (Cpp.codecSize ty)))])
  | "spec_offsets" =>
    let ty ← getTy st j
    let pairs := fun (l : List (String × Nat)) => Json.arr (l.map fun (n, o) => Json.arr #[Json.str n, (o : Json)]).toArray
    match ty with
    | .struct _ ms => pure (st, Json.mkObj [("blocks", Json.arr ((Spec.blockOffsets ms).map pairs).toArray),
        ("size", Spec.sizeTy ty), ("align", Spec.alignTy ty), ("fixed", !(Spec.dynTy ty))])
    | .union _ arms =>
      let a := max Spec.flagSize (Spec.alignArms arms)
      pure (st, Json.mkObj [("blocks", Json.arr #[pairs (("discriminator", 0) :: arms.map fun arm => (arm.name, a))]),
        ("size", Spec.sizeTy ty), ("align", Spec.alignTy ty), ("fixed", true)])
    | _ => throw "spec_offsets: composite expected"
  | "raw_layout" =>
    let ty ← getTy st j
    let pairs := fun (l : List (String × Nat)) => Json.arr (l.map fun (n, o) => Json.arr #[Json.str n, (o : Json)]).toArray
    match ty with
    | .struct _ ms =>
      let bs := Raw.structBlocks ms
      pure (st, Json.mkObj [("sizeof", Raw.sizeofTy ty), ("alignof", Raw.alignofTy ty),
        ("blocks", Json.arr (bs.map fun b => Json.mkObj [("align", b.align), ("sizeof", b.sizeof),
          ("fields", pairs (Raw.offsets b.fields 0))]).toArray)])
    | .union _ arms =>
      pure (st, Json.mkObj [("sizeof", Raw.sizeofTy ty), ("alignof", Raw.alignofTy ty),
        ("blocks", Json.arr #[Json.mkObj [("align", Raw.alignofTy ty), ("sizeof", Raw.sizeofTy ty),
          ("fields", pairs (Raw.unionLayout arms))]])])
    | _ => throw "raw_layout: composite expected"
  | "raw_swap" =>
    let ty ← getTy st j
    let data ← ofHex (← getStr j "data")
    match Raw.swap ty data with
    | some (b, ret) => pure (st, Json.mkObj [("data", toHex b), ("ret", ret)])
    | none => pure (st, Json.mkObj [("fault", true)])
  | "api_run" =>
    let ty ← getTy st j
    let ops ← (← getArr j "ops").toList.mapM opOfJson
    let init := Api.defaultTy ty
    -- states after every operation, outcomes, and whether each state is well typed
    let rec go (v : Val) : List Api.Op → List Json
      | [] => []
      | op :: r =>
        let (nv, e) := Api.step ty v op
        Json.mkObj [("exc", match e with | some x => Json.str (excName x) | none => Json.null),
                    ("state", valToJson nv), ("typed", hasType ty nv)] :: go nv r
    pure (st, Json.mkObj [("init", valToJson init), ("init_typed", hasType ty init), ("steps", Json.arr (go init ops).toArray)])
  | "prophyc_files" =>
    let strs := fun (x : Json) => do pure ((← x.getArr?).toList.mapM (·.getStr?))
    let fs ← (← getArr j "files").toList.mapM (fun f => do
      pure ({ id := ⟨← getStr f "dir", ← getStr f "leaf"⟩,
              includes := ← (← strs (← f.getObjVal? "includes")),
              defines := ← (← strs (← f.getObjVal? "defines")) } : Files.File))
    let dirs ← (← strs (← j.getObjVal? "include_dirs"))
    let mains ← (← getArr j "mains").toList.mapM (fun f => do
      pure (⟨← getStr f "dir", ← getStr f "leaf"⟩ : Files.FileId))
    match Files.processMains fs dirs mains [] with
    | .ok rs => pure (st, Json.mkObj [("results", Json.arr (rs.map fun (f, r) => Json.mkObj [
        ("leaf", f.leaf), ("visible", Json.arr (r.visible.map Json.str).toArray),
        ("parsed", Json.arr (r.parsed.map fun g => Json.str (g.dir ++ "/" ++ g.leaf)).toArray)]).toArray)])
    | .error (.notFound l) => pure (st, Json.mkObj [("error", "not found"), ("leaf", l)])
    | .error (.cyclic f) => pure (st, Json.mkObj [("error", "cyclic"), ("leaf", f.leaf)])
  | "prophyc_files_links" =>
    let strs := fun (x : Json) => do pure ((← x.getArr?).toList.mapM (·.getStr?))
    let entries ← (← getArr j "entries").toList.mapM (fun e => do
      pure ({ path := ⟨← getStr e "dir", ← getStr e "leaf"⟩, target := ⟨← getStr e "tdir", ← getStr e "tleaf"⟩,
              ident := ⟨← getStr e "idir", ← getStr e "ileaf"⟩ } : FilesL.Entry))
    let files ← (← getArr j "files").toList.mapM (fun f => do
      pure ({ id := ⟨← getStr f "dir", ← getStr f "leaf"⟩,
              includes := ← (← strs (← f.getObjVal? "includes")),
              defines := ← (← strs (← f.getObjVal? "defines")) } : FilesL.File))
    let dirs ← (← strs (← j.getObjVal? "include_dirs"))
    let mains ← (← getArr j "mains").toList.mapM (fun f => do
      pure (⟨← getStr f "dir", ← getStr f "leaf"⟩ : FilesL.Path))
    let fs : FilesL.FS := { entries := entries, files := files }
    let shapeJson := fun (sh : List (Nat × FilesL.Path)) =>
      Json.arr (sh.map fun (d, g) => Json.arr #[Json.num d, Json.str (g.dir ++ "/" ++ g.leaf)]).toArray
    let alone := Json.arr (mains.map (fun m =>
      match FilesL.eval fs dirs (FilesL.fuelOf fs) [] m with
      | .ok (_, vis, sh) => Json.mkObj [("visible", Json.arr (vis.map Json.str).toArray), ("shape", shapeJson sh)]
      | .error _ => Json.null)).toArray
    match FilesL.processMains fs dirs mains {} with
    | .ok rs => pure (st, Json.mkObj [("results", Json.arr (rs.map fun (f, r) => Json.mkObj [
        ("leaf", f.leaf), ("visible", Json.arr (r.visible.map Json.str).toArray),
        ("parsed", Json.arr (r.parsed.map fun g => Json.str (g.dir ++ "/" ++ g.leaf)).toArray),
        ("shape", shapeJson r.shape)]).toArray), ("alone", alone)])
    | .error e =>
      let kind := match e with
        | .notFound _ => "notFound" | .cyclic _ => "cyclic" | .sameName _ => "sameName"
        | .ambiguous _ _ => "ambiguous" | .tooDeep _ => "tooDeep" | .twoNames _ => "twoNames"
      pure (st, Json.mkObj [("error", kind), ("alone", alone)])
  | "isar_members" =>
    let flagText : Option String := match j.getObjVal? "dim" with
      | .ok d => optStr d "isVariableSize"
      | _ => none
    if (match flagText with | some v => (Patch.readFlag v).isNone | none => false) then
      return (st, Json.mkObj [("error", "flag")])
    let dim : Option Patch.Dim := match j.getObjVal? "dim" with
      | .ok (.obj _) =>
        let d := (j.getObjVal? "dim").toOption.getD Json.null
        let size := optStr d "size"
        some { size := size, size2 := optStr d "size2", sizerName := optStr d "variableSizeFieldName",
               sizerType := optStr d "variableSizeFieldType",
               isVariable := (match optStr d "isVariableSize" with       -- read by value (D90), by one rule (D201)
                 | some v => (Patch.readFlag v).getD false
                 | none => false),
               marker := match size with
                 | some s => decide ((s.splitOn "THIS_IS_VARIABLE_SIZE_ARRAY").length > 1)
                 | none => false }
      | _ => none
    let ms := Patch.isarMembers (← getStr j "name") (← getStr j "type")
      ((j.getObjVal? "optional" >>= Json.getBool?).toOption.getD false) dim
      ((j.getObjVal? "message" >>= Json.getBool?).toOption.getD false)
    pure (st, Json.mkObj [("members", Json.arr (ms.map pmToJson).toArray)])
  | "patch_apply" =>
    let ms ← (← getArr j "members").toList.mapM pmOfJson
    let acts ← (← getArr j "actions").toList.mapM actionOfJson
    match Patch.applyRules ms acts with
    | .ok r => pure (st, Json.mkObj [("members", Json.arr (r.map pmToJson).toArray)])
    | .error _ => pure (st, Json.mkObj [("error", true)])
  | "accepts" =>
    let ty ← getTy st j
    pure (st, Json.mkObj [("front", Accept.front ty), ("pyrt", Accept.pyRt ty), ("wf", WF.wfTy ty), ("model", Accept.model ty),
      ("grammar", Accept.grammar ty)])
  | "py_copy" =>
    let ty ← getTy st j
    let v ← valOfJson (← j.getObjVal? "v")
    let (c, shared) := Copy.copyFrom ty v
    pure (st, Json.mkObj [("val", valToJson c), ("shared", shared)])
  | "has_type" =>
    let ty ← getTy st j
    let v ← valOfJson (← j.getObjVal? "v")
    pure (st, Json.mkObj [("typed", hasType ty v)])
  | "py_str" =>
    let ty ← getTy st j
    let v ← valOfJson (← j.getObjVal? "v")
    pure (st, Json.mkObj [("text", Text.pyText ty v)])
  | "cpp_print" =>
    let ty ← getTy st j
    let v ← valOfJson (← j.getObjVal? "v")
    pure (st, Json.mkObj [("text", Text.cppText ty v)])
  | "cpp_traits" =>
    let ty ← getTy st j
    pure (st, Json.mkObj [("opt_misaligned", Cpp.optMisaligned ty), ("cpp_align", Cpp.cppAlign ty),
      ("codec_size", Json.num (JsonNumber.fromInt (Cpp.codecSize ty)))])
  | "cpp_decode" =>
    let ty ← getTy st j
    let data ← ofHex (← getStr j "data")
    let e ← endianOf (← getStr j "e")
    match Cpp.decode ty data e with
    | .accepted v rs => pure (st, Json.mkObj [("outcome", "accepted"), ("val", valToJson v),
        ("resizes", Json.arr (rs.map fun (n : Nat) => (n : Json)).toArray)])
    | .rejected rs => pure (st, Json.mkObj [("outcome", "rejected"),
        ("resizes", Json.arr (rs.map fun (n : Nat) => (n : Json)).toArray)])
    | .fault => pure (st, Json.mkObj [("outcome", "fault")])
    | .exception rs => pure (st, Json.mkObj [("outcome", "exception"),
        ("resizes", Json.arr (rs.map fun (n : Nat) => (n : Json)).toArray)])
  | "prophyc_eval" =>
    let text ← getStr j "text"
    let env ← envOfJson (← j.getObjVal? "env")
    let octal ← (← j.getObjVal? "octal").getBool?
    match Expr.evalText octal env text with
    | .value v => pure (st, Json.mkObj [("value", Json.num (JsonNumber.fromInt v))])
    | .syntaxError => pure (st, Json.mkObj [("error", "syntax")])
    | .evalError x => pure (st, Json.mkObj [("error", evalErrJson x)])
  | "prophyc_host" =>
    -- what the host languages compute from expression text that prophyc pasted (Lemmas/ExprHost.lean):
    -- calc's tree and value, the tree Python / C++ read, Python's value, C++'s value in `int` arithmetic
    let text ← getStr j "text"
    let env ← envOfJson (← j.getObjVal? "env")
    let res : Except Expr.EvalErr Int → Json := fun r => match r with
      | .ok v => Json.num (JsonNumber.fromInt v)
      | .error x => Json.mkObj [("error", evalErrJson x)]
    match Expr.tokenize false text with
    | none => pure (st, Json.mkObj [("error", "syntax")])
    | some toks =>
      let ctree := Expr.parse toks
      let host := Expr.parseWith Expr.hostInfo toks
      pure (st, Json.mkObj [
        ("calc", match ctree with | some a => res (Expr.eval env a) | none => Json.str "syntax"),
        ("same_tree", Json.bool (ctree.isSome && ctree == host)),
        ("py", match host with | some b => res (Expr.evalPy env b) | none => Json.str "syntax"),
        ("cpp", match host with | some b => res (Expr.evalCpp env b) | none => Json.str "syntax"),
        ("prec_safe", match ctree with | some a => Json.bool (Expr.precSafe a) | none => Json.null),
        ("int32_safe", match ctree with | some a => Json.bool (Expr.int32Safe env a) | none => Json.null)])
  | "prophyc_write_files" =>
    -- write_files (ProphyModel/FilesW.lean): targets = [[node | null, data text]], files = [[ident, text]] (what exists), full = [ident]
    let targets ← (← getArr j "targets").toList.mapM (fun e => do
      let a ← e.getArr?
      let node : Option Nat := match a[0]!.getNat? with
        | .ok i => some i
        | .error _ => none
      pure ({ node := node, data := (← a[1]!.getStr?).toList.map Char.toNat } : FilesW.Target))
    let files ← (← getArr j "files").toList.mapM (fun e => do
      let a ← e.getArr?
      pure ((← a[0]!.getNat?), (← a[1]!.getStr?).toList.map Char.toNat))
    let full ← (← getArr j "full").toList.mapM (fun e => e.getNat?)
    let ids ← (← getArr j "ids").toList.mapM (fun e => e.getNat?)
    let fs : FilesW.FS := fun i => (files.find? (fun f => f.1 == i)).map (·.2)
    let (ok, contents) := FilesW.observe (fun i => full.contains i) fs targets ids
    let text (b : List Nat) : String := String.ofList (b.map Char.ofNat)
    pure (st, Json.mkObj [("ok", Json.bool ok),
      ("contents", Json.arr (contents.map (fun c => match c with | some b => Json.str (text b) | none => Json.null)).toArray)])
  | "cpp_literal" =>
    -- `_to_literal` of the C++ generators (ProphyModel/CppLit.lean): the text written, what int(text, 0) gives, what a C++
    -- compiler reads from the written text, the value of a lone literal and whether it is rendered rather than pasted
    let cs := (← getStr j "text").toList
    let optInt (o : Option Int) : Json := match o with | some i => Json.num (JsonNumber.fromInt i) | none => Json.null
    pure (st, Json.mkObj [("literal", Json.str (String.ofList (CppLit.toLiteral cs))),
      ("py", optInt (CppLit.pyInt0 cs)),
      ("read", optInt (CppLit.cppRead (CppLit.toLiteral cs))),
      ("lone", optInt (CppLit.loneValue cs)),
      ("rendered", Json.bool (CppLit.rendered cs))])
  | "name_scan" =>
    -- the names `check_cpp_names` sees in an expression text (ProphyModel/NameScan.lean) and the identifier tokens calc reads
    let cs := (← getStr j "text").toList
    let idents : Json := match Expr.lex false (cs.length + 1) cs with
      | some ts => Json.arr ((NameScan.identsOf ts).map Json.str).toArray
      | none => Json.null
    pure (st, Json.mkObj [("names", Json.arr ((NameScan.scan cs).map Json.str).toArray), ("idents", idents)])
  | "calc_resolve" =>
    -- the name-resolution loop of calc (ProphyModel/Resolve.lean): vars = [[name, value]], value = int | string | null
    let vars ← (← getArr j "vars").toList.mapM (fun e => do
      let a ← e.getArr?
      let v : Resolve.Val := match a[1]! with
        | .str s => .name s
        | .null => .none
        | x => match x.getInt? with
          | .ok i => .int i
          | .error _ => .none
      pure ((← a[0]!.getStr?), v))
    match Resolve.resolve vars (← getStr j "name") with
    | .ok v => pure (st, Json.mkObj [("value", Json.num (JsonNumber.fromInt v))])
    | .error .selfDefined => pure (st, Json.mkObj [("error", "selfDefined")])
    | .error .notFound => pure (st, Json.mkObj [("error", "notFound")])
    | .error .fuel => pure (st, Json.mkObj [("error", "fuel")])
  | "prophyc_const" =>
    let text ← getStr j "text"
    let env ← envOfJson (← j.getObjVal? "env")
    match Expr.constText env text with
    | .value v => pure (st, Json.mkObj [("value", Json.num (JsonNumber.fromInt v))])
    | .syntaxError => pure (st, Json.mkObj [("error", "syntax")])
    | .evalError x => pure (st, Json.mkObj [("error", evalErrJson x)])
  | "expr_eval_ast" =>
    let ast ← astOfJson (← j.getObjVal? "ast")
    let env ← envOfJson (← j.getObjVal? "env")
    match Expr.eval env ast with
    | .ok v => pure (st, Json.mkObj [("value", Json.num (JsonNumber.fromInt v))])
    | .error x => pure (st, Json.mkObj [("error", evalErrJson x)])
  | "prophyc_topo" =>
    let ds ← (← getArr j "decls").toList.mapM (fun d => do
      let k ← getStr d "k"
      let n ← getStr d "name"
      match k with
      | "const" => pure (Topo.Decl.const n (← getStr d "value"))
      | "typedef" => pure (Topo.Decl.typedef n (← getStr d "type"))
      | "include" => pure (Topo.Decl.incl n)
      | "enum" =>
        let ms ← (← getArr d "members").toList.mapM (fun m => do
          let a ← m.getArr?
          pure ((← a[0]!.getStr?), (← a[1]!.getStr?)))
        pure (Topo.Decl.enum n ms)
      | "struct" =>
        let ms ← (← getArr d "members").toList.mapM (fun m => do
          let a ← m.getArr?
          pure ((← a[0]!.getStr?), (match a[1]! with | .str s => some s | _ => none)))
        pure (Topo.Decl.struct n ms)
      | "union" =>
        let ms ← (← getArr d "members").toList.mapM (fun m => do
          let a ← m.getArr?
          pure ((← a[0]!.getStr?), (← a[1]!.getStr?)))
        pure (Topo.Decl.union n ms)
      | s => throw s!"bad decl kind {s}")
    match Topo.sortDecls ds with
    | some order => pure (st, Json.mkObj [("order", Json.arr (order.map Json.str).toArray)])
    | none => pure (st, Json.mkObj [("cycle", true)])
  | "prophyc_layout" =>
    let ty ← getTy st j
    let n := PL.nodeTy ty
    let members := match ty with
      | .struct _ ms => Json.arr ((PL.structMembers ms).map (fun (s, a, p) =>
          Json.mkObj [("size", s), ("align", a), ("padding", Json.num (JsonNumber.fromInt p))])).toArray
      | .union _ arms => Json.arr ((PL.armsOf arms).map (fun n =>
          Json.mkObj [("size", n.size), ("align", n.align)])).toArray
      | _ => Json.null
    pure (st, Json.mkObj [("size", n.size), ("align", n.align), ("kind", n.kind), ("members", members)])
  | "py_statics" =>
    let ty ← getTy st j
    let fields := match ty with
      | .struct _ ms =>
        let fs := Py.stMs ms
        Json.arr ((fs.zip (Py.partials fs)).map (fun (f, p) =>
          Json.mkObj [("st", stJson f), ("partial", match p with | some a => Json.num a | none => Json.null)])).toArray
      | _ => Json.null
    pure (st, Json.mkObj [("st", stJson (Py.stTy ty)), ("fields", fields)])
  | "py_encode" =>
    let ty ← getTy st j
    let v ← valOfJson (← j.getObjVal? "v")
    let e ← endianOf (← getStr j "e")
    match Py.encode ty v e with
    | .ok b => pure (st, Json.mkObj [("bytes", toHex b)])
    | .error x => pure (st, Json.mkObj [("exc", excName x)])
  | "hypotheses" =>
    -- the hypotheses of the codec theorems (C01 / C19 / C02) on this (type, value)
    let ty ← getTy st j
    let v ← valOfJson (← j.getObjVal? "v")
    pure (st, Json.mkObj [("wf", WF.wfTy ty), ("typed", hasType ty v), ("agree", WF.agreeTy ty v), ("guard", WF.guardTy ty v),
      ("gal", Spec.galTy ty v), ("front", Accept.front ty), ("pyrt", Accept.pyRt ty)])
  | "py_decode" =>
    let ty ← getTy st j
    let data ← ofHex (← getStr j "data")
    let e ← endianOf (← getStr j "e")
    match Py.decode ty data e with
    | .ok (v, n) => pure (st, Json.mkObj [("val", valToJson v), ("size", n)])
    | .error x => pure (st, Json.mkObj [("exc", excName x)])
  | _ => throw s!"unknown op {op}"

partial def loop (hin hout : IO.FS.Stream) (st : DState) : IO Unit := do
  let line ← hin.getLine
  if line.isEmpty then return ()
  let line := line.trimAscii.toString
  if line.isEmpty then loop hin hout st else
  match Json.parse line >>= handle st with
  | .ok (st', out) =>
    hout.putStrLn out.compress
    loop hin hout st'
  | .error err =>
    hout.putStrLn (Json.mkObj [("driver_error", err)]).compress
    loop hin hout st

def main : IO Unit := do
  let hin ← IO.getStdin
  let hout ← IO.getStdout
  loop hin hout {}
  hout.flush

-- root of the ProphyModel library: everything that `lake build` must check
import ProphyModel.Basic
import ProphyModel.Schema
import ProphyModel.Spec
import ProphyModel.Py
import ProphyModel.PLayout
import ProphyModel.Cpp
import ProphyModel.Topo
import ProphyModel.Expr
import ProphyModel.Properties.Tables
import ProphyModel.Properties.DocExamples
import ProphyModel.Properties.C01
import ProphyModel.Properties.C02
import ProphyModel.Properties.C04
import ProphyModel.Properties.C06
import ProphyModel.Properties.C14
import ProphyModel.Properties.C15
import ProphyModel.Properties.C19

import ProphyModel.Basic
import ProphyModel.Schema
import ProphyModel.Spec
import ProphyModel.Py

import ProphyModel.Lemmas.Layout
import ProphyModel.Lemmas.Render
import ProphyModel.Lemmas.Scalars
namespace Prophy
open Prophy

theorem Py.pack_ok (e : Endian) (p : Prim) (i : Int) (h : inRange p i = true) :
    Py.pack e p i = .ok (scalarBytes e p.size (toUnsigned p.size i)) := by
  unfold Py.pack
  have : Py.primRange p = Prophy.primRange p := rfl
  simp only [inRange, Bool.and_eq_true, decide_eq_true_eq] at h
  simp [this, h]

/-- the chunks of one member's own encoding -/
def Spec.fieldChunks (all : List Member) (allv : List Val) (n : String) (t : Ty) (k : MKind) (v : Val) : List Spec.Chunk :=
  match k, v with
  | .plain, .sizer => [.scalar (Spec.sizeTy t) (Spec.counter n all allv + sizerShift n all)]
  | .plain, v => Spec.chunksTy t v
  | .optional, .absent => [.pad (max Spec.flagSize (Spec.alignTy t) + Spec.sizeTy t)]
  | .optional, .present x =>
    [.scalar Spec.flagSize 1, .pad (max Spec.flagSize (Spec.alignTy t) - Spec.flagSize)] ++ Spec.chunksTy t x
  | .fixed _, .arr xs => Spec.chunksElems t xs
  | .fixed _, .bytes b => [.raw b]
  | .dyn _ _, .arr xs => Spec.chunksElems t xs
  | .dyn _ _, .bytes b => [.raw b]
  | .limited _ c, .arr xs =>
    let es := Spec.chunksElems t xs
    es ++ [.pad (c * Spec.sizeTy t - Spec.clen es)]
  | .limited _ c, .bytes b => [.raw b, .pad (c - b.length)]
  | .greedy, .arr xs => Spec.chunksElems t xs
  | .greedy, .bytes b => [.raw b]
  | _, _ => []

theorem Spec.chunksMs_cons (all : List Member) (allv : List Val) (n : String) (t : Ty) (k : MKind)
    (r : List Member) (v : Val) (vs : List Val) (off : Nat) (ad : Bool) :
    Spec.chunksMs all allv (.mk n t k :: r) (v :: vs) off ad =
      .pad (padTo off (if ad then Spec.blockAlign (.mk n t k :: r) else Spec.alignMember (.mk n t k))) ::
        (Spec.fieldChunks all allv n t k v ++
          Spec.chunksMs all allv r vs
            (off + padTo off (if ad then Spec.blockAlign (.mk n t k :: r) else Spec.alignMember (.mk n t k))
              + Spec.clen (Spec.fieldChunks all allv n t k v))
            (Spec.endsBlock (.mk n t k))) := by
  cases k <;> cases v <;> simp [Spec.chunksMs, Spec.fieldChunks]

end Prophy

namespace Prophy
open Prophy

/-- the bytes of one member's own encoding (the body of the loop of struct.encode) -/
def Py.fieldBytes (e : Endian) (all : List Member) (allv : List Val) (n : String) (t : Ty) (k : MKind)
    (v : Val) (f : Py.St) : Py.M Bytes :=
  match k, v with
  | .plain, v =>
    if isSizer n all then do
      let c ← Py.evaluateSize n all allv
      Py.pack e (Py.sizerPrim t) (c + sizerShift n all)
    else Py.encTy e t v
  | .optional, .absent => pure (zeros f.size)
  | .optional, .present x => do
    let flag ← Py.pack e .u32 1
    let b ← Py.encTy e t x
    pure (Py.ljust flag f.align ++ b)
  | .fixed _, .arr xs => Py.encElems e t xs
  | .fixed c, .bytes b => pure (Py.ljust b c)
  | .dyn _ _, .arr xs => Py.encElems e t xs
  | .dyn _ _, .bytes b => pure b
  | .limited _ _, .arr xs => do
    let b ← Py.encElems e t xs
    pure (Py.ljust b f.size)
  | .limited _ c, .bytes b => pure (Py.ljust b c)
  | .greedy, .arr xs => Py.encElems e t xs
  | .greedy, .bytes b => pure b
  | _, _ => .error .type

theorem Py.encMs_cons (e : Endian) (all : List Member) (allv : List Val) (n : String) (t : Ty) (k : MKind)
    (r : List Member) (v : Val) (vs : List Val) (f : Py.St) (fs : List Py.St) (p : Option Nat)
    (ps : List (Option Nat)) (off : Nat) :
    Py.encMs e all allv (.mk n t k :: r) (v :: vs) (f :: fs) (p :: ps) off =
      (do
        let body ← Py.fieldBytes e all allv n t k v f
        let off1 := off + padTo off f.align + body.length
        let pad2 := match p with
          | some a => padTo off1 a
          | none => 0
        let rest ← Py.encMs e all allv r vs fs ps (off1 + pad2)
        pure (zeros (padTo off f.align) ++ body ++ zeros pad2 ++ rest)) := by
  cases k <;> cases v <;> (simp only [Py.encMs, Py.fieldBytes]; try rfl)

end Prophy

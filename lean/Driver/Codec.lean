/-
  JSON <-> model values for the line-protocol driver.
-/
import Lean.Data.Json
import ProphyModel.Schema
import ProphyModel.Py
open Lean

namespace Prophy.Driver

def primOfString : String → Except String Prim
  | "i8" => pure .i8 | "i16" => pure .i16 | "i32" => pure .i32 | "i64" => pure .i64
  | "u8" => pure .u8 | "u16" => pure .u16 | "u32" => pure .u32 | "u64" => pure .u64
  | "r32" => pure .r32 | "r64" => pure .r64
  | s => throw s!"bad prim {s}"

def getNat (j : Json) (k : String) : Except String Nat := do
  let v ← j.getObjVal? k
  v.getNat?

def getStr (j : Json) (k : String) : Except String String := do
  let v ← j.getObjVal? k
  v.getStr?

def getArr (j : Json) (k : String) : Except String (Array Json) := do
  let v ← j.getObjVal? k
  v.getArr?

partial def tyOfJson (j : Json) : Except String Ty := do
  let k ← getStr j "k"
  match k with
  | "prim" => pure (.prim (← primOfString (← getStr j "p")))
  | "byte" => pure .byte
  | "enum" =>
    let es ← getArr j "es"
    let es ← es.toList.mapM (fun e => do
      let a ← e.getArr?
      if a.size ≠ 2 then throw "bad enumerator"
      pure ((← a[0]!.getStr?), (← a[1]!.getNat?)))
    pure (.enum (← getStr j "name") es)
  | "struct" =>
    let ms ← getArr j "ms"
    let ms ← ms.toList.mapM (fun m => do
      let n ← getStr m "n"
      let t ← tyOfJson (← m.getObjVal? "t")
      let mk ← getStr m "mk"
      let kind ← (match mk with
        | "plain" => pure MKind.plain
        | "optional" => pure MKind.optional
        | "fixed" => do pure (MKind.fixed (← getNat m "size"))
        | "dyn" => do pure (MKind.dyn (← getStr m "sizer") ((m.getObjValAs? Nat "shift").toOption.getD 0))
        | "limited" => do pure (MKind.limited (← getStr m "sizer") (← getNat m "size"))
        | "greedy" => pure MKind.greedy
        | s => throw s!"bad member kind {s}")
      pure (Member.mk n t kind))
    pure (.struct (← getStr j "name") ms)
  | "union" =>
    let arms ← getArr j "arms"
    let arms ← arms.toList.mapM (fun a => do
      pure (Arm.mk (← getStr a "n") (← getNat a "d") (← tyOfJson (← a.getObjVal? "t"))))
    pure (.union (← getStr j "name") arms)
  | s => throw s!"bad type kind {s}"

def hexDigit (n : Nat) : Char :=
  if n < 10 then Char.ofNat (48 + n) else Char.ofNat (87 + n)

def toHex (b : Bytes) : String :=
  String.ofList (b.flatMap (fun x => [hexDigit (x.toNat / 16), hexDigit (x.toNat % 16)]))

def hexVal (c : Char) : Except String Nat :=
  if '0' ≤ c ∧ c ≤ '9' then pure (c.toNat - 48)
  else if 'a' ≤ c ∧ c ≤ 'f' then pure (c.toNat - 87)
  else if 'A' ≤ c ∧ c ≤ 'F' then pure (c.toNat - 55)
  else throw "bad hex"

def ofHexList : List Char → Except String Bytes
  | [] => pure []
  | [_] => throw "odd hex"
  | a :: b :: r => do
    let x ← hexVal a
    let y ← hexVal b
    let rest ← ofHexList r
    pure (UInt8.ofNat (16 * x + y) :: rest)

def ofHex (s : String) : Except String Bytes := ofHexList s.toList

partial def valOfJson (j : Json) : Except String Val := do
  match j with
  | .null => pure .absent
  | .num _ => pure (.int (← j.getInt?))
  | .str "sizer" => pure .sizer
  | .str s => throw s!"bad value string {s}"
  | .arr a => do pure (.arr (← a.toList.mapM valOfJson))
  | .obj _ =>
    if let .ok b := j.getObjVal? "b" then pure (.bytes (← ofHex (← b.getStr?)))
    else if let .ok s := j.getObjVal? "s" then do
      pure (.struct (← (← s.getArr?).toList.mapM valOfJson))
    else if let .ok p := j.getObjVal? "p" then do pure (.present (← valOfJson p))
    else if let .ok u := j.getObjVal? "u" then do
      pure (.union (← u.getNat?) (← valOfJson (← j.getObjVal? "v")))
    else throw "bad value object"
  | _ => throw "bad value"

partial def valToJson : Val → Json
  | .int i => Json.num (JsonNumber.fromInt i)
  | .bytes b => Json.mkObj [("b", toHex b)]
  | .arr vs => Json.arr (vs.map valToJson).toArray
  | .struct fs => Json.mkObj [("s", Json.arr (fs.map valToJson).toArray)]
  | .union i v => Json.mkObj [("u", Json.num (JsonNumber.fromNat i)), ("v", valToJson v)]
  | .absent => Json.null
  | .present v => Json.mkObj [("p", valToJson v)]
  | .sizer => Json.str "sizer"

def excName : Py.Exc → String
  | .prophy => "ProphyError" | .structError => "struct.error" | .index => "IndexError"
  | .value => "ValueError" | .type => "TypeError" | .overflow => "OverflowError"
  | .key => "KeyError" | .attribute => "AttributeError" | .assertion => "AssertionError"
  | .recursion => "RecursionError" | .zeroDiv => "ZeroDivisionError" | .hang => "hang"

def endianOf (s : String) : Except String Endian :=
  match s with
  | "<" => pure .little
  | ">" => pure .big
  | _ => throw s!"bad endianness {s}"

end Prophy.Driver

/-
  Constant expressions: the expression sub-grammar of prophyc/parsers/prophy.py (:403-460)
  and of prophyc/calc.py, as a tokenizer + precedence-climbing parser driven by the yacc
  `precedence` table, and the two evaluators (`p_expression_*` actions, `Calc._binop`).

  PLY itself (LALR table construction, conflict resolution by the precedence table) is in
  the trusted base; the parser below is the standard reading of such a table:
  level 1 `+ -` (left), level 2 `* /` (left), level 3 `<< >>` (left), unary minus above
  all of them; calc's `|` has no entry, which PLY treats as level 0, right associative.
-/
import ProphyModel.Basic
namespace Prophy
namespace Expr

inductive BinOp | add | sub | mul | div | shl | shr | bor
  deriving DecidableEq, Repr, Inhabited

inductive Ast
  | num (n : Nat)
  | name (s : String)
  | neg (e : Ast)
  | bin (op : BinOp) (a b : Ast)
  deriving DecidableEq, Repr, Inhabited

inductive Tok
  | num (n : Nat) | ident (s : String)
  | plus | minus | star | slash | shl | shr | bar | lpar | rpar
  deriving DecidableEq, Repr, Inhabited

/-! ### evaluation -/

inductive EvalErr | divZero | negShift | outOfRange | unknown (s : String)
  deriving DecidableEq, Repr

/-- Python's `|` on unbounded (two's complement) ints -/
def lor (a b : Int) : Int :=
  if 0 ≤ a then
    if 0 ≤ b then ((a.toNat ||| b.toNat : Nat) : Int)
    else Int.negSucc ((-b - 1).toNat - ((-b - 1).toNat &&& a.toNat))
  else
    if 0 ≤ b then Int.negSucc ((-a - 1).toNat - ((-a - 1).toNat &&& b.toNat))
    else Int.negSucc ((-a - 1).toNat &&& (-b - 1).toNat)

/-- Python's `//`, `<<`, `>>`, `|` on unbounded ints -/
def rawBinop (op : BinOp) (a b : Int) : Except EvalErr Int :=
  match op with
  | .add => .ok (a + b)
  | .sub => .ok (a - b)
  | .mul => .ok (a * b)
  | .div => if b = 0 then .error .divZero else .ok (a.fdiv b)
  | .shl => if b < 0 then .error .negShift else .ok (a * (2 ^ b.toNat : Nat))
  | .shr => if b < 0 then .error .negShift else .ok (a.fdiv (2 ^ b.toNat : Nat))
  | .bor => .ok (lor a b)

def isShift : BinOp → Bool
  | .shl => true
  | .shr => true
  | _ => false

def inRange64 (v : Int) : Bool := -((2 ^ 64 : Nat) : Int) < v && v < ((2 ^ 64 : Nat) : Int)

/-- the binop action of both evaluators: shift counts above 64 and values outside
    (-2^64, 2^64) are diagnosed -/
def binop (op : BinOp) (a b : Int) : Except EvalErr Int :=
  if isShift op && b > 64 then .error .outOfRange
  else match rawBinop op a b with
    | .ok v => if inRange64 v then .ok v else .error .outOfRange
    | .error e => .error e

/-- the `p_expression_*` actions of the prophy parser / calc: value of an expression tree -/
def eval (env : String → Option Int) : Ast → Except EvalErr Int
  | .num n => .ok n
  | .name s => match env s with
    | some v => .ok v
    | none => .error (.unknown s)
  | .neg e => do
    let v ← eval env e
    pure (-v)
  | .bin op a b => do
    let x ← eval env a
    let y ← eval env b
    binop op x y

/-! ### tokens -/

def hexVal? (c : Char) : Option Nat :=
  if '0' ≤ c ∧ c ≤ '9' then some (c.toNat - 48)
  else if 'a' ≤ c ∧ c ≤ 'f' then some (c.toNat - 87)
  else if 'A' ≤ c ∧ c ≤ 'F' then some (c.toNat - 55)
  else none

def takeWhileAcc (p : Char → Bool) : List Char → List Char → List Char × List Char
  | [], acc => (acc.reverse, [])
  | c :: r, acc => if p c then takeWhileAcc p r (c :: acc) else (acc.reverse, c :: r)

def digitsVal (base : Nat) (ds : List Char) : Nat :=
  ds.foldl (fun acc c => acc * base + (hexVal? c).getD 0) 0

def isIdStart (c : Char) : Bool := c.isAlpha || c == '_'
def isIdChar (c : Char) : Bool := c.isAlphanum || c == '_'

/-- lexer; `octal` selects the prophy-language rule CONST8 `0[0-7]+` (calc reads `\d+` as decimal) -/
def lex (octal : Bool) : Nat → List Char → Option (List Tok)
  | 0, _ => none
  | _, [] => some []
  | fuel + 1, c :: r =>
    if c == ' ' || c == '\t' then lex octal fuel r
    else if c == '+' then (lex octal fuel r).map (Tok.plus :: ·)
    else if c == '-' then (lex octal fuel r).map (Tok.minus :: ·)
    else if c == '*' then (lex octal fuel r).map (Tok.star :: ·)
    else if c == '/' then (lex octal fuel r).map (Tok.slash :: ·)
    else if c == '|' then (lex octal fuel r).map (Tok.bar :: ·)
    else if c == '(' then (lex octal fuel r).map (Tok.lpar :: ·)
    else if c == ')' then (lex octal fuel r).map (Tok.rpar :: ·)
    else if c == '<' then
      match r with
      | '<' :: r' => (lex octal fuel r').map (Tok.shl :: ·)
      | _ => none
    else if c == '>' then
      match r with
      | '>' :: r' => (lex octal fuel r').map (Tok.shr :: ·)
      | _ => none
    else if c.isDigit then
      match c, r with
      | '0', 'x' :: r' =>
        let (ds, rest) := takeWhileAcc (fun d => (hexVal? d).isSome) r' []
        if ds.isEmpty then none else (lex octal fuel rest).map (Tok.num (digitsVal 16 ds) :: ·)
      | _, _ =>
        let (ds, rest) := takeWhileAcc Char.isDigit (c :: r) []
        if octal && c == '0' && ds.length > 1 then
          if ds.all (fun d => '0' ≤ d ∧ d ≤ '7') then (lex octal fuel rest).map (Tok.num (digitsVal 8 ds) :: ·)
          else none
        else (lex octal fuel rest).map (Tok.num (digitsVal 10 ds) :: ·)
    else if isIdStart c then
      let (cs, rest) := takeWhileAcc isIdChar (c :: r) []
      (lex octal fuel rest).map (Tok.ident (String.ofList cs) :: ·)
    else none

def tokenize (octal : Bool) (s : String) : Option (List Tok) := lex octal (s.length + 1) s.toList

/-! ### parser -/

/-- (level, right-associative?, operator) of a binary operator token -/
def binInfo : Tok → Option (Nat × Bool × BinOp)
  | .bar => some (0, true, .bor)
  | .plus => some (1, false, .add)
  | .minus => some (1, false, .sub)
  | .star => some (2, false, .mul)
  | .slash => some (2, false, .div)
  | .shl => some (3, false, .shl)
  | .shr => some (3, false, .shr)
  | _ => none

mutual
  /-- an operand: literal, name, parenthesised expression, or unary minus applied to an operand
      (`%prec UMINUS` is above every binary operator) -/
  def parseAtom : Nat → List Tok → Option (Ast × List Tok)
    | 0, _ => none
    | _ + 1, .num n :: r => some (.num n, r)
    | _ + 1, .ident s :: r => some (.name s, r)
    | fuel + 1, .minus :: r =>
      match parseAtom fuel r with
      | some (e, r') => some (.neg e, r')
      | none => none
    | fuel + 1, .lpar :: r =>
      match parseExpr fuel 0 r with
      | some (e, .rpar :: r') => some (e, r')
      | _ => none
    | _ + 1, _ => none
  /-- expression whose binary operators all have level ≥ `minLevel` -/
  def parseExpr : Nat → Nat → List Tok → Option (Ast × List Tok)
    | 0, _, _ => none
    | fuel + 1, minLevel, toks =>
      match parseAtom fuel toks with
      | some (lhs, r) => parseLoop fuel minLevel lhs r
      | none => none
  def parseLoop : Nat → Nat → Ast → List Tok → Option (Ast × List Tok)
    | 0, _, _, _ => none
    | fuel + 1, minLevel, lhs, toks =>
      match toks with
      | [] => some (lhs, [])
      | t :: r =>
        match binInfo t with
        | some (lvl, rightAssoc, op) =>
          if lvl < minLevel then some (lhs, t :: r)
          else
            match parseExpr fuel (if rightAssoc then lvl else lvl + 1) r with
            | some (rhs, r') => parseLoop fuel minLevel (.bin op lhs rhs) r'
            | none => none
        | none => some (lhs, t :: r)
end

def parse (toks : List Tok) : Option Ast :=
  match parseExpr (4 * toks.length + 4) 0 toks with
  | some (e, []) => some e
  | _ => none

inductive Outcome
  | value (v : Int)
  | syntaxError
  | evalError (e : EvalErr)
  deriving DecidableEq, Repr

/-- text -> value, as the prophy parser (`octal = true`, no `|`) or calc (`octal = false`) compute it -/
def evalText (octal : Bool) (env : String → Option Int) (s : String) : Outcome :=
  match tokenize octal s with
  | none => .syntaxError
  | some toks =>
    if octal && toks.contains .bar then .syntaxError
    else match parse toks with
      | none => .syntaxError
      | some e => match eval env e with
        | .ok v => .value v
        | .error x => .evalError x

/-- `p_constant_def` (prophy parser): a constant holds what 64 bits can hold, signed or unsigned -/
def constOk (v : Int) : Bool := -((2 ^ 63 : Nat) : Int) ≤ v && v < ((2 ^ 64 : Nat) : Int)

/-- `const NAME = <text>;` in the prophy language: the expression's value, refused outside `constOk` -/
def constText (env : String → Option Int) (s : String) : Outcome :=
  match evalText true env s with
  | .value v => if constOk v then .value v else .evalError .outOfRange
  | o => o

end Expr
end Prophy

/-
  Model of prophyc/file_processor.py FileProcessor as it is now, over an abstract file system WITH
  symbolic links (ProphyModel/Files.lean is the model without links, same names and limits; the
  refinement between the two is `Lemmas/FilesLinks.lean`).

  What the code does and this model mirrors, line by line:
    * a path is (directory, leaf); a directory entry is a regular file or a symbolic link to a
      regular file; `os.path.realpath` of a path is the entry's target (directories are not links
      here: `realpath(dirname)` is the directory itself);
    * `_directories_of(path)`: `[dir]` when the file really lives in `dir`, `[real dir, dir]` when
      it is reached through a link;
    * the search context of a file: `include_dirs[0]` = first of these, `own_dirs` = the rest;
      an include is searched in `[first] ++ own ++ -I directories` (`_find`);
    * a file is identified by device and inode (`ident`): a symbolic or a hard link to it is the same file;
      `realpath` (`real`) only decides where its includes are searched;
    * `_process_file`: the base name must stand for one real file (`SameNameError`) and a file is used under one
      base name (`TwoNamesError`: the outputs are named after it); results are
      cached by real path (`None` = in progress = cycle marker); on a cache hit `_same_includes`
      compares, from the path used now, the includes of the file (and of the includes reached
      through another path than before) with what was found when it was parsed
      (`AmbiguousIncludeError`); each (real path, directories) pair is compared once (`verified`);
    * after the content is processed the height (longest include chain) is recorded and a file
      higher than `INCLUDE_DEPTH_LIMIT` is refused (`IncludeDepthError`);
    * every error ends the run (prophyc reports it and exits).
-/
import ProphyModel.Basic
namespace Prophy
namespace FilesL

structure Path where
  dir : String
  leaf : String
  deriving DecidableEq, Repr, Inhabited

/-- a directory entry: a regular file (`target = path`) or a symbolic link to a regular file (`target` = what
    `os.path.realpath` gives).  `ident` stands for (device, inode): the representative path of the file the entry
    denotes - the target itself, or for a hard link the path the content is filed under (`FS.files`). -/
structure Entry where
  path : Path
  target : Path
  ident : Path
  deriving DecidableEq, Repr, Inhabited

/-- what the parser reads in a regular file: the leaves it includes, the names it defines -/
structure File where
  id : Path
  includes : List String
  defines : List String
  deriving Repr, Inhabited

structure FS where
  entries : List Entry
  files : List File
  deriving Repr, Inhabited

/-- `os.path.realpath(path)` of an existing path (`none`: no such entry) -/
def real (fs : FS) (p : Path) : Option Path :=
  (fs.entries.find? (fun e => e.path == p)).map (·.target)

/-- `_identity(path)`: the file an existing path denotes, whatever link - symbolic or hard - leads to it -/
def ident (fs : FS) (p : Path) : Option Path :=
  (fs.entries.find? (fun e => e.path == p)).map (·.ident)

def content (fs : FS) (r : Path) : Option File := fs.files.find? (fun f => f.id == r)

/-- `_directories_of(path)` -/
def directoriesOf (fs : FS) (p : Path) : List String :=
  match real fs p with
  | some r => if r.dir = p.dir then [p.dir] else [r.dir, p.dir]
  | none => [p.dir]

/-- `include_dirs[:1] + own_dirs + include_dirs[1:]` while the file reached as `p` is processed -/
def searchDirs (fs : FS) (incs : List String) (p : Path) : List String :=
  directoriesOf fs p ++ incs

/-- `_get_first_existing_path(leaf, dirs)` (`os.path.isfile` follows links) -/
def find (fs : FS) (leaf : String) : List String → Option Path
  | [] => none
  | d :: r => if (real fs ⟨d, leaf⟩).isSome then some ⟨d, leaf⟩ else find fs leaf r

inductive Err
  | notFound (leaf : String)
  | cyclic (p : Path)
  | sameName (leaf : String)
  | ambiguous (p : Path) (leaf : String)
  | tooDeep (p : Path)
  | twoNames (p : Path)
  deriving DecidableEq, Repr

/-- as `Files.Result`: the names a file makes visible to its includer, the names visible inside
    it, the (real) files parsed for the first time while it was processed -/
structure Result where
  exports : List String
  visible : List String
  parsed : List Path
  /-- what the generated output of the file is a function of: the real files its includes resolve to, transitively,
      as the preorder list (depth, real path) of the include tree (the file itself at depth 0) -/
  shape : List (Nat × Path)
  deriving Repr, Inhabited, DecidableEq

/-- the include tree of a child, one level down -/
def deeper (t : List (Nat × Path)) : List (Nat × Path) := t.map fun (d, p) => (d + 1, p)

def depthLimit : Nat := 64

structure State where
  cache : List (Path × Option Result) := []               -- `self.files`, keyed by real path
  names : List (String × Path) := []                       -- `self.names`: leaf of the given path -> real path
  nameOf : List (Path × String) := []                      -- `self.name_of`: real path -> the leaf it is used under
  includesOf : List (Path × List (String × Option Path)) := []   -- `self.includes_of`
  heights : List (Path × Nat) := []                        -- `self.heights`
  verified : List (Path × List String) := []               -- `self.verified`
  deriving Repr, Inhabited

def maxList : List Nat → Nat
  | [] => 0
  | x :: r => max x (maxList r)

/-- `_same_includes(abspath, path)`: `r` is the real path, `p` the path used now -/
def sameIncludes (fs : FS) (incs : List String) : Nat → State → Path → Path → Except Err State
  | 0, _, _, p => .error (.cyclic p)
  | fuel + 1, st, r, p =>
    let key := (r, directoriesOf fs p)
    if st.verified.contains key then .ok st
    else
      let st1 := { st with verified := key :: st.verified }
      let rec go (st : State) : List (String × Option Path) → Except Err State
        | [] => .ok st
        | (leaf, found) :: rest =>
          let here := find fs leaf (searchDirs fs incs p)
          if here.bind (ident fs) ≠ found then .error (.ambiguous p leaf)
          else
            match here, found with
            | some h, some f =>
              match sameIncludes fs incs fuel st f h with
              | .error e => .error e
              | .ok st' => go st' rest
            | _, _ => go st rest
      go st1 ((st.includesOf.lookup r).getD [])

mutual
  /-- `_process_file(path)`; the caller has set the search context to that of `p` -/
  def processFile (fs : FS) (incs : List String) : Nat → State → Path → Except Err (Result × State)
    | 0, _, p => .error (.cyclic p)
    | fuel + 1, st, p =>
      match ident fs p with
      | none => .error (.notFound p.leaf)
      | some r =>
        -- `if self.names.setdefault(name, abspath) != abspath: raise SameNameError`
        match st.names.lookup p.leaf with
        | some q => if q ≠ r then .error (.sameName p.leaf) else processNamed fs incs fuel st p r
        | none => processNamed fs incs fuel { st with names := (p.leaf, r) :: st.names } p r
  /-- `if self.name_of.setdefault(abspath, name) != name: raise TwoNamesError`: a file is used under one base name -/
  def processNamed (fs : FS) (incs : List String) : Nat → State → Path → Path → Except Err (Result × State)
    | 0, _, p, _ => .error (.cyclic p)
    | fuel + 1, st, p, r =>
      match st.nameOf.lookup r with
      | some l => if l ≠ p.leaf then .error (.twoNames p) else processKnown fs incs fuel st p r
      | none => processKnown fs incs fuel { st with nameOf := (r, p.leaf) :: st.nameOf } p r
  /-- the rest of `_process_file` once the name is registered -/
  def processKnown (fs : FS) (incs : List String) : Nat → State → Path → Path → Except Err (Result × State)
    | 0, _, p, _ => .error (.cyclic p)
    | fuel + 1, st, p, r =>
      match st.cache.lookup r with
      | some none => .error (.cyclic p)
      | some (some res) =>
        match sameIncludes fs incs (fuel + 1) st r p with
        | .error e => .error e
        | .ok st' => .ok ({ res with parsed := [] }, st')
      | none =>
        match content fs r with
        | none => .error (.notFound p.leaf)
        | some file =>
          let st1 : State := { st with cache := (r, none) :: st.cache,
                                       includesOf := (r, []) :: st.includesOf,
                                       verified := (r, directoriesOf fs p) :: st.verified }
          match processIncludes fs incs fuel st1 p r file.includes with
          | .error e => .error e
          | .ok (vis, parsed, found, shapes, st2) =>
            let h := 1 + maxList (found.map fun f => (st2.heights.lookup f).getD 0)
            if h > depthLimit then .error (.tooDeep p)
            else
              let res : Result := { exports := file.defines, visible := vis ++ file.defines, parsed := r :: parsed,
                                    shape := (0, r) :: shapes }
              .ok (res, { st2 with heights := (r, h) :: st2.heights, cache := (r, some res) :: st2.cache })
  /-- the `#include`s of the file reached as `p` (real path `r`), in order: `process_leaf` for each;
      returns the visible names, the files parsed, the real paths found, the include trees (one level down), the state -/
  def processIncludes (fs : FS) (incs : List String) : Nat → State → Path → Path → List String →
      Except Err (List String × List Path × List Path × List (Nat × Path) × State)
    | _, st, _, _, [] => .ok ([], [], [], [], st)
    | 0, _, _, _, leaf :: _ => .error (.notFound leaf)
    | fuel + 1, st, p, r, leaf :: rest =>
      let here := find fs leaf (searchDirs fs incs p)
      -- `self.includes_of[self.including].append((leaf, path and realpath(path)))`
      let st1 := { st with includesOf := (r, (st.includesOf.lookup r).getD [] ++ [(leaf, here.bind (ident fs))]) :: st.includesOf }
      match here with
      | none => .error (.notFound leaf)
      | some g =>
        match processFile fs incs fuel st1 g with
        | .error e => .error e
        | .ok (res, st2) =>
          match processIncludes fs incs fuel st2 p r rest with
          | .error e => .error e
          | .ok (vis, parsed, found, shapes, st3) =>
            .ok (res.exports ++ vis, res.parsed ++ parsed, ((ident fs g).toList ++ found), deeper res.shape ++ shapes, st3)
end

/-- enough fuel for every run of a file system whose files name each include once: each level of recursion enters a
    file that is not in progress (at most `entries` of them, four calls per level) and walking the includes of a file
    costs one unit per include.  (A file that includes the same leaf more often than there are entries can exhaust
    it - `C20L.fsTen` - and is then reported as `.cyclic`; the theorems are about runs that succeed.) -/
def fuelOf (fs : FS) : Nat := 5 * fs.entries.length + 5

/-- `process_main(path)` for each input in command-line order, one shared FileProcessor -/
def processMains (fs : FS) (incs : List String) : List Path → State → Except Err (List (Path × Result))
  | [], _ => .ok []
  | m :: rest, st =>
    match processFile fs incs (fuelOf fs) st m with
    | .error e => .error e
    | .ok (res, st1) =>
      match processMains fs incs rest st1 with
      | .error e => .error e
      | .ok rs => .ok ((m, res) :: rs)

/-! ### The order-free meaning of a path: what a fresh processor gives for it alone -/

/-- `eval fs incs fuel ancestors p`: exports, visible names and include tree of the file reached as `p`,
    computed without any cache (every include is walked again in the context of the path that reaches it);
    `ancestors` are the real paths in progress -/
def eval (fs : FS) (incs : List String) : Nat → List Path → Path →
    Except Err (List String × List String × List (Nat × Path))
  | 0, _, p => .error (.cyclic p)
  | fuel + 1, anc, p =>
    match ident fs p with
    | none => .error (.notFound p.leaf)
    | some r =>
      if anc.contains r then .error (.cyclic p)
      else
        match content fs r with
        | none => .error (.notFound p.leaf)
        | some file =>
          let rec go : List String → Except Err (List String × List (Nat × Path))
            | [] => .ok ([], [])
            | leaf :: rest =>
              match find fs leaf (searchDirs fs incs p) with
              | none => .error (.notFound leaf)
              | some g =>
                match eval fs incs fuel (r :: anc) g with
                | .error e => .error e
                | .ok (ex, _, sh) =>
                  match go rest with
                  | .error e => .error e
                  | .ok (vis, shapes) => .ok (ex ++ vis, deeper sh ++ shapes)
          match go file.includes with
          | .error e => .error e
          | .ok (vis, shapes) => .ok (file.defines, vis ++ file.defines, (0, r) :: shapes)

end FilesL
end Prophy

/-
  Model of the name resolution loops of prophyc's evaluator.

  `prophyc/calc.py p_expression_name`:
      p[0] = p[1]; seen = set()
      while not isinstance(p[0], int):
          if p[0] in seen: raise ParseError("constant '%s' is defined by itself")
          seen.add(p[0]); p[0] = self.vars[p[0]]          # KeyError -> "numeric constant not found"
  `vars` is the dictionary `model._collect_constants` builds: a constant or enumerator name maps to its
  integer, or to `None` when its value could not be evaluated; a typedef name maps to the NAME at the end of
  its typedef chain (`get_last_in_chain`), which may again be a key.

  `prophyc/model.py _collect_constants.get_last_in_chain(key)`:
      seen = set()
      while key not in seen and constants.get(key, key) != key:
          seen.add(key); key = constants[key]
      return key
-/
import ProphyModel.Basic
namespace Prophy
namespace Resolve

/-- a value of the `vars` dictionary -/
inductive Val
  | int (v : Int)
  | name (s : String)
  | none                      -- Python `None`: an unevaluable constant
  deriving DecidableEq, Repr, Inhabited

abbrev Vars := List (String × Val)      -- a dictionary: the first entry of a key counts (`List.lookup`)

inductive Err
  | selfDefined               -- "constant ... is defined by itself"
  | notFound                  -- KeyError (also `vars[None]`): "numeric constant ... not found"
  | fuel                      -- the model ran out of fuel (never happens with `fuelOf`, see the theorems)
  deriving DecidableEq, Repr

/-- the loop of `p_expression_name` from the current value `cur` (a name) with the set `seen` -/
def loop (vars : Vars) : Nat → List String → String → Except Err Int
  | 0, _, _ => .error .fuel
  | fuel + 1, seen, cur =>
    if seen.contains cur then .error .selfDefined
    else
      match vars.lookup cur with
      | Option.none => .error .notFound
      | some (.int v) => .ok v
      | some (.name s) => loop vars fuel (cur :: seen) s
      | some .none => .error .notFound            -- `None` is not an int and not a key

def fuelOf (vars : Vars) : Nat := vars.length + 2

/-- value of the expression `NAME` -/
def resolve (vars : Vars) (name : String) : Except Err Int := loop vars (fuelOf vars) [] name

/-- `get_last_in_chain(key)`: follows NAME entries only (`constants.get(key, key) != key` with an int or None value
    is "different from the key", so the code would step to an int / None and then fail on `in seen` / `.get` with a
    non-string key only if such a value were reachable; `_collect_constants` calls it with a type name, and integers are
    hashable, so: an int or None value ENDS the walk by being returned... - mirror the code literally:) -/
inductive Key
  | name (s : String)
  | int (v : Int)
  | none
  deriving DecidableEq, Repr, Inhabited

def lookupKey (vars : Vars) : Key → Option Val
  | .name s => vars.lookup s
  | _ => Option.none                                  -- an int or None is never a key of the dictionary

def valToKey : Val → Key
  | .int v => .int v
  | .name s => .name s
  | .none => .none

def lastInChain (vars : Vars) : Nat → List Key → Key → Key
  | 0, _, key => key
  | fuel + 1, seen, key =>
    if seen.contains key then key
    else
      match lookupKey vars key with
      | Option.none => key                            -- `constants.get(key, key) == key`
      | some v => if valToKey v = key then key else lastInChain vars fuel (key :: seen) (valToKey v)

end Resolve
end Prophy

/-
  FilesW: model of `prophyc.generators.base.write_files` (the last step of a prophyc run, C20).

  The output directory is seen through the targets of the run.  Each target path leads to a *node*:
    * `some i` : opening the path for writing succeeds and gives the file of identity `i` (device and inode);
                 the file may exist already (`content i = some old`) or be created by the open
                 (`content i = none`: nothing there, or a dangling link whose target has identity `i` once created).
                 Two paths that are one file through a symbolic or hard link have the same `i`.
    * `none`   : opening fails (a directory in the way, a name that is too long, no permission).
  `full i` says that writing to file `i` fails although it could be opened (a device that is full, a size limit).

  write_files:
    phase 1   opens every target in order (creating what is not there), remembers what it created and refuses
              two targets of one identity; on a failure it removes what it created and raises.
    phase 2   writes the targets in order; on a failure it removes what it created, empties every other target and raises.
-/
namespace Prophy.FilesW

abbrev Ident := Nat
abbrev Bytes := List Nat

structure Target where
  node : Option Ident
  data : Bytes
deriving Repr, DecidableEq

/-- the files by identity: `none` = does not exist -/
abbrev FS := Ident → Option Bytes

def FS.set (fs : FS) (i : Ident) (v : Option Bytes) : FS := fun j => if j = i then v else fs j

/-- phase 1 on the remaining targets: `created` and `seen` so far; `none` = an open failed or two targets are one file -/
def openAll : FS → List Ident → List Ident → List Target → Option (FS × List Ident)
  | fs, created, _, [] => some (fs, created)
  | fs, created, seen, t :: ts =>
    match t.node with
    | none => none
    | some i =>
      let existed := (fs i).isSome
      let fs' := if existed then fs else fs.set i (some [])
      let created' := if existed then created else i :: created
      if seen.contains i then none else openAll fs' created' (i :: seen) ts

/-- the file system after the first failure of `openAll`, as the code leaves it: everything created so far is removed.
(`openAll` returns `none` without the state; this function replays it and undoes the creations.) -/
def openAllUndo : FS → List Ident → List Ident → List Target → FS
  | fs, created, _, [] => created.foldl (fun f i => f.set i none) fs
  | fs, created, seen, t :: ts =>
    match t.node with
    | none => created.foldl (fun f i => f.set i none) fs
    | some i =>
      let existed := (fs i).isSome
      let fs' := if existed then fs else fs.set i (some [])
      let created' := if existed then created else i :: created
      /- the duplicate is noticed after the open: a file created by this very open is in `created'` -/
      if seen.contains i then created'.foldl (fun f i => f.set i none) fs' else openAllUndo fs' created' (i :: seen) ts

/-- phase 2: `none` = a write failed -/
def writeAll (full : Ident → Bool) : FS → List Target → Option FS
  | fs, [] => some fs
  | fs, t :: ts =>
    match t.node with
    | none => none            -- not reachable after phase 1
    | some i => if full i then none else writeAll full (fs.set i (some t.data)) ts

/-- what is left after a write failed: created files are removed, every other target is emptied -/
def cleanup (created : List Ident) : FS → List Target → FS
  | fs, [] => fs
  | fs, t :: ts =>
    match t.node with
    | none => cleanup created fs ts
    | some i => cleanup created (fs.set i (if created.contains i then none else some [])) ts

structure Outcome where
  ok : Bool
  fs : FS

def writeFiles (full : Ident → Bool) (fs : FS) (ts : List Target) : Outcome :=
  match openAll fs [] [] ts with
  | none => { ok := false, fs := openAllUndo fs [] [] ts }
  | some (fs1, created) =>
    match writeAll full fs1 ts with
    | some fs2 => { ok := true, fs := fs2 }
    | none => { ok := false, fs := cleanup created fs1 ts }

/-- observation for the driver: success and the content of the given identities -/
def observe (full : Ident → Bool) (fs : FS) (ts : List Target) (ids : List Ident) : Bool × List (Option Bytes) :=
  let o := writeFiles full fs ts
  (o.ok, ids.map o.fs)

end Prophy.FilesW

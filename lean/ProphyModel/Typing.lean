/-
  Typing of values: the states a message can be in.  `hasField k t v` says that `v` is a
  value of a struct member of kind `k` and type `t`: integers in range, enum values that are
  enumerators, fixed arrays of their length, limited arrays within their limit, bytes within
  their size, every array within what its sizer can count, only the discriminated arm.
-/
import ProphyModel.Schema
namespace Prophy

/-- range of the values a scalar type holds; floats travel as raw bit patterns -/
def primRange (p : Prim) : Int × Int :=
  if p.isFloat then (0, (256 ^ p.size : Nat) - 1)
  else if p.isSigned then (-((256 ^ p.size / 2 : Nat) : Int), ((256 ^ p.size / 2 : Nat) : Int) - 1)
  else (0, ((256 ^ p.size : Nat) : Int) - 1)

def inRange (p : Prim) (i : Int) : Bool := (primRange p).1 ≤ i && i ≤ (primRange p).2

/-- greatest count the sizer named `s` can hold (its type's maximum) -/
def sizerMax (s : String) (all : List Member) : Int :=
  match all.find? (fun m => m.name == s) with
  | some (.mk _ (.prim p) _) => (primRange p).2
  | _ => 0

/-- `sizer` stands for a counter: it is a value of a struct member only, never of an optional's
    value, an array element or a union arm -/
def Val.isCounter : Val → Bool
  | .sizer => true
  | _ => false

mutual
  def hasField (all : List Member) (k : MKind) : Ty → Val → Bool
    | _, .sizer => (match k with | .plain => true | _ => false)
    | _, .absent => (match k with | .optional => true | _ => false)
    | t, .present x => (match k with | .optional => true | _ => false) && !x.isCounter && hasField all .plain t x
    | t, .bytes b =>
      (match t with | .byte => true | _ => false) &&
      (match k with
       | .fixed c => b.length == c
       | .limited s c => b.length ≤ c && (b.length : Int) ≤ sizerMax s all
       | .dyn s sh => (b.length : Int) ≤ sizerMax s all - (sh : Int)
       | .greedy => true
       | _ => false)
    | t, .arr xs =>
      (match t with | .byte => false | _ => true) &&
      (match k with
       | .fixed c => xs.length == c
       | .limited s c => xs.length ≤ c && (xs.length : Int) ≤ sizerMax s all
       | .dyn s sh => (xs.length : Int) ≤ sizerMax s all - (sh : Int)
       | .greedy => true
       | _ => false) && hasElems t xs
    | .prim p, .int i => (match k with | .plain => true | _ => false) && inRange p i
    | .byte, .int i => (match k with | .plain => true | _ => false) && inRange .u8 i
    | .enum _ es, .int i => (match k with | .plain => true | _ => false) && es.any (fun e => (e.2 : Int) == i)
    | .struct _ ms, .struct vs => (match k with | .plain => true | _ => false) && hasMs ms ms vs
    | .union _ arms, .union idx v =>
      (match k with | .plain => true | _ => false) &&
      (match arms[idx]? with
       | some (.mk _ _ t) => !v.isCounter && hasField [] .plain t v
       | none => false)
    | _, _ => false
  def hasMs (all : List Member) : List Member → List Val → Bool
    | [], [] => true
    | .mk n t k :: r, v :: vs =>
      (match v with
       | .sizer => isSizer n all
       | _ => !(isSizer n all)) && hasField all k t v && hasMs all r vs
    | _, _ => false
  def hasElems : Ty → List Val → Bool
    | _, [] => true
    | t, x :: xs => !x.isCounter && hasField [] .plain t x && hasElems t xs
end

/-- `v` is a value of message type `t` -/
def hasType (t : Ty) (v : Val) : Bool := !v.isCounter && hasField [] .plain t v

end Prophy

/-
  Model of prophyc/file_processor.py FileProcessor (:42-87) and of the include handling of
  the prophy parser (p_include_def :178) over an abstract file system.

  A file is identified by (directory, leaf name); its content is abstracted to the ordered
  list of leaf names it includes and the names it defines.  `dirs` is the search path list
  (`push_dir` puts the main file's directory in front, `swap_dir` replaces the first entry
  by the included file's directory while it is processed).  The cache maps a file to
  `none` while it is being processed (the cycle marker) and to its result afterwards.
-/
import ProphyModel.Basic
namespace Prophy
namespace Files

structure FileId where
  dir : String
  leaf : String
  deriving DecidableEq, Repr, Inhabited

structure File where
  id : FileId
  includes : List String
  defines : List String
  deriving Repr, Inhabited

inductive Err
  | notFound (leaf : String)
  | cyclic (f : FileId)
  deriving DecidableEq, Repr

/-- result of processing one file: the names it makes visible to a file that includes it
    (its own definitions; includes are not re-exported by p_include_def) and the files parsed
    for the first time while processing it, in order -/
structure Result where
  exports : List String
  visible : List String      -- names visible inside the file: its direct includes' exports, then its own
  parsed : List FileId
  deriving Repr, Inhabited

abbrev Cache := List (FileId × Option Result)

def lookupFile (fs : List File) (f : FileId) : Option File := fs.find? (·.id == f)

/-- `_get_first_existing_path(leaf, dirs)` -/
def findLeaf (fs : List File) (leaf : String) : List String → Option FileId
  | [] => none
  | d :: r => if (lookupFile fs ⟨d, leaf⟩).isSome then some ⟨d, leaf⟩ else findLeaf fs leaf r

mutual
  /-- `_process_file(path)` -/
  def processFile (fs : List File) : Nat → List String → Cache → FileId → Except Err (Result × Cache)
    | 0, _, _, f => .error (.cyclic f)
    | fuel + 1, dirs, cache, f =>
      match cache.lookup f with
      | some none => .error (.cyclic f)                      -- `self.files[abspath] is None`
      | some (some r) => .ok ({ r with parsed := [] }, cache)  -- cached: not parsed again
      | none =>
        match lookupFile fs f with
        | none => .error (.notFound f.leaf)
        | some file =>
          match processIncludes fs fuel dirs ((f, none) :: cache) file.includes with
          | .error e => .error e
          | .ok (vis, parsed, cache1) =>
            let r : Result := { exports := file.defines, visible := vis ++ file.defines, parsed := f :: parsed }
            .ok (r, (f, some r) :: cache1)
  /-- the `#include`s of a file, in order: `process_leaf` for each -/
  def processIncludes (fs : List File) : Nat → List String → Cache → List String →
      Except Err (List String × List FileId × Cache)
    | _, _, cache, [] => .ok ([], [], cache)
    | 0, _, _, leaf :: _ => .error (.notFound leaf)
    | fuel + 1, dirs, cache, leaf :: rest =>
      match findLeaf fs leaf dirs with
      | none => .error (.notFound leaf)
      | some g =>
        -- swap_dir: the first search directory becomes the included file's directory
        let dirs' := match dirs with
          | _ :: t => g.dir :: t
          | [] => []
        match processFile fs fuel dirs' cache g with
        | .error e => .error e
        | .ok (r, cache1) =>
          match processIncludes fs fuel dirs cache1 rest with
          | .error e => .error e
          | .ok (vis, parsed, cache2) => .ok (r.exports ++ vis, r.parsed ++ parsed, cache2)
end

/-- `process_main(path)` for each input file in command-line order with one shared FileProcessor -/
def processMains (fs : List File) (includeDirs : List String) :
    List FileId → Cache → Except Err (List (FileId × Result))
  | [], _ => .ok []
  | f :: r, cache =>
    match processFile fs (4 * fs.length + 4) (f.dir :: includeDirs) cache f with
    | .error e => .error e
    | .ok (res, cache1) =>
      match processMains fs includeDirs r cache1 with
      | .error e => .error e
      | .ok rs => .ok ((f, res) :: rs)

end Files
end Prophy

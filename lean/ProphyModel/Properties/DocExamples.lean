/-
  The byte examples of docs/encoding.rst, evaluated by the kernel on the Spec AND on the
  model of the Python codec.  These are tests (finite), not the unbounded claim; they tie
  `Spec` to the document: harness/doc_examples.py checks that each hex string below still
  occurs verbatim in /repo/docs/encoding.rst.
-/
import ProphyModel.Spec
import ProphyModel.Py
namespace Prophy.DocExamples
open Prophy

def u8 : Ty := .prim .u8
def u16 : Ty := .prim .u16
def u32 : Ty := .prim .u32
def u64 : Ty := .prim .u64
def plain (n : String) (t : Ty) : Member := .mk n t .plain
def dynArr (n : String) (t : Ty) : List Member := [.mk ("num_of_" ++ n) u32 .plain, .mk n t (.dyn ("num_of_" ++ n) 0)]

def both (t : Ty) (v : Val) (bs : Bytes) : Bool :=
  Spec.enc t v .little == bs && (match Py.encode t v .little with | .ok b => b == bs | _ => false)

-- Fixed array: 01 00 02 00 03 00 04 00
example : both (.struct "X" [.mk "x" u16 (.fixed 4)]) (.struct [.arr [.int 1, .int 2, .int 3, .int 4]])
    [1,0,2,0,3,0,4,0] = true := by decide
-- Dynamic array: 02 00 00 00 01 00 02 00
example : both (.struct "X" (dynArr "x" u16)) (.struct [.sizer, .arr [.int 1, .int 2]])
    [2,0,0,0,1,0,2,0] = true := by decide
-- Limited array: 02 00 00 00 01 00 02 00 00 00 00 00
example : both (.struct "X" [.mk "num_of_x" u32 .plain, .mk "x" u16 (.limited "num_of_x" 4)])
    (.struct [.sizer, .arr [.int 1, .int 2]]) [2,0,0,0,1,0,2,0,0,0,0,0] = true := by decide
-- Greedy array: 01 00 02 00
example : both (.struct "X" [.mk "x" u16 .greedy]) (.struct [.arr [.int 1, .int 2]]) [1,0,2,0] = true := by decide
-- Externally sized array: 02 04 05 00 06 00 07  (the document omits the final 00 of `07 00`)
example : both (.struct "X" [.mk "size" u8 .plain, .mk "x" u8 (.dyn "size" 0), .mk "y" u16 (.dyn "size" 0)])
    (.struct [.sizer, .arr [.int 4, .int 5], .arr [.int 6, .int 7]]) [2,4,5,0,6,0,7,0] = true := by decide
-- Optional: 01 00 00 00 01 00 00 00 / 00 00 00 00 00 00 00 00
example : both (.struct "X" [.mk "x" u32 .optional]) (.struct [.present (.int 1)]) [1,0,0,0,1,0,0,0] = true := by decide
example : both (.struct "X" [.mk "x" u32 .optional]) (.struct [.absent]) [0,0,0,0,0,0,0,0] = true := by decide
-- Struct: 01 00 02 00 03 00 00 00
def Nested : Ty := .struct "Nested" [plain "n1" u16, plain "n2" u16]
example : both (.struct "X" [plain "x" Nested, plain "y" u32]) (.struct [.struct [.int 1, .int 2], .int 3])
    [1,0,2,0,3,0,0,0] = true := by decide
-- Union: 00 00 00 00 01 00 00 00 / 01 00 00 00 02 00 03 00
def TwoInts : Ty := .struct "TwoInts" [plain "a1" u16, plain "a2" u16]
def UX : Ty := .union "X" [.mk "x" 0 u32, .mk "y" 1 TwoInts]
example : both UX (.union 0 (.int 1)) [0,0,0,0,1,0,0,0] = true := by decide
example : both UX (.union 1 (.struct [.int 2, .int 3])) [1,0,0,0,2,0,3,0] = true := by decide
-- Integer padding: 01 [00] 02 00
example : both (.struct "X" [plain "a" u8, plain "b" u16]) (.struct [.int 1, .int 2]) [1,0,2,0] = true := by decide
-- Composite padding (32 bytes)
def Nested3 : Ty := .struct "Nested" [plain "n1" u16, plain "n2" u32, plain "n3" u16]
example : both (.struct "X" [plain "x" u64, plain "y" u32, plain "z" u8, plain "n" Nested3])
    (.struct [.int 1, .int 2, .int 3, .struct [.int 4, .int 5, .int 6]])
    [1,0,0,0,0,0,0,0, 2,0,0,0,3,0,0,0, 4,0,0,0,5,0,0,0, 6,0,0,0,0,0,0,0] = true := by decide
-- Dynamic array padding
def XY : Ty := .struct "X" (dynArr "x" u8 ++ dynArr "y" u8)
example : both XY (.struct [.sizer, .arr [.int 1], .sizer, .arr [.int 2, .int 3, .int 4]])
    [1,0,0,0,1,0,0,0, 3,0,0,0,2,3,4,0] = true := by decide
example : both XY (.struct [.sizer, .arr [], .sizer, .arr [.int 1, .int 2, .int 3, .int 4]])
    [0,0,0,0,4,0,0,0,1,2,3,4] = true := by decide
example : both (.struct "X" (dynArr "x" u64)) (.struct [.sizer, .arr [.int 1]])
    [1,0,0,0,0,0,0,0, 1,0,0,0,0,0,0,0] = true := by decide
example : both (.struct "X" (dynArr "x" u64)) (.struct [.sizer, .arr []]) [0,0,0,0,0,0,0,0] = true := by decide
-- Optional padding: 01 00 00 00 01 02 [00 00]
example : both (.struct "X" [.mk "x" u8 .optional, plain "y" u8]) (.struct [.present (.int 1), .int 2])
    [1,0,0,0,1,2,0,0] = true := by decide
example : both (.struct "X" [.mk "x" u64 .optional]) (.struct [.present (.int 1)])
    [1,0,0,0,0,0,0,0, 1,0,0,0,0,0,0,0] = true := by decide
-- Union padding
example : both (.union "X" [.mk "x" 1 u8]) (.union 0 (.int 2)) [1,0,0,0,2,0,0,0] = true := by decide
def U64 : Ty := .union "X" [.mk "x" 1 u64, .mk "y" 2 u8]
example : both U64 (.union 0 (.int 2)) [1,0,0,0,0,0,0,0, 2,0,0,0,0,0,0,0] = true := by decide
example : both U64 (.union 1 (.int 3)) [2,0,0,0,0,0,0,0, 3,0,0,0,0,0,0,0] = true := by decide
-- Fields following dynamic fields (40 bytes)
def Blocks : Ty := .struct "X" (dynArr "a" u8 ++ [plain "b" u8, plain "c" u32] ++ dynArr "d" u8 ++ [plain "e" u8, plain "f" u64])
def blocksV : Val := .struct [.sizer, .arr [.int 1], .int 2, .int 3, .sizer, .arr [.int 4], .int 5, .int 6]
example : both Blocks blocksV
    [1,0,0,0,1,0,0,0, 2,0,0,0,3,0,0,0, 1,0,0,0,4,0,0,0, 5,0,0,0,0,0,0,0, 6,0,0,0,0,0,0,0] = true := by decide
-- Numeric types, big endian: 00 00 00 2a
example : Spec.enc u32 (.int 42) .big = [0,0,0,0x2a] := by decide
example : Spec.enc u64 (.int 42) .little = [0x2a,0,0,0,0,0,0,0] := by decide

end Prophy.DocExamples

/-
  C11, completed (Lemmas/CopyTyped.lean): the copy of every well-typed / reachable message is the
  source value with nothing shared, encodes alike and behaves alike afterwards.
-/
import ProphyModel.Properties.C11
import ProphyModel.Lemmas.CopyTyped
namespace Prophy.C11
open Prophy Prophy.Copy

/-- for every well-typed message - in particular every state reachable through the API - the copy
    IS the source value and shares no mutable object with it (`shared = false` is the model-level
    content of independence: the model is value-based, aliasing is the only thing the implementation
    can get wrong), at any nesting depth, for optional composites, limited and dynamic composite
    arrays and every union arm -/
theorem C11_copy_of_typed (t : Ty) (v : Val) (hv : hasType t v = true) : Copy.copyFrom t v = (v, false) :=
  Copy.copy_spec t v hv

theorem C11_copy_of_reachable (t : Ty) (ops : List Api.Op) (hf : Accept.front t = true) (hp : Accept.pyRt t = true)
    (hfit : ∀ op ∈ ops, Api.opFits t op = true) :
    Copy.copyFrom t (Api.run t ops (Api.defaultTy t) []).1 = ((Api.run t ops (Api.defaultTy t) []).1, false) :=
  Copy.copy_reachable t ops hf hp hfit

/-- the copy encodes exactly like the source (same bytes or same exception), for EVERY value -/
theorem C11_copy_encoding (t : Ty) (v : Val) (e : Endian) : Py.encode t (Copy.copyFrom t v).1 e = Py.encode t v e :=
  Copy.copy_encoding t v e

/-- later operations act on the copy exactly as on the source -/
theorem C11_copy_behaves_alike (t : Ty) (v : Val) (op : Api.Op) (hv : hasType t v = true) :
    Api.step t (Copy.copyFrom t v).1 op = Api.step t v op := Copy.copy_step t v op hv

theorem C11_copy_idempotent (t : Ty) (v : Val) : (Copy.copyFrom t (Copy.copyFrom t v).1).1 = (Copy.copyFrom t v).1 :=
  Copy.copy_idempotent t v


end Prophy.C11

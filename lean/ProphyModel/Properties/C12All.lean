/- C12: acceptance (Properties/C12.lean, with the tables of names) and the scan of names in expression texts
   (Properties/C12Names.lean) audited together -/
import ProphyModel.Properties.C12
import ProphyModel.Properties.C12Names

/-
  C05 - C++ full codec: get_byte_size equals bytes written; encode stays in bounds.

  FULL STATEMENT (target):
    theorem C05_size_eq_written : CppFullOk t → CppVal x t →
      (Cpp.encodePtr t x e).length = Cpp.getByteSize t x
-/
import ProphyModel.Cpp
import ProphyModel.Lemmas.CppEncode
import ProphyModel.Lemmas.NoShift
import ProphyModel.Lemmas.CppEncodeBounds
namespace Prophy.C05
open Prophy Prophy.Cpp

/-- whenever the vector API returns (no write outside the vector's storage), the vector it
    returns has exactly `get_byte_size()` bytes, for every type, value and byte order -/
theorem C05_vector_length (t : Ty) (v : Val) (e : Endian) (b : Bytes)
    (h : encodeVec t v e = .ok b) : b.length = getByteSize t v := by
  unfold encodeVec at h
  simp only at h
  split at h
  · rename_i hle
    injection h with h; subst h
    simp [zeros]; omega
  · split at h
    · injection h with h; subst h
      simp; omega
    · cases h

/-- the vector API faults exactly when the pointer encoder writes a byte at an index
    `≥ get_byte_size()`: in-bounds is decided by comparing the written cells with the size -/
theorem C05_fault_iff_write_beyond (t : Ty) (v : Val) (e : Endian) :
    encodeVec t v e = .fault ↔
      (getByteSize t v < (encodePtr t v e).length ∧
        ((encodePtr t v e).drop (getByteSize t v)).all (·.isNone) = false) := by
  unfold encodeVec
  simp only
  constructor
  · intro h
    split at h
    · cases h
    · split at h
      · cases h
      · rename_i h1 h2
        exact ⟨by omega, by simpa using h2⟩
  · intro ⟨h1, h2⟩
    rw [if_neg (by omega)]
    simp [h2]

/-- `nearest<N>` rounds up to a multiple of `N` and never down -/
theorem C05_nearest_ge (n : Nat) (x : Int) (hn : 0 < n) : x ≤ nearest n x ∧ (n : Int) ∣ nearest n x := by
  unfold nearest
  have hn' : (0 : Int) < n := by omega
  constructor
  · have := Int.lt_ediv_add_one_mul_self (x + n - 1) hn'
    have h2 : (x + ↑n - 1) / ↑n * ↑n + ↑n > x + ↑n - 1 := by
      have : ((x + ↑n - 1) / ↑n + 1) * ↑n = (x + ↑n - 1) / ↑n * ↑n + ↑n := by
        rw [Int.add_mul]; simp
      omega
    omega
  · exact Int.dvd_mul_left _ _


/-- FULL STATEMENT: `get_byte_size()` is the length of the canonical encoding, which is what the
    pointer encoder writes and the length of the vector `encode()` returns; nothing is written
    beyond it (`encodeVec` is `.ok`, never `.fault`) -/
theorem C05_byte_size_is_canonical_length (t : Ty) (v : Val) (e : Endian)
    (hf : Accept.front t = true) (hns : Accept.noShift t = true) (hm : Cpp.optMisaligned t = false)
    (hv : hasType t v = true) (ha : WF.agreeTy t v = true)
    (hlen : (Spec.enc t v e).length < 2 ^ 64) :
    getByteSize t v = (Spec.enc t v e).length ∧ encodeVec t v e = .ok (Spec.enc t v e) ∧ encodeVec t v e ≠ .fault := by
  have hp := Accept.pyRt_of_front t hf hns
  have hns' : Cpp.noShift_cppenc t = true := by rw [Cpp.noShift_cppenc_eq_accept]; exact hns
  have h := Cpp.encodeVec_canonical t v e hf hp hm hns' hv ha hlen
  refine ⟨Cpp.getByteSize_spec t v e hf hp hm hns' hv ha hlen, h, ?_⟩
  rw [h]; intro c; cases c

/-- the quantifier of C05 is "every C++ object": `objOk` is `hasType` WITHOUT the limits of limited
    arrays, the counters' ranges and enumerator membership (a std::vector can be over-full, an enum
    can hold any integer).  For every such object the vector encoder never writes outside its
    `get_byte_size()` bytes and returns exactly that many -/
theorem C05_every_object_in_bounds (t : Ty) (v : Val) (e : Endian)
    (hf : Accept.front t = true) (hns : Accept.noShift t = true) (hm : Cpp.optMisaligned t = false)
    (ho : Cpp.objOk t v = true) (hlen : Cpp.byteSizeTy t v < 2 ^ 64) :
    encodeVec t v e ≠ .fault ∧ ∃ b, encodeVec t v e = .ok b ∧ b.length = getByteSize t v :=
  Cpp.encodeVec_in_bounds t v e hf hns hm ho hlen

/-- the pointer encoder never advances past `get_byte_size()`, and advances exactly that far when
    no array exceeds what its counter's type can represent (`countsFit`) ... -/
theorem C05_pointer_encoder (t : Ty) (v : Val) (e : Endian)
    (hf : Accept.front t = true) (hns : Accept.noShift t = true) (hm : Cpp.optMisaligned t = false)
    (ho : Cpp.objOk t v = true) (hlen : Cpp.byteSizeTy t v < 2 ^ 64) :
    (encodePtr t v e).length ≤ getByteSize t v ∧
      (Cpp.countsFit t v = true → (encodePtr t v e).length = getByteSize t v) :=
  ⟨Cpp.encodePtr_le_getByteSize t v e hf hns hm ho hlen, fun hc => Cpp.encodePtr_length t v e hf hns hm ho hc hlen⟩

/-- ... and NOT otherwise (known finding D51, replayed on the real code): 256 elements under a u8
    counter give get_byte_size() = 257 while encode writes 1 byte -/
theorem C05_counter_wrap_breaks_size :
    ¬ (∀ (t : Ty) (v : Val) (e : Endian), Accept.front t = true → Accept.noShift t = true →
        Cpp.optMisaligned t = false → Cpp.objOk t v = true → Cpp.byteSizeTy t v < 2 ^ 64 →
        (encodePtr t v e).length = getByteSize t v) := Cpp.Bounds.encodePtr_length_unrestricted_false

/-- every well-typed value is such an object whose counters fit -/
theorem C05_typed_is_object (t : Ty) (v : Val) (hw : WF.wfTy t = true) (hv : hasType t v = true) :
    Cpp.objOk t v = true ∧ Cpp.countsFit t v = true := Cpp.objOk_of_hasType t v hw hv

end Prophy.C05

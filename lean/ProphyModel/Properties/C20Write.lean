/-
  C20 (write_files) - the last step of a prophyc run: the outcome (success and every file of the file system)
  does not depend on the order of the targets; a run succeeds exactly when every target can be opened, no two
  targets are one file and no write fails; a failing run leaves no generated text.
  Model: `ProphyModel/FilesW.lean`; proofs: `Lemmas/FilesWrite.lean`.
-/
import ProphyModel.FilesW
import ProphyModel.Lemmas.FilesWrite
namespace Prophy.C20
open Prophy.FilesW

/-- MAIN.  The command-line order of the inputs is the order of the targets: success and every file of the file system
are the same for every order. -/
theorem C20_write_files_order_independent (full : Ident → Bool) (fs : FS) (ts₁ ts₂ : List Target)
    (h : ts₁.Perm ts₂) :
    (writeFiles full fs ts₁).ok = (writeFiles full fs ts₂).ok ∧
    ∀ i, (writeFiles full fs ts₁).fs i = (writeFiles full fs ts₂).fs i :=
  writeFiles_perm_fw full fs ts₁ ts₂ h

/-- when the run succeeds, exactly when: every target can be opened, no two targets are one file, no write fails -/
theorem C20_write_files_ok_iff (full : Ident → Bool) (fs : FS) (ts : List Target) :
    (writeFiles full fs ts).ok = true ↔
      (∀ t ∈ ts, t.node.isSome) ∧ (ts.filterMap (·.node)).Nodup ∧ (∀ t ∈ ts, ∀ i, t.node = some i → full i = false) := by
  rw [writeFiles_ok_iff_fw]
  unfold OpenOK WriteOK
  exact and_assoc

/-- a successful run: every target holds its text, nothing else changed -/
theorem C20_write_files_ok_content (full : Ident → Bool) (fs : FS) (ts : List Target)
    (h : (writeFiles full fs ts).ok = true) :
    (∀ t ∈ ts, ∀ i, t.node = some i → (writeFiles full fs ts).fs i = some t.data) ∧
    (∀ i, (∀ t ∈ ts, t.node ≠ some i) → (writeFiles full fs ts).fs i = fs i) := by
  obtain ⟨ho, hw⟩ := (writeFiles_ok_iff_fw full fs ts).1 h
  obtain ⟨_, b, c⟩ := writeFiles_success_fw full fs ts ho hw
  refine ⟨b, ?_⟩
  intro i hi
  apply c
  intro hmem
  obtain ⟨t, ht, hti⟩ := mem_idents_fw.1 hmem
  exact hi t ht hti

/-- a failing run leaves no generated text: every file is as before, or empty (a target that existed), or gone
(only files that did not exist before are gone); a failure of the first phase leaves everything as it was -/
theorem C20_write_files_failure_leaves_nothing (full : Ident → Bool) (fs : FS) (ts : List Target)
    (h : (writeFiles full fs ts).ok = false) :
    ∀ i, (writeFiles full fs ts).fs i = fs i ∨
         ((writeFiles full fs ts).fs i = some [] ∧ (fs i).isSome ∧ ∃ t ∈ ts, t.node = some i) := by
  intro i
  by_cases ho : OpenOK ts
  · by_cases hw : WriteOK full ts
    · rw [(writeFiles_success_fw full fs ts ho hw).1] at h
      cases h
    · have hfs := (writeFiles_write_fail_fw full fs ts ho hw).2 i
      by_cases hi : i ∈ idents ts
      · rw [if_pos hi] at hfs
        cases h0 : fs i with
        | none =>
          left
          rw [hfs, if_pos h0]
        | some old =>
          right
          have hne : ¬ fs i = none := by rw [h0]; exact fun e => nomatch e
          rw [if_neg hne] at hfs
          exact ⟨hfs, rfl, mem_idents_fw.1 hi⟩
      · rw [if_neg hi] at hfs
        exact Or.inl hfs
  · exact Or.inl ((writeFiles_open_fail_fw full fs ts ((openAll_none_iff_fw fs ts).2 ho)).2 i)

theorem C20_write_files_open_failure_restores (full : Ident → Bool) (fs : FS) (ts : List Target)
    (h : openAll fs [] [] ts = none) :
    ∀ i, (writeFiles full fs ts).fs i = fs i :=
  (writeFiles_open_fail_fw full fs ts h).2

/-! ### non-vacuity -/

/-- a successful run with two targets: file 1 is created, file 2 existed; both hold their text, file 3 is untouched -/
example :
    observe (fun _ => false) (fun i => if i = 2 then some [7] else if i = 3 then some [9] else none)
      [⟨some 1, [65]⟩, ⟨some 2, [66]⟩] [1, 2, 3] = (true, [some [65], some [66], some [9]]) := by decide

/-- the same in the other order -/
example :
    observe (fun _ => false) (fun i => if i = 2 then some [7] else if i = 3 then some [9] else none)
      [⟨some 2, [66]⟩, ⟨some 1, [65]⟩] [1, 2, 3] = (true, [some [65], some [66], some [9]]) := by decide

/-- phase 1 fails: two targets with the identity 1 (a link), the first open creates the file; a third target (4) was
created before the duplicate is noticed.  Everything is as before: 1 and 4 are gone again, 2 keeps its text. -/
example :
    observe (fun _ => false) (fun i => if i = 2 then some [7] else none)
      [⟨some 4, [64]⟩, ⟨some 1, [65]⟩, ⟨some 2, [66]⟩, ⟨some 1, [67]⟩] [1, 2, 4] =
      (false, [none, some [7], none]) := by decide

/-- phase 1 fails because a target cannot be opened -/
example :
    observe (fun _ => false) (fun i => if i = 2 then some [7] else none)
      [⟨some 1, [65]⟩, ⟨none, [66]⟩, ⟨some 2, [67]⟩] [1, 2] = (false, [none, some [7]]) := by decide

/-- phase 2 fails (`full 2`): the created file 1 is removed, the target 2 that existed is emptied, 3 is untouched -/
example :
    observe (fun i => i == 2) (fun i => if i = 2 then some [7] else if i = 3 then some [9] else none)
      [⟨some 1, [65]⟩, ⟨some 2, [66]⟩] [1, 2, 3] = (false, [none, some [], some [9]]) := by decide

/-- the same in the other order (the write to 2 fails before anything is written to 1) -/
example :
    observe (fun i => i == 2) (fun i => if i = 2 then some [7] else if i = 3 then some [9] else none)
      [⟨some 2, [66]⟩, ⟨some 1, [65]⟩] [1, 2, 3] = (false, [none, some [], some [9]]) := by decide

/-- phase 2 fails on a created file (`full 1`): 1 is removed, the target 2 that was written already is emptied -/
example :
    observe (fun i => i == 1) (fun i => if i = 2 then some [7] else none)
      [⟨some 2, [66]⟩, ⟨some 1, [65]⟩] [1, 2] = (false, [none, some []]) := by decide

end Prophy.C20

#print axioms Prophy.C20.C20_write_files_order_independent
#print axioms Prophy.C20.C20_write_files_ok_iff
#print axioms Prophy.C20.C20_write_files_ok_content
#print axioms Prophy.C20.C20_write_files_failure_leaves_nothing
#print axioms Prophy.C20.C20_write_files_open_failure_restores

/-! ### a repeated run (P32) -/
namespace Prophy.C20
open Prophy.FilesW

/-- running prophyc again on the same inputs, whatever order they are given in the second time, ends the same way and leaves
every file as the first run left it - after a success and after a failure of either phase -/
theorem C20_write_files_repeatable (full : Ident → Bool) (fs : FS) (ts₁ ts₂ : List Target) (h : ts₁.Perm ts₂) :
    (writeFiles full (writeFiles full fs ts₁).fs ts₂).ok = (writeFiles full fs ts₁).ok ∧
    ∀ i, (writeFiles full (writeFiles full fs ts₁).fs ts₂).fs i = (writeFiles full fs ts₁).fs i :=
  writeFiles_repeat_fw full fs ts₁ ts₂ h

/-! non-vacuity: the second run is given the targets in the other order -/

/-- after a success: file 1 was created by the first run (it exists now, the second run does not create it), file 2 existed;
the second run succeeds and both hold their text again, 3 is untouched -/
example :
    observe (fun _ => false)
      (writeFiles (fun _ => false) (fun i => if i = 2 then some [7] else if i = 3 then some [9] else none)
        [⟨some 1, [65]⟩, ⟨some 2, [66]⟩]).fs
      [⟨some 2, [66]⟩, ⟨some 1, [65]⟩] [1, 2, 3] = (true, [some [65], some [66], some [9]]) ∧
    observe (fun _ => false) (fun i => if i = 2 then some [7] else if i = 3 then some [9] else none)
      [⟨some 1, [65]⟩, ⟨some 2, [66]⟩] [1, 2, 3] = (true, [some [65], some [66], some [9]]) := by decide

/-- after a phase-2 failure (`full 2`): the first run removed the file 1 it had created and emptied 2; the second run creates 1
again, fails again, removes 1 again and leaves 2 empty, 3 is untouched -/
example :
    observe (fun i => i == 2)
      (writeFiles (fun i => i == 2) (fun i => if i = 2 then some [7] else if i = 3 then some [9] else none)
        [⟨some 1, [65]⟩, ⟨some 2, [66]⟩]).fs
      [⟨some 2, [66]⟩, ⟨some 1, [65]⟩] [1, 2, 3] = (false, [none, some [], some [9]]) ∧
    observe (fun i => i == 2) (fun i => if i = 2 then some [7] else if i = 3 then some [9] else none)
      [⟨some 1, [65]⟩, ⟨some 2, [66]⟩] [1, 2, 3] = (false, [none, some [], some [9]]) := by decide

/-- after a phase-1 failure (a target that cannot be opened): nothing changed, the second run fails the same way -/
example :
    observe (fun _ => false)
      (writeFiles (fun _ => false) (fun i => if i = 2 then some [7] else none)
        [⟨some 1, [65]⟩, ⟨none, [66]⟩, ⟨some 2, [67]⟩]).fs
      [⟨some 2, [67]⟩, ⟨some 1, [65]⟩, ⟨none, [66]⟩] [1, 2] = (false, [none, some [7]]) := by decide

end Prophy.C20

#print axioms Prophy.C20.C20_write_files_repeatable

/-
  C13 - prophyc always terminates with outputs or a designed diagnostic.

  The Lean side covers the stages whose logic can hang or leak an exception: the dependency sort
  (rotation bound), include processing (cycle marker, missing files), expression evaluation
  (division by zero, negative shifts, unknown names) and patch scripts.  All model functions are
  total; what is proved is that their failure outcomes are the designed ones and that the bounds
  the code relies on are exactly the ones modelled.  PLY, ElementTree and argparse are trusted
  (exercised by the differential run only): the claim level is partial.
-/
import ProphyModel.Properties.C14
import ProphyModel.Properties.C15
import ProphyModel.Properties.C15Complete
import ProphyModel.Properties.C16
import ProphyModel.Properties.C17
import ProphyModel.Lemmas.TopoComplete
namespace Prophy.C13
open Prophy

/-- the dependency sort gives up after `len(nodes) + 1` rotations at one position, whatever the
    nodes are: it cannot loop forever -/
theorem C13_sort_rotation_bound (known available : List String) (s : List Topo.TNode) :
    Topo.settle known available 0 s = none := rfl

/-- a definition that depends on itself is reported (cycle), never sorted forever -/
theorem C13_self_reference_reported : Topo.sort [⟨"A", ["A"], false⟩] = none := by decide

/-- a definition cycle of any two names is reported -/
theorem C13_two_cycle_reported : Topo.sort [⟨"A", ["B"], false⟩, ⟨"B", ["A"], false⟩] = none := by decide

/-- the expression evaluator is total: a value or one of three designed errors -/
theorem C13_expr_total (env : String → Option Int) (e : Expr.Ast) :
    (∃ v, Expr.eval env e = .ok v) ∨ (∃ x, Expr.eval env e = .error x) := C14.C14_eval_total env e

/-- division by zero, negative shift counts and values beyond 64 bits are designed errors -/
theorem C13_div_zero_is_error (a : Int) : Expr.binop .div a 0 = .error .divZero := by
  simp [Expr.binop, Expr.rawBinop, Expr.isShift]
theorem C13_neg_shift_is_error (a b : Int) (h : b < 0) :
    Expr.binop .shl a b = .error .negShift ∧ Expr.binop .shr a b = .error .negShift := by
  have h64 : ¬ (b > 64) := by omega
  simp [Expr.binop, Expr.rawBinop, Expr.isShift, h, h64]
theorem C13_huge_shift_is_error (a b : Int) (h : b > 64) : Expr.binop .shl a b = .error .outOfRange := by
  simp [Expr.binop, Expr.isShift, h]


/-- the rotation bound is never hit by an acyclic definition set: a ModelError "cyclic dependency"
    is raised only for sets that do have a cycle.  The list may hold Include nodes anywhere; the
    rank condition is asked of the definitions (non-Include nodes) only -/
theorem C13_sort_succeeds_on_acyclic (g : List Topo.TNode) (rank : String → Nat)
    (hr : ∀ n ∈ g, n.incl = false → ∀ d ∈ n.deps, d ∈ Topo.availableOf g → rank d < rank n.name) :
    Topo.sort g ≠ none := by
  obtain ⟨r, h⟩ := Topo.sort_complete' g rank hr
  rw [h]; simp

/-- the rotation bound is never the REASON of a report: a position that is settled with any number of
    rotations is settled within `len(suffix)` of them, so a larger bound reports the same cycles -/
theorem C13_rotation_bound_exact (known available : List String) (f f' : Nat) (s r : List Topo.TNode)
    (hs : Topo.settle known available f s = some r) (hf : s.length < f') :
    Topo.settle known available f' s = some r :=
  C15.settle_fuel known available f f' s r hs hf

end Prophy.C13

#print axioms Prophy.C13.C13_sort_succeeds_on_acyclic
#print axioms Prophy.C13.C13_sort_rotation_bound

/-
  C14, a lone literal in the C++ headers: `_to_literal` (prophyc/generators/cpp.py, cpp_full.py) renders the text
  of a constant or enumerator value that is a lone literal so that the C++ compiler reads the integer prophyc
  computed.  Model: ProphyModel/CppLit.lean; lemmas: Lemmas/CppLiteral.lean.

  Why the function exists: C++ reads `-` and the digits separately and types the digits alone.
  `-0x80000000` is `-(unsigned int 2147483648)` = +2147483648 (`C14_hex_minus_is_positive`), and
  `-9223372036854775808` is ill-formed (`C14_min_long_ill_formed`).

  `C14_lone_literal_rendered` (MAIN, true as stated with `hsimple := rendered cs = true`): for every spelling of a
  lone literal (`loneValue cs = some v`: blanks, parentheses before the sign, around the sign or the digits, upper
  or lower case hex) with v in −2^63 … 2^64−1, the text written into the headers is read by the C++ compiler
  (`cppRead`, C++11 typing of literals on LP64) as v.

  `rendered cs` = "the sign is `-`, or the text without its surrounding blanks has no parenthesis and no blank".
  It is exact (`C14_rendered_exact`): for a lone literal, `rendered cs` holds iff `int(value, 0)` succeeds on the
  text `_to_literal` hands to it, and then `int` returns prophyc's value.

  `C14_lone_literal_pasted_nonneg`: the other spellings (`(5)`, `+(5)`, `( 5 )`, `+ 5`) are pasted verbatim and
  are non-negative.
-/
import ProphyModel.CppLit
import ProphyModel.Lemmas.CppLiteral
namespace Prophy.C14
open Prophy Prophy.CppLit

/-! ### examples of the model -/

example : toLiteral "(-0x80000000)".toList = "-2147483648".toList := by decide
example : toLiteral "- 5".toList = "-5".toList := by decide
example : toLiteral "5".toList = "5u".toList := by decide
example : toLiteral "0".toList = "0".toList := by decide
example : toLiteral "-0x8000000000000000".toList = "(-9223372036854775807 - 1)".toList := by decide
example : toLiteral "0xFFFFFFFF".toList = "0xFFFFFFFFu".toList := by decide
example : toLiteral "1 + 2".toList = "1 + 2".toList := by decide
example : toLiteral "(5)".toList = "(5)".toList := by decide
example : cppRead "-2147483648".toList = some (-2147483648) := by decide
example : cppRead "-0x80000000".toList = some 2147483648 := by decide
example : cppRead "0xFFFFFFFFu".toList = some 4294967295 := by decide
example : cppRead "(-9223372036854775807 - 1)".toList = some (-9223372036854775808) := by decide
example : loneValue "( - ( 0x10 ) )".toList = some (-16) := by decide
example : rendered "( - ( 0x10 ) )".toList = true := by decide
example : rendered " 0x10\t".toList = true := by decide
example : rendered "(5)".toList = false := by decide
example : rendered "+ 5".toList = false := by decide

/-! ### the two facts that make the function necessary -/

/-- `-0x80000000`: the digits are an unsigned int, the negation is modulo 2^32: the C++ value is +2147483648 -/
theorem C14_hex_minus_is_positive : cppRead "-0x80000000".toList ≠ some (-2147483648) := by decide

/-- `-9223372036854775808`: the digits alone fit no signed type, a decimal literal is never unsigned: ill-formed -/
theorem C14_min_long_ill_formed : cppRead "-9223372036854775808".toList = none := by decide

/-! ### MAIN -/

/-- MAIN: whatever the spelling of a lone literal (blanks, parentheses around the sign or the digits, upper or
lower case hex), the text written into the C++ headers is read by the C++ compiler as the integer prophyc
computed, for every value an enum can hold (−2^63 … 2^64−1) -/
theorem C14_lone_literal_rendered (cs : List Char) (v : Int)
    (hv : loneValue cs = some v) (hlo : -(2:Int)^63 ≤ v) (hhi : v < (2:Int)^64)
    (hsimple : rendered cs = true) :
    cppRead (toLiteral cs) = some v := by
  obtain ⟨pre, lit, post, n, e, hpre, hl, hpost, hbal, hcase⟩ := lone_anatomy_p29 hv
  subst e
  rw [toLiteral_eq_p29]
  have e63 : (2 : Int) ^ 63 = ((2 ^ 63 : Nat) : Int) := by norm_cast
  have e64 : (2 : Int) ^ 64 = ((2 ^ 64 : Nat) : Int) := by norm_cast
  rcases hcase with ⟨hb, hvn⟩ | ⟨hb, hvn⟩
  · subst hvn
    rw [(valueOf_neg_p29 hpre hb hl hpost hbal).2]
    exact render_neg_p29 hl (by omega)
  · subst hvn
    obtain ⟨hbare, hval, hhead⟩ := valueOf_pos_p29 (sg := bare pre) rfl hb hl hpost
    rw [hval]
    have hall : ∀ c ∈ strip (pre ++ (lit ++ post)), isBlankParen c = false := by
      simp only [rendered, Bool.or_eq_true, beq_iff_eq, List.all_eq_true, Bool.not_eq_true'] at hsimple
      rcases hsimple with h | h
      · exact absurd h hhead
      · exact h
    have hs : strip (pre ++ (lit ++ post)) = bare pre ++ lit := by
      rw [← bare_self_p29 hall, bare_strip_p29, hbare]
    exact render_pos_p29 hl (by omega) hs hb

/-- the spellings that are pasted are the non-negative ones: there the C++ compiler reads a parenthesised
non-negative literal, whose value is the literal's (no arithmetic happens) -/
theorem C14_lone_literal_pasted_nonneg (cs : List Char) (v : Int) (hv : loneValue cs = some v)
    (hr : rendered cs = false) :
    toLiteral cs = cs ∧ 0 ≤ v := by
  obtain ⟨pre, lit, post, n, e, hpre, hl, hpost, hbal, hcase⟩ := lone_anatomy_p29 hv
  subst e
  simp only [rendered, Bool.or_eq_false_iff] at hr
  rcases hcase with ⟨hb, hvn⟩ | ⟨hb, hvn⟩
  · exfalso
    have := (valueOf_neg_p29 hpre hb hl hpost hbal).1
    rw [this] at hr
    simp at hr
  · subst hvn
    obtain ⟨hbare, hval, hhead⟩ := valueOf_pos_p29 (sg := bare pre) rfl hb hl hpost
    refine ⟨?_, by omega⟩
    rw [toLiteral_eq_p29, hval]
    cases hpy : pyInt0 (pre ++ (lit ++ post)) with
    | none => simp only [renderOf, hpy]
    | some k =>
      exfalso
      have hall := pyInt0_nbp_p29 _ _ hpy
      have : (strip (pre ++ (lit ++ post))).all (fun c => !isBlankParen c) = true := by
        rw [List.all_eq_true]; intro c hc; simp [hall c hc]
      rw [this] at hr
      exact Bool.noConfusion hr.2

/-- `rendered` is exact: for a lone literal it holds iff `int(value, 0)` succeeds on the text `_to_literal` hands to
it (`valueOf cs`: the bare text when the three conditions hold, else the text), and then `int` returns the value
prophyc computed -/
theorem C14_rendered_exact (cs : List Char) (v : Int) (hv : loneValue cs = some v) :
    (rendered cs = true → pyInt0 (valueOf cs) = some v) ∧
    (rendered cs = false → pyInt0 (valueOf cs) = none) := by
  obtain ⟨pre, lit, post, n, e, hpre, hl, hpost, hbal, hcase⟩ := lone_anatomy_p29 hv
  subst e
  rcases hcase with ⟨hb, hvn⟩ | ⟨hb, hvn⟩
  · subst hvn
    obtain ⟨hbare, hval⟩ := valueOf_neg_p29 hpre hb hl hpost hbal
    constructor
    · intro _; rw [hval]; exact pyInt0_neg_lit_p29 hl
    · intro hr
      simp only [rendered, Bool.or_eq_false_iff, hbare] at hr
      simp at hr
  · subst hvn
    obtain ⟨hbare, hval, hhead⟩ := valueOf_pos_p29 (sg := bare pre) rfl hb hl hpost
    rw [hval]
    constructor
    · intro hsimple
      have hall : ∀ c ∈ strip (pre ++ (lit ++ post)), isBlankParen c = false := by
        simp only [rendered, Bool.or_eq_true, beq_iff_eq, List.all_eq_true, Bool.not_eq_true'] at hsimple
        rcases hsimple with h | h
        · exact absurd h hhead
        · exact h
      have hs : strip (pre ++ (lit ++ post)) = bare pre ++ lit := by
        rw [← bare_self_p29 hall, bare_strip_p29, hbare]
      exact pyInt0_pos_lit_p29 hl hs hb
    · intro hr
      simp only [rendered, Bool.or_eq_false_iff] at hr
      cases hpy : pyInt0 (pre ++ (lit ++ post)) with
      | none => rfl
      | some k =>
        exfalso
        have hall := pyInt0_nbp_p29 _ _ hpy
        have : (strip (pre ++ (lit ++ post))).all (fun c => !isBlankParen c) = true := by
          rw [List.all_eq_true]; intro c hc; simp [hall c hc]
        rw [this] at hr
        exact Bool.noConfusion hr.2

/-! ### the bounds of MAIN are needed, and a remark -/

/-- above 2^64−1 no C++ type holds the digits -/
example : loneValue "18446744073709551616".toList = some 18446744073709551616 ∧
    cppRead (toLiteral "18446744073709551616".toList) = none := by decide
/-- below −2^63 the decimal digits fit no signed type -/
example : loneValue "-9223372036854775809".toList = some (-9223372036854775809) ∧
    cppRead (toLiteral "-9223372036854775809".toList) = none := by decide
/-- remark (not a lone literal for `loneValue`: leading zero, D63): when `int()` refuses the bare text, the BARE text
is pasted, not the original; C++ reads an octal literal -/
example : toLiteral "-(012)".toList = "-012".toList ∧ cppRead "-012".toList = some (-10) := by decide

#print axioms C14_hex_minus_is_positive
#print axioms C14_rendered_exact
#print axioms C14_min_long_ill_formed
#print axioms C14_lone_literal_rendered
#print axioms C14_lone_literal_pasted_nonneg

end Prophy.C14

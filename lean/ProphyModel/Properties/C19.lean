/-
  C19 - Byte order changes only the bytes inside scalars; padding is always zero.

  The canonical encoding is `render e (chunksTy t v)`: byte order `e` enters only
  through `Chunk.render` of a scalar chunk.  The theorems below state the relation
  between the two renderings of *any* chunk list, hence of every message of every
  schema.  That the Python codec emits exactly `Spec.enc` is C01; the corollaries
  at the end transport the relation to `Py.encode`.
-/
import ProphyModel.Spec
import ProphyModel.Lemmas.Render
import ProphyModel.Lemmas.PyEncode
import ProphyModel.Lemmas.CppEncode
import ProphyModel.Lemmas.NoShift
namespace Prophy.C19
open Prophy Prophy.Spec

/-- reverse, in place, the bytes of every scalar chunk of an encoding laid out as `cs` -/
def mirror : List Chunk → Bytes → Bytes
  | [], bs => bs
  | .scalar k _ :: r, bs => (bs.take k).reverse ++ mirror r (bs.drop k)
  | .pad n :: r, bs => bs.take n ++ mirror r (bs.drop n)
  | .raw b :: r, bs => bs.take b.length ++ mirror r (bs.drop b.length)

/-- every byte that lies in a padding chunk is zero -/
def padsZero : List Chunk → Bytes → Prop
  | [], _ => True
  | .scalar k _ :: r, bs => padsZero r (bs.drop k)
  | .pad n :: r, bs => bs.take n = zeros n ∧ padsZero r (bs.drop n)
  | .raw b :: r, bs => padsZero r (bs.drop b.length)

/-- the two encodings have the same length -/
theorem C19_same_length (t : Ty) (v : Val) :
    (enc t v .big).length = (enc t v .little).length := by
  simp [enc, render_length]

/-- the big-endian encoding is the little-endian one with every scalar reversed in place -/
theorem C19_mirror (t : Ty) (v : Val) :
    enc t v .big = mirror (chunksTy t v) (enc t v .little) := by
  unfold enc
  generalize chunksTy t v = cs
  induction cs with
  | nil => rfl
  | cons c r ih =>
    cases c with
    | scalar k n =>
      simp only [render, Chunk.render, mirror]
      have h : (scalarBytes .little k n).length = k := scalarBytes_length _ _ _
      rw [List.take_left' h, List.drop_left' h, ← ih]
      simp [scalarBytes]
    | pad n =>
      simp only [render, Chunk.render, mirror]
      have h : (zeros n).length = n := zeros_length n
      rw [List.take_left' h, List.drop_left' h, ← ih]
    | raw b =>
      simp only [render, Chunk.render, mirror]
      rw [List.take_left' rfl, List.drop_left' rfl, ← ih]

/-- and it is an involution on the layout: mirroring twice gives the encoding back -/
theorem C19_mirror_back (t : Ty) (v : Val) :
    enc t v .little = mirror (chunksTy t v) (enc t v .big) := by
  unfold enc
  generalize chunksTy t v = cs
  induction cs with
  | nil => rfl
  | cons c r ih =>
    cases c with
    | scalar k n =>
      simp only [render, Chunk.render, mirror]
      have h : (scalarBytes .big k n).length = k := scalarBytes_length _ _ _
      rw [List.take_left' h, List.drop_left' h, ← ih]
      simp [scalarBytes]
    | pad n =>
      simp only [render, Chunk.render, mirror]
      have h : (zeros n).length = n := zeros_length n
      rw [List.take_left' h, List.drop_left' h, ← ih]
    | raw b =>
      simp only [render, Chunk.render, mirror]
      rw [List.take_left' rfl, List.drop_left' rfl, ← ih]

/-- every padding byte is zero, in both byte orders -/
theorem C19_padding_zero (t : Ty) (v : Val) (e : Endian) :
    padsZero (chunksTy t v) (enc t v e) := by
  unfold enc
  generalize chunksTy t v = cs
  induction cs with
  | nil => trivial
  | cons c r ih =>
    cases c with
    | scalar k n =>
      simp only [render, Chunk.render, padsZero]
      rw [List.drop_left' (scalarBytes_length _ _ _)]; exact ih
    | pad n =>
      simp only [render, Chunk.render, padsZero]
      rw [List.take_left' (zeros_length n), List.drop_left' (zeros_length n)]
      exact ⟨rfl, ih⟩
    | raw b =>
      simp only [render, Chunk.render, padsZero]
      rw [List.drop_left' rfl]; exact ih

/-- transported to the Python runtime (through C01): what `encode('>')` returns is what
    `encode('<')` returns with every scalar reversed in place, of the same length, and every
    padding byte of both is zero -/
theorem C19_py_encode (t : Ty) (v : Val) (bl bb : Bytes)
    (hw : WF.wfTy t = true) (hv : hasType t v = true) (ha : WF.agreeTy t v = true)
    (hl : Py.encode t v .little = .ok bl) (hb : Py.encode t v .big = .ok bb) :
    bb = mirror (chunksTy t v) bl ∧ bl = mirror (chunksTy t v) bb ∧ bb.length = bl.length ∧
    padsZero (chunksTy t v) bl ∧ padsZero (chunksTy t v) bb := by
  rw [Py.encode_canonical t v .little hw hv ha] at hl
  rw [Py.encode_canonical t v .big hw hv ha] at hb
  injection hl with hl; injection hb with hb
  subst hl; subst hb
  exact ⟨C19_mirror t v, C19_mirror_back t v, C19_same_length t v, C19_padding_zero t v .little, C19_padding_zero t v .big⟩


/-- the same for the C++ full codec's vector encoders (through C03): `encode<big>()` is
    `encode<little>()` with every scalar reversed in place, equally long, paddings zero -/
theorem C19_cpp_encode (t : Ty) (v : Val) (bl bb : Bytes)
    (hf : Accept.front t = true) (hns : Accept.noShift t = true) (hm : Cpp.optMisaligned t = false)
    (hv : hasType t v = true) (ha : WF.agreeTy t v = true)
    (hlen : (Spec.enc t v .little).length < 2 ^ 64)
    (hl : Cpp.encodeVec t v .little = .ok bl) (hb : Cpp.encodeVec t v .big = .ok bb) :
    bb = mirror (chunksTy t v) bl ∧ bb.length = bl.length ∧ padsZero (chunksTy t v) bl ∧ padsZero (chunksTy t v) bb := by
  have hp := Accept.pyRt_of_front t hf hns
  have hns' : Cpp.noShift_cppenc t = true := by rw [Cpp.noShift_cppenc_eq_accept]; exact hns
  have hlen' : (Spec.enc t v .big).length < 2 ^ 64 := by rw [C19_same_length]; exact hlen
  rw [Cpp.encodeVec_canonical t v .little hf hp hm hns' hv ha hlen] at hl
  rw [Cpp.encodeVec_canonical t v .big hf hp hm hns' hv ha hlen'] at hb
  injection hl with hl; injection hb with hb
  subst hl; subst hb
  exact ⟨C19_mirror t v, C19_same_length t v, C19_padding_zero t v .little, C19_padding_zero t v .big⟩

/-- non-vacuity / documentation: encoding.rst "Integer padding" in both orders -/
def exT : Ty := .struct "X" [.mk "a" (.prim .u8) .plain, .mk "b" (.prim .u16) .plain]
def exV : Val := .struct [.int 1, .int 2]
example : enc exT exV .little = [1, 0, 2, 0] := by decide
example : enc exT exV .big = [1, 0, 0, 2] := by decide
example : mirror (chunksTy exT exV) [1, 0, 2, 0] = [1, 0, 0, 2] := by decide

end Prophy.C19

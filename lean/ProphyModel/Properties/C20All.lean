/- C20: the cache theorems of the file processor without links (Properties/C16.lean) and with links
   (Properties/C20Links.lean) and the theorems about write_files (Properties/C20Write.lean) audited together -/
import ProphyModel.Properties.C16
import ProphyModel.Properties.C20Links
import ProphyModel.Properties.TablesTexts
import ProphyModel.Properties.C20Write

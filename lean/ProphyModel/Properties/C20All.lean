/- C20: the cache theorems of the file processor without links (Properties/C16.lean) and with links
   (Properties/C20Links.lean) audited together -/
import ProphyModel.Properties.C16
import ProphyModel.Properties.C20Links
import ProphyModel.Properties.TablesTexts

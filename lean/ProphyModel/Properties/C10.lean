/-
  C10 - Python message API keeps every reachable message state valid.

  The reference model `Api` is executable; the implementation is compared with it operation by
  operation.  Theorems about the reference model, for EVERY schema, state and operation:
-/
import ProphyModel.Api
import ProphyModel.Lemmas.ApiTyped
import ProphyModel.Lemmas.PyEncode
import ProphyModel.Lemmas.WFAccept
namespace Prophy.C10
open Prophy Prophy.Api

/-- a rejected operation leaves the message unchanged -/
theorem C10_rejected_unchanged (t : Ty) (v : Val) (op : Op) (e : Py.Exc)
    (h : (step t v op).2 = some e) : (step t v op).1 = v := by
  unfold step at h ⊢
  split
  · rename_i h'; simp [h'] at h
  · rfl

/-- whole histories: the outcome list has one entry per operation -/
theorem C10_one_outcome_per_operation (t : Ty) (ops : List Op) (v : Val) (acc : List (Option Py.Exc)) :
    (run t ops v acc).2.length = ops.length + acc.length := by
  induction ops generalizing v acc with
  | nil => simp [run]
  | cons op r ih =>
    simp only [run, List.length_cons]
    rw [ih]; simp; omega

/-- Python index normalisation never yields an index outside the list -/
theorem C10_normIndex_in_bounds (i : Int) (len j : Nat) (h : normIndex i len = .ok j) : j < len := by
  unfold normIndex at h
  grind

theorem clamp_le (b : Option Int) (d len : Nat) (hd : d ≤ len) : clampBound b d len ≤ len := by
  unfold clampBound
  grind

/-- slice bounds are inside the list and ordered -/
theorem C10_normSlice_ordered (lo hi : Option Int) (len : Nat) :
    (normSlice lo hi len).1 ≤ (normSlice lo hi len).2 ∧ (normSlice lo hi len).2 ≤ len := by
  unfold normSlice
  simp only
  have h1 := clamp_le lo 0 len (by omega)
  have h2 := clamp_le hi len len (by omega)
  omega

/-- appending within the limit keeps an array within its limit; beyond it the operation is rejected -/
theorem C10_append_respects_limit (all : List Member) (n : String) (t : Ty) (k : MKind) (xs ys : List Val)
    (p : List Step) (i : Nat) (a : Arg)
    (h : arrayOp all (.mk n t k) xs (.append p i a) = .ok ys) : overLimit all k ys.length = false := by
  simp only [arrayOp] at h
  by_cases hf : (isFixedKind k || isComposite t) = true
  · rw [if_pos hf] at h; cases h
  · rw [if_neg hf] at h
    cases hc : check t a with
    | error e => simp [hc, bind, Except.bind] at h
    | ok v =>
      simp only [hc, bind, Except.bind] at h
      by_cases hl : overLimit all k (xs.length + 1) = true
      · rw [if_pos hl] at h; cases h
      · rw [if_neg hl] at h
        simp only [pure, Except.pure] at h
        injection h with h
        subst h
        simpa using hl


/-- the freshly constructed message of every accepted schema is well-typed -/
theorem C10_default_typed (t : Ty) (hf : Accept.front t = true) (hp : Accept.pyRt t = true) :
    hasType t (defaultTy t) = true := Api.default_typed t hf hp

/-- FULL STATEMENT (state validity): every state reachable from the constructor by ANY finite
    history of operations with arbitrary arguments is well-typed - integers in range, enum values
    enumerators, fixed arrays of their length, limited arrays within their limit, bound arrays within
    what their sizer counts, only the discriminated arm.  `opFits`: the message OBJECTS handed to
    `extend` of a composite array are themselves well-typed messages of their class (they are
    reachable states of other message objects; the model represents them by their state). -/
theorem C10_reachable_typed (t : Ty) (ops : List Op)
    (hf : Accept.front t = true) (hp : Accept.pyRt t = true) (hfit : ∀ op ∈ ops, opFits t op = true) :
    hasType t (run t ops (defaultTy t) []).1 = true := Api.run_typed t ops hf hp hfit

theorem C10_step_typed (t : Ty) (v : Val) (op : Op)
    (hf : Accept.front t = true) (hp : Accept.pyRt t = true) (hfit : opFits t op = true)
    (hv : hasType t v = true) : hasType t (step t v op).1 = true := Api.step_typed t v op hf hp hfit hv

/-- ... and can be encoded: the one encode-time refusal is unequal lengths of arrays sharing a sizer -/
theorem C10_reachable_encodes (t : Ty) (ops : List Op) (e : Endian)
    (hf : Accept.front t = true) (hp : Accept.pyRt t = true) (hfit : ∀ op ∈ ops, opFits t op = true)
    (ha : WF.agreeTy t (run t ops (defaultTy t) []).1 = true) :
    Py.encode t (run t ops (defaultTy t) []).1 e = .ok (Spec.enc t (run t ops (defaultTy t) []).1 e) :=
  Py.encode_canonical t _ e (Accept.wf_of_accept t hf hp) (Api.run_typed t ops hf hp hfit) ha

/-- without that premise the model's `extend` would store an arbitrary state: the premise is needed -/
theorem C10_unfit_argument_breaks_typing :
    ¬ (∀ (t : Ty) (v : Val) (op : Op), Accept.front t = true → Accept.pyRt t = true → hasType t v = true →
        hasType t (step t v op).1 = true) := Api.step_typed_unrestricted_false

end Prophy.C10

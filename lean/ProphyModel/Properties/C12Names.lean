/-
  C12, the names of an expression: what `check_cpp_names` (prophyc/generators/base.py) reads out of a size or
  discriminator expression with

      re.findall(r"(?<![0-9A-Za-z_])[A-Za-z_]\w*", text)

  (`NameScan.scan`, ProphyModel/NameScan.lean) against what the evaluator calc resolves: the identifier tokens of
  `Expr.lex false` (`NameScan.identsOf`).

  Result (`C12_scan_is_calc_names`, true AS STATED in the task): on a text calc lexes and PARSES the two lists are
  equal, in order.  Nothing further is needed (no ASCII hypothesis: calc lexes ASCII only; no leading-zero
  hypothesis: `007` holds no name for either reader).

  What the proof uses of "calc parses the tokens" is only `Expr.okSeq` (operands and operators alternate,
  `C14_parse_alternates`), and of that only: a number is not directly followed by a name.  That is the one place
  where the readings differ: `10abc` is number 10 and name `abc` for calc's lexer, and holds no name for the scan
  (the look-behind sees the `0`); `0x1G` likewise (number 1, name `G`).  No parsable text has that shape.

  The model is the walk of `re.findall` with fuel (`scanF`); `C12_scan_structural` says it is the structural
  function `scanGo`: a name starts where a letter or `_` follows a character that is no letter, digit or `_` (or
  the start of the text), and is the maximal run of letters, digits and `_` from there.
-/
import ProphyModel.Expr
import ProphyModel.NameScan
import ProphyModel.Lemmas.ExprLex
import ProphyModel.Lemmas.ExprCppLex
import ProphyModel.Lemmas.NameScanLemmas
namespace Prophy.C12
open Prophy Prophy.Expr Prophy.NameScan

/-- the walk of `re.findall` is the structural scan -/
theorem C12_scan_structural (cs : List Char) : scan cs = scanGo false cs := scan_eq_scanGo cs

/-- the fuel of the walk does not matter once it exceeds the length -/
theorem C12_scan_fuel (cs : List Char) (n : Nat) (hn : cs.length < n) : scanF n false cs = scan cs := by
  rw [scan_eq_scanGo]
  exact scanF_eq_scanGo_p30 n false cs hn

set_option linter.unusedVariables false in
/-- MAIN: on a text the evaluator reads (lexes and parses), the name check sees exactly the names the evaluator resolves,
in the same order: no name is missed (a member of that name would capture it in the C++ class) and nothing that is not a
name is reported (a piece of a hexadecimal literal) -/
theorem C12_scan_is_calc_names (cs : List Char) (ts : List Tok) (n : Nat) (hn : cs.length < n)
    (hl : lex false n cs = some ts) (hp : (parse ts).isSome) :
    scan cs = identsOf ts :=
  scan_is_idents_of_okSeq cs ts n true hl (okSeq_of_parse ts hp)

/-- the same from the weaker hypothesis the proof uses: the tokens alternate -/
theorem C12_scan_is_calc_names_of_alternating (cs : List Char) (ts : List Tok) (n : Nat) (st : Bool)
    (hl : lex false n cs = some ts) (hs : okSeq st ts = true) :
    scan cs = identsOf ts :=
  scan_is_idents_of_okSeq cs ts n st hl hs

/-- on texts: a name is a member of the scan iff calc has an identifier token of that name -/
theorem C12_scan_mem_iff (s : String) (ts : List Tok) (a : Ast) (hl : tokenize false s = some ts)
    (hp : parse ts = some a) (name : String) :
    name ∈ scan s.toList ↔ Tok.ident name ∈ ts := by
  rw [C12_scan_is_calc_names s.toList ts (s.length + 1) (by rw [String.length_toList]; omega) hl (by rw [hp]; rfl)]
  clear hl hp
  induction ts with
  | nil => simp [identsOf]
  | cons t ts ih =>
    cases t <;> simp [identsOf, ih]

/-! ### witnesses -/

-- the look-behind: no name out of a hexadecimal literal
example : scan "0x10".toList = [] := by decide
example : scan "LEN_0x10 + x10".toList = ["LEN_0x10", "x10"] := by decide
example : scan "(K+1)*shift_2".toList = ["K", "shift_2"] := by decide
-- why `hp` is needed: calc's LEXER reads number 10 and name abc, the scan reads no name; no such text parses
example : scan "10abc".toList = [] ∧ (lex false 10 "10abc".toList).map identsOf = some ["abc"] ∧
    (lex false 10 "10abc".toList).bind parse = none := by decide
example : scan "0x1G".toList = [] ∧ (lex false 10 "0x1G".toList).map identsOf = some ["G"] ∧
    (lex false 10 "0x1G".toList).bind parse = none := by decide
-- the theorem applied
example : scan "(K+1)*shift_2".toList = identsOf [.lpar, .ident "K", .plus, .num 1, .rpar, .star, .ident "shift_2"] :=
  C12_scan_is_calc_names _ _ 14 (by decide) (by decide) (by decide)

end Prophy.C12

#print axioms Prophy.C12.C12_scan_structural
#print axioms Prophy.C12.C12_scan_fuel
#print axioms Prophy.C12.C12_scan_is_calc_names
#print axioms Prophy.C12.C12_scan_is_calc_names_of_alternating
#print axioms Prophy.C12.C12_scan_mem_iff

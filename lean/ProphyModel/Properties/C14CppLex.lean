/-
  C14, the host LEXER: a C++ compiler cuts pasted expression text into the tokens calc read, when the text is
  "writable".

  prophyc keeps expression text (isar input), evaluates it with calc (`Expr.lex false`, `Expr.parse`) and pastes
  the TEXT into generated C++.  Properties/C14Host.lean: when the host PARSER builds calc's tree from the same
  TOKENS.  Properties/C14Lex.lean: calc's own lexer on characters.  Here: the host's LEXER (`Expr.cppLex`,
  translation phase 3 by maximal munch: pp-numbers `0xE+1`, `++`, `--`, `->`, `||`, `//`, `/*`) against calc's.

  prophyc refuses every text matching
  `UNWRITABLE_TEXT = [\x00-\x08\x0a-\x1f]|--|\+\+|(?<![A-Za-z0-9_])0[xX][0-9a-fA-F]*[eE][-+]`
  (`Expr.unwritable`; `C14_unwritable_is_regex` says the scan is that regular expression).

  Result (`C14_cpp_lexes_like_calc`, true AS STATED in the task): for a text that calc lexes and PARSES, that
  UNWRITABLE_TEXT lets pass and that has no leading-zero literal (D63, `hasLeadingZero`), the C++ token stream,
  read back as calc tokens (`Expr.ofCTok`: decimal and `0x` literals with their values, identifiers,
  `+ - * / | ( ) << >>`; nothing else), IS calc's token list.  No further clause is missing from UNWRITABLE_TEXT.

  Converse (`C14_unwritable_is_exact`): on such a text a match of UNWRITABLE_TEXT means the C++ tokens are NOT
  calc's; so (`C14_unwritable_exact_iff`) UNWRITABLE_TEXT refuses exactly the accepted texts a C++ compiler would
  cut differently.  (Before two repairs of the regular expression it refused more: a TAB, and `0x1e+` inside an
  identifier such as `OFFSET_0xE+1`.)

  What the proof uses of "calc parses the tokens" is only `Expr.okSeq`: operands and operators alternate
  (`C14_parse_alternates`).  That excludes `12ab`, `0x1p+3`, `1e+5` (literal directly followed by a name),
  `1->>2` (`-` then `>>`), `1||2`, `7//2`, `a/*b` - all lexed by calc, passed by UNWRITABLE_TEXT, and cut
  differently by C++ (witnesses in Lemmas/ExprCppLex.lean).
-/
import ProphyModel.Expr
import ProphyModel.Lemmas.ExprLex
import ProphyModel.Lemmas.ExprPrint
import ProphyModel.Lemmas.ExprHost
import ProphyModel.Lemmas.ExprCppLex
namespace Prophy.C14
open Prophy Prophy.Expr

/-! ### UNWRITABLE_TEXT -/

/-- `unwritable` = `re.search(UNWRITABLE_TEXT, text)`: somewhere in the text there is a control character other
    than TAB, `--`, `++`, or - not directly after an identifier character - `0`, `x`/`X`, hex digits, `e`/`E`,
    a sign -/
theorem C14_unwritable_is_regex (cs : List Char) :
    unwritable cs = true ↔ ∃ pre c r, cs = pre ++ c :: r ∧
      ((c.toNat < 32 ∧ c ≠ '\t') ∨ (c = '-' ∧ ∃ r', r = '-' :: r') ∨ (c = '+' ∧ ∃ r', r = '+' :: r') ∨
       ((∀ p, pre.getLast? = some p → isIdChar p = false) ∧ c = '0' ∧
         ∃ X hs E S rest, r = X :: (hs ++ E :: S :: rest) ∧ (X = 'x' ∨ X = 'X') ∧
         (∀ h ∈ hs, isHexC h = true) ∧ (E = 'e' ∨ E = 'E') ∧ (S = '+' ∨ S = '-'))) := by
  rw [unwritable_iff]
  constructor
  · rintro ⟨pre, c, r, e, h | h | h | ⟨hp, h⟩⟩
    · exact ⟨pre, c, r, e, Or.inl h⟩
    · exact ⟨pre, c, r, e, Or.inr (Or.inl h)⟩
    · exact ⟨pre, c, r, e, Or.inr (Or.inr (Or.inl h))⟩
    · exact ⟨pre, c, r, e, Or.inr (Or.inr (Or.inr ⟨(prevId_false_iff pre).mp hp, h⟩))⟩
  · rintro ⟨pre, c, r, e, h | h | h | ⟨hp, h⟩⟩
    · exact ⟨pre, c, r, e, Or.inl h⟩
    · exact ⟨pre, c, r, e, Or.inr (Or.inl h)⟩
    · exact ⟨pre, c, r, e, Or.inr (Or.inr (Or.inl h))⟩
    · exact ⟨pre, c, r, e, Or.inr (Or.inr (Or.inr ⟨(prevId_false_iff pre).mpr hp, h⟩))⟩

/-- the hex clause, as the scan sees it: after `0x` the maximal run of hex digits ends in `e`/`E` and a sign
    follows (a sign is not a hex digit, so backtracking finds nothing else) -/
theorem C14_unwritable_hex_clause (r : List Char) :
    hexE false r = true ↔ ∃ hs E S rest, r = hs ++ E :: S :: rest ∧ (∀ h ∈ hs, isHexC h = true) ∧
      (E = 'e' ∨ E = 'E') ∧ isSignC S = true := by
  rw [hexE_iff_p24]
  constructor
  · rintro (⟨h, -⟩ | h)
    · cases h
    · exact h
  · exact Or.inr

/-! ### what the comparison needs of the parser -/

/-- a token list calc parses alternates: where an operand is expected comes a literal, a name, `-` or `(`; after
    an operand comes a binary operator or `)` -/
theorem C14_parse_alternates (ts : List Tok) (hp : (parse ts).isSome) : okSeq true ts = true :=
  okSeq_of_parse ts hp

/-! ### the main theorem -/

theorem C14_cpp_lexes_like_calc (cs : List Char) (ts : List Tok) (n : Nat) (hn : cs.length < n)
    (hl : lex false n cs = some ts) (hp : (parse ts).isSome) (hw : unwritable cs = false)
    (hz : hasLeadingZero cs = false) :
    (cppLex n cs).bind (fun cts => cts.mapM ofCTok) = some ts :=
  cpp_lexes_like_calc cs ts n hn hl hp hw hz

/-- **Converse**: on a text calc lexes and parses (no leading-zero literal), a match of UNWRITABLE_TEXT means the
    C++ compiler does not read calc's tokens -/
theorem C14_unwritable_is_exact (cs : List Char) (ts : List Tok) (n : Nat)
    (hl : lex false n cs = some ts) (hp : (parse ts).isSome) (hz : hasLeadingZero cs = false)
    (hw : unwritable cs = true) :
    (cppLex n cs).bind (fun cts => cts.mapM ofCTok) ≠ some ts :=
  cpp_lex_differs_of_unwritable cs ts n hl hp hz hw

/-- both directions: UNWRITABLE_TEXT refuses exactly the accepted texts that C++ would cut differently -/
theorem C14_unwritable_exact_iff (cs : List Char) (ts : List Tok) (n : Nat) (hn : cs.length < n)
    (hl : lex false n cs = some ts) (hp : (parse ts).isSome) (hz : hasLeadingZero cs = false) :
    (cppLex n cs).bind (fun cts => cts.mapM ofCTok) = some ts ↔ unwritable cs = false :=
  unwritable_exact cs ts n hn hl hp hz

/-- on texts: the C++ compiler reads the tokens calc read -/
theorem C14_cpp_reads_text (s : String) (ts : List Tok) (a : Ast) (hl : tokenize false s = some ts)
    (hp : parse ts = some a) (hw : unwritable s.toList = false) (hz : hasLeadingZero s.toList = false) :
    ∃ cts, cppLex (s.length + 1) s.toList = some cts ∧ cts.mapM ofCTok = some ts := by
  have h := cpp_lexes_like_calc s.toList ts (s.length + 1) (by rw [String.length_toList]; omega) hl
    (by rw [hp]; rfl) hw hz
  cases hc : cppLex (s.length + 1) s.toList with
  | none => rw [hc] at h; cases h
  | some cts => rw [hc] at h; exact ⟨cts, rfl, h⟩

/-- ... hence the tree the C++ compiler builds from the TEXT is the tree the host grammar builds from calc's
    tokens (`parseWith hostInfo`, Properties/C14Host.lean) -/
theorem C14_cpp_reads_host_tree (s : String) (ts : List Tok) (a b : Ast) (hl : tokenize false s = some ts)
    (hp : parse ts = some a) (hw : unwritable s.toList = false) (hz : hasLeadingZero s.toList = false)
    (hb : parseWith hostInfo ts = some b) :
    ∃ cts ts', cppLex (s.length + 1) s.toList = some cts ∧ cts.mapM ofCTok = some ts' ∧
      parseWith hostInfo ts' = some b := by
  obtain ⟨cts, h1, h2⟩ := C14_cpp_reads_text s ts a hl hp hw hz
  exact ⟨cts, ts, h1, h2, hb⟩

/-- ... and it is calc's tree exactly when the text, as grouped by calc (its concrete syntax tree `c`), is
    grouped the same way by the host table (`C14_text_same_tree_iff`) -/
theorem C14_cpp_reads_same_tree_iff (s : String) (ts : List Tok) (a : Ast) (hl : tokenize false s = some ts)
    (hp : parse ts = some a) (hw : unwritable s.toList = false) (hz : hasLeadingZero s.toList = false) :
    ∃ cts, cppLex (s.length + 1) s.toList = some cts ∧ cts.mapM ofCTok = some ts ∧
      ∃ c : Cst, c.toks = ts ∧ c.ast = a ∧ c.okT calcT 0 = true ∧
        (parseWith hostInfo ts = some a ↔ c.okT hostT 0 = true) := by
  obtain ⟨cts, h1, h2⟩ := C14_cpp_reads_text s ts a hl hp hw hz
  exact ⟨cts, h1, h2, text_same_tree_iff ts a hp⟩

/-! ### where UNWRITABLE_TEXT matches, the C++ token is not a calc token -/

theorem C14_minusminus_is_one_token (r : List Char) :
    cppHead '-' ('-' :: r) = some (some .minusminus, r) ∧ ofCTok .minusminus = none := cppHead_minusminus r

theorem C14_plusplus_is_one_token (r : List Char) :
    cppHead '+' ('+' :: r) = some (some .plusplus, r) ∧ ofCTok .plusplus = none := cppHead_plusplus r

theorem C14_hex_e_sign_is_one_token (hs : List Char) (E S : Char) (rest : List Char)
    (hall : ∀ h ∈ hs, isHexC h = true) (hE : E = 'e' ∨ E = 'E') (hS : isSignC S = true) :
    ∃ more rest', cppHead '0' ('x' :: (hs ++ E :: S :: rest)) =
        some (some (.ppnum ('0' :: 'x' :: (hs ++ E :: S :: more))), rest') ∧
      ofCTok (.ppnum ('0' :: 'x' :: (hs ++ E :: S :: more))) = none :=
  cppHead_hex_e_sign hs E S rest hall hE hS

/-! ### witnesses -/

-- D175: `0xE+1`
example : tokenize false "0xE+1" = some [.num 14, .plus, .num 1] ∧ evalText false envNone "0xE+1" = .value 15 ∧
    cppLex 6 "0xE+1".toList = some [.ppnum "0xE+1".toList] ∧ unwritable "0xE+1".toList = true := by decide
-- D158: `2--1`
example : tokenize false "2--1" = some [.num 2, .minus, .minus, .num 1] ∧ evalText false envNone "2--1" = .value 3 ∧
    cppLex 5 "2--1".toList = some [.ppnum ['2'], .minusminus, .ppnum ['1']] ∧ unwritable "2--1".toList = true := by
  decide
-- the same with blanks: writable, same tokens
example : unwritable "0xE + 1".toList = false ∧ cppToks 8 "0xE + 1".toList = tokenize false "0xE + 1" := by decide
example : unwritable "2 - -1".toList = false ∧ cppToks 7 "2 - -1".toList = tokenize false "2 - -1" := by decide
example : unwritable "1 << 2".toList = false ∧ cppToks 7 "1 << 2".toList = tokenize false "1 << 2" := by decide
example : unwritable "(1)<<(31)".toList = false ∧ cppToks 10 "(1)<<(31)".toList = tokenize false "(1)<<(31)" := by
  decide
-- TAB: writable since the repair of UNWRITABLE_TEXT, same tokens, value 3
example : unwritable "1\t+ 2".toList = false ∧ cppToks 7 "1\t+ 2".toList = tokenize false "1\t+ 2" ∧
    tokenize false "1\t+ 2" = some [.num 1, .plus, .num 2] ∧ evalText false envNone "1\t+ 2" = .value 3 := by decide
-- the look-behind: `0xE+` at the end of a name is no number - writable, same tokens; the literal is refused
example : unwritable "OFFSET_0xE+1".toList = false ∧ cppToks 13 "OFFSET_0xE+1".toList = tokenize false "OFFSET_0xE+1" ∧
    tokenize false "OFFSET_0xE+1" = some [.ident "OFFSET_0xE", .plus, .num 1] := by decide
example : unwritable "0xE+1".toList = true ∧ unwritable "(0xE+1)".toList = true := by decide
-- the theorem applied
example : ∃ cts, cppLex 10 "(1)<<(31)".toList = some cts ∧
    cts.mapM ofCTok = some [.lpar, .num 1, .rpar, .shl, .lpar, .num 31, .rpar] :=
  C14_cpp_reads_text "(1)<<(31)" _ (.bin .shl (.num 1) (.num 31)) (by decide) (by decide) (by decide) (by decide)

end Prophy.C14

#print axioms Prophy.C14.C14_unwritable_is_regex
#print axioms Prophy.C14.C14_unwritable_hex_clause
#print axioms Prophy.C14.C14_parse_alternates
#print axioms Prophy.C14.C14_cpp_lexes_like_calc
#print axioms Prophy.C14.C14_unwritable_is_exact
#print axioms Prophy.C14.C14_unwritable_exact_iff
#print axioms Prophy.C14.C14_cpp_reads_text
#print axioms Prophy.C14.C14_cpp_reads_host_tree
#print axioms Prophy.C14.C14_cpp_reads_same_tree_iff
#print axioms Prophy.C14.C14_minusminus_is_one_token
#print axioms Prophy.C14.C14_plusplus_is_one_token
#print axioms Prophy.C14.C14_hex_e_sign_is_one_token

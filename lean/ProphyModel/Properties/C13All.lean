/- C13: the sort / evaluator / include / patch termination theorems (Properties/C13.lean) and the name-resolution loops of
   the evaluator (Properties/C13Resolve.lean) audited together -/
import ProphyModel.Properties.C13
import ProphyModel.Properties.C13Resolve

/-
  C17 - Front-ends agree: isar (+patch) and prophy text give the same wire layout.

  The prophy parser desugars `T x<>` / `T x<N>` into a u32 counter member followed by the array
  bound to it (prophyc/parsers/prophy.py:281-296), `T x<@s>` into an array bound to `s`,
  `T x[N]` into a sized member, `T x<...>` into a greedy member, `T* x` into an optional one.
  The theorems state that every isar `<dimension>` form, and every patch rule, produces exactly
  the member records of the corresponding prophy syntax (the implicit counter is called
  `<name>_len` instead of `num_of_<name>`: member names do not exist on the wire).
-/
import ProphyModel.Patch
namespace Prophy.C17
open Prophy Prophy.Patch

/-- what the prophy parser produces -/
def prophyPlain (n t : String) : List PM := [{ name := n, type := t }]
def prophyOptional (n t : String) : List PM := [{ name := n, type := t, optional := true }]
def prophyFixed (n t size : String) : List PM := [{ name := n, type := t, size := some size }]
def prophyDynamic (counter n t : String) : List PM :=
  [{ name := counter, type := "u32" }, { name := n, type := t, bound := some counter }]
def prophyLimited (counter n t size : String) : List PM :=
  [{ name := counter, type := "u32" }, { name := n, type := t, bound := some counter, size := some size }]
def prophyExt (n t sizer : String) : List PM := [{ name := n, type := t, bound := some sizer }]
def prophyGreedy (n t : String) : List PM := [{ name := n, type := t, greedy := true }]

theorem C17_isar_plain (n t : String) : isarMembers n t false none false = prophyPlain n t := rfl
theorem C17_isar_optional (n t : String) : isarMembers n t true none false = prophyOptional n t := rfl

/-- `<dimension size="N"/>` = `T x[N]`, for every size expression -/
theorem C17_isar_fixed (n t sz : String) :
    isarMembers n t false (some { size := some sz }) false = prophyFixed n t sz := by
  simp [isarMembers, isarMembers.body, prophyFixed]

/-- `<dimension isVariableSize="true"/>` = `T x<>` with the counter named `<name>_len` -/
theorem C17_isar_dynamic (n t : String) :
    isarMembers n t false (some { isVariable := true }) false = prophyDynamic (n ++ "_len") n t := by
  simp [isarMembers, isarMembers.body, prophyDynamic]

/-- `<dimension isVariableSize="true" size="N"/>` in a struct = `T x<N>`; in a `<message>` the
    array is dynamic -/
theorem C17_isar_limited (n t sz : String) :
    isarMembers n t false (some { isVariable := true, size := some sz }) false = prophyLimited (n ++ "_len") n t sz
    ∧ isarMembers n t false (some { isVariable := true, size := some sz }) true = prophyDynamic (n ++ "_len") n t := by
  constructor <;> simp [isarMembers, isarMembers.body, prophyLimited, prophyDynamic]

/-- patch `dynamic` binds the array to an EARLIER size field and drops its size: `T x<@len>` -/
theorem C17_patch_dynamic (c m : PM) (hne : m.name ≠ c.name) :
    applyAction [c, m] (.dynamic m.name c.name)
      = .ok [c, { m with bound := some c.name, size := none, greedy := false, optional := false }] := by
  have h1 : (c.name == m.name) = false := by simp [beq_eq_false_iff_ne]; exact fun h => hne h.symm
  simp [applyAction, findIdx, modifyAt, List.findIdx?_cons, h1, List.mapIdx_cons]

/-- `dynamic` naming a size field that does not precede the array cannot be applied -/
theorem C17_patch_dynamic_needs_sizer (m : PM) (l : String) :
    applyAction [m] (.dynamic m.name l) = .error .lenNotFound := by
  simp [applyAction, findIdx, List.findIdx?_cons]

/-- `static` makes the field a fixed array of the given (symbolic or positive) size: `T x[N]` -/
theorem C17_patch_static (m : PM) (s : String) (h : nonPositiveInt s = false) :
    applyAction [m] (.static m.name s) = .ok [{ m with bound := none, size := some s, greedy := false, optional := false }] := by
  simp [applyAction, findIdx, modifyAt, List.findIdx?_cons, List.mapIdx_cons, h]

/-- and a non-positive size cannot be applied -/
theorem C17_patch_static_needs_positive (m : PM) (s : String) (h : nonPositiveInt s = true) :
    applyAction [m] (.static m.name s) = .error .badSize := by
  simp [applyAction, findIdx, List.findIdx?_cons, h]

/-- `greedy` applies to the last field only and makes it `T x<...>` -/
theorem C17_patch_greedy (m : PM) :
    applyAction [m] (.greedy m.name) = .ok (prophyGreedy m.name m.type) := by
  simp [applyAction, findIdx, modifyAt, prophyGreedy, List.findIdx?_cons, List.mapIdx_cons]

theorem C17_patch_greedy_not_last (m r : PM) :
    applyAction [m, r] (.greedy m.name) = .error .notLast := by
  simp [applyAction, findIdx, List.findIdx?_cons]

/-- a rule naming a member that does not exist cannot be applied: the compilation fails -/
theorem C17_patch_missing_member_fails (ms : List PM) (n x : String) (h : findIdx ms n = none) :
    applyAction ms (.dynamic n x) = .error .memberNotFound ∧ applyAction ms (.greedy n) = .error .memberNotFound
    ∧ applyAction ms (.static n x) = .error .memberNotFound ∧ applyAction ms (.limited n x) = .error .memberNotFound
    ∧ applyAction ms (.remove n) = .error .memberNotFound ∧ applyAction ms (.type n x) = .error .memberNotFound
    ∧ applyAction ms (.rename n x) = .error .memberNotFound := by
  simp [applyAction, h]

/-- a once-greedy member made static or dynamic again is an ordinary array: nothing of `greedy` is left (defect D69) -/
theorem C17_patch_greedy_then_static (m : PM) (s : String) (h : nonPositiveInt s = false) :
    applyAll [m] [.greedy m.name, .static m.name s] = .ok (prophyFixed m.name m.type s) := by
  simp [applyAll, applyAction, findIdx, modifyAt, prophyFixed, List.findIdx?_cons, List.mapIdx_cons, h]

/-- whatever a script of rules leaves has no two members of one name (defect D94) -/
theorem C17_patched_names_unique (ms ms' : List PM) (a : Action) (as : List Action)
    (h : applyRules ms (a :: as) = .ok ms') : uniqNames ms' = true := by
  unfold applyRules at h
  split at h
  · rename_i r hr
    simp only [List.isEmpty_cons, Bool.false_or] at h
    split at h
    · rename_i hu
      injection h with h
      subst h
      exact hu
    · cases h
  · cases h

/-- the product of two isar dimensions is the product of the two expressions (defect D67) -/
theorem C17_isar_size2_parenthesised (n t : String) :
    isarMembers n t false (some { size := some "K+1", size2 := some "2" }) false = prophyFixed n t "(K+1)*2" := by
  have h1 : factor "K+1" = "(K+1)" := by decide
  have h2 : factor "2" = "2" := by decide
  simp [isarMembers, isarMembers.body, prophyFixed, h1, h2]

/-- a failing rule fails the whole script -/
theorem C17_patch_script_fails_on_first_error (ms : List PM) (a : Action) (r : List Action) (e : PErr)
    (h : applyAction ms a = .error e) : applyAll ms (a :: r) = .error e := by
  simp [applyAll, h]

end Prophy.C17

/-
  C14 - "that same integer is what every back-end uses": where pasting expression TEXT into the
  generated Python module / C++ header is safe.

  prophyc (isar front-end, patch rules) keeps expressions as text, evaluates them with calc
  (`Expr.parse` = `parseWith binInfo`, `Expr.eval`) and pastes the text.  The hosts read it with
  their own grammar (`hostInfo`: `|` < `<< >>` < `+ -` < `* /`, all left-associative, unary minus
  above) and their own arithmetic (`evalPy`: unbounded, floor division; `evalCpp`: `int`, truncating
  division).

  Everything here is about TOKEN LISTS and TREES.  Lexing is outside: a decimal literal with a
  leading zero is decimal for calc and octal for C++ (finding D63, first half) - a matter of
  `tokenize`, not of these theorems.

  Results:
  * `C14_full_parens_same_tree`   fully parenthesised text: same tree under both tables;
  * `C14_host_reads_same_tree(_iff)`   calc's minimal printing `toks a` is read as `a` by the hosts
    IF AND ONLY IF `precSafe a`: no shift directly under `+ - * /`, no `|` as right operand of `|`
    (D27b is the first clause; the second: calc's `|` groups to the right, the hosts' to the left -
    another tree);
  * `C14_host_tree_bor_chains`, `C14_lor_assoc`, `C14_pasted_text_value_python/_cpp`   with the first
    clause alone (`shiftSafe`) the hosts read `hostTree a` (= `a` with the `|` chains grouped to the
    left), and since `|` is associative (proved: `lor_assoc`) the VALUE is calc's: `A | B | C` is safe;
  * `C14_text_same_tree_iff`, `C14_text_mixfree_same_tree`   the same for ANY text, through the
    concrete syntax tree `Cst` (the tree with the parentheses as written);
  * `C14_python_value`   whatever calc accepts, Python computes the same integer from the same tree;
  * `C14_cpp_value_int32`   C++ `int` arithmetic does so on the `int32Safe` subset (D63: `(0-7)/2`,
    `65536*65536` are outside);
  * `C14_pasted_text_safe`   the combination.
-/
import ProphyModel.Expr
import ProphyModel.Lemmas.ExprPrint
import ProphyModel.Lemmas.ExprHost
namespace Prophy.C14
open Prophy Prophy.Expr

/-! ### the parameterised parser is the model's parser; the host table -/

/-- `parseWith` at calc's table is `Expr.parse` -/
theorem C14_parseWith_calc : parseWith binInfo = parse := parseWith_binInfo

/-- the host table as data: levels `|` 0, `<< >>` 1, `+ -` 2, `* /` 3, nothing right-associative -/
theorem C14_hostInfo_table :
    hostInfo .bar = some (0, false, .bor) ∧ hostInfo .shl = some (1, false, .shl) ∧
    hostInfo .shr = some (1, false, .shr) ∧ hostInfo .plus = some (2, false, .add) ∧
    hostInfo .minus = some (2, false, .sub) ∧ hostInfo .star = some (3, false, .mul) ∧
    hostInfo .slash = some (3, false, .div) := ⟨rfl, rfl, rfl, rfl, rfl, rfl, rfl⟩

/-- the language of the host parser, as `parse_iff_rep` for calc's -/
theorem C14_host_parser_language (t : List Tok) (a : Ast) :
    parseWith hostInfo t = some a ↔ RepT hostT 0 a t := parseHost_iff t a

/-! ### fully parenthesised text -/

/-- `toksFull` puts parentheses around every compound operand (of a binary operator and of unary
    minus): both grammars read it as the tree it was printed from -/
theorem C14_full_parens_same_tree (a : Ast) :
    parseWith hostInfo (toksFull a) = some a ∧ parse (toksFull a) = some a :=
  full_parens_same_tree a

/-- and so does any parser driven by a well-formed table -/
theorem C14_full_parens_any_table (T : Table) (hT : T.WF) (a : Ast) :
    parseWith T.info (toksFull a) = some a := parseWith_toksFull hT a

/-! ### minimal parentheses (what calc's grouping needs, nothing more) -/

theorem C14_host_reads_same_tree (a : Ast) (h : precSafe a = true) :
    parseWith hostInfo (toks a) = some a := host_reads_same_tree a h

/-- `precSafe` is exact: where it fails, the hosts read another tree (or none) -/
theorem C14_host_reads_same_tree_iff (a : Ast) :
    parseWith hostInfo (toks a) = some a ↔ precSafe a = true := host_reads_same_tree_iff a

def env0 : String → Option Int := fun _ => none

/-- calc's tree of `1 << 2 + 1` -/
def d27b : Ast := .bin .add (.bin .shl (.num 1) (.num 2)) (.num 1)
/-- the hosts' tree of `1 << 2 + 1` -/
def d27bHost : Ast := .bin .shl (.num 1) (.bin .add (.num 2) (.num 1))

-- D27b: `1 << 2 + 1`
example : parse [.num 1, .shl, .num 2, .plus, .num 1] = some d27b := by decide
example : toks d27b = [.num 1, .shl, .num 2, .plus, .num 1] := by decide
example : precSafe d27b = false := by decide
example : parseWith hostInfo (toks d27b) = some d27bHost := by decide
example : d27bHost ≠ d27b := by decide
example : eval env0 d27b = .ok 5 := by rfl
example : evalPy env0 d27bHost = .ok 8 := by rfl
example : evalCpp env0 d27bHost = .ok 8 := by rfl
-- with the parentheses calc's grouping implies, the hosts agree
example : parseWith hostInfo (toksFull d27b) = some d27b := by decide
example : toksFull d27b = [.lpar, .num 1, .shl, .num 2, .rpar, .plus, .num 1] := by decide

-- the second clause of `precSafe`: `1 | 2 | 3` - calc `1 | (2 | 3)`, hosts `(1 | 2) | 3`;
-- no shift anywhere, another tree, the same value
example : parse [.num 1, .bar, .num 2, .bar, .num 3]
    = some (.bin .bor (.num 1) (.bin .bor (.num 2) (.num 3))) := by decide
example : parseWith hostInfo [.num 1, .bar, .num 2, .bar, .num 3]
    = some (.bin .bor (.bin .bor (.num 1) (.num 2)) (.num 3)) := by decide
example : precSafe (.bin .bor (.num 1) (.bin .bor (.num 2) (.num 3))) = false := by decide
example : eval env0 (.bin .bor (.num 1) (.bin .bor (.num 2) (.num 3))) = .ok 3 := by rfl
example : evalPy env0 (.bin .bor (.bin .bor (.num 1) (.num 2)) (.num 3)) = .ok 3 := by rfl

/-! ### any text, through its concrete syntax tree -/

/-- calc reads the text of `c` as `c.ast` iff `c`'s grouping is calc's -/
theorem C14_text_calc_iff (c : Cst) : parse c.toks = some c.ast ↔ c.okT calcT 0 = true := by
  rw [← parseWith_binInfo, ← calcT_info]; exact c.parseWith_iff calcT_wf

/-- the hosts read the text of `c` as `c.ast` iff `c`'s grouping is the hosts' -/
theorem C14_text_host_iff (c : Cst) : parseWith hostInfo c.toks = some c.ast ↔ c.okT hostT 0 = true := by
  rw [← hostT_info]; exact c.parseWith_iff hostT_wf

/-- every text calc accepts has a concrete tree, which decides whether the hosts read the same
    abstract tree -/
theorem C14_text_same_tree_iff (t : List Tok) (a : Ast) (h : parse t = some a) :
    ∃ c : Cst, c.toks = t ∧ c.ast = a ∧ c.okT calcT 0 = true ∧
      (parseWith hostInfo t = some a ↔ c.okT hostT 0 = true) := text_same_tree_iff t a h

/-- when both accept: the trees are equal iff the concrete tree is grouped as the hosts group -/
theorem C14_text_trees_equal_iff (t : List Tok) (a b : Ast) (ha : parse t = some a)
    (hb : parseWith hostInfo t = some b) :
    ∃ c : Cst, c.toks = t ∧ c.ast = a ∧ c.okT calcT 0 = true ∧ (a = b ↔ c.okT hostT 0 = true) :=
  text_trees_equal_iff t a b ha hb

/-- readable sufficient condition: every shift written next to `+ - * /` and every `|` written as
    an operand of `|` is in parentheses.
    (The wording "every shift and every operand of a shift is parenthesised" alone is NOT sufficient
    against left-associative `|`: `1 | 2 | 3` above.) -/
theorem C14_text_mixfree_same_tree (c : Cst) (hc : c.okT calcT 0 = true) (hm : c.mixFree = true) :
    parse c.toks = some c.ast ∧ parseWith hostInfo c.toks = some c.ast := c.mixFree_same_tree hc hm

/-! ### values -/

/-- whatever calc accepts, Python computes the same integer from the same tree -/
theorem C14_python_value (env : String → Option Int) (a : Ast) (v : Int) (h : eval env a = .ok v) :
    evalPy env a = .ok v := evalPy_of_eval env a v h

/-- on the `int32Safe` subset C++ `int` arithmetic computes calc's integer from the same tree -/
theorem C14_cpp_value_int32 (env : String → Option Int) (a : Ast) (v : Int) (h : eval env a = .ok v)
    (hs : int32Safe env a = true) : evalCpp env a = .ok v := evalCpp_of_eval env a v h hs

/-- the division clause of `int32Safe` is exact: floor and truncating quotient agree iff the
    division is exact or the operands have the same sign -/
theorem C14_div_agree_iff (a b : Int) (hb : b ≠ 0) : divAgree a b = true ↔ a.fdiv b = a.tdiv b :=
  divAgree_iff a b hb

-- D63: `(0-7)/2` is -4 for calc (floor) and -3 in C++ (truncation)
def d63a : Ast := .bin .div (.bin .sub (.num 0) (.num 7)) (.num 2)
example : eval env0 d63a = .ok (-4) := by rfl
example : evalPy env0 d63a = .ok (-4) := by rfl
example : evalCpp env0 d63a = .ok (-3) := by rfl
example : int32Safe env0 d63a = false := by decide
-- D63: `65536 * 65536` is 4294967296 for calc, not computed in `int` by C++
def d63b : Ast := .bin .mul (.num 65536) (.num 65536)
example : eval env0 d63b = .ok 4294967296 := by rfl
example : evalCpp env0 d63b = .error .outOfRange := by rfl
example : int32Safe env0 d63b = false := by decide
-- inside the subset
example : int32Safe env0 (.bin .div (.bin .shl (.num 1) (.num 10)) (.num 3)) = true := by decide

/-! ### `|` chains: another tree, the same value -/

/-- Python's `|` on unbounded integers (the model's `lor`) is associative -/
theorem C14_lor_assoc (a b c : Int) : lor (lor a b) c = lor a (lor b c) := lor_assoc a b c

/-- if no shift is a direct operand of `+ - * /`, the hosts read calc's minimal printing as
    `hostTree a`: the same tree but for `|` chains, grouped to the left -/
theorem C14_host_tree_bor_chains (a : Ast) (h : shiftSafe a = true) :
    parseWith hostInfo (toks a) = some (hostTree a) := host_reads_hostTree a h

/-- re-grouping the `|` chains changes neither the value nor the error Python reports -/
theorem C14_host_tree_same_python_value (env : String → Option Int) (a : Ast) :
    evalPy env (hostTree a) = evalPy env a := (evalPy_hostTree env a).1

theorem C14_host_tree_precSafe (a : Ast) (h : precSafe a = true) : hostTree a = a := hostTree_eq_self a h

theorem C14_pasted_text_value_python (env : String → Option Int) (a : Ast) (v : Int)
    (h : eval env a = .ok v) (hs : shiftSafe a = true) :
    ∃ b, parseWith hostInfo (toks a) = some b ∧ evalPy env b = .ok v := pasted_value_python env a v h hs

/-- for C++ the range condition is asked of the tree C++ reads -/
theorem C14_pasted_text_value_cpp (env : String → Option Int) (a : Ast) (v : Int)
    (h : eval env a = .ok v) (hs : shiftSafe a = true) (h32 : int32Safe env (hostTree a) = true) :
    parseWith hostInfo (toks a) = some (hostTree a) ∧ evalCpp env (hostTree a) = .ok v :=
  pasted_value_cpp env a v h hs h32

-- `1 | 2 | 4 << 1`
def flags : Ast := .bin .bor (.num 1) (.bin .bor (.num 2) (.bin .shl (.num 4) (.num 1)))
example : precSafe flags = false := by decide
example : shiftSafe flags = true := by decide
example : hostTree flags = .bin .bor (.bin .bor (.num 1) (.num 2)) (.bin .shl (.num 4) (.num 1)) := by decide
example : parseWith hostInfo (toks flags) = some (hostTree flags) := by decide
example : eval env0 flags = .ok 11 := by rfl
example : evalCpp env0 (hostTree flags) = .ok 11 := by rfl
-- D27b is outside `shiftSafe`
example : shiftSafe d27b = false := by decide

/-! ### the combination -/

/-- a tree calc evaluates to `v`, printed by calc's minimal printer, pasted: if `precSafe` and
    `int32Safe` hold, Python and C++ read the text as the same tree and compute `v` -/
theorem C14_pasted_text_safe (env : String → Option Int) (a : Ast) (v : Int)
    (h : eval env a = .ok v) (hp : precSafe a = true) (hs : int32Safe env a = true) :
    parse (toks a) = some a ∧ parseWith hostInfo (toks a) = some a ∧
      evalPy env a = .ok v ∧ evalCpp env a = .ok v :=
  ⟨parse_toks a trivial, host_reads_same_tree a hp, evalPy_of_eval env a v h, evalCpp_of_eval env a v h hs⟩

/-- for Python alone `precSafe` suffices (no range condition) -/
theorem C14_pasted_text_safe_python (env : String → Option Int) (a : Ast) (v : Int)
    (h : eval env a = .ok v) (hp : precSafe a = true) :
    parseWith hostInfo (toks a) = some a ∧ evalPy env a = .ok v :=
  ⟨host_reads_same_tree a hp, evalPy_of_eval env a v h⟩

/-- and with full parentheses no grouping condition is needed at all -/
theorem C14_pasted_full_parens_safe (env : String → Option Int) (a : Ast) (v : Int)
    (h : eval env a = .ok v) (hs : int32Safe env a = true) :
    parseWith hostInfo (toksFull a) = some a ∧ evalPy env a = .ok v ∧ evalCpp env a = .ok v :=
  ⟨(full_parens_same_tree a).1, evalPy_of_eval env a v h, evalCpp_of_eval env a v h hs⟩

end Prophy.C14

#print axioms Prophy.C14.C14_parseWith_calc
#print axioms Prophy.C14.C14_full_parens_same_tree
#print axioms Prophy.C14.C14_host_reads_same_tree
#print axioms Prophy.C14.C14_host_reads_same_tree_iff
#print axioms Prophy.C14.C14_text_calc_iff
#print axioms Prophy.C14.C14_text_host_iff
#print axioms Prophy.C14.C14_text_same_tree_iff
#print axioms Prophy.C14.C14_text_trees_equal_iff
#print axioms Prophy.C14.C14_text_mixfree_same_tree
#print axioms Prophy.C14.C14_python_value
#print axioms Prophy.C14.C14_cpp_value_int32
#print axioms Prophy.C14.C14_div_agree_iff
#print axioms Prophy.C14.C14_pasted_text_safe
#print axioms Prophy.C14.C14_pasted_text_safe_python
#print axioms Prophy.C14.C14_pasted_full_parens_safe
#print axioms Prophy.C14.C14_lor_assoc
#print axioms Prophy.C14.C14_host_tree_bor_chains
#print axioms Prophy.C14.C14_host_tree_same_python_value
#print axioms Prophy.C14.C14_host_tree_precSafe
#print axioms Prophy.C14.C14_pasted_text_value_python
#print axioms Prophy.C14.C14_pasted_text_value_cpp

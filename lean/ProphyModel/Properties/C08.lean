/-
  C08 - Raw C++ struct layout coincides with the wire layout.

  FULL STATEMENT (target):
    theorem C08_offsets : WF t → Raw.offsets of every member of every block of the generated
      struct = Spec.blockOffsets, and sizeof = Spec.sizeTy for fixed t
-/
import ProphyModel.Raw
import ProphyModel.Spec
namespace Prophy.C08
open Prophy Prophy.Raw

/-- the packed layout rule: the offset of a field is the sum of the sizes of the fields before it
    (so manual padding members are the only way to realise wire padding) -/
theorem C08_offsets_are_prefix_sums (pre : List Field) (f : Field) (post : List Field) (off : Nat) :
    (offsets (pre ++ f :: post) off)[pre.length]? = some (f.name, off + totalSize pre) := by
  induction pre generalizing off with
  | nil => simp [offsets, totalSize]
  | cons g r ih =>
    simp only [List.cons_append, offsets, List.length_cons, List.getElem?_cons_succ, totalSize]
    rw [ih]; congr 2; omega

/-- every part's size is a multiple of its declared alignment -/
theorem C08_block_sizeof_aligned (b : Block) (h : 0 < b.align) : b.sizeof % b.align = 0 := by
  unfold Block.sizeof alignUp padTo
  have := Nat.mod_lt (totalSize b.fields) h
  generalize totalSize b.fields = n at *
  by_cases hz : n % b.align = 0
  · simp [hz, Nat.add_mod]
  · have h2 : (b.align - n % b.align) % b.align = b.align - n % b.align := Nat.mod_eq_of_lt (by omega)
    rw [h2]
    have : n + (b.align - n % b.align) = b.align * (n / b.align + 1) := by
      have := Nat.div_add_mod n b.align
      rw [Nat.mul_add]; omega
    rw [this]; simp

end Prophy.C08

/-
  C08 - Raw C++ struct layout coincides with the wire layout.

  FULL STATEMENT (target):
    theorem C08_offsets : WF t → Raw.offsets of every member of every block of the generated
      struct = Spec.blockOffsets, and sizeof = Spec.sizeTy for fixed t
-/
import ProphyModel.Raw
import ProphyModel.Spec
import ProphyModel.Lemmas.RawLayout
namespace Prophy.C08
open Prophy Prophy.Raw

/-- the packed layout rule: the offset of a field is the sum of the sizes of the fields before it
    (so manual padding members are the only way to realise wire padding) -/
theorem C08_offsets_are_prefix_sums (pre : List Field) (f : Field) (post : List Field) (off : Nat) :
    (offsets (pre ++ f :: post) off)[pre.length]? = some (f.name, off + totalSize pre) := by
  induction pre generalizing off with
  | nil => simp [offsets, totalSize]
  | cons g r ih =>
    simp only [List.cons_append, offsets, List.length_cons, List.getElem?_cons_succ, totalSize]
    rw [ih]; congr 2; omega

/-- every part's size is a multiple of its declared alignment -/
theorem C08_block_sizeof_aligned (b : Block) (h : 0 < b.align) : b.sizeof % b.align = 0 := by
  unfold Block.sizeof alignUp padTo
  have := Nat.mod_lt (totalSize b.fields) h
  generalize totalSize b.fields = n at *
  by_cases hz : n % b.align = 0
  · simp [hz, Nat.add_mod]
  · have h2 : (b.align - n % b.align) % b.align = b.align - n % b.align := Nat.mod_eq_of_lt (by omega)
    rw [h2]
    have : n + (b.align - n % b.align) = b.align * (n / b.align + 1) := by
      have := Nat.div_add_mod n b.align
      rw [Nat.mul_add]; omega
    rw [this]; simp


/-- FULL STATEMENT: for every schema prophyc accepts (and whose member names do not imitate the
    generated `_paddingN` members - such a schema does not even compile, finding D40), every declared
    member of every block of the generated raw struct - optional flags and values, counters, first
    array elements, members of each partN relative to the part - lies at the offset the wire format
    assigns; each part is declared with the wire alignment of its block; sizeof of every fixed struct
    and union is its wire size; a union has its discriminator at 0 and every arm at max(4, alignment) -/
theorem C08_offsets_are_wire_offsets (n : String) (ms : List Member) (hf : Accept.front (.struct n ms) = true)
    (hn : ∀ m ∈ ms, m.name.startsWith "_padding" = false) :
    (Raw.structBlocks ms).map (fun b => (Raw.offsets b.fields 0).filter (fun p => !(p.1.startsWith "_padding")))
      = Spec.blockOffsets ms := Raw.offsets_spec n ms hf hn

theorem C08_part_alignments (n : String) (ms : List Member) (hf : Accept.front (.struct n ms) = true) :
    (Raw.structBlocks ms).map (·.align) = Spec.alignMs ms :: (Spec.blocks ms).tail.map Spec.blockAlign :=
  Raw.block_align_spec n ms hf

theorem C08_sizeof_fixed (t : Ty) (hf : Accept.front t = true) (hx : Spec.fixedTy t = true) :
    Raw.sizeofTy t = Spec.sizeTy t := Raw.sizeofTy_fixed t hf hx

theorem C08_union_layout (arms : List Arm) (hn : ∀ a ∈ arms, a.name.startsWith "_padding" = false) :
    (Raw.unionLayout arms).filter (fun p => !(p.1.startsWith "_padding"))
      = ("discriminator", 0) :: arms.map (fun a => (a.name, max Spec.flagSize (Spec.alignArms arms))) :=
  Raw.union_spec arms hn

end Prophy.C08

/-
  C02 - Python decode inverts encode and consumes exactly the message.

  FULL STATEMENT (target):
    theorem C02_py_roundtrip (t : Ty) (v : Val) (e : Endian) (bs : Bytes) :
      WF t → HasType t v → Spec.galTy t v = true →
      Py.encode t v e = .ok bs → Py.decode t bs e = .ok (v, bs.length)
-/
import ProphyModel.Properties.Tables
import ProphyModel.Lemmas.Scalars
import ProphyModel.Lemmas.PyRoundTrip
import ProphyModel.Properties.C01
namespace Prophy.C02
open Prophy

/-- scalar kernel of the round trip: what `struct.pack` writes, the guarded `struct.unpack`
    reads back, for every scalar type, every in-range value and both byte orders, at any
    position of any buffer -/
theorem C02_scalar_roundtrip (e : Endian) (p : Prim) (i : Int) (pre post bs : Bytes)
    (h : Py.pack e p i = .ok bs) (hf : p.isFloat = false) :
    Py.decScalar e p (pre ++ bs ++ post) pre.length = .ok (i, p.size) :=
  Py.decScalar_pack e p i pre post bs h hf

/-- FULL STATEMENT: for every schema prophyc accepts and the runtime imports, every value of the
    type whose arrays sharing a counter agree, whose greedy tail (if any) ends on the alignment
    boundary (`Spec.galTy`: the documented exception) and whose counters respect the decoder's
    guard (`WF.guardTy`: beyond it is known finding D49), in both byte orders: decoding the
    canonical encoding succeeds, yields field for field the same value and reports exactly the
    length of the input. -/
theorem C02_py_decode_encode (t : Ty) (v : Val) (e : Endian)
    (hf : Accept.front t = true) (hp : Accept.pyRt t = true)
    (hv : hasType t v = true) (ha : WF.agreeTy t v = true)
    (hg : Spec.galTy t v = true) (hG : WF.guardTy t v = true) :
    Py.decode t (Spec.enc t v e) e = .ok (v, (Spec.enc t v e).length) :=
  Py.decode_encode t v e hf hp hv ha hg hG

/-- the same through the model of the codec on both sides: decode (encode v) = v, and re-encoding
    the decoded value reproduces the bytes -/
theorem C02_py_roundtrip (t : Ty) (v : Val) (e : Endian) (b : Bytes)
    (hf : Accept.front t = true) (hp : Accept.pyRt t = true)
    (hv : hasType t v = true) (ha : WF.agreeTy t v = true)
    (hg : Spec.galTy t v = true) (hG : WF.guardTy t v = true)
    (he : Py.encode t v e = .ok b) :
    Py.decode t b e = .ok (v, b.length) ∧ Py.encode t v e = .ok b := by
  have hc := Py.encode_canonical t v e (Accept.wf_of_accept t hf hp) hv ha
  rw [hc] at he; injection he with he; subst he
  exact ⟨Py.decode_encode t v e hf hp hv ha hg hG, hc⟩

/-- the wire format is unambiguous: two values of one type with the same canonical encoding are the
    same value (decode is a function) -/
theorem C02_encoding_injective (t : Ty) (v v' : Val) (e : Endian)
    (hf : Accept.front t = true) (hp : Accept.pyRt t = true)
    (hv : hasType t v = true) (ha : WF.agreeTy t v = true) (hg : Spec.galTy t v = true) (hG : WF.guardTy t v = true)
    (hv' : hasType t v' = true) (ha' : WF.agreeTy t v' = true) (hg' : Spec.galTy t v' = true) (hG' : WF.guardTy t v' = true)
    (h : Spec.enc t v e = Spec.enc t v' e) : v = v' := by
  have h1 := Py.decode_encode t v e hf hp hv ha hg hG
  have h2 := Py.decode_encode t v' e hf hp hv' ha' hg' hG'
  rw [h] at h1
  rw [h1] at h2
  injection h2 with h2
  injection h2 with h2 _

/-- non-vacuity: the example of C01 (shared shifted counter, nested dynamic struct, optional,
    limited array, union) satisfies every hypothesis -/
example : Accept.front C01.exT = true ∧ Accept.pyRt C01.exT = true ∧ hasType C01.exT C01.exV = true ∧
    WF.agreeTy C01.exT C01.exV = true ∧ Spec.galTy C01.exT C01.exV = true ∧ WF.guardTy C01.exT C01.exV = true := by decide

end Prophy.C02

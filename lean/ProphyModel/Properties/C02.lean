/-
  C02 - Python decode inverts encode and consumes exactly the message.

  FULL STATEMENT (target):
    theorem C02_py_roundtrip (t : Ty) (v : Val) (e : Endian) (bs : Bytes) :
      WF t → HasType t v → Spec.galTy t v = true →
      Py.encode t v e = .ok bs → Py.decode t bs e = .ok (v, bs.length)
-/
import ProphyModel.Properties.Tables
import ProphyModel.Lemmas.Scalars
namespace Prophy.C02
open Prophy

/-- scalar kernel of the round trip: what `struct.pack` writes, the guarded `struct.unpack`
    reads back, for every scalar type, every in-range value and both byte orders, at any
    position of any buffer -/
theorem C02_scalar_roundtrip (e : Endian) (p : Prim) (i : Int) (pre post bs : Bytes)
    (h : Py.pack e p i = .ok bs) (hf : p.isFloat = false) :
    Py.decScalar e p (pre ++ bs ++ post) pre.length = .ok (i, p.size) :=
  Py.decScalar_pack e p i pre post bs h hf

end Prophy.C02

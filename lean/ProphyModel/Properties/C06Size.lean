/-
  C06 (size) - what Python decode returns is no larger than its input.

  TARGET STATEMENT (as given; FALSE in the model in both conjuncts, see the counterexamples below):
    theorem C06_py_decoded_weight_le_input (t : Ty) (data : Bytes) (e : Endian) (v : Val) (n : Nat)
        (h : Py.decode t data e = .ok (v, n)) :
        v.weight ≤ n ∧ n ≤ data.length

  * `n ≤ data.length` is false also for accepted schemas: the reported size includes the padding after the last
    member, which is not checked against the input (`cx_n_padding`), and an absent optional is skipped by its static
    size without a check (`cx_n_optional`: 4 bytes in, 24 reported).  What holds instead, and what the property is
    about, is `v.weight ≤ data.length`; for `n` itself the true bound is `n ≤ data.length + Py.slackTy t` with a
    constant of the schema (paddings and the static sizes of optional members), for every schema (`C06_py_reported_size`).
  * `v.weight ≤ n` is false without a schema hypothesis: a union reports its static `_SIZE` whatever its arm read, so
    an arm with a greedy / dynamic array is read again by the members that follow (`cx_weight_arm`).  The hypothesis
    `Py.tightTy t` (union arms are of fixed types, counters are scalars) is what the proof needs; it follows from
    `WF.wfTy t`, hence from `Accept.front t` and `Accept.pyRt t`.  `Accept.pyRt t` alone does not suffice
    (`cx_weight_pyRt_only`: members sharing the name of a counter are all read as counters).
-/
import ProphyModel.Lemmas.PyDecodeSize
import ProphyModel.Lemmas.PyDecodeSizeN
namespace Prophy.C06
open Prophy

/-- MAIN (weakest hypothesis): whatever bytes are given, the decoded message holds at most as many scalars and payload
    bytes as decode reports consumed, and at most as many as the input has -/
theorem C06_py_decoded_weight_le_input_tight (t : Ty) (data : Bytes) (e : Endian) (v : Val) (n : Nat)
    (ht : Py.tightTy t = true)
    (h : Py.decode t data e = .ok (v, n)) :
    v.weight ≤ n ∧ v.weight ≤ data.length :=
  Py.decode_weight_p28 t data e v n ht h

/-- MAIN for well-formed schemas -/
theorem C06_py_decoded_weight_le_input_wf (t : Ty) (data : Bytes) (e : Endian) (v : Val) (n : Nat)
    (hw : WF.wfTy t = true)
    (h : Py.decode t data e = .ok (v, n)) :
    v.weight ≤ n ∧ v.weight ≤ data.length :=
  Py.decode_weight_p28 t data e v n (Py.tight_of_wf_p28 t hw) h

/-- MAIN for every schema prophyc accepts and the runtime imports -/
theorem C06_py_decoded_weight_le_input (t : Ty) (data : Bytes) (e : Endian) (v : Val) (n : Nat)
    (hf : Accept.front t = true) (hp : Accept.pyRt t = true)
    (h : Py.decode t data e = .ok (v, n)) :
    v.weight ≤ n ∧ v.weight ≤ data.length :=
  Py.decode_weight_p28 t data e v n (Py.tight_of_accept_p28 t hf hp) h

/-- the weight is the sum over the members / elements -/
theorem C06_weight_struct (vs : List Val) : (Val.struct vs).weight = (vs.map Val.weight).sum := Val.weight_struct vs
theorem C06_weight_arr (vs : List Val) : (Val.arr vs).weight = (vs.map Val.weight).sum := Val.weight_arr vs

/-- the true bound on the reported size, for EVERY schema and input: it exceeds the input length by at most a constant
    of the schema (`Py.slackTy`: the alignments a struct pads to, plus the static sizes of its optional members, plus
    the same of the member types - independent of the input and of the element counts) -/
theorem C06_py_reported_size (t : Ty) (data : Bytes) (e : Endian) (v : Val) (n : Nat)
    (h : Py.decode t data e = .ok (v, n)) : n ≤ data.length + Py.slackTy t :=
  Py.decode_end_p28 t data e v n h

/-- MAIN, all clauses: content bounded by the reported size and by the input, reported size bounded by the input plus
    the constant of the schema -/
theorem C06_py_decoded_size (t : Ty) (data : Bytes) (e : Endian) (v : Val) (n : Nat)
    (hf : Accept.front t = true) (hp : Accept.pyRt t = true)
    (h : Py.decode t data e = .ok (v, n)) :
    v.weight ≤ n ∧ v.weight ≤ data.length ∧ n ≤ data.length + Py.slackTy t :=
  ⟨(C06_py_decoded_weight_le_input t data e v n hf hp h).1, (C06_py_decoded_weight_le_input t data e v n hf hp h).2,
   C06_py_reported_size t data e v n h⟩

/-- beyond the end of the input only members without bytes decode: a successful decode of a message starting after
    the last byte reports size 0 -/
theorem C06_py_beyond_end (e : Endian) (t : Ty) (data : Bytes) (pos : Nat) (term : Bool) (v : Val) (sz : Nat)
    (h : Py.decTy e t data pos term = .ok (v, sz)) (hb : data.length < pos) : sz = 0 :=
  (Py.ty_beyond_p28 e t data pos term v sz h hb).1

/-! ### counterexamples to the target statement -/

/-- `n ≤ data.length` fails by trailing padding: `struct S { u32 a; u8 b; }`, 5 bytes in, 8 reported (accepted schema) -/
def cxPad : Ty := .struct "S" [.mk "a" (.prim .u32) .plain, .mk "b" (.prim .u8) .plain]
theorem cx_n_padding :
    Accept.front cxPad = true ∧ Accept.pyRt cxPad = true ∧
    Py.decode cxPad [1, 0, 0, 0, 2] .little = .ok (.struct [.int 1, .int 2], 8) := ⟨by decide, by decide, by rfl⟩

/-- `n ≤ data.length + 7` fails as well: an absent optional is skipped by its static size.
    `struct X { u64 a; u64 b; }; struct O { X* x; }`, 4 bytes in, 24 reported (accepted schema) -/
def cxOptX : Ty := .struct "X" [.mk "a" (.prim .u64) .plain, .mk "b" (.prim .u64) .plain]
def cxOpt : Ty := .struct "O" [.mk "x" cxOptX .optional]
theorem cx_n_optional :
    Accept.front cxOpt = true ∧ Accept.pyRt cxOpt = true ∧
    Py.decode cxOpt [0, 0, 0, 0] .little = .ok (.struct [.absent], 24) := ⟨by decide, by decide, by rfl⟩

/-- `v.weight ≤ n` fails without a hypothesis: a union arm holding a greedy bytes field, followed by a greedy bytes
    field: the last 4 of the 8 bytes are returned twice (weight 9, n = 8 = the input length) -/
def cxArmG : Ty := .struct "G" [.mk "x" .byte .greedy]
def cxArmU : Ty := .union "U" [.mk "a" 1 cxArmG]
def cxArm : Ty := .struct "T" [.mk "u" cxArmU .plain, .mk "rest" .byte .greedy]
def cxArmV : Val := .struct [.union 0 (.struct [.bytes [9, 9, 9, 9]]), .bytes [9, 9, 9, 9]]
theorem cx_weight_arm :
    Py.decode cxArm [1, 0, 0, 0, 9, 9, 9, 9] .little = .ok (cxArmV, 8) ∧ cxArmV.weight = 9 ∧
    Py.tightTy cxArm = false ∧ Accept.pyRt cxArm = false := ⟨by rfl, by decide, by decide, by decide⟩

/-- `Accept.pyRt` alone is not enough: members that share the name of a counter are all read as counters (4 bytes each)
    while the statics count their own `_SIZE` (0 for an empty struct); the front-end rejects the duplicate names -/
def cxDupE : Ty := .struct "E" []
def cxDupS : Ty := .struct "S" [.mk "n" (.prim .u8) .plain, .mk "n" cxDupE .plain, .mk "n" cxDupE .plain,
  .mk "n" cxDupE .plain, .mk "n" cxDupE .plain, .mk "n" cxDupE .plain, .mk "n" cxDupE .plain,
  .mk "x" .byte (.limited "n" 1)]
def cxDupU : Ty := .union "U" [.mk "a" 1 cxDupS]
def cxDup : Ty := .struct "T" [.mk "u" cxDupU .plain, .mk "rest" .byte .greedy]
def cxDupD : Bytes := [1,0,0,0, 0, 0,0,0,0, 0,0,0,0, 0,0,0,0, 0,0,0,0, 0,0,0,0, 1,0,0,0, 5, 5, 5]
theorem cx_weight_pyRt_only :
    Accept.pyRt cxDup = true ∧ Accept.front cxDup = false ∧ Py.tightTy cxDup = false ∧
    (match Py.decode cxDup cxDupD .little with
     | .ok (v, n) => decide (v.weight = 33 ∧ n = 32 ∧ cxDupD.length = 32)
     | _ => false) = true := ⟨by decide, by decide, by decide, by rfl⟩

/-- the constant of the two schemas above (a coarse bound: 5 bytes in, 8 reported; 4 bytes in, 24 reported) -/
example : Py.slackTy cxPad = 14 ∧ Py.slackTy cxOpt = 80 := by decide

/-! ### non-vacuity -/

/-- a counted array and a bytes field: `struct M { u16 x<>; bytes b<...>; }` -/
def exM : Ty := .struct "M" [.mk "num_of_x" (.prim .u32) .plain, .mk "x" (.prim .u16) (.dyn "num_of_x" 0),
  .mk "b" .byte .greedy]
def exD : Bytes := [2, 0, 0, 0, 1, 0, 2, 0, 7, 7, 7, 7]
def exV : Val := .struct [.sizer, .arr [.int 1, .int 2], .bytes [7, 7, 7, 7]]
example : Accept.front exM = true ∧ Accept.pyRt exM = true ∧ Py.tightTy exM = true := by decide
example : Py.decode exM exD .little = .ok (exV, 12) := by rfl
example : exV.weight = 7 ∧ exD.length = 12 ∧ Py.slackTy exM = 20 := by decide
example : exV.weight ≤ 12 ∧ exV.weight ≤ exD.length :=
  C06_py_decoded_weight_le_input exM exD .little exV 12 (by decide) (by decide) (by rfl)

end Prophy.C06

#print axioms Prophy.C06.C06_py_decoded_weight_le_input_tight
#print axioms Prophy.C06.C06_py_decoded_weight_le_input_wf
#print axioms Prophy.C06.C06_py_decoded_weight_le_input
#print axioms Prophy.C06.C06_py_reported_size
#print axioms Prophy.C06.C06_py_decoded_size
#print axioms Prophy.C06.C06_py_beyond_end

/-
  C14 - Constant expressions denote one integer, the same in every back-end.
-/
import ProphyModel.Expr
import ProphyModel.Properties.Tables
import ProphyModel.Generated.Precedence
import ProphyModel.Lemmas.ExprPrint
namespace Prophy.C14
open Prophy Prophy.Expr

/-- position (level, counted from 1) and associativity of a token in a yacc precedence table -/
def tableLevel (table : List (String × List String)) (tok : String) : Option (Nat × String) :=
  go table 1
where
  go : List (String × List String) → Nat → Option (Nat × String)
    | [], _ => none
    | (a, toks) :: r, n => if toks.contains tok then some (n, a) else go r (n + 1)

def tokName : Tok → String
  | .plus => "+" | .minus => "-" | .star => "*" | .slash => "/"
  | .shl => "LSHIFT" | .shr => "RSHIFT" | .bar => "|"
  | _ => ""

def binToks : List Tok := [.plus, .minus, .star, .slash, .shl, .shr]

/-- the parse-time evaluator and calc are generated from the same precedence table -/
theorem C14_precedence_tables_agree : Generated.prophyPrecedence = Generated.calcPrecedence := by decide

/-- the model parser's levels are exactly the positions in that table, all binary operators
    left-associative, unary minus on the highest level, `|` absent (level 0 in PLY) -/
theorem C14_model_levels_are_table :
    (binToks.all fun t =>
      match binInfo t, tableLevel Generated.prophyPrecedence (tokName t) with
      | some (lvl, rightAssoc, _), some (n, a) => lvl == n && a == "left" && !rightAssoc
      | _, _ => false) = true
    ∧ tableLevel Generated.prophyPrecedence "UMINUS" = some (4, "right")
    ∧ tableLevel Generated.calcPrecedence "|" = none := by decide

/-- which Python operator the binop actions apply: `/` is floor division in both evaluators,
    and both apply the same operator to every symbol they share -/
theorem C14_binop_actions_integer :
    Generated.prophyBinops = [("*", "mul"), ("+", "add"), ("-", "sub"), ("/", "floordiv"), ("<<", "lshift"), (">>", "rshift")]
    ∧ Generated.calcBinops = Generated.prophyBinops ++ [("|", "or")] := by decide

/-- `/` denotes the integer quotient for non-negative operands and a non-zero divisor -/
theorem C14_div_is_integer_quotient (a b : Nat) (hb : 0 < b) :
    rawBinop .div (a : Int) (b : Int) = .ok (((a / b : Nat) : Int)) := by
  unfold rawBinop
  have h0 : ¬ ((b : Int) = 0) := by omega
  simp only [h0, if_false]
  congr 1
  exact Int.fdiv_eq_ediv_of_nonneg _ (by omega)

/-- `<<` multiplies by a power of two, for every left operand (also negative) -/
theorem C14_shl_is_mul (a : Int) (k : Nat) : rawBinop .shl a (k : Int) = .ok (a * (2 ^ k : Nat)) := by
  unfold rawBinop
  have : ¬ ((k : Int) < 0) := by omega
  simp [this]

/-- the evaluators return the plain integer result whenever it fits (-2^64, 2^64) and shift counts
    are at most 64; otherwise they report it - never a wrapped or approximate value -/
theorem C14_binop_exact_or_reported (op : BinOp) (a b v : Int) (h : binop op a b = .ok v) :
    rawBinop op a b = .ok v ∧ inRange64 v = true := by
  unfold binop at h
  split at h
  · cases h
  · cases hr : rawBinop op a b with
    | error e => simp [hr] at h
    | ok w =>
      simp only [hr] at h
      split at h
      · rename_i hin
        injection h with h
        subst h
        exact ⟨rfl, hin⟩
      · cases h

/-- the value of an expression does not depend on how it was parenthesised or spaced:
    it is a function of the tree (trivial by construction, stated for the record) and the
    evaluation never produces anything but an integer or one of the three designed errors -/
theorem C14_eval_total (env : String → Option Int) (e : Ast) :
    (∃ v, eval env e = .ok v) ∨ (∃ x, eval env e = .error x) := by
  cases h : eval env e with
  | ok v => exact Or.inl ⟨v, rfl⟩
  | error x => exact Or.inr ⟨x, rfl⟩

def evalsTo (toks : List Tok) (v : Int) : Bool :=
  match parse toks with
  | some e => match eval (fun _ => none) e with
    | .ok x => x == v
    | .error _ => false
  | none => false

/-- documentation example of docs/schema.rst: `(MyEnum_1 + MyEnum_2) << 2` with 1 and 2 -/
example : evalsTo [.lpar, .num 1, .plus, .num 2, .rpar, .shl, .num 2] 12 = true := by decide
/-- shift binds tighter than `*`, `*` tighter than `+` (the language's precedence): `1 + 2 * 3 << 1` -/
example : evalsTo [.num 1, .plus, .num 2, .star, .num 3, .shl, .num 1] 13 = true := by decide
/-- unary minus binds tighter than every binary operator: `-2 << 1 + 3` -/
example : evalsTo [.minus, .num 2, .shl, .num 1, .plus, .num 3] (-1) = true := by decide


/-- every constant the prophy parser accepts is representable in the generated C++ (`enum { K = v }` with an
    `int64_t` or, with the `u` suffix `_to_literal` adds to positive numbers, a `uint64_t` enumerator) as the same integer -/
theorem C14_constant_fits_64_bits (env : String → Option Int) (s : String) (v : Int)
    (h : constText env s = .value v) :
    (-((2 ^ 63 : Nat) : Int) ≤ v ∧ v < ((2 ^ 63 : Nat) : Int)) ∨ (0 < v ∧ v < ((2 ^ 64 : Nat) : Int)) := by
  unfold constText at h
  split at h
  · rename_i w _
    split at h
    · rename_i hc
      injection h with h
      subst h
      simp only [constOk, Bool.and_eq_true, decide_eq_true_eq] at hc
      omega
    · cases h
  · rename_i o hne
    cases o <;> first | (exact absurd rfl (hne _)) | skip
    all_goals (first | cases h | skip)
    all_goals simp_all

/-- the parser's language is exactly "the tree written with the parentheses the precedence table
    requires, plus any redundant ones" (`Rep 0`): levels 1 `+ -`, 2 `* /`, 3 `<< >>`, unary minus
    above, left-associative; so every text denotes at most one tree -/
theorem C14_parser_language (t : List Tok) (a : Ast) : parse t = some a ↔ Rep 0 a t := parse_iff_rep t a

theorem C14_one_tree_per_text (t : List Tok) (a b : Ast) (ha : parse t = some a) (hb : parse t = some b) : a = b := by
  rw [ha] at hb; injection hb

/-- printing a tree with minimal or with full parentheses and parsing it back gives the tree:
    grouping and redundant parentheses never change the value -/
theorem C14_parse_print (a : Ast) : parse (toks a) = some a ∧ parse (toksFull a) = some a :=
  ⟨parse_toks a trivial, parse_toksFull a trivial⟩

theorem C14_grouping_irrelevant (env : String → Option Int) (a : Ast) :
    evalToks env (toks a) = evalToks env (toksFull a) := eval_grouping env a trivial

/-- texts with the same tokens (spacing, comments of the lexer) have the same outcome -/
theorem C14_spacing_irrelevant (octal : Bool) (env : String → Option Int) (s₁ s₂ : String)
    (h : tokenize octal s₁ = tokenize octal s₂) : evalText octal env s₁ = evalText octal env s₂ :=
  evalText_spacing octal env s₁ s₂ h

end Prophy.C14

/-
  C14, character level: the two lexers of constant expressions (`octal = true`: the prophy-language lexer,
  `octal = false`: prophyc/calc.py) on the TEXT.  The token-level theorems (Properties/C14.lean,
  Properties/C14Host.lean) start from token lists; these start from characters.
-/
import ProphyModel.Expr
import ProphyModel.Lemmas.ExprLex
namespace Prophy.C14
open Prophy Prophy.Expr

/-! ### 1. the two lexers agree away from leading-zero literals

`hasLeadingZero cs` is defined on the text alone (`Lemmas/ExprLex.lean`, `hlz`): the regular expression
`(?<![A-Za-z0-9_])0[0-9]` matches somewhere.  The statement of the task is true as given: `0x..` never
triggers it wrongly because the hex run swallows every decimal digit, identifiers swallow their digits, and a
decimal run swallows its zeros, so a `'0'` at a token start is never preceded by an identifier character. -/

example : hasLeadingZero "010".toList = true := by decide
example : hasLeadingZero "1 + 08".toList = true := by decide
example : hasLeadingZero "100 + a00 + 0x00 + 0 + x_01".toList = false := by decide

theorem C14_lexers_agree (cs : List Char) (n : Nat) (h : hasLeadingZero cs = false) :
    lex true n cs = lex false n cs :=
  lex_agree n cs h

theorem C14_tokenize_agree (s : String) (h : hasLeadingZero s.toList = false) :
    tokenize true s = tokenize false s :=
  lex_agree _ _ h

/-- the exact relation of the two outcomes on a text without leading-zero literal: the prophy-language
    evaluator refuses `|`, otherwise both give the same outcome -/
theorem C14_evalText_relation (env : String → Option Int) (s : String) (h : hasLeadingZero s.toList = false) :
    evalText true env s =
      match tokenize false s with
      | none => .syntaxError
      | some t => if t.contains .bar then .syntaxError else evalText false env s := by
  unfold evalText
  rw [C14_tokenize_agree s h]
  cases tokenize false s with
  | none => rfl
  | some t =>
    simp

theorem C14_evalText_agree (env : String → Option Int) (s : String) (h : hasLeadingZero s.toList = false)
    (hb : ∀ t, tokenize false s = some t → ¬ t.contains .bar) :
    evalText true env s = evalText false env s := by
  rw [C14_evalText_relation env s h]
  cases ht : tokenize false s with
  | none => simp [evalText, ht]
  | some t =>
    show (if t.contains Tok.bar = true then _ else _) = _
    rw [if_neg (hb t ht)]

/-- a `|` token comes from a `|` character -/
theorem C14_bar_token_from_bar_char (octal : Bool) (s : String) (t : List Tok) (h : tokenize octal s = some t)
    (hb : '|' ∉ s.toList) : ¬ t.contains .bar := by
  have := lex_no_bar octal _ _ t h hb
  simpa using this

/-- on a text without `|` and without leading-zero literal the parse-time evaluator and calc agree -/
theorem C14_evalText_agree_text (env : String → Option Int) (s : String)
    (h : hasLeadingZero s.toList = false) (hb : '|' ∉ s.toList) :
    evalText true env s = evalText false env s :=
  C14_evalText_agree env s h (fun t ht => C14_bar_token_from_bar_char false s t ht hb)

/-! ### 2. a leading-zero literal is where they differ -/

example : tokenize true "010" = some [.num 8] := by decide
example : tokenize false "010" = some [.num 10] := by decide
example : tokenize true "08" = none := by decide
example : tokenize false "08" = some [.num 8] := by decide
example : tokenize true "0" = some [.num 0] ∧ tokenize false "0" = some [.num 0] := by decide
example : tokenize true "0x10" = some [.num 16] ∧ tokenize false "0x10" = some [.num 16] := by decide

/-- `'0'` followed by one or more decimal digits, standing alone: base 8 (an error when a digit 8 or 9
    occurs) for the prophy-language lexer, base 10 for calc -/
theorem C14_leading_zero_literal (ds : List Char) (hne : ds ≠ []) (hd : ∀ d ∈ ds, d.isDigit = true) (n : Nat) :
    lex true (n + 2) ('0' :: ds) =
      (if ('0' :: ds).all (fun d => decide ('0' ≤ d ∧ d ≤ '7')) then some [Tok.num (digitsVal 8 ('0' :: ds))]
       else none) ∧
    lex false (n + 2) ('0' :: ds) = some [Tok.num (digitsVal 10 ('0' :: ds))] :=
  lex_leading_zero ds hne hd n

/-! ### 3. ASCII only -/

/-- `Char.isDigit`, `Char.isAlpha`, `Char.isAlphanum` of core Lean are ASCII predicates, so are the
    identifier and hex-digit classes of the lexer -/
theorem C14_classes_ascii (c : Char) :
    (c.isDigit = true → c.val < 128) ∧ (isIdChar c = true → c.val < 128) ∧
    ((hexVal? c).isSome = true → c.val < 128) :=
  ⟨isDigit_ascii_p22 c, isIdChar_ascii_p22 c, hex_ascii_p22 c⟩

theorem C14_lex_ascii (octal : Bool) (s : String) (t : List Tok) (h : tokenize octal s = some t) :
    ∀ c ∈ s.toList, c.val < 128 :=
  lex_ascii octal _ _ t h

/-- e.g. an Arabic-Indic digit or a fullwidth digit is a lexical error for both lexers -/
example : tokenize true "١" = none ∧ tokenize false "１" = none := by decide

/-! ### 4. the fuel is enough -/

theorem C14_lex_fuel (octal : Bool) (n m : Nat) (cs : List Char) (hn : cs.length < n) (hm : cs.length < m) :
    lex octal n cs = lex octal m cs :=
  lex_fuel octal n m cs hn hm

theorem C14_tokenize_fuel (octal : Bool) (s : String) (n : Nat) (hn : s.length < n) :
    tokenize octal s = lex octal n s.toList := by
  unfold tokenize
  apply lex_fuel
  · rw [String.length_toList]; omega
  · rw [String.length_toList]; exact hn

/-- `none` from `tokenize` is a lexical error: no amount of fuel makes the text lexable -/
theorem C14_tokenize_none_is_error (octal : Bool) (s : String) (h : tokenize octal s = none) (n : Nat) :
    lex octal n s.toList = none :=
  lex_none_any_fuel octal (s.length + 1) s.toList (by rw [String.length_toList]; omega) h n

/-! ### 5. spacing (first part): blanks and tabs are skipped -/

theorem C14_blank_skipped (octal : Bool) (n m : Nat) (c : Char) (cs : List Char) (h : c = ' ' ∨ c = '\t')
    (hn : cs.length + 1 < n) (hm : cs.length < m) : lex octal n (c :: cs) = lex octal m cs :=
  lex_blank octal n m c cs h hn hm

theorem C14_leading_blank (octal : Bool) (s : String) : tokenize octal (" " ++ s) = tokenize octal s := by
  unfold tokenize
  rw [String.toList_append]
  have e : " ".toList = [' '] := rfl
  rw [e]
  apply lex_blank octal _ _ ' ' s.toList (Or.inl rfl)
  · rw [String.length_append, String.length_toList]
    have : " ".length = 1 := rfl
    omega
  · rw [String.length_toList]; omega

/-! ### 5. spacing (second part): lexer / printer round trip

`Tok.text` prints a token (numbers in decimal, `Nat.repr`; identifiers as they are; `<<`, `>>`, single
characters); `Tok.valid` says an identifier token holds an identifier `[A-Za-z_][A-Za-z0-9_]*`. -/

example : (" ".intercalate ([Tok.num 10, .shl, .ident "a_1", .plus, .num 0].map Tok.text)) = "10 << a_1 + 0" := by
  decide

/-- printing tokens with one blank between them and lexing again gives the tokens back (both lexers) -/
theorem C14_lex_print_round_trip (octal : Bool) (ts : List Tok) (hv : ∀ t ∈ ts, t.valid) :
    tokenize octal (" ".intercalate (ts.map Tok.text)) = some ts :=
  tokenize_spaced octal ts hv

/-- the tokens the lexer produces are valid -/
theorem C14_lexed_tokens_valid (octal : Bool) (s : String) (ts : List Tok) (h : tokenize octal s = some ts) :
    ∀ t ∈ ts, t.valid :=
  lex_valid octal _ _ ts h

/-- every lexable text has the same tokens as its normal form (its tokens, numbers in decimal, separated by
    single blanks): putting a blank between any two tokens, or removing the blanks and tabs there and putting
    one blank, never changes the token list - hence (`C14_spacing_irrelevant`) never the outcome -/
theorem C14_spacing_normal_form (octal : Bool) (s : String) (ts : List Tok) (h : tokenize octal s = some ts) :
    tokenize octal (" ".intercalate (ts.map Tok.text)) = some ts :=
  tokenize_normal_form octal s ts h

theorem C14_spacing_normal_form_outcome (octal : Bool) (env : String → Option Int) (s : String) (ts : List Tok)
    (h : tokenize octal s = some ts) :
    evalText octal env (" ".intercalate (ts.map Tok.text)) = evalText octal env s := by
  unfold evalText
  rw [C14_spacing_normal_form octal s ts h, h]

end Prophy.C14

#print axioms Prophy.C14.C14_lexers_agree
#print axioms Prophy.C14.C14_tokenize_agree
#print axioms Prophy.C14.C14_evalText_relation
#print axioms Prophy.C14.C14_evalText_agree
#print axioms Prophy.C14.C14_bar_token_from_bar_char
#print axioms Prophy.C14.C14_evalText_agree_text
#print axioms Prophy.C14.C14_leading_zero_literal
#print axioms Prophy.C14.C14_classes_ascii
#print axioms Prophy.C14.C14_lex_ascii
#print axioms Prophy.C14.C14_lex_fuel
#print axioms Prophy.C14.C14_tokenize_fuel
#print axioms Prophy.C14.C14_tokenize_none_is_error
#print axioms Prophy.C14.C14_blank_skipped
#print axioms Prophy.C14.C14_leading_blank
#print axioms Prophy.C14.C14_lex_print_round_trip
#print axioms Prophy.C14.C14_lexed_tokens_valid
#print axioms Prophy.C14.C14_spacing_normal_form
#print axioms Prophy.C14.C14_spacing_normal_form_outcome

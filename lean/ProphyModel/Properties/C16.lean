/-
  C16 - Multi-file schemas with includes equal their single-file concatenation.
  C20 - (shares the model) prophyc output is a deterministic function of its inputs.
-/
import ProphyModel.Files
import ProphyModel.Lemmas.FilesOrder
namespace Prophy.C16
open Prophy Prophy.Files

/-- a file that is being processed (cycle marker in the cache) is reported as a cyclic include,
    whatever the file system, search path and fuel -/
theorem C16_cycle_is_error (fs : List File) (fuel : Nat) (dirs : List String) (cache : Cache) (f : FileId)
    (h : cache.lookup f = some none) : processFile fs fuel dirs cache f = .error (.cyclic f) := by
  cases fuel with
  | zero => simp [processFile]
  | succ n => simp [processFile, h]

/-- an include that is found in none of the search directories is an error, never dropped -/
theorem C16_missing_is_error (fs : List File) (fuel : Nat) (dirs : List String) (cache : Cache)
    (leaf : String) (rest : List String) (h : findLeaf fs leaf dirs = none) :
    processIncludes fs fuel dirs cache (leaf :: rest) = .error (.notFound leaf) := by
  cases fuel with
  | zero => simp [processIncludes]
  | succ n => simp [processIncludes, h]

/-- a file already processed is not parsed again and exports exactly what it exported the first time -/
theorem C16_cached_not_reparsed (fs : List File) (fuel : Nat) (dirs : List String) (cache : Cache) (f : FileId)
    (r : Result) (h : cache.lookup f = some (some r)) :
    processFile fs (fuel + 1) dirs cache f = .ok ({ r with parsed := [] }, cache) := by
  simp [processFile, h]

/-- the names visible in a file are its direct includes' definitions, in include order, followed
    by its own: what the concatenation of the included files followed by the file defines -/
theorem C16_visible_is_concatenation (fs : List File) (fuel : Nat) (dirs : List String) (cache cache' : Cache)
    (f : FileId) (file : File) (r : Result)
    (hc : cache.lookup f = none) (hf : lookupFile fs f = some file)
    (h : processFile fs (fuel + 1) dirs cache f = .ok (r, cache')) :
    ∃ vis parsed c1, processIncludes fs fuel dirs ((f, none) :: cache) file.includes = .ok (vis, parsed, c1)
      ∧ r.visible = vis ++ file.defines ∧ r.exports = file.defines := by
  simp only [processFile, hc, hf] at h
  cases hi : processIncludes fs fuel dirs ((f, none) :: cache) file.includes with
  | error e => simp [hi] at h
  | ok res =>
    obtain ⟨vis, parsed, c1⟩ := res
    simp only [hi] at h
    injection h with h
    injection h with h1 h2
    subst h1
    exact ⟨vis, parsed, c1, rfl, rfl, rfl⟩

/-- non-vacuity: a diamond (main includes a and b, both include base) over two directories -/
def exFs : List File := [
  ⟨⟨"/p", "main"⟩, ["a", "b"], ["M"]⟩, ⟨⟨"/p/i1", "a"⟩, ["base"], ["A"]⟩,
  ⟨⟨"/p/i2", "b"⟩, ["base"], ["B"]⟩, ⟨⟨"/p/i2", "base"⟩, [], ["K"]⟩]
example : (match processMains exFs ["/p/i1", "/p/i2"] [⟨"/p", "main"⟩] [] with
    | .ok [(_, r)] => r.visible == ["A", "B", "M"] && r.parsed.map (·.leaf) == ["main", "a", "base", "b"]
    | _ => false) = true := by decide


/-- FULL STATEMENT (model level): in one prophyc run no file is parsed twice, whatever the include
    graph and the inputs (diamonds, repeated includes, files that are both inputs and includes) -/
theorem C16_parsed_once (fs : List File) (inc : List String) (ms : List FileId) (cache : Cache)
    (rs : List (FileId × Result)) (h : processMains fs inc ms cache = .ok rs) :
    (rs.flatMap (·.2.parsed)).Nodup := parsed_once_p15 fs inc ms cache rs h

/-- what a file exports and sees does not depend on what was processed before it: with any cache
    whose finished entries are correct, the result is that of a fresh run -/
theorem C16_cache_irrelevant (fs : List File) (inc : List String) (cache : Cache) (f : FileId) (n n0 : Nat)
    (r r0 : Result) (c' c0 : Cache) (hs : Cache.sound_p15 fs inc cache)
    (h : processFile fs n (f.dir :: inc) cache f = .ok (r, c'))
    (h0 : processFile fs n0 (f.dir :: inc) [] f = .ok (r0, c0)) :
    r.exports = r0.exports ∧ r.visible = r0.visible :=
  let ⟨a, b, _, _⟩ := processFile_cache_irrelevant_p15 hs h h0; ⟨a, b⟩

/-- every acyclic include graph whose includes all resolve compiles (the rank is weighted by the
    position of the include: the model spends fuel per include as well as per level; the real code
    has no such bound) -/
theorem C16_acyclic_succeeds (fs : List File) (inc : List String) (R : FileId → Prop) (rank : FileId → Nat)
    (hR : Ranked_p15 fs inc R rank) (ms : List FileId)
    (hms : ∀ f ∈ ms, R f ∧ rank f < 4 * fs.length + 4) : ∃ rs, processMains fs inc ms [] = .ok rs :=
  processMains_success_p15 fs inc R rank hR ms hms

/-- C20 (determinism, model level): for two runs over the same files whose input lists are
    permutations of each other, every input file gets the same exports and the same visible names -
    the order of the command line does not matter -/
theorem C20_order_independent (fs : List File) (inc : List String) (ms ms' : List FileId)
    (rs rs' : List (FileId × Result))
    (h : processMains fs inc ms [] = .ok rs) (h' : processMains fs inc ms' [] = .ok rs') (hperm : ms.Perm ms') :
    ∀ f r r', (f, r) ∈ rs → (f, r') ∈ rs' → r.exports = r'.exports ∧ r.visible = r'.visible :=
  order_independent_p15 fs inc ms ms' rs rs' h h' hperm

end Prophy.C16

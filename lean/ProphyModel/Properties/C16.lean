/-
  C16 - Multi-file schemas with includes equal their single-file concatenation.
  C20 - (shares the model) prophyc output is a deterministic function of its inputs.
-/
import ProphyModel.Files
namespace Prophy.C16
open Prophy Prophy.Files

/-- a file that is being processed (cycle marker in the cache) is reported as a cyclic include,
    whatever the file system, search path and fuel -/
theorem C16_cycle_is_error (fs : List File) (fuel : Nat) (dirs : List String) (cache : Cache) (f : FileId)
    (h : cache.lookup f = some none) : processFile fs fuel dirs cache f = .error (.cyclic f) := by
  cases fuel with
  | zero => simp [processFile]
  | succ n => simp [processFile, h]

/-- an include that is found in none of the search directories is an error, never dropped -/
theorem C16_missing_is_error (fs : List File) (fuel : Nat) (dirs : List String) (cache : Cache)
    (leaf : String) (rest : List String) (h : findLeaf fs leaf dirs = none) :
    processIncludes fs fuel dirs cache (leaf :: rest) = .error (.notFound leaf) := by
  cases fuel with
  | zero => simp [processIncludes]
  | succ n => simp [processIncludes, h]

/-- a file already processed is not parsed again and exports exactly what it exported the first time -/
theorem C16_cached_not_reparsed (fs : List File) (fuel : Nat) (dirs : List String) (cache : Cache) (f : FileId)
    (r : Result) (h : cache.lookup f = some (some r)) :
    processFile fs (fuel + 1) dirs cache f = .ok ({ r with parsed := [] }, cache) := by
  simp [processFile, h]

/-- the names visible in a file are its direct includes' definitions, in include order, followed
    by its own: what the concatenation of the included files followed by the file defines -/
theorem C16_visible_is_concatenation (fs : List File) (fuel : Nat) (dirs : List String) (cache cache' : Cache)
    (f : FileId) (file : File) (r : Result)
    (hc : cache.lookup f = none) (hf : lookupFile fs f = some file)
    (h : processFile fs (fuel + 1) dirs cache f = .ok (r, cache')) :
    ∃ vis parsed c1, processIncludes fs fuel dirs ((f, none) :: cache) file.includes = .ok (vis, parsed, c1)
      ∧ r.visible = vis ++ file.defines ∧ r.exports = file.defines := by
  simp only [processFile, hc, hf] at h
  cases hi : processIncludes fs fuel dirs ((f, none) :: cache) file.includes with
  | error e => simp [hi] at h
  | ok res =>
    obtain ⟨vis, parsed, c1⟩ := res
    simp only [hi] at h
    injection h with h
    injection h with h1 h2
    subst h1
    exact ⟨vis, parsed, c1, rfl, rfl, rfl⟩

/-- non-vacuity: a diamond (main includes a and b, both include base) over two directories -/
def exFs : List File := [
  ⟨⟨"/p", "main"⟩, ["a", "b"], ["M"]⟩, ⟨⟨"/p/i1", "a"⟩, ["base"], ["A"]⟩,
  ⟨⟨"/p/i2", "b"⟩, ["base"], ["B"]⟩, ⟨⟨"/p/i2", "base"⟩, [], ["K"]⟩]
example : (match processMains exFs ["/p/i1", "/p/i2"] [⟨"/p", "main"⟩] [] with
    | .ok [(_, r)] => r.visible == ["A", "B", "M"] && r.parsed.map (·.leaf) == ["main", "a", "base", "b"]
    | _ => false) = true := by decide

end Prophy.C16

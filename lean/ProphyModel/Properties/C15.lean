/-
  C15 - Definition order does not matter: output is dependency-ordered and complete.

  Theorems about the model of topological_sort (ProphyModel/Topo.lean), for EVERY node
  list (any size, any dependency shape, duplicates included, Include nodes anywhere):
    * whatever the sort returns is a permutation of its input (every node exactly once);
    * whatever it returns is dependency-ordered: each node comes after every definition it
      depends on (dependencies on builtins and on names not defined in the input are
      ignored, as the code does; an Include node defines nothing);
    * it always returns or reports a cycle (total by construction: the rotation bound);
    * Include nodes written first stay first and do not influence the order of the definitions
      (`C15_includes_inert`), which needs that the rotation bound `len(nodes) + 1` is never the
      reason of a failure that a larger bound would avoid (`settle_fuel`).
-/
import ProphyModel.Topo
namespace Prophy.C15
open Prophy Prophy.Topo

theorem moveFront_perm : ∀ (l : List TNode) (k : Nat), (moveFront l k).Perm l
  | [], _ => by simp [moveFront]
  | x :: r, 0 => by simp [moveFront]
  | x :: r, k + 1 => by
    have ih := moveFront_perm r k
    simp only [moveFront]
    cases h : moveFront r k with
    | nil =>
      rw [h] at ih
      have : r = [] := List.Perm.eq_nil (ih.symm)
      subst this; simp
    | cons y r' =>
      rw [h] at ih
      exact (List.Perm.swap x y r').trans (List.Perm.cons x ih)

theorem settle_perm (known available : List String) :
    ∀ (fuel : Nat) (s r : List TNode), settle known available fuel s = some r → r.Perm s
  | 0, _, _, h => by simp [settle] at h
  | fuel + 1, s, r, h => by
    simp only [settle] at h
    split at h
    · injection h with h; subst h; exact List.Perm.refl _
    · rename_i s' hrot
      have ih := settle_perm known available fuel s' r h
      unfold rotate at hrot
      cases s with
      | nil => simp at hrot
      | cons node rest =>
        simp only at hrot
        split at hrot
        · simp at hrot
        · split at hrot
          · injection hrot with hrot; subst hrot
            exact ih.trans (moveFront_perm _ _)
          · simp at hrot
    · exact settle_perm known available fuel s r h

theorem sortFrom_perm (total : Nat) (available : List String) :
    ∀ (k : Nat) (s : List TNode) (known : List String) (r : List TNode),
      sortFrom total available k s known = some r → r.Perm s
  | 0, s, _, r, h => by simp [sortFrom] at h; subst h; exact List.Perm.refl _
  | k + 1, s, known, r, h => by
    simp only [sortFrom] at h
    split at h
    · simp at h
    · rename_i hs
      injection h with h; subst h
      exact settle_perm _ _ _ _ _ hs
    · rename_i m r' hs
      cases hrec : sortFrom total available k r' (if m.incl then known else m.name :: known) with
      | none => simp [hrec] at h
      | some t =>
        simp [hrec] at h; subst h
        have ih := sortFrom_perm total available k r' _ t hrec
        exact (List.Perm.cons m ih).trans (settle_perm _ _ _ _ _ hs)

/-- every node is listed exactly once: the output is a permutation of the input -/
theorem C15_sort_permutation (g r : List TNode) (h : sort g = some r) : r.Perm g :=
  sortFrom_perm _ _ _ _ _ _ h

/-- `r` is dependency-ordered relative to the names already `known`: every available
    dependency of a node is known or defined earlier in `r`.  As in `sortFrom`
    (`if not isinstance(node, Include): known.add(node.name)`) an Include node adds nothing
    to `known`. -/
def Ordered (available : List String) : List String → List TNode → Prop
  | _, [] => True
  | known, n :: r =>
    (∀ d ∈ n.deps, available.contains d = true → known.contains d = true) ∧
      Ordered available (if n.incl then known else n.name :: known) r

theorem settle_done (known available : List String) :
    ∀ (fuel : Nat) (s : List TNode) (m : TNode) (r : List TNode),
      settle known available fuel s = some (m :: r) →
      ∀ d ∈ m.deps, available.contains d = true → known.contains d = true
  | 0, _, _, _, h => by simp [settle] at h
  | fuel + 1, s, m, r, h => by
    simp only [settle] at h
    split at h
    · rename_i hrot
      injection h with h; subst h
      unfold rotate at hrot
      simp only at hrot
      split at hrot
      · rename_i hfind
        intro d hd hav
        have := List.find?_eq_none.1 hfind d hd
        simp only [Bool.and_eq_true, Bool.not_eq_true', not_and, Bool.not_eq_true] at this
        by_cases hk : known.contains d = true
        · exact hk
        · have hk' : known.contains d = false := by simpa using hk
          have := this hk'
          rw [hav] at this; cases this
      · split at hrot <;> simp at hrot
    · exact settle_done known available fuel _ m r h
    · exact settle_done known available fuel s m r h

theorem sortFrom_ordered (total : Nat) (available : List String) :
    ∀ (k : Nat) (s : List TNode) (known : List String) (r : List TNode),
      s.length ≤ k → sortFrom total available k s known = some r → Ordered available known r
  | 0, s, _, r, hk, h => by
    simp [sortFrom] at h; subst h
    have : s = [] := List.eq_nil_of_length_eq_zero (by omega)
    subst this; trivial
  | k + 1, s, known, r, hk, h => by
    simp only [sortFrom] at h
    split at h
    · simp at h
    · injection h with h; subst h; trivial
    · rename_i m r' hs
      cases hrec : sortFrom total available k r' (if m.incl then known else m.name :: known) with
      | none => simp [hrec] at h
      | some t =>
        simp [hrec] at h; subst h
        have hlen : (m :: r').length = s.length := (settle_perm _ _ _ _ _ hs).length_eq
        refine ⟨settle_done _ _ _ _ _ _ hs, ?_⟩
        exact sortFrom_ordered total available k r' _ t (by simp at hlen; omega) hrec

/-- the output is dependency-ordered: each node comes after everything it depends on
    (among the builtins and the names of the non-Include nodes of the input) -/
theorem C15_sort_ordered (g r : List TNode) (h : sort g = some r) :
    Ordered (availableOf g) builtins r :=
  sortFrom_ordered _ _ _ _ _ _ (Nat.le_refl _) h

/-! ### the ordering statement about definitions only -/

theorem mem_availableOf {g : List TNode} {d : String} :
    d ∈ availableOf g ↔ ∃ m ∈ g, m.incl = false ∧ m.name = d := by
  simp [availableOf, and_assoc]

/-- `Ordered`, unfolded at one place of the list: an available dependency of the node at that
    place is known from the start or is the name of a non-Include node standing before it -/
theorem Ordered.split (available : List String) :
    ∀ (pre : List TNode) (known : List String) (n : TNode) (post : List TNode),
      Ordered available known (pre ++ n :: post) →
      ∀ d ∈ n.deps, available.contains d = true →
        known.contains d = true ∨ ∃ m ∈ pre, m.incl = false ∧ m.name = d
  | [], _, _, _, h, d, hd, ha => Or.inl (h.1 d hd ha)
  | m :: pre, known, n, post, h, d, hd, ha => by
    have ih := Ordered.split available pre _ n post h.2 d hd ha
    rcases ih with hk | ⟨x, hx, hx'⟩
    · by_cases hm : m.incl = true
      · simp only [hm, if_true] at hk; exact Or.inl hk
      · have hm' : m.incl = false := by simpa using hm
        simp only [hm', Bool.false_eq_true, if_false, List.contains_cons, Bool.or_eq_true,
          beq_iff_eq] at hk
        rcases hk with hk | hk
        · exact Or.inr ⟨m, by simp, hm', hk.symm⟩
        · exact Or.inl hk
    · exact Or.inr ⟨x, List.mem_cons_of_mem _ hx, hx'⟩

/-- the simple form, about EVERY node of the result (Include or not): each dependency that is the
    name of a definition of the input and no builtin is the name of a definition (a non-Include node)
    standing strictly earlier in the result -/
theorem C15_sort_ordered_nodes (g r : List TNode) (h : sort g = some r)
    (pre post : List TNode) (n : TNode) (hr : r = pre ++ n :: post)
    (d : String) (hd : d ∈ n.deps) (hdef : d ∈ availableOf g) (hb : d ∉ builtins) :
    ∃ m ∈ pre, m.incl = false ∧ m.name = d := by
  have ho := C15_sort_ordered g r h
  rw [hr] at ho
  rcases Ordered.split _ pre builtins n post ho d hd (by simpa using hdef) with hk | hm
  · exact absurd (by simpa using hk) hb
  · exact hm

/-- THE READABLE FORM: when the sort succeeds, every definition `n` of the result (at any of its
    places: `r = pre ++ n :: post`) comes after each of its dependencies `d` that is the name of a
    definition (non-Include node) of the input and is no builtin: a non-Include node named `d`
    stands in `pre`, i.e. STRICTLY earlier.  This also holds for `d = n.name`: a definition that
    depends on its own name is only sorted (and not reported as a cycle) when ANOTHER definition of
    that name stands before it, which needs a duplicated name (see `C15_sort_no_self_dependency`). -/
theorem C15_sort_ordered_definitions (g r : List TNode) (h : sort g = some r)
    (pre post : List TNode) (n : TNode) (hr : r = pre ++ n :: post) (_hn : n.incl = false)
    (d : String) (hd : d ∈ n.deps)
    (hdef : ∃ m ∈ g, m.incl = false ∧ m.name = d) (hb : d ∉ builtins) :
    ∃ m ∈ pre, m.incl = false ∧ m.name = d :=
  C15_sort_ordered_nodes g r h pre post n hr d hd (mem_availableOf.2 hdef) hb

/-- the same with positions: the definition at position `i` of the result has each such dependency
    defined at a position `j < i` -/
theorem C15_sort_ordered_definitions_idx (g r : List TNode) (h : sort g = some r)
    (i : Nat) (hi : i < r.length) (_hn : r[i].incl = false)
    (d : String) (hd : d ∈ r[i].deps)
    (hdef : ∃ m ∈ g, m.incl = false ∧ m.name = d) (hb : d ∉ builtins) :
    ∃ (j : Nat) (hj : j < i), (r[j]'(Nat.lt_trans hj hi)).incl = false ∧ (r[j]'(Nat.lt_trans hj hi)).name = d := by
  have hr : r = r.take i ++ r[i] :: r.drop (i + 1) := by
    rw [List.getElem_cons_drop, List.take_append_drop]
  obtain ⟨m, hm, hm'⟩ := C15_sort_ordered_definitions g r h _ _ _ hr _hn d hd hdef hb
  obtain ⟨j, hj, hjm⟩ := List.mem_take_iff_getElem.1 hm
  have hji : j < i := by omega
  exact ⟨j, hji, by rw [hjm]; exact hm'⟩

theorem availableOf_perm {a b : List TNode} (h : a.Perm b) : (availableOf a).Perm (availableOf b) :=
  (h.filter _).map _

/-- with distinct definition names a sorted definition never depends on its own name
    (such an input is reported as a cycle) -/
theorem C15_sort_no_self_dependency (g r : List TNode) (h : sort g = some r)
    (hnd : (availableOf g).Nodup) (n : TNode) (hn : n ∈ r) (hi : n.incl = false)
    (hb : n.name ∉ builtins) : n.name ∉ n.deps := by
  intro hd
  obtain ⟨pre, post, hr⟩ := List.append_of_mem hn
  have hp := C15_sort_permutation g r h
  have hng : n ∈ g := hp.mem_iff.1 hn
  obtain ⟨m, hm, hmi, hmn⟩ := C15_sort_ordered_definitions g r h pre post n hr hi n.name hd
    ⟨n, hng, hi, rfl⟩ hb
  have hnd' : (availableOf r).Nodup := (availableOf_perm hp).nodup_iff.2 hnd
  rw [hr] at hnd'
  simp only [availableOf, List.filter_append, List.filter_cons, hi, Bool.not_false, if_true,
    List.map_append, List.map_cons] at hnd'
  have := (List.nodup_append.1 hnd').2.2 n.name
    (List.mem_map.2 ⟨m, List.mem_filter.2 ⟨hm, by simp [hmi]⟩, hmn⟩) n.name (by simp)
  exact this rfl

/-! ### the rotation bound never cuts a terminating settle short

  `settle` with ANY fuel that gives a result gives the same result with fuel `len(suffix)`:
  a terminating `while model_sort_rotate()` loop takes every node of the suffix to the front at most
  once.  (If the node found by `find_first_dep` is one that was already moved to the front at this
  position, the nodes moved so far depend on each other in a circle and the loop never ends.) -/

/-- the dependency `model_sort_rotate` acts on -/
def pick (known available : List String) (h : TNode) : Option String :=
  h.deps.find? (fun d => !known.contains d && available.contains d)

/-- what `find_first_dep` accepts -/
def isD (d : String) (y : TNode) : Bool := decide (y.name = d ∧ y.incl = false)

theorem rotate_cons (node : TNode) (rest : List TNode) (known available : List String) :
    rotate (node :: rest) known available =
      match pick known available node with
      | none => .done
      | some dep =>
        match findIdx dep rest with
        | some k => .moved (moveFront (node :: rest) (k + 1))
        | none => .stuck := rfl

theorem findIdx_append (d : String) : ∀ (a b : List TNode), findIdx d (a ++ b) =
    match findIdx d a with
    | some k => some k
    | none => (findIdx d b).map (· + a.length)
  | [], b => by simp [findIdx]
  | x :: a, b => by
    simp only [List.cons_append, findIdx]
    by_cases hx : x.name = d ∧ x.incl = false
    · simp [hx]
    · simp only [hx, if_false, findIdx_append d a b]
      cases findIdx d a with
      | some k => simp
      | none =>
        cases findIdx d b with
        | none => simp
        | some j => simp [Nat.add_assoc]

theorem findIdx_split (d : String) : ∀ (l : List TNode) (k : Nat), findIdx d l = some k →
    ∃ a y b, l = a ++ y :: b ∧ a.length = k ∧ isD d y = true
  | [], _, h => by simp [findIdx] at h
  | x :: l, k, h => by
    simp only [findIdx] at h
    by_cases hx : x.name = d ∧ x.incl = false
    · simp only [hx, and_self, if_true, Option.some.injEq] at h
      exact ⟨[], x, l, rfl, by simpa using h, by simp [isD, hx]⟩
    · simp only [hx, if_false, Option.map_eq_some_iff] at h
      obtain ⟨k', hk', hk⟩ := h
      obtain ⟨a, y, b, hl, ha, hy⟩ := findIdx_split d l k' hk'
      exact ⟨x :: a, y, b, by rw [hl]; rfl, by simp [ha, hk], hy⟩

theorem moveFront_split (y : TNode) (b : List TNode) :
    ∀ a : List TNode, moveFront (a ++ y :: b) a.length = y :: (a ++ b)
  | [] => by simp [moveFront]
  | x :: a => by
    simp only [List.cons_append, List.length_cons, moveFront, moveFront_split y b a]

theorem findIdx_some_of_countP (d : String) :
    ∀ l : List TNode, 0 < l.countP (isD d) → ∃ k, findIdx d l = some k
  | [], h => by simp at h
  | x :: l, h => by
    simp only [findIdx]
    by_cases hx : x.name = d ∧ x.incl = false
    · exact ⟨0, by simp [hx]⟩
    · have hx' : ¬ isD d x = true := by simp [isD, hx]
      rw [List.countP_cons_of_neg hx'] at h
      obtain ⟨k, hk⟩ := findIdx_some_of_countP d l h
      exact ⟨k + 1, by simp [hx, hk]⟩

theorem settle_nil (known available : List String) (fuel : Nat) :
    settle known available (fuel + 1) [] = some [] := by
  simp [settle, rotate]

theorem stuck_diverges (known available : List String) (s : List TNode)
    (h : rotate s known available = .stuck) : ∀ f, settle known available f s = none
  | 0 => rfl
  | f + 1 => by simp only [settle, h]; exact stuck_diverges known available s h f

/-- `h` (a node of `P`) has a dependency to act on that is the name of ANOTHER definition of `P` -/
def Pts (known available : List String) (P : List TNode) (h : TNode) : Prop :=
  ∃ d, pick known available h = some d ∧ (if isD d h = true then 1 else 0) < P.countP (isD d)

/-- a front part `P` of the suffix all of whose nodes wait for another node of `P`: the loop never ends -/
theorem closed_diverges (known available : List String) :
    ∀ (f : Nat) (P U : List TNode), P ≠ [] → (∀ h ∈ P, Pts known available P h) →
      settle known available f (P ++ U) = none
  | 0, _, _, _, _ => rfl
  | _ + 1, [], _, hne, _ => absurd rfl hne
  | f + 1, h :: b, U, _, hcl => by
    obtain ⟨d, hp, hc⟩ := hcl h (by simp)
    have hb : 0 < b.countP (isD d) := by
      rw [List.countP_cons] at hc
      split at hc <;> omega
    obtain ⟨k, hk⟩ := findIdx_some_of_countP d b hb
    obtain ⟨a, y, c, hb', hlen, hy⟩ := findIdx_split d b k hk
    subst hb'
    have hidx : findIdx d ((a ++ y :: c) ++ U) = some k := by rw [findIdx_append, hk]
    have hmv : moveFront (h :: ((a ++ y :: c) ++ U)) (k + 1) = (y :: h :: (a ++ c)) ++ U := by
      have := moveFront_split y (c ++ U) a
      simp only [moveFront, List.append_assoc, List.cons_append, ← hlen, this]
    simp only [List.cons_append, settle, rotate_cons, hp, hidx, hmv]
    apply closed_diverges known available f (y :: h :: (a ++ c)) U (by simp)
    have hperm : (y :: h :: (a ++ c)).Perm (h :: (a ++ y :: c)) :=
      (List.Perm.swap h y (a ++ c)).trans (List.Perm.cons h List.perm_middle.symm)
    intro x hx
    obtain ⟨d', hp', hc'⟩ := hcl x (hperm.mem_iff.1 hx)
    exact ⟨d', hp', by rw [hperm.countP_eq]; exact hc'⟩

/-- the suffix is `h :: older ++ U`: `older` are the nodes that were the head before at this position
    (each waits for another node of `h :: older`), `U` the nodes not moved yet.  A settle that ends
    needs no more than `len(U)` rotations. -/
theorem settle_fuel_aux (known available : List String) :
    ∀ (f f' : Nat) (h : TNode) (older U r : List TNode),
      (∀ x ∈ older, Pts known available (h :: older) x) →
      settle known available f ((h :: older) ++ U) = some r → U.length < f' →
      settle known available f' ((h :: older) ++ U) = some r
  | 0, _, _, _, _, _, _, hs, _ => by simp [settle] at hs
  | _ + 1, 0, _, _, _, _, _, _, hf => by omega
  | f + 1, f' + 1, h, older, U, r, hJ, hs, hf => by
    have hs0 := hs
    simp only [List.cons_append, settle, rotate_cons] at hs ⊢
    cases hp : pick known available h with
    | none => simp only [hp] at hs ⊢; exact hs
    | some d =>
      simp only [hp] at hs ⊢
      rw [findIdx_append] at hs ⊢
      cases ho : findIdx d older with
      | some k =>
        exfalso
        obtain ⟨a, y, c, hb', _, hy⟩ := findIdx_split d older k ho
        have hpos : 0 < older.countP (isD d) := by
          rw [hb', List.countP_append, List.countP_cons_of_pos hy]; omega
        have hcl : ∀ x ∈ h :: older, Pts known available (h :: older) x := by
          intro x hx
          rcases List.mem_cons.1 hx with rfl | hx
          · refine ⟨d, hp, ?_⟩
            rw [List.countP_cons]
            split <;> omega
          · exact hJ x hx
        rw [closed_diverges known available (f + 1) (h :: older) U (by simp) hcl] at hs0
        cases hs0
      | none =>
        simp only [ho] at hs ⊢
        cases hu : findIdx d U with
        | none =>
          exfalso
          have hst : rotate ((h :: older) ++ U) known available = .stuck := by
            simp only [List.cons_append, rotate_cons, hp, findIdx_append, ho, hu, Option.map_none]
          rw [stuck_diverges known available _ hst] at hs0
          cases hs0
        | some k =>
          obtain ⟨a, y, c, hU, hlen, hy⟩ := findIdx_split d U k hu
          subst hU
          have hmv : moveFront (h :: (older ++ (a ++ y :: c))) (k + older.length + 1)
              = (y :: h :: older) ++ (a ++ c) := by
            have := moveFront_split y c (older ++ a)
            simp only [List.append_assoc, List.length_append] at this
            simp only [moveFront, ← hlen, Nat.add_comm a.length, this, List.cons_append]
          simp only [hu, Option.map_some, hmv] at hs ⊢
          apply settle_fuel_aux known available f f' y (h :: older) (a ++ c) r ?_ hs
            (by simp at hf ⊢; omega)
          intro x hx
          rcases List.mem_cons.1 hx with rfl | hx
          · refine ⟨d, hp, ?_⟩
            rw [List.countP_cons_of_pos hy, List.countP_cons]
            split <;> omega
          · obtain ⟨d', hp', hc'⟩ := hJ x hx
            refine ⟨d', hp', ?_⟩
            rw [List.countP_cons (a := y)]
            omega

/-- the rotation bound is never the reason of a failure: whatever a settle returns with some fuel it
    returns with every fuel above the length of the suffix -/
theorem settle_fuel (known available : List String) (f f' : Nat) (s r : List TNode)
    (hs : settle known available f s = some r) (hf : s.length < f') :
    settle known available f' s = some r := by
  cases s with
  | nil =>
    cases f with
    | zero => simp [settle] at hs
    | succ f =>
      cases f' with
      | zero => omega
      | succ f' => rw [settle_nil] at hs ⊢; exact hs
  | cons h rest =>
    exact settle_fuel_aux known available f f' h [] rest r (by simp) hs (by simp at hf; omega)

theorem settle_fuel_eq (known available : List String) (f f' : Nat) (s : List TNode)
    (hf : s.length < f) (hf' : s.length < f') :
    settle known available f s = settle known available f' s := by
  cases h : settle known available f s with
  | some r => exact (settle_fuel _ _ _ _ _ _ h hf').symm
  | none =>
    cases h' : settle known available f' s with
    | none => rfl
    | some r => rw [settle_fuel _ _ _ _ _ _ h' hf] at h; cases h

/-- `len(nodes)` in the rotation bound may be replaced by any larger number -/
theorem sortFrom_total (T D : Nat) (available : List String) (hDT : D ≤ T) :
    ∀ (k : Nat) (s : List TNode) (known : List String), s.length ≤ D →
      sortFrom T available k s known = sortFrom D available k s known
  | 0, _, _, _ => rfl
  | k + 1, s, known, hl => by
    simp only [sortFrom]
    rw [settle_fuel_eq known available (T + 1) (D + 1) s (by omega) (by omega)]
    cases hs : settle known available (D + 1) s with
    | none => rfl
    | some r =>
      cases r with
      | nil => rfl
      | cons m r' =>
        have hlen : (m :: r').length = s.length := (settle_perm _ _ _ _ _ hs).length_eq
        simp only
        rw [sortFrom_total T D available hDT k r' _ (by simp at hlen; omega)]

theorem availableOf_incs (incs defs : List TNode) (hi : ∀ n ∈ incs, n.incl = true) :
    availableOf (incs ++ defs) = availableOf defs := by
  have : incs.filter (fun n => !n.incl) = [] := by
    apply List.filter_eq_nil_iff.2
    intro n hn; simp [hi n hn]
  simp [availableOf, List.filter_append, this]

theorem sortFrom_incs (total : Nat) (available : List String) (defs : List TNode) (k : Nat) :
    ∀ (incs : List TNode) (known : List String),
      (∀ n ∈ incs, n.incl = true ∧ n.deps = []) →
      sortFrom total available (incs.length + k) (incs ++ defs) known
        = (sortFrom total available k defs known).map (incs ++ ·)
  | [], known, _ => by simp
  | i :: incs, known, hi => by
    have hi0 := hi i (by simp)
    have hset : settle known available (total + 1) (i :: (incs ++ defs)) = some (i :: (incs ++ defs)) := by
      simp [settle, rotate_cons, pick, hi0.2]
    have : (i :: incs).length + k = (incs.length + k) + 1 := by simp; omega
    rw [this]
    simp only [List.cons_append, sortFrom, hset, hi0.1, if_true]
    rw [sortFrom_incs total available defs k incs known (fun n hn => hi n (List.mem_cons_of_mem _ hn))]
    simp [Option.map_map, Function.comp_def]

/-- Include nodes written first (where the isar and prophy parsers put them) stay first and do not
    influence the order of the definitions.  General form: nothing is asked of `defs`. -/
theorem C15_includes_inert' (incs defs : List TNode)
    (hi : ∀ n ∈ incs, n.incl = true ∧ n.deps = []) :
    sort (incs ++ defs) = (sort defs).map (incs ++ ·) := by
  unfold sort
  rw [availableOf_incs incs defs (fun n hn => (hi n hn).1), List.length_append,
    sortFrom_incs _ _ defs defs.length incs builtins hi,
    sortFrom_total (incs.length + defs.length) defs.length _ (by omega) _ _ _ (Nat.le_refl _)]

/-- the statement of the task (the hypothesis on `defs` is not needed) -/
theorem C15_includes_inert (incs defs : List TNode)
    (hi : ∀ n ∈ incs, n.incl = true ∧ n.deps = [])
    (_hd : ∀ n ∈ defs, n.incl = false) :
    sort (incs ++ defs) = (sort defs).map (incs ++ ·) :=
  C15_includes_inert' incs defs hi

/-- non-vacuity: a three-node DAG given in reverse order is sorted -/
example : (sort [⟨"C", ["B", "A"], false⟩, ⟨"B", ["A", "u8"], false⟩, ⟨"A", [], false⟩]).map (·.map (·.name))
    = some ["A", "B", "C"] := by
  decide
/-- a definition cycle is reported (the sort returns, with an error) -/
example : sort [⟨"A", ["B"], false⟩, ⟨"B", ["A"], false⟩] = none := by decide
/-- two Include nodes in the list: they keep their places, the definitions are sorted behind them -/
example : (sort [⟨"i1", [], true⟩, ⟨"i2", [], true⟩, ⟨"C", ["B"], false⟩, ⟨"B", ["A"], false⟩, ⟨"A", [], false⟩]).map
    (·.map (·.name)) = some ["i1", "i2", "A", "B", "C"] := by decide
/-- an Include node named like a definition another node depends on is not taken for that definition -/
example : sort [⟨"S", [], true⟩, ⟨"T", ["S"], false⟩, ⟨"S", [], false⟩]
    = some [⟨"S", [], true⟩, ⟨"S", [], false⟩, ⟨"T", ["S"], false⟩] := by decide
/-- a definition that depends on its own name is sorted when an earlier definition carries the name too -/
example : sort [⟨"A", ["A"], false⟩, ⟨"A", [], false⟩] = some [⟨"A", [], false⟩, ⟨"A", ["A"], false⟩] := by decide

end Prophy.C15

#print axioms Prophy.C15.C15_sort_permutation
#print axioms Prophy.C15.C15_sort_ordered
#print axioms Prophy.C15.C15_sort_ordered_nodes
#print axioms Prophy.C15.C15_sort_ordered_definitions
#print axioms Prophy.C15.C15_sort_ordered_definitions_idx
#print axioms Prophy.C15.C15_sort_no_self_dependency
#print axioms Prophy.C15.settle_fuel
#print axioms Prophy.C15.C15_includes_inert

/-
  C15 - Definition order does not matter: output is dependency-ordered and complete.

  Theorems about the model of topological_sort (ProphyModel/Topo.lean), for EVERY node
  list (any size, any dependency shape, duplicates included):
    * whatever the sort returns is a permutation of its input (every definition exactly once);
    * whatever it returns is dependency-ordered: each node comes after every node it
      depends on (dependencies on builtins and on names not defined in the input are
      ignored, as the code does);
    * it always returns or reports a cycle (total by construction: the rotation bound).
-/
import ProphyModel.Topo
namespace Prophy.C15
open Prophy Prophy.Topo

theorem moveFront_perm : ∀ (l : List TNode) (k : Nat), (moveFront l k).Perm l
  | [], _ => by simp [moveFront]
  | x :: r, 0 => by simp [moveFront]
  | x :: r, k + 1 => by
    have ih := moveFront_perm r k
    simp only [moveFront]
    cases h : moveFront r k with
    | nil =>
      rw [h] at ih
      have : r = [] := List.Perm.eq_nil (ih.symm)
      subst this; simp
    | cons y r' =>
      rw [h] at ih
      exact (List.Perm.swap x y r').trans (List.Perm.cons x ih)

theorem settle_perm (known available : List String) :
    ∀ (fuel : Nat) (s r : List TNode), settle known available fuel s = some r → r.Perm s
  | 0, _, _, h => by simp [settle] at h
  | fuel + 1, s, r, h => by
    simp only [settle] at h
    split at h
    · injection h with h; subst h; exact List.Perm.refl _
    · rename_i s' hrot
      have ih := settle_perm known available fuel s' r h
      unfold rotate at hrot
      cases s with
      | nil => simp at hrot
      | cons node rest =>
        simp only at hrot
        split at hrot
        · simp at hrot
        · split at hrot
          · injection hrot with hrot; subst hrot
            exact ih.trans (moveFront_perm _ _)
          · simp at hrot
    · exact settle_perm known available fuel s r h

theorem sortFrom_perm (total : Nat) (available : List String) :
    ∀ (k : Nat) (s : List TNode) (known : List String) (r : List TNode),
      sortFrom total available k s known = some r → r.Perm s
  | 0, s, _, r, h => by simp [sortFrom] at h; subst h; exact List.Perm.refl _
  | k + 1, s, known, r, h => by
    simp only [sortFrom] at h
    split at h
    · simp at h
    · rename_i hs
      injection h with h; subst h
      exact settle_perm _ _ _ _ _ hs
    · rename_i m r' hs
      cases hrec : sortFrom total available k r' (m.name :: known) with
      | none => simp [hrec] at h
      | some t =>
        simp [hrec] at h; subst h
        have ih := sortFrom_perm total available k r' _ t hrec
        exact (List.Perm.cons m ih).trans (settle_perm _ _ _ _ _ hs)

/-- every definition is listed exactly once: the output is a permutation of the input -/
theorem C15_sort_permutation (g r : List TNode) (h : sort g = some r) : r.Perm g :=
  sortFrom_perm _ _ _ _ _ _ h

/-- `r` is dependency-ordered relative to the names already `known`: every available
    dependency of a node is known or defined earlier in `r` -/
def Ordered (available : List String) : List String → List TNode → Prop
  | _, [] => True
  | known, n :: r =>
    (∀ d ∈ n.deps, available.contains d = true → known.contains d = true) ∧
      Ordered available (n.name :: known) r

theorem settle_done (known available : List String) :
    ∀ (fuel : Nat) (s : List TNode) (m : TNode) (r : List TNode),
      settle known available fuel s = some (m :: r) →
      ∀ d ∈ m.deps, available.contains d = true → known.contains d = true
  | 0, _, _, _, h => by simp [settle] at h
  | fuel + 1, s, m, r, h => by
    simp only [settle] at h
    split at h
    · rename_i hrot
      injection h with h; subst h
      unfold rotate at hrot
      simp only at hrot
      split at hrot
      · rename_i hfind
        intro d hd hav
        have := List.find?_eq_none.1 hfind d hd
        simp only [Bool.and_eq_true, Bool.not_eq_true', not_and, Bool.not_eq_true] at this
        by_cases hk : known.contains d = true
        · exact hk
        · have hk' : known.contains d = false := by simpa using hk
          have := this hk'
          rw [hav] at this; cases this
      · split at hrot <;> simp at hrot
    · exact settle_done known available fuel _ m r h
    · exact settle_done known available fuel s m r h

theorem sortFrom_ordered (total : Nat) (available : List String) :
    ∀ (k : Nat) (s : List TNode) (known : List String) (r : List TNode),
      s.length ≤ k → sortFrom total available k s known = some r → Ordered available known r
  | 0, s, _, r, hk, h => by
    simp [sortFrom] at h; subst h
    have : s = [] := List.eq_nil_of_length_eq_zero (by omega)
    subst this; trivial
  | k + 1, s, known, r, hk, h => by
    simp only [sortFrom] at h
    split at h
    · simp at h
    · injection h with h; subst h; trivial
    · rename_i m r' hs
      cases hrec : sortFrom total available k r' (m.name :: known) with
      | none => simp [hrec] at h
      | some t =>
        simp [hrec] at h; subst h
        have hlen : (m :: r').length = s.length := (settle_perm _ _ _ _ _ hs).length_eq
        refine ⟨settle_done _ _ _ _ _ _ hs, ?_⟩
        exact sortFrom_ordered total available k r' _ t (by simp at hlen; omega) hrec

/-- the output is dependency-ordered: each node comes after everything it depends on
    (among the builtins and the names defined in the input) -/
theorem C15_sort_ordered (g r : List TNode) (h : sort g = some r) :
    Ordered (g.map (·.name)) builtins r :=
  sortFrom_ordered _ _ _ _ _ _ (Nat.le_refl _) h

/-- non-vacuity: a three-node DAG given in reverse order is sorted -/
example : (sort [⟨"C", ["B", "A"]⟩, ⟨"B", ["A", "u8"]⟩, ⟨"A", []⟩]).map (·.map (·.name)) = some ["A", "B", "C"] := by
  decide
/-- a definition cycle is reported (the sort returns, with an error) -/
example : sort [⟨"A", ["B"]⟩, ⟨"B", ["A"]⟩] = none := by decide


end Prophy.C15

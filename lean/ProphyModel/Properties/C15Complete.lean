/-
  C15, completed: the sort never gives up on an acyclic definition set (Lemmas/TopoComplete.lean);
  together with `C15_sort_permutation` and `C15_sort_ordered` this is the full statement.
-/
import ProphyModel.Properties.C15
import ProphyModel.Lemmas.TopoComplete
import ProphyModel.Generated.ProphycSizes
namespace Prophy.C15
open Prophy Prophy.Topo

/-- FULL STATEMENT: for every acyclic definition set (`rank` decreasing along the dependencies of the
    definitions - the non-Include nodes - on defined names) in EVERY input order, with Include nodes
    anywhere in the list (nothing is asked of them: they may carry the name of a definition), the
    sort succeeds, and its output is a permutation of the input in which every node comes after
    every definition it depends on -/
theorem C15_sort_dag (g : List TNode) (rank : String → Nat)
    (hr : ∀ n ∈ g, n.incl = false → ∀ d ∈ n.deps, d ∈ availableOf g → rank d < rank n.name) :
    ∃ r, sort g = some r ∧ r.Perm g ∧ Ordered (availableOf g) builtins r := by
  obtain ⟨r, h⟩ := Topo.sort_complete' g rank hr
  exact ⟨r, h, C15_sort_permutation g r h, C15_sort_ordered g r h⟩

/-- the same in the form a user reads: every definition of the output stands behind a definition of
    each name it depends on (builtins and names not defined in the input aside) -/
theorem C15_sort_dag_definitions (g : List TNode) (rank : String → Nat)
    (hr : ∀ n ∈ g, n.incl = false → ∀ d ∈ n.deps, d ∈ availableOf g → rank d < rank n.name) :
    ∃ r, sort g = some r ∧ r.Perm g ∧
      ∀ (pre post : List TNode) (n : TNode), r = pre ++ n :: post → n.incl = false →
        ∀ d ∈ n.deps, (∃ m ∈ g, m.incl = false ∧ m.name = d) → d ∉ builtins →
          ∃ m ∈ pre, m.incl = false ∧ m.name = d := by
  obtain ⟨r, h⟩ := Topo.sort_complete' g rank hr
  exact ⟨r, h, C15_sort_permutation g r h, fun pre post n hrr hn d hd hdef hb =>
    C15_sort_ordered_definitions g r h pre post n hrr hn d hd hdef hb⟩

/-- the node lists made from declarations give their Include nodes no dependencies -/
theorem C15_toNodes_incl_deps (ds : List Decl) : ∀ n ∈ toNodes ds, n.incl = true → n.deps = [] :=
  Topo.toNodes_incl_deps ds


/-- T1 obligation: the names the sorter takes as already defined are exactly the keys of `BUILTIN_SIZES` as extracted from
    prophyc/model.py on this run (they used to include `r8` and `r16`: finding D78) -/
theorem C15_builtins_are_source : Topo.builtins = Generated.builtinSizes.map (·.1) := by decide

/-- non-vacuity: a reverse chain (the maximal number of rotations at the first position) -/
example : (sort [⟨"D", ["C"], false⟩, ⟨"C", ["B"], false⟩, ⟨"B", ["A"], false⟩, ⟨"A", [], false⟩]).map (·.map (·.name)) = some ["A", "B", "C", "D"] := by decide

/-- non-vacuity with Include nodes between the definitions -/
example : (sort [⟨"D", ["C"], false⟩, ⟨"x", [], true⟩, ⟨"C", ["B"], false⟩, ⟨"B", ["A"], false⟩, ⟨"y", [], true⟩, ⟨"A", [], false⟩]).map
    (·.map (·.name)) = some ["A", "B", "C", "D", "x", "y"] := by decide

end Prophy.C15

#print axioms Prophy.C15.C15_sort_dag
#print axioms Prophy.C15.C15_sort_dag_definitions

/-
  C15, completed: the sort never gives up on an acyclic definition set (Lemmas/TopoComplete.lean);
  together with `C15_sort_permutation` and `C15_sort_ordered` this is the full statement.
-/
import ProphyModel.Properties.C15
import ProphyModel.Lemmas.TopoComplete
import ProphyModel.Generated.ProphycSizes
namespace Prophy.C15
open Prophy Prophy.Topo

/-- FULL STATEMENT: for every acyclic definition set (`rank` decreasing along dependencies on
    defined names) in EVERY input order, the sort succeeds, and its output is a permutation of the
    input in which every definition comes after everything it depends on -/
theorem C15_sort_dag (g : List TNode) (rank : String → Nat)
    (hr : ∀ n ∈ g, ∀ d ∈ n.deps, d ∈ g.map (·.name) → rank d < rank n.name) :
    ∃ r, sort g = some r ∧ r.Perm g ∧ Ordered (g.map (·.name)) builtins r := by
  obtain ⟨r, h⟩ := Topo.sort_complete' g rank hr
  exact ⟨r, h, C15_sort_permutation g r h, C15_sort_ordered g r h⟩


/-- T1 obligation: the names the sorter takes as already defined are exactly the keys of `BUILTIN_SIZES` as extracted from
    prophyc/model.py on this run (they used to include `r8` and `r16`: finding D78) -/
theorem C15_builtins_are_source : Topo.builtins = Generated.builtinSizes.map (·.1) := by decide

/-- non-vacuity: a reverse chain (the maximal number of rotations at the first position) -/
example : (sort [⟨"D", ["C"]⟩, ⟨"C", ["B"]⟩, ⟨"B", ["A"]⟩, ⟨"A", []⟩]).map (·.map (·.name)) = some ["A", "B", "C", "D"] := by decide

end Prophy.C15

/-
  C15, completed: the sort never gives up on an acyclic definition set (Lemmas/TopoComplete.lean);
  together with `C15_sort_permutation` and `C15_sort_ordered` this is the full statement.
-/
import ProphyModel.Properties.C15
import ProphyModel.Lemmas.TopoComplete
namespace Prophy.C15
open Prophy Prophy.Topo

/-- FULL STATEMENT: for every acyclic definition set (`rank` decreasing along dependencies on
    defined names) in EVERY input order, the sort succeeds, and its output is a permutation of the
    input in which every definition comes after everything it depends on -/
theorem C15_sort_dag (g : List TNode) (rank : String → Nat)
    (hr : ∀ n ∈ g, ∀ d ∈ n.deps, d ∈ g.map (·.name) → rank d < rank n.name) :
    ∃ r, sort g = some r ∧ r.Perm g ∧ Ordered (g.map (·.name)) builtins r := by
  obtain ⟨r, h⟩ := Topo.sort_complete' g rank hr
  exact ⟨r, h, C15_sort_permutation g r h, C15_sort_ordered g r h⟩


/-- non-vacuity: a reverse chain (the maximal number of rotations at the first position) -/
example : (sort [⟨"D", ["C"]⟩, ⟨"C", ["B"]⟩, ⟨"B", ["A"]⟩, ⟨"A", []⟩]).map (·.map (·.name)) = some ["A", "B", "C", "D"] := by decide

end Prophy.C15

/-
  C06 - Python decode is total: any bytes decode or raise ProphyError, nothing else.

  FULL STATEMENT (target):
    theorem C06_only_prophy_error (t : Ty) (bs : Bytes) (e : Endian) : WF t →
      (∃ r, Py.decode t bs e = .ok r) ∨ Py.decode t bs e = .error .prophy
-/
import ProphyModel.Properties.Tables
import ProphyModel.Lemmas.Scalars
import ProphyModel.Lemmas.PyDecodeTotal
import ProphyModel.Lemmas.PyDecodeTyped
import ProphyModel.Lemmas.PyRoundTrip
namespace Prophy.C06
open Prophy

/-- the scalar kernel: the length guard of numeric `_decode` (scalar.py:18) makes
    `struct.unpack`'s own `struct.error` unreachable, for every buffer and every
    position, also positions beyond the end -/
theorem C06_scalar_total (e : Endian) (p : Prim) (data : Bytes) (pos : Nat) :
    (∃ r, Py.decScalar e p data pos = .ok r) ∨ Py.decScalar e p data pos = .error .prophy :=
  Py.decScalar_total e p data pos

/-- counters: a decoded counter is never above the guard, whatever the bytes -/
theorem C06_counter_guard (e : Endian) (p : Prim) (shift : Nat) (data : Bytes) (pos : Nat) (c sz : Nat)
    (h : Py.decSizer e p shift data pos = .ok (c, sz)) : c ≤ Py.arrayGuard :=
  Py.decSizer_le_guard e p shift data pos c sz h


/-- FULL STATEMENT, first clause: for every schema prophyc accepts and the runtime imports, and
    EVERY byte string, decode returns or raises ProphyError - never struct.error, TypeError or any
    other class, and the `while` loop of greedy composite arrays always ends -/
theorem C06_py_decode_total (t : Ty) (data : Bytes) (e : Endian)
    (hf : Accept.front t = true) (hp : Accept.pyRt t = true) :
    (∃ r, Py.decode t data e = .ok r) ∨ Py.decode t data e = .error .prophy :=
  Py.decode_total t data e hf hp

/-- element counts are bounded: in whatever decode returns, every array or bytes field bound to
    a counter, at any depth, has at most 65536 elements (no schema hypothesis needed) -/
theorem C06_py_counts_bounded (t : Ty) (data : Bytes) (e : Endian) (v : Val) (n : Nat)
    (h : Py.decode t data e = .ok (v, n)) : Py.countsOk t v = true :=
  Py.decode_count_bounded t data e v n h

/-- both schema hypotheses matter: a greedy array of an empty struct (rejected by prophyc, but
    importable) never ends; an array declared before its sizer gives a TypeError -/
example : (match Py.decode (.struct "O" [.mk "x" (.struct "E" []) .greedy]) [0] .little with | .error .hang => true | _ => false) = true := by decide

/-- FULL STATEMENT, second clause: whatever decode returns is a well-typed value whose arrays
    sharing a counter agree in length and respect the counter guard ... -/
theorem C06_py_decoded_typed (t : Ty) (data : Bytes) (e : Endian) (v : Val) (n : Nat)
    (hf : Accept.front t = true) (hp : Accept.pyRt t = true)
    (h : Py.decode t data e = .ok (v, n)) :
    hasType t v = true ∧ WF.agreeTy t v = true ∧ WF.guardTy t v = true :=
  Py.decode_typed t data e v n hf hp h

/-- ... hence the decoded message encodes without error, in both byte orders, to the canonical
    encoding of the decoded value -/
theorem C06_py_decoded_encodes (t : Ty) (data : Bytes) (e : Endian) (v : Val) (n : Nat)
    (hf : Accept.front t = true) (hp : Accept.pyRt t = true)
    (h : Py.decode t data e = .ok (v, n)) :
    ∀ e', Py.encode t v e' = .ok (Spec.enc t v e') :=
  Py.decoded_encodes t data e v n hf hp h

/-- FULL STATEMENT, fixpoint clause: decoding the encoding of whatever decode returned gives the same
    value and consumes it all - whenever the decoded greedy tail ends aligned (`Spec.galTy`; the
    other case is the documented exception of C02 / known finding D21) -/
theorem C06_py_fixpoint (t : Ty) (data : Bytes) (e e' : Endian) (v : Val) (n : Nat)
    (hf : Accept.front t = true) (hp : Accept.pyRt t = true)
    (h : Py.decode t data e = .ok (v, n)) (hg : Spec.galTy t v = true) :
    ∃ b, Py.encode t v e' = .ok b ∧ Py.decode t b e' = .ok (v, b.length) := by
  obtain ⟨h1, h2, h3⟩ := Py.decode_typed t data e v n hf hp h
  exact ⟨Spec.enc t v e', Py.decoded_encodes t data e v n hf hp h e', Py.decode_encode t v e' hf hp h1 h2 hg h3⟩

/-- the repaired defect D50 (two arrays on one counter, the second a limited bytes field cut at
    the end of the input: decode returned a message that did not encode): the input is refused now -/
example : (match Py.decode DecodeTypedCx.T DecodeTypedCx.D_dt .little with | .error .prophy => true | _ => false) = true := by decide

end Prophy.C06

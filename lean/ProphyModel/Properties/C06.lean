/-
  C06 - Python decode is total: any bytes decode or raise ProphyError, nothing else.

  FULL STATEMENT (target):
    theorem C06_only_prophy_error (t : Ty) (bs : Bytes) (e : Endian) : WF t →
      (∃ r, Py.decode t bs e = .ok r) ∨ Py.decode t bs e = .error .prophy
-/
import ProphyModel.Properties.Tables
import ProphyModel.Lemmas.Scalars
namespace Prophy.C06
open Prophy

/-- the scalar kernel: the length guard of numeric `_decode` (scalar.py:18) makes
    `struct.unpack`'s own `struct.error` unreachable, for every buffer and every
    position, also positions beyond the end -/
theorem C06_scalar_total (e : Endian) (p : Prim) (data : Bytes) (pos : Nat) :
    (∃ r, Py.decScalar e p data pos = .ok r) ∨ Py.decScalar e p data pos = .error .prophy :=
  Py.decScalar_total e p data pos

/-- counters: a decoded counter is never above the guard, whatever the bytes -/
theorem C06_counter_guard (e : Endian) (p : Prim) (shift : Nat) (data : Bytes) (pos : Nat) (c sz : Nat)
    (h : Py.decSizer e p shift data pos = .ok (c, sz)) : c ≤ Py.arrayGuard :=
  Py.decSizer_le_guard e p shift data pos c sz h

end Prophy.C06

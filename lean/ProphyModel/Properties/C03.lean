/-
  C03 - Python and generated C++ full codec are wire-compatible for every message.

  FULL STATEMENT (target):
    theorem C03_cpp_decode_canonical : CppFullOk t → HasType t v → Spec.galTy t v →
      Cpp.decode t (Spec.enc t v e) e = .accepted (toCpp v) _ ∧ Cpp.encodeVec t v e = .ok (Spec.enc t v e)
-/
import ProphyModel.Cpp
import ProphyModel.Lemmas.Scalars
import ProphyModel.Properties.Tables
import ProphyModel.Lemmas.CppRoundTrip
import ProphyModel.Lemmas.CppEncode
import ProphyModel.Lemmas.NoShift
namespace Prophy.C03
open Prophy Prophy.Cpp

/-- scalar kernel of wire compatibility: the `k` bytes that the Python codec / the Spec put on the
    wire for the unsigned image `n` are read back by the C++ scalar decoder, in both byte orders,
    at any position of any buffer -/
theorem C03_scalar_compatible (e : Endian) (k n : Nat) (pre post : Bytes) (rs : List Nat) (hn : n < 256 ^ k) :
    decScalar e k false (pre ++ scalarBytes e k n ++ post) pre.length rs = .ok (n : Int) (pre.length + k) rs := by
  unfold decScalar
  have hlen : (scalarBytes e k n).length = k := scalarBytes_length e k n
  have hsize : (pre ++ scalarBytes e k n ++ post).length = pre.length + k + post.length := by
    simp [hlen]; omega
  have hrem : remaining (pre ++ scalarBytes e k n ++ post).length pre.length = k + post.length := by
    rw [hsize]; unfold remaining; rw [if_pos (by omega)]; omega
  rw [hrem]
  have h1 : ¬ (k + post.length < k) := by omega
  rw [if_neg h1]
  have hfit : pre.length + k ≤ (pre ++ scalarBytes e k n ++ post).length := by omega
  simp only [readScalar, hfit, if_true]
  have hs : ((pre ++ scalarBytes e k n ++ post).drop pre.length).take k = scalarBytes e k n := by
    have := Py.slice_mid pre (scalarBytes e k n) post
    rw [hlen] at this
    simpa [Py.slice] using this
  rw [hs, scalarVal_scalarBytes, Nat.mod_eq_of_lt hn]
  simp

/-- and the C++ scalar encoder writes exactly those bytes (`encTy` of a primitive) -/
theorem C03_scalar_encode (e : Endian) (p : Prim) (i : Int) (pos : Nat) :
    encTy e (.prim p) (.int i) pos = written (scalarBytes e p.size (toUnsigned p.size i)) := by
  simp [encTy]

/-- FULL STATEMENT, decode half: for every schema prophyc accepts, without shifted counters (prophyc
    never emits one; the C++ generator has no notion of `shift=`) and without the D4 shape
    (`optMisaligned`: known finding), every well-typed coherent value whose greedy tail ends aligned
    and whose arrays stay below the decoder's resize limit (2^28 elements), in both byte orders:
    the generated C++ decoder accepts the canonical encoding - what the Python codec writes, by C01 -
    reads all of it, and holds exactly the value -/
theorem C03_cpp_decodes_canonical (t : Ty) (v : Val) (e : Endian)
    (hf : Accept.front t = true) (hns : Accept.noShift t = true) (hm : Cpp.optMisaligned t = false)
    (hrz : Cpp.resizeOkTy t v = true)
    (hv : hasType t v = true) (ha : WF.agreeTy t v = true) (hg : Spec.galTy t v = true) :
    ∃ rs, Cpp.decode t (Spec.enc t v e) e = .accepted v rs :=
  Cpp.decode_canonical t v e hf (Accept.pyRt_of_front t hf hns) hm (by rw [Cpp.noShift_eq_accept]; exact hns) hrz hv ha hg

/-- FULL STATEMENT, encode half: `message::encode<E>()` of an object holding `v` returns exactly
    the canonical encoding (the length bound is `size_t`) -/
theorem C03_cpp_encodes_canonical (t : Ty) (v : Val) (e : Endian)
    (hf : Accept.front t = true) (hns : Accept.noShift t = true) (hm : Cpp.optMisaligned t = false)
    (hv : hasType t v = true) (ha : WF.agreeTy t v = true)
    (hlen : (Spec.enc t v e).length < 2 ^ 64) :
    Cpp.encodeVec t v e = .ok (Spec.enc t v e) :=
  Cpp.encodeVec_canonical t v e hf (Accept.pyRt_of_front t hf hns) hm (by rw [Cpp.noShift_cppenc_eq_accept]; exact hns) hv ha hlen

/-- wire compatibility both ways: C++ decodes the canonical bytes to `v`, and encoding the decoded
    object returns the identical bytes, in the same or the other byte order; Python writes, C++ reads -/
theorem C03_cpp_roundtrip (t : Ty) (v : Val) (e e' : Endian)
    (hf : Accept.front t = true) (hns : Accept.noShift t = true) (hm : Cpp.optMisaligned t = false)
    (hrz : Cpp.resizeOkTy t v = true)
    (hv : hasType t v = true) (ha : WF.agreeTy t v = true) (hg : Spec.galTy t v = true)
    (hlen : (Spec.enc t v e').length < 2 ^ 64) :
    (∃ rs, Cpp.decode t (Spec.enc t v e) e = .accepted v rs) ∧ Cpp.encodeVec t v e' = .ok (Spec.enc t v e') ∧
      Py.encode t v e = .ok (Spec.enc t v e) :=
  ⟨C03_cpp_decodes_canonical t v e hf hns hm hrz hv ha hg, C03_cpp_encodes_canonical t v e' hf hns hm hv ha hlen,
    Py.encode_canonical t v e (Accept.wf_of_accept t hf (Accept.pyRt_of_front t hf hns)) hv ha⟩

/-- a shifted counter is not understood by the C++ codec (hand-written Python descriptors only) -/
theorem C03_shift_not_portable :
    ∃ (t : Ty) (v : Val) (e : Endian), Accept.front t = true ∧ Accept.pyRt t = true ∧ Cpp.optMisaligned t = false ∧
      hasType t v = true ∧ WF.agreeTy t v = true ∧ Spec.galTy t v = true ∧
      ¬ ∃ rs, Cpp.decode t (Spec.enc t v e) e = .accepted v rs := Cpp.decode_canonical_needs_noShift

end Prophy.C03

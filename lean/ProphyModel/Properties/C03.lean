/-
  C03 - Python and generated C++ full codec are wire-compatible for every message.

  FULL STATEMENT (target):
    theorem C03_cpp_decode_canonical : CppFullOk t → HasType t v → Spec.galTy t v →
      Cpp.decode t (Spec.enc t v e) e = .accepted (toCpp v) _ ∧ Cpp.encodeVec t v e = .ok (Spec.enc t v e)
-/
import ProphyModel.Cpp
import ProphyModel.Lemmas.Scalars
import ProphyModel.Properties.Tables
namespace Prophy.C03
open Prophy Prophy.Cpp

/-- scalar kernel of wire compatibility: the `k` bytes that the Python codec / the Spec put on the
    wire for the unsigned image `n` are read back by the C++ scalar decoder, in both byte orders,
    at any position of any buffer -/
theorem C03_scalar_compatible (e : Endian) (k n : Nat) (pre post : Bytes) (rs : List Nat) (hn : n < 256 ^ k) :
    decScalar e k false (pre ++ scalarBytes e k n ++ post) pre.length rs = .ok (n : Int) (pre.length + k) rs := by
  unfold decScalar
  have hlen : (scalarBytes e k n).length = k := scalarBytes_length e k n
  have hsize : (pre ++ scalarBytes e k n ++ post).length = pre.length + k + post.length := by
    simp [hlen]; omega
  have hrem : remaining (pre ++ scalarBytes e k n ++ post).length pre.length = k + post.length := by
    rw [hsize]; unfold remaining; rw [if_pos (by omega)]; omega
  rw [hrem]
  have h1 : ¬ (k + post.length < k) := by omega
  rw [if_neg h1]
  have hfit : pre.length + k ≤ (pre ++ scalarBytes e k n ++ post).length := by omega
  simp only [readScalar, hfit, if_true]
  have hs : ((pre ++ scalarBytes e k n ++ post).drop pre.length).take k = scalarBytes e k n := by
    have := Py.slice_mid pre (scalarBytes e k n) post
    rw [hlen] at this
    simpa [Py.slice] using this
  rw [hs, scalarVal_scalarBytes, Nat.mod_eq_of_lt hn]
  simp

/-- and the C++ scalar encoder writes exactly those bytes (`encTy` of a primitive) -/
theorem C03_scalar_encode (e : Endian) (p : Prim) (i : Int) (pos : Nat) :
    encTy e (.prim p) (.int i) pos = written (scalarBytes e p.size (toUnsigned p.size i)) := by
  simp [encTy]

end Prophy.C03

/-
  C07 - C++ full decode is memory-safe and exact on arbitrary bytes.

  FULL STATEMENT (target):
    theorem C07_no_fault : CppFullOk t → ∀ bs e, Cpp.decode t bs e ≠ .fault
-/
import ProphyModel.Cpp
import ProphyModel.Lemmas.CppDecodeSafe
import ProphyModel.Lemmas.CppDecodeExact
namespace Prophy.C07
open Prophy Prophy.Cpp

/-- `decode` returns true only when exactly the whole input was consumed -/
theorem C07_accept_consumes_all (t : Ty) (data : Bytes) (e : Endian) (v : Val) (rs : List Nat)
    (h : decode t data e = .accepted v rs) :
    ∃ rs', (decTy e t data 0 []).1 = .ok v data.length rs' := by
  unfold decode at h
  split at h
  · rename_i v' pos rs' heq
    split at h
    · rename_i hp
      injection h with h1 h2; subst h1; subst h2; subst hp
      exact ⟨_, heq⟩
    · cases h
  all_goals cases h

/-- the scalar kernel of memory safety: while the cursor is inside the buffer
    (`pos ≤ size`), a scalar decode never reads outside it, whatever the bytes, and leaves
    the cursor inside the buffer -/
theorem C07_scalar_safe (e : Endian) (k : Nat) (signed : Bool) (data : Bytes) (pos : Nat) (rs : List Nat)
    (hpos : pos ≤ data.length) :
    decScalar e k signed data pos rs ≠ .fault ∧
      ∀ i pos' rs', decScalar e k signed data pos rs = .ok i pos' rs' → pos' ≤ data.length := by
  unfold decScalar
  have hrem : remaining data.length pos = data.length - pos := by simp [remaining, hpos]
  rw [hrem]
  split
  · exact ⟨by simp, by intro i p r h; cases h⟩
  · rename_i hk
    have hfit : pos + k ≤ data.length := by omega
    simp only [readScalar, hfit, if_true]
    exact ⟨by simp, by intro i p r h; injection h with _ h2 _; omega⟩

/-- the skip over an unset optional, an explicit advance and an alignment step are all
    bounds-checked: they fail or leave the cursor inside the buffer -/
theorem C07_advance_safe (n size pos : Nat) (rs : List Nat) (hpos : pos ≤ size) :
    ∀ pos' rs', advance n size pos rs = .ok () pos' rs' → pos' ≤ size := by
  intro pos' rs' h
  unfold advance at h
  have hrem : remaining size pos = size - pos := by simp [remaining, hpos]
  rw [hrem] at h
  split at h
  · cases h
  · injection h with _ h2 _; omega

theorem C07_align_safe (a size pos : Nat) (rs : List Nat) :
    ∀ pos' rs', alignStep a size pos rs = .ok () pos' rs' → pos' ≤ size := by
  intro pos' rs' h
  unfold alignStep at h
  simp only at h
  split at h
  · cases h
  · injection h with _ h2 _; omega


/-- FULL STATEMENT (memory safety): for EVERY schema tree and EVERY byte string the generated
    decoder never reads outside `[data, data + size)`; wherever it stops it is inside the input -/
theorem C07_decode_no_fault (t : Ty) (data : Bytes) (e : Endian) : decode t data e ≠ .fault :=
  Cpp.decode_no_fault t data e

theorem C07_decTy_safe (e : Endian) (t : Ty) (data : Bytes) (pos : Nat) (rs : List Nat) (hpos : pos ≤ data.length) :
    (decTy e t data pos rs).1 ≠ .fault ∧
    ∀ v pos' rs', (decTy e t data pos rs).1 = .ok v pos' rs' → pos' ≤ data.length :=
  Cpp.decTy_safe e t data pos rs hpos

/-- no allocation disproportionate to the input: every `resize(n)` the decoder requests has
    `n ≤ size` of the input, and `n ≤ resizeLimit` unless the run ends in the allocation exception -/
theorem C07_resizes_bounded (t : Ty) (data : Bytes) (e : Endian) :
    ∀ n ∈ (decode t data e).resizes,
      n ≤ data.length ∧ ((decode t data e).isException = false → n ≤ resizeLimit) :=
  Cpp.decode_resizes_bounded t data e

/-- no allocation disproportionate to the input, in BYTES: every `resize(n)` the decoder requests fits the input at the
    fixed wire size of some array element type of the schema (`resizeElems t`: `codec_traits<T>::size`, or 1 for
    elements of dynamic size): `n * el ≤ size` (decoder.hpp do_decode_resize since e9b58a7; greedy `n = (end - pos) / size`) -/
theorem C07_resizes_fit (t : Ty) (data : Bytes) (e : Endian) :
    ∀ n ∈ (decode t data e).resizes, ∃ el ∈ Cpp.resizeElems t, n * el ≤ data.length :=
  Cpp.decode_resizes_fit t data e

/-- the request of one sizer-driven `do_decode_resize` that lets decoding continue fits the bytes behind the counter at
    the element size of that very array: `cnt * resizeElem n all ≤ size - pos` -/
theorem C07_sizer_resize_fits (e : Endian) (all : List Member) (n : String) (t : Ty) (r : List Member) (msize a : Nat)
    (padding : Int) (ls : List (Nat × Nat × Int)) (data : Bytes) (pos : Nat) (rs : List Nat) (lens : List (String × Nat))
    (hs : isSizer n all = true) (hpos : pos ≤ data.length) (vs : List Val) (pos' : Nat) (rs' : List Nat) (p : Nat)
    (h : decMs e all (.mk n t .plain :: r) ((msize, a, padding) :: ls) data pos rs lens = (.ok vs pos' rs', p)) :
    ∃ cnt pos1 later, rs' = later ++ cnt :: rs ∧ pos ≤ pos1 ∧ pos1 ≤ pos' ∧ pos' ≤ data.length ∧
      cnt * Cpp.resizeElem n all ≤ data.length - pos1 ∧ cnt ≤ resizeLimit :=
  Cpp.decMs_sizer_ok_fits e all n t r msize a padding ls data pos rs lens hs hpos vs pos' rs' p h

/-- FULL STATEMENT, second clause: whatever byte string the decoder accepts, it consumed it exactly -
    the decoded object re-encodes to as many bytes as were read (`get_byte_size() = size`); schemas
    accepted by prophyc, without shifted counters and without the D4 shape (`limFirst`: the arrays
    sharing a counter with a limited array start with it - always so for schemas the C++ generator
    accepts, which allows one externally sized array per counter) -/
theorem C07_accepted_is_exact (t : Ty) (data : Bytes) (e : Endian) (v : Val) (rs : List Nat)
    (hf : Accept.front t = true) (hns : Accept.noShift t = true) (hm : Cpp.optMisaligned t = false)
    (hlf : Cpp.limFirst t = true) (hlen : data.length < 2 ^ 64)
    (h : decode t data e = .accepted v rs) : getByteSize t v = data.length :=
  Cpp.decode_accepted_exact t data e v rs hf hns hm hlf hlen h

/-- ... and the object it built is a valid, coherent value of the type - except that C++ keeps
    whatever 32-bit integer an enum field held (`hasTypeW`: the Python decoder checks enumerators,
    the C++ decoder does not; witness `Cpp.decode_accepted_hasType_false`) -/
theorem C07_accepted_is_typed (t : Ty) (data : Bytes) (e : Endian) (v : Val) (rs : List Nat)
    (hf : Accept.front t = true) (hns : Accept.noShift t = true) (hm : Cpp.optMisaligned t = false)
    (hlf : Cpp.limFirst t = true) (h : decode t data e = .accepted v rs) :
    Cpp.hasTypeW t v = true ∧ WF.agreeTy t v = true :=
  Cpp.decode_accepted_typed t data e v rs hf hns hm hlf h

end Prophy.C07

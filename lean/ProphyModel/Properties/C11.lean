/-
  C11 - copy_from yields an equal, fully independent message.
-/
import ProphyModel.Copy
namespace Prophy.C11
open Prophy Prophy.Copy

/- for every member kind, type and value of the type's shape (any nesting depth): the copy equals
   the source and shares no mutable object (message, array) with it -/
mutual
  theorem copyField_spec : (v : Val) → ∀ (k : MKind) (t : Ty), shapeField t v = true →
      copyField k t v = (v, false)
    | .sizer, k, t, _ => by cases t <;> simp [copyField]
    | .absent, k, t, _ => by cases t <;> simp [copyField]
    | .present x, k, t, h => by
      have h' : shapeField t x = true := by cases t <;> simpa [shapeField] using h
      have := copyField_spec x .plain t h'
      cases t <;> simp [copyField, this]
    | .bytes b, k, t, _ => by cases t <;> simp [copyField]
    | .arr xs, k, t, h => by
      have h' : shapeElems t xs = true := by cases t <;> simpa [shapeField] using h
      have := copyElems_spec xs t h'
      cases t <;> simp [copyField, this]
    | .int i, k, t, _ => by cases t <;> simp [copyField]
    | .struct fs, k, t, h => by
      cases t with
      | struct n ms =>
        have h' : shapeMs ms fs = true := by simpa [shapeField] using h
        simp [copyField, copyMs_spec fs ms h']
      | prim p => simp [shapeField] at h
      | byte => simp [shapeField] at h
      | enum n es => simp [shapeField] at h
      | union n arms => simp [shapeField] at h
    | .union idx v, k, t, h => by
      cases t with
      | union n arms =>
        simp only [shapeField] at h
        simp only [copyField]
        cases harm : arms[idx]? with
        | none => simp [harm] at h
        | some a =>
          obtain ⟨an, ad, at_⟩ := a
          have h' : shapeField at_ v = true := by simpa [harm] using h
          simp [copyField_spec v .plain at_ h']
      | prim p => simp [shapeField] at h
      | byte => simp [shapeField] at h
      | enum n es => simp [shapeField] at h
      | struct n ms => simp [shapeField] at h
  theorem copyMs_spec : (vs : List Val) → ∀ (ms : List Member), shapeMs ms vs = true →
      copyMs ms vs = (vs, false)
    | [], ms, h => by cases ms <;> simp_all [copyMs, shapeMs]
    | v :: vs, ms, h => by
      cases ms with
      | nil => simp [shapeMs] at h
      | cons m r =>
        obtain ⟨n, t, k⟩ := m
        have h' : shapeField t v = true ∧ shapeMs r vs = true := by simpa [shapeMs] using h
        simp [copyMs, copyField_spec v k t h'.1, copyMs_spec vs r h'.2]
  theorem copyElems_spec : (vs : List Val) → ∀ (t : Ty), shapeElems t vs = true →
      copyElems t vs = (vs, false)
    | [], t, _ => by simp [copyElems]
    | v :: vs, t, h => by
      have h' : shapeField t v = true ∧ shapeElems t vs = true := by simpa [shapeElems] using h
      simp [copyElems, copyField_spec v .plain t h'.1, copyElems_spec vs t h'.2]
end

/-- after `b.copy_from(a)` (whatever `b` held before) `b` equals `a` -/
theorem C11_copy_equal (t : Ty) (a : Val) (h : shapeField t a = true) : (copyFrom t a).1 = a := by
  unfold copyFrom; rw [copyField_spec a .plain t h]

/-- and no mutable object of `a` is reachable from `b`: a later mutation of either message, at any
    nesting depth, cannot be seen through the other -/
theorem C11_separation (t : Ty) (a : Val) (h : shapeField t a = true) : (copyFrom t a).2 = false := by
  unfold copyFrom; rw [copyField_spec a .plain t h]

/-- the same holds for the elements copied into a composite array by `extend()` -/
theorem C11_extend_elements (t : Ty) (xs : List Val) (h : shapeElems t xs = true) :
    copyElems t xs = (xs, false) := copyElems_spec xs t h

/-- non-vacuity: a struct with a set optional struct, a limited array of structs and a union -/
example : shapeField
    (.struct "S" [.mk "o" (.struct "I" [.mk "a" (.prim .u8) .plain]) .optional,
                  .mk "k" (.prim .u32) .plain,
                  .mk "cs" (.struct "I" [.mk "a" (.prim .u8) .plain]) (.limited "k" 2),
                  .mk "u" (.union "U" [.mk "x" 1 (.prim .u32)]) .plain])
    (.struct [.present (.struct [.int 5]), .sizer, .arr [.struct [.int 1]], .union 0 (.int 9)]) = true := by decide


end Prophy.C11

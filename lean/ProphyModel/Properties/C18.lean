/-
  C18 - Text rendering is the same in Python and C++ and is not order-sensitive.

  FULL STATEMENT (target):
    theorem C18_str_eq_print : IntEnumBytesComposite t → HasType t v → SingleQuoteRepr v →
      Text.pyText t v = Text.cppText t v
-/
import ProphyModel.Text
import ProphyModel.Generated.CppPrinter
namespace Prophy.C18
open Prophy Prophy.Text

/-- byte kernel: inside single quotes, Python's `repr` and C++ `print_byte` write the same text
    for every one of the 256 byte values -/
theorem C18_byte_eq (b : UInt8) : pyByte '\'' b = cppByte b := by
  unfold pyByte cppByte
  by_cases h92 : b = 92
  · subst h92; decide
  · by_cases h39 : b = 39
    · subst h39; decide
    · have hq : ¬ (b.toNat = ('\'' : Char).toNat) := by
        intro h
        apply h39
        apply UInt8.toNat_inj.1
        simpa using h
      simp only [h92, if_false, hq, h39]

/-- hence every bytes field whose Python repr uses single quotes renders identically -/
theorem C18_bytes_eq (b : Bytes) (h : pyQuote b = '\'') : pyReprBytes b = cppBytes b := by
  unfold pyReprBytes cppBytes
  simp only [h]
  have : b.map (pyByte '\'') = b.map cppByte := List.map_congr_left (fun x _ => C18_byte_eq x)
  rw [this]

/- rendering one field never changes how later fields are rendered: printing any member of
   any kind and type, at any depth, leaves the stream's formatting state as it found it -/
mutual
  theorem cppField_state : (v : Val) → ∀ (k : MKind) (name : String) (t : Ty) (lvl : Nat) (s : Stream),
      (cppField k name t v lvl s).2 = s
    | .int i, k, name, t, lvl, s => by cases t <;> simp [cppField]
    | .bytes b, k, name, t, lvl, s => by cases t <;> simp [cppField]
    | .arr xs, k, name, t, lvl, s => by
      cases t <;> simp only [cppField] <;> exact cppElems_state xs _ _ _ _ _
    | .struct fs, k, name, t, lvl, s => by
      cases t <;> simp [cppField]
      exact cppMs_state fs _ _ _
    | .union arm v, k, name, t, lvl, s => by
      cases t <;> simp [cppField]
      split
      · exact cppField_state v _ _ _ _ _
      · rfl
    | .absent, k, name, t, lvl, s => by cases t <;> simp [cppField]
    | .present v, k, name, t, lvl, s => by
      cases t <;> simp only [cppField] <;> exact cppField_state v _ _ _ _ _
    | .sizer, k, name, t, lvl, s => by cases t <;> simp [cppField]
  theorem cppMs_state : (vs : List Val) → ∀ (ms : List Member) (lvl : Nat) (s : Stream),
      (cppMs ms vs lvl s).2 = s
    | [], ms, lvl, s => by cases ms <;> simp [cppMs]
    | v :: vs, ms, lvl, s => by
      cases ms with
      | nil => simp [cppMs]
      | cons m r =>
        obtain ⟨n, t, k⟩ := m
        simp only [cppMs]
        have h1 := cppField_state v k n t lvl s
        have h2 := cppMs_state vs r lvl (cppField k n t v lvl s).2
        rw [h2, h1]
  theorem cppElems_state : (vs : List Val) → ∀ (name : String) (t : Ty) (n lvl : Nat) (s : Stream),
      (cppElems name t vs n lvl s).2 = s
    | [], name, t, n, lvl, s => by simp [cppElems]
    | v :: vs, name, t, n, lvl, s => by
      cases n with
      | zero => simp [cppElems]
      | succ n =>
        simp only [cppElems]
        have h1 := cppField_state v .plain name t lvl s
        have h2 := cppElems_state vs name t n lvl (cppField .plain name t v lvl s).2
        rw [h2, h1]
end

/-- printing a whole message leaves the stream's formatting state unchanged -/
theorem C18_stream_state_unchanged (t : Ty) (v : Val) (lvl : Nat) (s : Stream) :
    (cppPrint t v lvl s).2 = s := by
  cases t <;> cases v <;> simp [cppPrint]
  · exact cppMs_state _ _ _ _
  · split
    · exact cppField_state _ _ _ _ _ _
    · rfl

/-! ### `str()` = `print()` -/

/- what the property quantifies over: bytes values whose Python repr uses single quotes, enum
   values that are enumerators, fixed arrays of their declared length, limited arrays within
   their limit (floating point fields are not in the model's text functions at all) -/
mutual
  def okField (k : MKind) : Ty → Val → Bool
    | _, .sizer => true
    | _, .absent => true
    | t, .present x => okField .plain t x
    | _, .bytes b => pyQuote b == '\'' && printCount k b.length == b.length
    | t, .arr xs => printCount k xs.length == xs.length && okElems t xs
    | .enum _ es, .int i => (enumName es i).isSome
    | .struct _ ms, .struct vs => okMs ms vs
    | .union _ arms, .union idx v =>
      match arms[idx]? with
      | some (.mk _ _ t) => okField .plain t v
      | none => true
    | _, _ => true
  def okMs : List Member → List Val → Bool
    | .mk _ t k :: r, v :: vs => okField k t v && okMs r vs
    | _, _ => true
  def okElems : Ty → List Val → Bool
    | _, [] => true
    | t, x :: xs => okField .plain t x && okElems t xs
end

/-- Python renders nested text by indenting it; C++ passes the level down -/
def shift (lvl : Nat) (ls : List Line) : List Line := ls.map fun (l, x) => (l + lvl, x)

theorem shift_append (lvl : Nat) (a b : List Line) : shift lvl (a ++ b) = shift lvl a ++ shift lvl b := by
  simp [shift]

theorem shift_bump (lvl : Nat) (ls : List Line) : shift lvl (bump ls) = shift (lvl + 1) ls := by
  simp [shift, bump, List.map_map, Function.comp_def]
  intro a b _
  omega

theorem shift_block (lvl : Nat) (hd ft : String) (inner : List Line) :
    shift lvl ((0, hd) :: bump inner ++ [(0, ft)]) = (lvl, hd) :: shift (lvl + 1) inner ++ [(lvl, ft)] := by
  have hb := shift_bump lvl inner
  simp only [shift] at hb ⊢
  simp [hb]

def plainStream : Stream := { hex := false }

mutual
  theorem cppField_eq : (v : Val) → ∀ (k : MKind) (name : String) (t : Ty) (lvl : Nat),
      okField k t v = true → (cppField k name t v lvl plainStream).1 = shift lvl (pyField k name t v)
    | .sizer, k, name, t, lvl, _ => by cases t <;> simp [cppField, pyField, shift]
    | .absent, k, name, t, lvl, _ => by cases t <;> simp [cppField, pyField, shift]
    | .present x, k, name, t, lvl, h => by
      have h' : okField .plain t x = true := by cases t <;> simpa [okField] using h
      have := cppField_eq x .plain name t lvl h'
      cases t <;> simpa [cppField, pyField] using this
    | .bytes b, k, name, t, lvl, h => by
      have hb : pyQuote b = '\'' ∧ printCount k b.length = b.length := by
        cases t <;> simpa [okField] using h
      have e1 := C18_bytes_eq b hb.1
      cases t <;> simp [cppField, pyField, shift, hb.2, e1]
    | .arr xs, k, name, t, lvl, h => by
      have hx : printCount k xs.length = xs.length ∧ okElems t xs = true := by
        cases t <;> simpa [okField] using h
      have := cppElems_eq xs name t lvl hx.2
      cases t <;> simpa [cppField, pyField, hx.1] using this
    | .int i, k, name, t, lvl, h => by
      cases t with
      | prim p => simp [cppField, pyField, shift, cppInt, plainStream]
      | byte => simp [cppField, pyField, shift, cppInt, plainStream]
      | enum n es =>
        have : (enumName es i).isSome = true := by simpa [okField] using h
        obtain ⟨nm, hn⟩ := Option.isSome_iff_exists.1 this
        simp [cppField, pyField, shift, hn]
      | struct n ms => simp [cppField, pyField, shift]
      | union n arms => simp [cppField, pyField, shift]
    | .struct fs, k, name, t, lvl, h => by
      cases t with
      | struct n ms =>
        have h' : okMs ms fs = true := by simpa [okField] using h
        have := cppMs_eq fs ms (lvl + 1) h'
        simp only [cppField, pyField]
        rw [shift_block, ← this]
      | prim p => simp [cppField, pyField, shift]
      | byte => simp [cppField, pyField, shift]
      | enum n es => simp [cppField, pyField, shift]
      | union n arms => simp [cppField, pyField, shift]
    | .union idx v, k, name, t, lvl, h => by
      cases t with
      | union n arms =>
        simp only [cppField, pyField]
        rw [shift_block]
        cases harm : arms[idx]? with
        | none => simp [shift]
        | some a =>
          obtain ⟨an, ad, at_⟩ := a
          have h' : okField .plain at_ v = true := by simpa [okField, harm] using h
          have := cppField_eq v .plain an at_ (lvl + 1) h'
          simp [← this]
      | prim p => simp [cppField, pyField, shift]
      | byte => simp [cppField, pyField, shift]
      | enum n es => simp [cppField, pyField, shift]
      | struct n ms => simp [cppField, pyField, shift]
  theorem cppMs_eq : (vs : List Val) → ∀ (ms : List Member) (lvl : Nat),
      okMs ms vs = true → (cppMs ms vs lvl plainStream).1 = shift lvl (pyMs ms vs)
    | [], ms, lvl, _ => by cases ms <;> simp [cppMs, pyMs, shift]
    | v :: vs, ms, lvl, h => by
      cases ms with
      | nil => simp [cppMs, pyMs, shift]
      | cons m r =>
        obtain ⟨n, t, k⟩ := m
        have h' : okField k t v = true ∧ okMs r vs = true := by simpa [okMs] using h
        have e1 := cppField_eq v k n t lvl h'.1
        have e2 := cppMs_eq vs r lvl h'.2
        have hs := cppField_state v k n t lvl plainStream
        simp only [cppMs, pyMs, shift_append]
        rw [hs, e1, e2]
  theorem cppElems_eq : (vs : List Val) → ∀ (name : String) (t : Ty) (lvl : Nat),
      okElems t vs = true → (cppElems name t vs vs.length lvl plainStream).1 = shift lvl (pyElems name t vs)
    | [], name, t, lvl, _ => by simp [cppElems, pyElems, shift]
    | v :: vs, name, t, lvl, h => by
      have h' : okField .plain t v = true ∧ okElems t vs = true := by simpa [okElems] using h
      have e1 := cppField_eq v .plain name t lvl h'.1
      have e2 := cppElems_eq vs name t lvl h'.2
      have hs := cppField_state v .plain name t lvl plainStream
      simp only [List.length_cons, cppElems, pyElems, shift_append]
      rw [hs, e1, e2]
end

theorem shift_zero (ls : List Line) : shift 0 ls = ls := by simp [shift]

/-- `str(message)` in Python and `print()` in C++ give the same text, for every message type
    built from integers, enums, bytes and composites (any nesting, any member kinds) and every
    value whose bytes fields have a single-quote Python repr -/
theorem C18_str_eq_print (t : Ty) (v : Val) (h : okField .plain t v = true) :
    cppText t v = pyText t v := by
  unfold cppText pyText
  congr 1
  cases t with
  | struct n ms =>
    cases v with
    | struct vs =>
      have h' : okMs ms vs = true := by simpa [okField] using h
      have := cppMs_eq vs ms 0 h'
      simpa [cppPrint, pyStr, shift_zero, plainStream] using this
    | _ => simp [cppPrint, pyStr]
  | union n arms =>
    cases v with
    | union idx x =>
      simp only [cppPrint, pyStr]
      cases harm : arms[idx]? with
      | none => simp
      | some a =>
        obtain ⟨an, ad, at_⟩ := a
        have h' : okField .plain at_ x = true := by simpa [okField, harm] using h
        have := cppField_eq x .plain an at_ 0 h'
        simpa [shift_zero, plainStream] using this
    | _ => simp [cppPrint, pyStr]
  | prim p => cases v <;> simp [cppPrint, pyStr]
  | byte => cases v <;> simp [cppPrint, pyStr]
  | enum n es => cases v <;> simp [cppPrint, pyStr]

end Prophy.C18

namespace Prophy.C18
open Prophy Prophy.Text
/-- non-vacuity: a struct with a bytes field holding a quote, a double quote, a backslash and a
    non-ASCII byte, followed by an integer, an enum array and a nested union meets the hypothesis -/
example : okField .plain
    (.struct "X" [.mk "b" .byte (.fixed 4), .mk "n" (.prim .u8) .plain,
                  .mk "e" (.enum "E" [("A", 0), ("B", 5)]) (.limited "num_of_e" 3),
                  .mk "u" (.union "U" [.mk "x" 1 (.prim .i64)]) .plain])
    (.struct [.bytes [39, 34, 92, 200], .int 255, .arr [.int 5, .int 0], .union 0 (.int (-1))]) = true := by
  decide
/-- print_byte as T1 reads it off printer.hpp on every run: the switch, then the printable range,
    else `\\xNN` -/
def cppByteFromSource (b : UInt8) : String :=
  match Generated.cppByteEscapes.lookup b.toNat with
  | some s => s
  | none =>
    if Generated.cppPrintableLo ≤ b.toNat ∧ b.toNat ≤ Generated.cppPrintableHi then String.ofList [Char.ofNat b.toNat]
    else hexEscape b

theorem cppByte_table_all :
    (List.range 256).all (fun n => cppByte (UInt8.ofNat n) == cppByteFromSource (UInt8.ofNat n)) = true := by
  decide +kernel

/-- T1 obligation: the model of `print_byte` is the function the header defines, for all 256 bytes
    (an edit of the escapes or of the printable range in printer.hpp breaks this theorem) -/
theorem C18_cppByte_is_source (b : UInt8) : cppByte b = cppByteFromSource b := by
  have h := List.all_eq_true.1 cppByte_table_all b.toNat (List.mem_range.2 b.toNat_lt)
  have hb : UInt8.ofNat b.toNat = b := by simp
  rw [hb] at h
  simpa using h

end Prophy.C18

/-
  C09, completed (Lemmas/RawSwap*.lean): the generated prophy::swap on whole messages.
-/
import ProphyModel.Properties.C09
import ProphyModel.Lemmas.RawSwap
namespace Prophy.C09
open Prophy

/-- FULL STATEMENT: for every accepted schema whose generated struct is well-formed C++ and free of
    the known defect D23 (`Raw.partsOk`: the generated members of every struct have distinct names,
    no shifted counters, and no part whose alignment exceeds the next part's unless its data always
    ends on it), every well-typed coherent value of a type without a greedy tail, and ANY bytes
    after the message: the generated `prophy::swap` rewrites the foreign-endian (big) encoding in place
    into the native (little) one, leaves every byte after the message untouched, and returns the
    address one past the aligned end.  Dynamic arrays of dynamic structs, optionals, unions, limited
    and fixed arrays, bytes, any nesting.  (`depthTy ≤ 256`: the model's recursion fuel; the C++ code
    has no such limit.) -/
theorem C09_swap_whole_message (t : Ty) (v : Val) (tail : Bytes)
    (hf : Accept.front t = true) (hp : Accept.pyRt t = true) (hd : Raw.partsOk t = true)
    (hv : hasType t v = true) (ha : WF.agreeTy t v = true) (hu : Spec.unlTy t = false)
    (hdepth : Raw.depthTy t ≤ 256) :
    Raw.swap t (Spec.enc t v .big ++ tail) = some (Spec.enc t v .little ++ tail, (Spec.enc t v .little).length) :=
  Raw.swap_spec t v tail hf hp hd hv ha hu hdepth

/-- at any aligned position inside any buffer (array elements, nested structs) -/
theorem C09_swap_in_place (t : Ty) (v : Val) (pre post : Bytes) (fuel pos : Nat)
    (hf : Accept.front t = true) (hp : Accept.pyRt t = true) (hd : Raw.partsOk t = true)
    (hv : hasType t v = true) (ha : WF.agreeTy t v = true) (hu : Spec.unlTy t = false)
    (hpre : pre.length = pos) (hal : Spec.alignTy t ∣ pos) (hfuel : Raw.needTy t v ≤ fuel) :
    Raw.swapTy fuel t (pre ++ Spec.enc t v .big ++ post) pos
      = some (pre ++ Spec.enc t v .little ++ post, pos + (Spec.enc t v .little).length) :=
  Raw.swapTy_spec t v pre post fuel pos hf hp hd hv ha hu hpre hal hfuel

/-- messages with a greedy tail: everything before the unlimited member is swapped, the member is
    left as it is, and the returned address is its aligned start -/
theorem C09_swap_unlimited_prefix (t : Ty) (v : Val) (tail : Bytes)
    (hf : Accept.front t = true) (hp : Accept.pyRt t = true) (hd : Raw.partsOk t = true)
    (hv : hasType t v = true) (ha : WF.agreeTy t v = true) (hu : Spec.unlTy t = true)
    (hdepth : Raw.depthTy t ≤ 256) :
    Raw.swap t (Spec.enc t v .big ++ tail) =
      some ((Spec.enc t v .little).take (Raw.unlStart t v) ++ (Spec.enc t v .big).drop (Raw.unlStart t v) ++ tail,
            alignUp (Raw.unlStart t v) (Spec.alignTy t)) :=
  Raw.swap_unl_spec t v tail hf hp hd hv ha hu hdepth

end Prophy.C09

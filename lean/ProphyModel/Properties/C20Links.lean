/-
  C20 (links) - prophyc output is a deterministic function of its inputs, also when files are reached
  through symbolic links: results are cached by real path, and the `_same_includes` check on every cache
  hit makes that sound.  Model: `ProphyModel/FilesL.lean`; proofs: `Lemmas/FilesLinks.lean`.
-/
import ProphyModel.FilesL
import ProphyModel.Files
import ProphyModel.Lemmas.FilesLinks
namespace Prophy.C20L
open Prophy Prophy.FilesL

deriving instance DecidableEq for Except

/-- **A. Cache transparency.**  In a run that succeeds every input gets exactly what a fresh processor gives it when it
    is compiled alone (`eval`: no cache at all, every include walked again in the context of the path that reaches it) -
    whatever was cached before it and through whatever paths. -/
theorem C20_links_cache_transparent (fs : FS) (incs : List String) (ms : List Path) (rs : List (Path × Result))
    (h : processMains fs incs ms {} = .ok rs) :
    ∀ m res, (m, res) ∈ rs → ∃ n, eval fs incs n [] m = .ok (res.exports, res.visible, res.shape) :=
  cache_transparent_l fs incs ms rs h

/-- **B. Order independence.**  Any two successful runs agree on every input they share (no permutation hypothesis). -/
theorem C20_links_order_independent (fs : FS) (incs : List String) (ms ms' : List Path) (rs rs' : List (Path × Result))
    (h : processMains fs incs ms {} = .ok rs) (h' : processMains fs incs ms' {} = .ok rs') :
    ∀ m r r', (m, r) ∈ rs → (m, r') ∈ rs' → r.exports = r'.exports ∧ r.visible = r'.visible ∧ r.shape = r'.shape :=
  order_independent_l fs incs ms ms' rs rs' h h'

/-- the special case "alone": an input of a successful run gets what it gets when it is the only input -/
theorem C20_links_as_alone (fs : FS) (incs : List String) (ms : List Path) (rs : List (Path × Result))
    (m : Path) (r0 : Result)
    (h : processMains fs incs ms {} = .ok rs) (h0 : processMains fs incs [m] {} = .ok [(m, r0)]) :
    ∀ r, (m, r) ∈ rs → r.exports = r0.exports ∧ r.visible = r0.visible ∧ r.shape = r0.shape :=
  fun r hr => order_independent_l fs incs ms [m] rs [(m, r0)] h h0 m r r0 hr (List.mem_cons_self ..)

/-- the invariant behind A, for any starting state (not only the empty one): see `Inv_l` in `Lemmas/FilesLinks.lean` -/
theorem C20_links_cache_transparent_from (fs : FS) (incs : List String) (ms : List Path) (st : State)
    (rs : List (Path × Result)) (hI : Inv_l fs incs st.cache st.includesOf st.verified)
    (h : processMains fs incs ms st = .ok rs) :
    ∀ m res, (m, res) ∈ rs → ∃ n, eval fs incs n [] m = .ok (res.exports, res.visible, res.shape) :=
  processMains_transparent_l fs incs ms st rs hI h

/-! ## C. Refinement of the model without links -/

/-- the embedding of a file system without links: every file is a directory entry that targets itself -/
abbrev ofFiles (fs : List Files.File) : FS := FilesL.ofFiles fs
/-- `FilesL.Path` and `Files.FileId` are both (directory, leaf) -/
abbrev toId (p : Path) : Files.FileId := toId_l p
/-- a result of the model with links as a result of the older model (the include tree is dropped) -/
abbrev toRes (r : Result) : Files.Result := toRes_l r

example (p : Path) : toId p = ⟨p.dir, p.leaf⟩ := rfl
example (r : Result) : toRes r = ⟨r.exports, r.visible, r.parsed.map toId⟩ := rfl
example (fs : List Files.File) :
    (ofFiles fs).entries = fs.map (fun f => ⟨⟨f.id.dir, f.id.leaf⟩, ⟨f.id.dir, f.id.leaf⟩, ⟨f.id.dir, f.id.leaf⟩⟩) ∧
    (ofFiles fs).files = fs.map (fun f => ⟨⟨f.id.dir, f.id.leaf⟩, f.includes, f.defines⟩) := ⟨rfl, rfl⟩

/-- `Files.processMains` with the fuel as a parameter; `Files.processMains` is the instance `4 * fs.length + 4` -/
abbrev filesMainsN (fs : List Files.File) (n : Nat) (incs : List String) :=
  filesMainsN_l fs n incs

theorem filesMainsN_eq (fs : List Files.File) (incs : List String) (ms : List Files.FileId) (c : Files.Cache) :
    filesMainsN fs (4 * fs.length + 4) incs ms c = Files.processMains fs incs ms c :=
  filesMainsN_eq_l fs incs ms c

/- **C, ORIGINAL STATEMENT - FALSE in the models as they are now.**

     theorem C20_links_refines_files (fs : List Files.File) (incs : List String) (ms : List Path)
         (rs : List (Path × Result)) (h : processMains (ofFiles fs) incs ms {} = .ok rs) :
         Files.processMains fs incs (ms.map toId) [] = .ok (rs.map fun mr => (toId mr.1, toRes mr.2))

   It was true (and proved) while both models started with the fuel `4 * #files + 4`.  With `processNamed` the model with
   links spends one more unit of fuel per level and its fuel was raised to `5 * #entries + 5`; the older model still starts
   with `4 * #files + 4`.  Walking along an include list costs one unit per include in BOTH models, so a file system with
   few levels and long include lists (or with files that are never included: they only add fuel) is within the fuel of
   the model with links and beyond the fuel of the older one, which then reports a bogus `cyclic`.  Nothing of this exists
   in the real code (no fuel).  Two witnesses, then the true variants. -/

/-- smallest witness found: `m` includes the leaf `a` nineteen times, two more files are never used
    (fuel `5 * 4 + 5 = 25` against `4 * 4 + 4 = 20`) -/
def fsNineteen : List Files.File :=
  [⟨⟨"d", "m"⟩, List.replicate 19 "a", ["M"]⟩, ⟨⟨"d", "a"⟩, [], ["A"]⟩, ⟨⟨"d", "u1"⟩, [], []⟩, ⟨⟨"d", "u2"⟩, [], []⟩]

example :
    (match processMains (ofFiles fsNineteen) [] [⟨"d", "m"⟩] {} with | .ok _ => true | .error _ => false) = true ∧
    (match Files.processMains fsNineteen [] [toId ⟨"d", "m"⟩] [] with
      | .error e => e == .cyclic ⟨"d", "a"⟩ | .ok _ => false) = true := by
  rw [processMainsS_eq_l]
  decide +kernel

/-- a witness where no leaf is included twice by one file and every file is used: a chain `c0 → ... → c5`, each of which
    first includes the nine files `x0 .. x8` (15 files: fuel 80 against 64) -/
def fsChain : List Files.File :=
  let xs := ["x0", "x1", "x2", "x3", "x4", "x5", "x6", "x7", "x8"]
  [⟨⟨"d", "c0"⟩, xs ++ ["c1"], []⟩, ⟨⟨"d", "c1"⟩, xs ++ ["c2"], []⟩, ⟨⟨"d", "c2"⟩, xs ++ ["c3"], []⟩,
   ⟨⟨"d", "c3"⟩, xs ++ ["c4"], []⟩, ⟨⟨"d", "c4"⟩, xs ++ ["c5"], []⟩, ⟨⟨"d", "c5"⟩, xs, []⟩] ++
  xs.map (fun x => ⟨⟨"d", x⟩, [], []⟩)

example :
    (match processMains (ofFiles fsChain) [] [⟨"d", "c0"⟩] {} with | .ok _ => true | .error _ => false) = true ∧
    (match Files.processMains fsChain [] [toId ⟨"d", "c0"⟩] [] with
      | .error e => e == .cyclic ⟨"d", "x7"⟩ | .ok _ => false) = true := by
  rw [processMainsS_eq_l]
  decide +kernel

/-- **C. Refinement, true variant 1 (no added hypothesis, the fuel made explicit).**  A successful run of the model with
    links over a file system without links is a successful run of the older model on the same inputs - given the same
    fuel `5 * fs.length + 5`, or any larger one - with, input by input, the same `exports`, `visible` and `parsed`.
    No hypothesis on `fs` is needed (duplicate ids: both models read the first entry). -/
theorem C20_links_refines_files_fuel (fs : List Files.File) (incs : List String) (ms : List Path)
    (rs : List (Path × Result)) (h : processMains (ofFiles fs) incs ms {} = .ok rs) :
    ∀ n, 5 * fs.length + 5 ≤ n →
      filesMainsN fs n incs (ms.map toId) [] = .ok (rs.map fun mr => (toId mr.1, toRes mr.2)) :=
  fun _ hn => filesMainsN_mono_l fs incs hn _ _ _ (processMains_refines_l fs incs ms {} rs h)

/-- **C. Refinement, true variant 2 (the original conclusion).**  ADDED HYPOTHESIS `hF`: the older model does not run out
    of its own, smaller fuel (`Files.processMains` succeeds at all).  Then it returns exactly the results of the model
    with links. -/
theorem C20_links_refines_files (fs : List Files.File) (incs : List String) (ms : List Path)
    (rs : List (Path × Result)) (h : processMains (ofFiles fs) incs ms {} = .ok rs)
    (hF : ∃ rs', Files.processMains fs incs (ms.map toId) [] = .ok rs') :
    Files.processMains fs incs (ms.map toId) [] = .ok (rs.map fun mr => (toId mr.1, toRes mr.2)) := by
  obtain ⟨rs', h'⟩ := hF
  rw [h', processMains_refines_agree_l fs incs ms {} rs rs' h h']

/-- so the theorems of `Properties/C16.lean` keep their meaning; for instance: no file is parsed twice -/
theorem C20_links_parsed_once (fs : List Files.File) (incs : List String) (ms : List Path)
    (rs : List (Path × Result)) (h : processMains (ofFiles fs) incs ms {} = .ok rs) :
    (rs.flatMap (·.2.parsed)).Nodup := by
  have h1 := (filesMainsN_parsedInv_l fs _ incs _ _ _ (processMains_refines_l fs incs ms {} rs h)).1
  have h2 : (rs.map fun mr => (toId mr.1, toRes mr.2)).flatMap (·.2.parsed) =
      (rs.flatMap (·.2.parsed)).map toId := by
    clear h h1
    induction rs with
    | nil => rfl
    | cons a rs ih => rw [List.map_cons, List.flatMap_cons, List.flatMap_cons, List.map_append, ih]; rfl
  rw [Files.allParsed_p15, h2] at h1
  exact nodup_of_map_l _ h1

/-- without links `processNamed` never refuses: every path is its own real path, so a real path is only ever used under
    its own leaf (`NameInv_l`: every registered name is the leaf of the real path), and `processNamed` goes on to
    `processKnown` in a state that satisfies the invariant again -/
theorem C20_links_processNamed_trivial (fs : List Files.File) (incs : List String) (n : Nat) (st : State) (p r : Path)
    (hI : NameInv_l st) (hr : real (ofFiles fs) p = some r) :
    ∃ st0, NameInv_l st0 ∧ st0.cache = st.cache ∧ st0.includesOf = st.includesOf ∧ st0.verified = st.verified ∧
      st0.names = st.names ∧
      processNamed (ofFiles fs) incs (n + 1) st p r = processKnown (ofFiles fs) incs n st0 p r :=
  processNamed_ofFiles_l fs incs n st p r hI hr

/-- ... and so no run over a file system without links ends with `TwoNamesError` (the invariant holds initially and in
    every state of the run, also of a run that fails: `NoTwo_all_l`) -/
theorem C20_links_no_twoNames (fs : List Files.File) (incs : List String) (ms : List Path) (q : Path) :
    processMains (ofFiles fs) incs ms {} ≠ .error (.twoNames q) :=
  processMains_noTwoNames_l fs incs ms {} NameInv_init_l q

/-- without links `sameIncludes` always succeeds and changes nothing: a finished file that is reached again was verified
    for the very same (real path, directories) pair when it was parsed (`VerInv_l`, an invariant of every run over
    `ofFiles fs`: `VerInv_init_l`, `VerInv_processFile_l`) -/
theorem C20_links_sameIncludes_trivial (fs : List Files.File) (incs : List String) (n : Nat) (st : State) (r p : Path)
    (res : Result) (hI : VerInv_l st) (hr : real (ofFiles fs) p = some r) (hl : st.cache.lookup r = some (some res)) :
    sameIncludes (ofFiles fs) incs (n + 1) st r p = .ok st :=
  sameIncludes_ofFiles_l fs incs n st r p res hI hr hl

theorem C20_links_sameIncludes_trivial_inv (fs : List Files.File) (incs : List String) :
    VerInv_l {} ∧ ∀ n st p res st', processFile (ofFiles fs) incs n st p = .ok (res, st') → VerInv_l st → VerInv_l st' :=
  ⟨VerInv_init_l, fun n st p res st' h hV => VerInv_processFile_l fs incs n st p res st' h hV⟩

/-- The converse of C ("the older model succeeds ⇒ the model with links succeeds, or fails with `sameName`/`tooDeep`
    only") is FALSE as well for the models as they are, again only because of fuel: the model with links spends three
    units of fuel per level (`processFile` → `processNamed` → `processKnown`), the older model one; with few files the
    fuel `5 * #entries + 5` does not make up for that.  Ten includes of one leaf (fuel 15 against 12): the older model
    succeeds, the model with links runs out of fuel (reported as `cyclic`).  The real code has no fuel.
    So neither fuel dominates the other: `fsNineteen` / `fsChain` above, `fsTen` here. -/
def fsTen : List Files.File := [⟨⟨"d", "m"⟩, List.replicate 10 "a", ["M"]⟩, ⟨⟨"d", "a"⟩, [], ["A"]⟩]

example :
    (match Files.processMains fsTen [] [⟨"d", "m"⟩] [] with | .ok _ => true | .error _ => false) = true ∧
    processMains (ofFiles fsTen) [] [⟨"d", "m"⟩] {} = .error (.cyclic ⟨"d", "a"⟩) := by
  rw [processMainsS_eq_l]
  decide +kernel

/-! ## D. Non-vacuity

  `sameIncludes` is compiled by well-founded recursion, which `decide` cannot unfold; `processMainsS_eq_l` rewrites the
  run into a structurally recursive copy (proved equal in `Lemmas/FilesLinks.lean`), then `decide +kernel` evaluates it
  (kernel reduction, no axiom; the elaborator's own evaluator used by plain `decide` does not terminate in reasonable time
  on the nested recursion of `sameIncludes`). -/

/-- two inputs `p/a` and `q/b` include `t`, which is in both directories a link to `real/t`; `real/t` includes `u`, found
    next to the real file from both sides -/
def fsShared : FS :=
  ⟨[⟨⟨"p", "a"⟩, ⟨"p", "a"⟩, ⟨"p", "a"⟩⟩, ⟨⟨"q", "b"⟩, ⟨"q", "b"⟩, ⟨"q", "b"⟩⟩, ⟨⟨"real", "t"⟩, ⟨"real", "t"⟩, ⟨"real", "t"⟩⟩, ⟨⟨"real", "u"⟩, ⟨"real", "u"⟩, ⟨"real", "u"⟩⟩,
    ⟨⟨"p", "t"⟩, ⟨"real", "t"⟩, ⟨"real", "t"⟩⟩, ⟨⟨"q", "t"⟩, ⟨"real", "t"⟩, ⟨"real", "t"⟩⟩],
   [⟨⟨"p", "a"⟩, ["t"], ["A"]⟩, ⟨⟨"q", "b"⟩, ["t"], ["B"]⟩, ⟨⟨"real", "t"⟩, ["u"], ["T"]⟩, ⟨⟨"real", "u"⟩, [], ["U"]⟩]⟩

/-- with links present, one real file reached through two paths (`p/t`, `q/t`), the run succeeds: the hypotheses of
    A and B are satisfiable; the second input finds `real/t` in the cache (nothing parsed for it again) -/
example : processMains fsShared [] [⟨"p", "a"⟩, ⟨"q", "b"⟩] {} = .ok
    [(⟨"p", "a"⟩, ⟨["A"], ["T", "A"], [⟨"p", "a"⟩, ⟨"real", "t"⟩, ⟨"real", "u"⟩],
        [(0, ⟨"p", "a"⟩), (1, ⟨"real", "t"⟩), (2, ⟨"real", "u"⟩)]⟩),
     (⟨"q", "b"⟩, ⟨["B"], ["T", "B"], [⟨"q", "b"⟩],
        [(0, ⟨"q", "b"⟩), (1, ⟨"real", "t"⟩), (2, ⟨"real", "u"⟩)]⟩)] := by
  rw [processMainsS_eq_l]
  decide +kernel

/-- the same in the other order -/
example : (match processMains fsShared [] [⟨"q", "b"⟩, ⟨"p", "a"⟩] {} with
    | .ok [(_, rb), (_, ra)] => rb.shape == [(0, ⟨"q", "b"⟩), (1, ⟨"real", "t"⟩), (2, ⟨"real", "u"⟩)] &&
        ra.shape == [(0, ⟨"p", "a"⟩), (1, ⟨"real", "t"⟩), (2, ⟨"real", "u"⟩)] && ra.parsed == [⟨"p", "a"⟩]
    | _ => false) = true := by
  rw [processMainsS_eq_l]
  decide +kernel

/-- the two-level situation that a comparison of the direct includes misses.
    `real/y` includes `t`; `dirA/t` includes `x`.  `p/a` includes `y` and finds the link `p/y -> real/y`; from there `t` is
    `p/t -> dirA/t` and, from `p/t`, `x` is `p/x`.  `real/b` includes `y` and finds `real/y` itself; from there `t` is
    `inc2/t -> dirA/t` (the SAME real file: the direct includes of `real/y` agree) but, from `inc2/t`, `x` is `inc/x`. -/
def fsTwoLevel : FS :=
  ⟨[⟨⟨"p", "a"⟩, ⟨"p", "a"⟩, ⟨"p", "a"⟩⟩, ⟨⟨"real", "b"⟩, ⟨"real", "b"⟩, ⟨"real", "b"⟩⟩, ⟨⟨"dirA", "t"⟩, ⟨"dirA", "t"⟩, ⟨"dirA", "t"⟩⟩,
    ⟨⟨"real", "y"⟩, ⟨"real", "y"⟩, ⟨"real", "y"⟩⟩, ⟨⟨"p", "y"⟩, ⟨"real", "y"⟩, ⟨"real", "y"⟩⟩, ⟨⟨"p", "t"⟩, ⟨"dirA", "t"⟩, ⟨"dirA", "t"⟩⟩,
    ⟨⟨"inc2", "t"⟩, ⟨"dirA", "t"⟩, ⟨"dirA", "t"⟩⟩, ⟨⟨"p", "x"⟩, ⟨"p", "x"⟩, ⟨"p", "x"⟩⟩, ⟨⟨"inc", "x"⟩, ⟨"inc", "x"⟩, ⟨"inc", "x"⟩⟩],
   [⟨⟨"p", "a"⟩, ["y"], ["A"]⟩, ⟨⟨"real", "b"⟩, ["y"], ["B"]⟩, ⟨⟨"dirA", "t"⟩, ["x"], ["T"]⟩,
    ⟨⟨"real", "y"⟩, ["t"], ["Y"]⟩, ⟨⟨"p", "x"⟩, [], ["XP"]⟩, ⟨⟨"inc", "x"⟩, [], ["XI"]⟩]⟩

/-- each input alone compiles, and `y` means something different in the two: two levels down, `x` is another file -/
example :
    processMains fsTwoLevel ["inc2", "inc"] [⟨"p", "a"⟩] {} = .ok
      [(⟨"p", "a"⟩, ⟨["A"], ["Y", "A"], [⟨"p", "a"⟩, ⟨"real", "y"⟩, ⟨"dirA", "t"⟩, ⟨"p", "x"⟩],
        [(0, ⟨"p", "a"⟩), (1, ⟨"real", "y"⟩), (2, ⟨"dirA", "t"⟩), (3, ⟨"p", "x"⟩)]⟩)] ∧
    processMains fsTwoLevel ["inc2", "inc"] [⟨"real", "b"⟩] {} = .ok
      [(⟨"real", "b"⟩, ⟨["B"], ["Y", "B"], [⟨"real", "b"⟩, ⟨"real", "y"⟩, ⟨"dirA", "t"⟩, ⟨"inc", "x"⟩],
        [(0, ⟨"real", "b"⟩), (1, ⟨"real", "y"⟩), (2, ⟨"dirA", "t"⟩), (3, ⟨"inc", "x"⟩)]⟩)] := by
  rw [processMainsS_eq_l, processMainsS_eq_l]
  decide +kernel

/-- together, in either order, the run is refused: the cached `real/y` would be wrong for the second input, and it is
    `sameIncludes`' recursion into `dirA/t` (reached as `inc2/t`, resp. `p/t`, instead of the path used when it was
    parsed) that finds it out - the direct includes of `real/y` resolve to the same real file from both sides -/
example :
    processMains fsTwoLevel ["inc2", "inc"] [⟨"p", "a"⟩, ⟨"real", "b"⟩] {} = .error (.ambiguous ⟨"inc2", "t"⟩ "x") ∧
    processMains fsTwoLevel ["inc2", "inc"] [⟨"real", "b"⟩, ⟨"p", "a"⟩] {} = .error (.ambiguous ⟨"p", "t"⟩ "x") := by
  rw [processMainsS_eq_l, processMainsS_eq_l]
  decide +kernel

/-- the direct includes of `real/y` do resolve to the same real file from both paths (what a one-level check compares) -/
example :
    (find fsTwoLevel "t" (searchDirs fsTwoLevel ["inc2", "inc"] ⟨"p", "y"⟩)).bind (ident fsTwoLevel) = some ⟨"dirA", "t"⟩ ∧
    (find fsTwoLevel "t" (searchDirs fsTwoLevel ["inc2", "inc"] ⟨"real", "y"⟩)).bind (ident fsTwoLevel) = some ⟨"dirA", "t"⟩ := by
  decide

/-- the order-free meaning of the two paths to `real/y` (`eval`, no cache): same real file, same direct include, another
    include tree - which is why the cached result of one path may not be used for the other -/
example :
    eval fsTwoLevel ["inc2", "inc"] 4 [] ⟨"p", "y"⟩ =
      .ok (["Y"], ["T", "Y"], [(0, ⟨"real", "y"⟩), (1, ⟨"dirA", "t"⟩), (2, ⟨"p", "x"⟩)]) ∧
    eval fsTwoLevel ["inc2", "inc"] 4 [] ⟨"real", "y"⟩ =
      .ok (["Y"], ["T", "Y"], [(0, ⟨"real", "y"⟩), (1, ⟨"dirA", "t"⟩), (2, ⟨"inc", "x"⟩)]) := by
  rw [evalS_eq_l, evalS_eq_l]
  decide +kernel

/-- A on the first example: what the run gave the second input (which found `real/t` in the cache) is what `eval` gives -/
example : eval fsShared [] 4 [] ⟨"q", "b"⟩ =
    .ok (["B"], ["T", "B"], [(0, ⟨"q", "b"⟩), (1, ⟨"real", "t"⟩), (2, ⟨"real", "u"⟩)]) := by
  rw [evalS_eq_l]
  decide +kernel

/-! ### hard links: one file (device, inode), two real paths -/

/-- `export/ids` is a HARD link to `src/ids`: its real path is itself (`target`), the file it denotes is `src/ids`
    (`ident`, where the content is filed); `pub/ids` is a symbolic link to the hard link -/
def fsHard : FS :=
  ⟨[⟨⟨"src", "a"⟩, ⟨"src", "a"⟩, ⟨"src", "a"⟩⟩, ⟨⟨"export", "b"⟩, ⟨"export", "b"⟩, ⟨"export", "b"⟩⟩,
    ⟨⟨"pub", "c"⟩, ⟨"pub", "c"⟩, ⟨"pub", "c"⟩⟩,
    ⟨⟨"src", "ids"⟩, ⟨"src", "ids"⟩, ⟨"src", "ids"⟩⟩,
    ⟨⟨"export", "ids"⟩, ⟨"export", "ids"⟩, ⟨"src", "ids"⟩⟩,
    ⟨⟨"pub", "ids"⟩, ⟨"export", "ids"⟩, ⟨"src", "ids"⟩⟩],
   [⟨⟨"src", "a"⟩, ["ids"], ["A"]⟩, ⟨⟨"export", "b"⟩, ["ids"], ["B"]⟩, ⟨⟨"pub", "c"⟩, ["ids"], ["C"]⟩,
    ⟨⟨"src", "ids"⟩, [], ["I"]⟩]⟩

/-- (1) `src/a` includes `src/ids`, `export/b` includes the hard link `export/ids`: one file - the run succeeds, both see the
    same exports `["I"]` and the same include tree below them, and `ids` is parsed once (for the first input only) -/
example : processMains fsHard [] [⟨"src", "a"⟩, ⟨"export", "b"⟩] {} = .ok
    [(⟨"src", "a"⟩, ⟨["A"], ["I", "A"], [⟨"src", "a"⟩, ⟨"src", "ids"⟩], [(0, ⟨"src", "a"⟩), (1, ⟨"src", "ids"⟩)]⟩),
     (⟨"export", "b"⟩, ⟨["B"], ["I", "B"], [⟨"export", "b"⟩], [(0, ⟨"export", "b"⟩), (1, ⟨"src", "ids"⟩)]⟩)] := by
  rw [processMainsS_eq_l]
  decide +kernel

/-- the other order: now `ids` is parsed for `export/b` (reached as the hard link), and filed under the same identity -/
example : processMains fsHard [] [⟨"export", "b"⟩, ⟨"src", "a"⟩] {} = .ok
    [(⟨"export", "b"⟩, ⟨["B"], ["I", "B"], [⟨"export", "b"⟩, ⟨"src", "ids"⟩],
        [(0, ⟨"export", "b"⟩), (1, ⟨"src", "ids"⟩)]⟩),
     (⟨"src", "a"⟩, ⟨["A"], ["I", "A"], [⟨"src", "a"⟩], [(0, ⟨"src", "a"⟩), (1, ⟨"src", "ids"⟩)]⟩)] := by
  rw [processMainsS_eq_l]
  decide +kernel

/-- (2) the same through a symbolic link to the hard link (`pub/ids -> export/ids`), all three inputs in one run -/
example : processMains fsHard [] [⟨"src", "a"⟩, ⟨"pub", "c"⟩, ⟨"export", "b"⟩] {} = .ok
    [(⟨"src", "a"⟩, ⟨["A"], ["I", "A"], [⟨"src", "a"⟩, ⟨"src", "ids"⟩], [(0, ⟨"src", "a"⟩), (1, ⟨"src", "ids"⟩)]⟩),
     (⟨"pub", "c"⟩, ⟨["C"], ["I", "C"], [⟨"pub", "c"⟩], [(0, ⟨"pub", "c"⟩), (1, ⟨"src", "ids"⟩)]⟩),
     (⟨"export", "b"⟩, ⟨["B"], ["I", "B"], [⟨"export", "b"⟩], [(0, ⟨"export", "b"⟩), (1, ⟨"src", "ids"⟩)]⟩)] := by
  rw [processMainsS_eq_l]
  decide +kernel

/-- A on it: `eval` of the input that reaches the file through the symbolic link to the hard link -/
example : eval fsHard [] 3 [] ⟨"pub", "c"⟩ = .ok (["C"], ["I", "C"], [(0, ⟨"pub", "c"⟩), (1, ⟨"src", "ids"⟩)]) := by
  rw [evalS_eq_l]
  decide +kernel

/-- a hard link is one file but another PLACE: when `ids` includes `base`, which exists next to `src/ids` only, the
    include cannot be found from `export/ids` (the real path of a hard link is itself: searched in `export` only), and the
    cached result is refused for it -/
example : processMains
    ⟨⟨⟨"src", "base"⟩, ⟨"src", "base"⟩, ⟨"src", "base"⟩⟩ :: fsHard.entries,
     [⟨⟨"src", "a"⟩, ["ids"], ["A"]⟩, ⟨⟨"export", "b"⟩, ["ids"], ["B"]⟩, ⟨⟨"src", "ids"⟩, ["base"], ["I"]⟩,
      ⟨⟨"src", "base"⟩, [], ["K"]⟩]⟩ [] [⟨"src", "a"⟩, ⟨"export", "b"⟩] {} =
    .error (.ambiguous ⟨"export", "ids"⟩ "base") := by
  rw [processMainsS_eq_l]
  decide +kernel

/-- one real file under two base names: `types` is an alias link to `types_v2`, and `main` includes both -/
def fsAlias : FS :=
  ⟨[⟨⟨"d", "main"⟩, ⟨"d", "main"⟩, ⟨"d", "main"⟩⟩, ⟨⟨"d", "types_v2"⟩, ⟨"d", "types_v2"⟩, ⟨"d", "types_v2"⟩⟩, ⟨⟨"d", "types"⟩, ⟨"d", "types_v2"⟩, ⟨"d", "types_v2"⟩⟩],
   [⟨⟨"d", "main"⟩, ["types", "types_v2"], ["M"]⟩, ⟨⟨"d", "types_v2"⟩, [], ["T"]⟩]⟩

/-- refused (`TwoNamesError`), in either order of the two includes; with one of the names only it compiles -/
example :
    processMains fsAlias [] [⟨"d", "main"⟩] {} = .error (.twoNames ⟨"d", "types_v2"⟩) ∧
    processMains ⟨fsAlias.entries, [⟨⟨"d", "main"⟩, ["types_v2", "types"], ["M"]⟩, ⟨⟨"d", "types_v2"⟩, [], ["T"]⟩]⟩ []
      [⟨"d", "main"⟩] {} = .error (.twoNames ⟨"d", "types"⟩) ∧
    processMains ⟨fsAlias.entries, [⟨⟨"d", "main"⟩, ["types", "types"], ["M"]⟩, ⟨⟨"d", "types_v2"⟩, [], ["T"]⟩]⟩ []
      [⟨"d", "main"⟩] {} = .ok [(⟨"d", "main"⟩, ⟨["M"], ["T", "T", "M"], [⟨"d", "main"⟩, ⟨"d", "types_v2"⟩],
        [(0, ⟨"d", "main"⟩), (1, ⟨"d", "types_v2"⟩), (1, ⟨"d", "types_v2"⟩)]⟩)] := by
  rw [processMainsS_eq_l, processMainsS_eq_l, processMainsS_eq_l]
  decide +kernel

/-- the same across two inputs: the second one uses the other name -/
example :
    processMains ⟨⟨⟨"d", "other"⟩, ⟨"d", "other"⟩, ⟨"d", "other"⟩⟩ :: fsAlias.entries,
        [⟨⟨"d", "main"⟩, ["types"], ["M"]⟩, ⟨⟨"d", "other"⟩, ["types_v2"], ["O"]⟩, ⟨⟨"d", "types_v2"⟩, [], ["T"]⟩]⟩ []
      [⟨"d", "main"⟩, ⟨"d", "other"⟩] {} = .error (.twoNames ⟨"d", "types_v2"⟩) := by
  rw [processMainsS_eq_l]
  decide +kernel

/-- C is not vacuous: the diamond of `Properties/C16.lean` runs in the model with links -/
example : (match processMains (ofFiles [
      ⟨⟨"/p", "main"⟩, ["a", "b"], ["M"]⟩, ⟨⟨"/p/i1", "a"⟩, ["base"], ["A"]⟩,
      ⟨⟨"/p/i2", "b"⟩, ["base"], ["B"]⟩, ⟨⟨"/p/i2", "base"⟩, [], ["K"]⟩]) ["/p/i1", "/p/i2"] [⟨"/p", "main"⟩] {} with
    | .ok [(_, r)] => r.visible == ["A", "B", "M"] && r.parsed.map (·.leaf) == ["main", "a", "base", "b"]
    | _ => false) = true := by
  rw [processMainsS_eq_l]
  decide +kernel

end Prophy.C20L

#print axioms Prophy.C20L.C20_links_cache_transparent
#print axioms Prophy.C20L.C20_links_order_independent
#print axioms Prophy.C20L.C20_links_as_alone
#print axioms Prophy.C20L.C20_links_refines_files
#print axioms Prophy.C20L.C20_links_refines_files_fuel
#print axioms Prophy.C20L.C20_links_processNamed_trivial
#print axioms Prophy.C20L.C20_links_no_twoNames
#print axioms Prophy.C20L.C20_links_parsed_once
#print axioms Prophy.C20L.C20_links_sameIncludes_trivial
#print axioms Prophy.C20L.C20_links_sameIncludes_trivial_inv

/-
  C20 (links) - prophyc output is a deterministic function of its inputs, also when files are reached
  through symbolic links: results are cached by real path, and the `_same_includes` check on every cache
  hit makes that sound.  Model: `ProphyModel/FilesL.lean`; proofs: `Lemmas/FilesLinks.lean`.
-/
import ProphyModel.FilesL
import ProphyModel.Files
import ProphyModel.Lemmas.FilesLinks
namespace Prophy.C20L
open Prophy Prophy.FilesL

deriving instance DecidableEq for Except

/-- **A. Cache transparency.**  In a run that succeeds every input gets exactly what a fresh processor gives it when it
    is compiled alone (`eval`: no cache at all, every include walked again in the context of the path that reaches it) -
    whatever was cached before it and through whatever paths. -/
theorem C20_links_cache_transparent (fs : FS) (incs : List String) (ms : List Path) (rs : List (Path × Result))
    (h : processMains fs incs ms {} = .ok rs) :
    ∀ m res, (m, res) ∈ rs → ∃ n, eval fs incs n [] m = .ok (res.exports, res.visible, res.shape) :=
  cache_transparent_l fs incs ms rs h

/-- **B. Order independence.**  Any two successful runs agree on every input they share (no permutation hypothesis). -/
theorem C20_links_order_independent (fs : FS) (incs : List String) (ms ms' : List Path) (rs rs' : List (Path × Result))
    (h : processMains fs incs ms {} = .ok rs) (h' : processMains fs incs ms' {} = .ok rs') :
    ∀ m r r', (m, r) ∈ rs → (m, r') ∈ rs' → r.exports = r'.exports ∧ r.visible = r'.visible ∧ r.shape = r'.shape :=
  order_independent_l fs incs ms ms' rs rs' h h'

/-- the special case "alone": an input of a successful run gets what it gets when it is the only input -/
theorem C20_links_as_alone (fs : FS) (incs : List String) (ms : List Path) (rs : List (Path × Result))
    (m : Path) (r0 : Result)
    (h : processMains fs incs ms {} = .ok rs) (h0 : processMains fs incs [m] {} = .ok [(m, r0)]) :
    ∀ r, (m, r) ∈ rs → r.exports = r0.exports ∧ r.visible = r0.visible ∧ r.shape = r0.shape :=
  fun r hr => order_independent_l fs incs ms [m] rs [(m, r0)] h h0 m r r0 hr (List.mem_cons_self ..)

/-- the invariant behind A, for any starting state (not only the empty one): see `Inv_l` in `Lemmas/FilesLinks.lean` -/
theorem C20_links_cache_transparent_from (fs : FS) (incs : List String) (ms : List Path) (st : State)
    (rs : List (Path × Result)) (hI : Inv_l fs incs st.cache st.includesOf st.verified)
    (h : processMains fs incs ms st = .ok rs) :
    ∀ m res, (m, res) ∈ rs → ∃ n, eval fs incs n [] m = .ok (res.exports, res.visible, res.shape) :=
  processMains_transparent_l fs incs ms st rs hI h

/-! ## C. Refinement of the model without links -/

/-- the embedding of a file system without links: every file is a directory entry that targets itself -/
abbrev ofFiles (fs : List Files.File) : FS := FilesL.ofFiles fs
/-- `FilesL.Path` and `Files.FileId` are both (directory, leaf) -/
abbrev toId (p : Path) : Files.FileId := toId_l p
/-- a result of the model with links as a result of the older model (the include tree is dropped) -/
abbrev toRes (r : Result) : Files.Result := toRes_l r

example (p : Path) : toId p = ⟨p.dir, p.leaf⟩ := rfl
example (r : Result) : toRes r = ⟨r.exports, r.visible, r.parsed.map toId⟩ := rfl
example (fs : List Files.File) :
    (ofFiles fs).entries = fs.map (fun f => ⟨⟨f.id.dir, f.id.leaf⟩, ⟨f.id.dir, f.id.leaf⟩⟩) ∧
    (ofFiles fs).files = fs.map (fun f => ⟨⟨f.id.dir, f.id.leaf⟩, f.includes, f.defines⟩) := ⟨rfl, rfl⟩

/-- **C. Refinement.**  A successful run of the model with links over a file system without links is a successful run
    of the older model `Files.processMains` on the same inputs, with - input by input - the same `exports`, `visible`
    and `parsed`.  No hypothesis on `fs` is needed (duplicate ids: both models read the first entry). -/
theorem C20_links_refines_files (fs : List Files.File) (incs : List String) (ms : List Path)
    (rs : List (Path × Result)) (h : processMains (ofFiles fs) incs ms {} = .ok rs) :
    Files.processMains fs incs (ms.map toId) [] = .ok (rs.map fun mr => (toId mr.1, toRes mr.2)) :=
  processMains_refines_l fs incs ms {} rs h

/-- so the theorems of `Properties/C16.lean` keep their meaning; for instance: no file is parsed twice -/
theorem C20_links_parsed_once (fs : List Files.File) (incs : List String) (ms : List Path)
    (rs : List (Path × Result)) (h : processMains (ofFiles fs) incs ms {} = .ok rs) :
    (rs.flatMap (·.2.parsed)).Nodup := by
  have h1 := Files.parsed_once_p15 fs incs _ _ _ (C20_links_refines_files fs incs ms rs h)
  have h2 : (rs.map fun mr => (toId mr.1, toRes mr.2)).flatMap (·.2.parsed) =
      (rs.flatMap (·.2.parsed)).map toId := by
    clear h h1
    induction rs with
    | nil => rfl
    | cons a rs ih => rw [List.map_cons, List.flatMap_cons, List.flatMap_cons, List.map_append, ih]; rfl
  rw [h2] at h1
  exact nodup_of_map_l _ h1

/-- without links `sameIncludes` always succeeds and changes nothing: a finished file that is reached again was verified
    for the very same (real path, directories) pair when it was parsed (`VerInv_l`, an invariant of every run over
    `ofFiles fs`: `VerInv_init_l`, `VerInv_processFile_l`) -/
theorem C20_links_sameIncludes_trivial (fs : List Files.File) (incs : List String) (n : Nat) (st : State) (r p : Path)
    (res : Result) (hI : VerInv_l st) (hr : real (ofFiles fs) p = some r) (hl : st.cache.lookup r = some (some res)) :
    sameIncludes (ofFiles fs) incs (n + 1) st r p = .ok st :=
  sameIncludes_ofFiles_l fs incs n st r p res hI hr hl

theorem C20_links_sameIncludes_trivial_inv (fs : List Files.File) (incs : List String) :
    VerInv_l {} ∧ ∀ n st p res st', processFile (ofFiles fs) incs n st p = .ok (res, st') → VerInv_l st → VerInv_l st' :=
  ⟨VerInv_init_l, fun n st p res st' h hV => VerInv_processFile_l fs incs n st p res st' h hV⟩

/-- The converse of C ("the older model succeeds ⇒ the model with links succeeds, or fails with `sameName`/`tooDeep`
    only") is FALSE for the models as they are, for a reason that has nothing to do with links: the model with links
    spends two units of fuel per level (`processFile` → `processKnown`), the older model one, and both start with
    `4 * #files + 4`.  Ten includes of one leaf: the older model succeeds, the model with links runs out of fuel
    (reported as `cyclic`).  The real code has no fuel. -/
def fsTen : List Files.File := [⟨⟨"d", "m"⟩, List.replicate 10 "a", ["M"]⟩, ⟨⟨"d", "a"⟩, [], ["A"]⟩]

example :
    (match Files.processMains fsTen [] [⟨"d", "m"⟩] [] with | .ok _ => true | .error _ => false) = true ∧
    processMains (ofFiles fsTen) [] [⟨"d", "m"⟩] {} = .error (.cyclic ⟨"d", "a"⟩) := by
  rw [processMainsS_eq_l]
  decide +kernel

/-! ## D. Non-vacuity

  `sameIncludes` is compiled by well-founded recursion, which `decide` cannot unfold; `processMainsS_eq_l` rewrites the
  run into a structurally recursive copy (proved equal in `Lemmas/FilesLinks.lean`), then `decide +kernel` evaluates it
  (kernel reduction, no axiom; the elaborator's own evaluator used by plain `decide` does not terminate in reasonable time
  on the nested recursion of `sameIncludes`). -/

/-- two inputs `p/a` and `q/b` include `t`, which is in both directories a link to `real/t`; `real/t` includes `u`, found
    next to the real file from both sides -/
def fsShared : FS :=
  ⟨[⟨⟨"p", "a"⟩, ⟨"p", "a"⟩⟩, ⟨⟨"q", "b"⟩, ⟨"q", "b"⟩⟩, ⟨⟨"real", "t"⟩, ⟨"real", "t"⟩⟩, ⟨⟨"real", "u"⟩, ⟨"real", "u"⟩⟩,
    ⟨⟨"p", "t"⟩, ⟨"real", "t"⟩⟩, ⟨⟨"q", "t"⟩, ⟨"real", "t"⟩⟩],
   [⟨⟨"p", "a"⟩, ["t"], ["A"]⟩, ⟨⟨"q", "b"⟩, ["t"], ["B"]⟩, ⟨⟨"real", "t"⟩, ["u"], ["T"]⟩, ⟨⟨"real", "u"⟩, [], ["U"]⟩]⟩

/-- with links present, one real file reached through two paths (`p/t`, `q/t`), the run succeeds: the hypotheses of
    A and B are satisfiable; the second input finds `real/t` in the cache (nothing parsed for it again) -/
example : processMains fsShared [] [⟨"p", "a"⟩, ⟨"q", "b"⟩] {} = .ok
    [(⟨"p", "a"⟩, ⟨["A"], ["T", "A"], [⟨"p", "a"⟩, ⟨"real", "t"⟩, ⟨"real", "u"⟩],
        [(0, ⟨"p", "a"⟩), (1, ⟨"real", "t"⟩), (2, ⟨"real", "u"⟩)]⟩),
     (⟨"q", "b"⟩, ⟨["B"], ["T", "B"], [⟨"q", "b"⟩],
        [(0, ⟨"q", "b"⟩), (1, ⟨"real", "t"⟩), (2, ⟨"real", "u"⟩)]⟩)] := by
  rw [processMainsS_eq_l]
  decide +kernel

/-- the same in the other order -/
example : (match processMains fsShared [] [⟨"q", "b"⟩, ⟨"p", "a"⟩] {} with
    | .ok [(_, rb), (_, ra)] => rb.shape == [(0, ⟨"q", "b"⟩), (1, ⟨"real", "t"⟩), (2, ⟨"real", "u"⟩)] &&
        ra.shape == [(0, ⟨"p", "a"⟩), (1, ⟨"real", "t"⟩), (2, ⟨"real", "u"⟩)] && ra.parsed == [⟨"p", "a"⟩]
    | _ => false) = true := by
  rw [processMainsS_eq_l]
  decide +kernel

/-- the two-level situation that a comparison of the direct includes misses.
    `real/y` includes `t`; `dirA/t` includes `x`.  `p/a` includes `y` and finds the link `p/y -> real/y`; from there `t` is
    `p/t -> dirA/t` and, from `p/t`, `x` is `p/x`.  `real/b` includes `y` and finds `real/y` itself; from there `t` is
    `inc2/t -> dirA/t` (the SAME real file: the direct includes of `real/y` agree) but, from `inc2/t`, `x` is `inc/x`. -/
def fsTwoLevel : FS :=
  ⟨[⟨⟨"p", "a"⟩, ⟨"p", "a"⟩⟩, ⟨⟨"real", "b"⟩, ⟨"real", "b"⟩⟩, ⟨⟨"dirA", "t"⟩, ⟨"dirA", "t"⟩⟩,
    ⟨⟨"real", "y"⟩, ⟨"real", "y"⟩⟩, ⟨⟨"p", "y"⟩, ⟨"real", "y"⟩⟩, ⟨⟨"p", "t"⟩, ⟨"dirA", "t"⟩⟩,
    ⟨⟨"inc2", "t"⟩, ⟨"dirA", "t"⟩⟩, ⟨⟨"p", "x"⟩, ⟨"p", "x"⟩⟩, ⟨⟨"inc", "x"⟩, ⟨"inc", "x"⟩⟩],
   [⟨⟨"p", "a"⟩, ["y"], ["A"]⟩, ⟨⟨"real", "b"⟩, ["y"], ["B"]⟩, ⟨⟨"dirA", "t"⟩, ["x"], ["T"]⟩,
    ⟨⟨"real", "y"⟩, ["t"], ["Y"]⟩, ⟨⟨"p", "x"⟩, [], ["XP"]⟩, ⟨⟨"inc", "x"⟩, [], ["XI"]⟩]⟩

/-- each input alone compiles, and `y` means something different in the two: two levels down, `x` is another file -/
example :
    processMains fsTwoLevel ["inc2", "inc"] [⟨"p", "a"⟩] {} = .ok
      [(⟨"p", "a"⟩, ⟨["A"], ["Y", "A"], [⟨"p", "a"⟩, ⟨"real", "y"⟩, ⟨"dirA", "t"⟩, ⟨"p", "x"⟩],
        [(0, ⟨"p", "a"⟩), (1, ⟨"real", "y"⟩), (2, ⟨"dirA", "t"⟩), (3, ⟨"p", "x"⟩)]⟩)] ∧
    processMains fsTwoLevel ["inc2", "inc"] [⟨"real", "b"⟩] {} = .ok
      [(⟨"real", "b"⟩, ⟨["B"], ["Y", "B"], [⟨"real", "b"⟩, ⟨"real", "y"⟩, ⟨"dirA", "t"⟩, ⟨"inc", "x"⟩],
        [(0, ⟨"real", "b"⟩), (1, ⟨"real", "y"⟩), (2, ⟨"dirA", "t"⟩), (3, ⟨"inc", "x"⟩)]⟩)] := by
  rw [processMainsS_eq_l, processMainsS_eq_l]
  decide +kernel

/-- together, in either order, the run is refused: the cached `real/y` would be wrong for the second input, and it is
    `sameIncludes`' recursion into `dirA/t` (reached as `inc2/t`, resp. `p/t`, instead of the path used when it was
    parsed) that finds it out - the direct includes of `real/y` resolve to the same real file from both sides -/
example :
    processMains fsTwoLevel ["inc2", "inc"] [⟨"p", "a"⟩, ⟨"real", "b"⟩] {} = .error (.ambiguous ⟨"inc2", "t"⟩ "x") ∧
    processMains fsTwoLevel ["inc2", "inc"] [⟨"real", "b"⟩, ⟨"p", "a"⟩] {} = .error (.ambiguous ⟨"p", "t"⟩ "x") := by
  rw [processMainsS_eq_l, processMainsS_eq_l]
  decide +kernel

/-- the direct includes of `real/y` do resolve to the same real file from both paths (what a one-level check compares) -/
example :
    (find fsTwoLevel "t" (searchDirs fsTwoLevel ["inc2", "inc"] ⟨"p", "y"⟩)).bind (real fsTwoLevel) = some ⟨"dirA", "t"⟩ ∧
    (find fsTwoLevel "t" (searchDirs fsTwoLevel ["inc2", "inc"] ⟨"real", "y"⟩)).bind (real fsTwoLevel) = some ⟨"dirA", "t"⟩ := by
  decide

/-- the order-free meaning of the two paths to `real/y` (`eval`, no cache): same real file, same direct include, another
    include tree - which is why the cached result of one path may not be used for the other -/
example :
    eval fsTwoLevel ["inc2", "inc"] 4 [] ⟨"p", "y"⟩ =
      .ok (["Y"], ["T", "Y"], [(0, ⟨"real", "y"⟩), (1, ⟨"dirA", "t"⟩), (2, ⟨"p", "x"⟩)]) ∧
    eval fsTwoLevel ["inc2", "inc"] 4 [] ⟨"real", "y"⟩ =
      .ok (["Y"], ["T", "Y"], [(0, ⟨"real", "y"⟩), (1, ⟨"dirA", "t"⟩), (2, ⟨"inc", "x"⟩)]) := by
  rw [evalS_eq_l, evalS_eq_l]
  decide +kernel

/-- A on the first example: what the run gave the second input (which found `real/t` in the cache) is what `eval` gives -/
example : eval fsShared [] 4 [] ⟨"q", "b"⟩ =
    .ok (["B"], ["T", "B"], [(0, ⟨"q", "b"⟩), (1, ⟨"real", "t"⟩), (2, ⟨"real", "u"⟩)]) := by
  rw [evalS_eq_l]
  decide +kernel

/-- C is not vacuous: the diamond of `Properties/C16.lean` runs in the model with links -/
example : (match processMains (ofFiles [
      ⟨⟨"/p", "main"⟩, ["a", "b"], ["M"]⟩, ⟨⟨"/p/i1", "a"⟩, ["base"], ["A"]⟩,
      ⟨⟨"/p/i2", "b"⟩, ["base"], ["B"]⟩, ⟨⟨"/p/i2", "base"⟩, [], ["K"]⟩]) ["/p/i1", "/p/i2"] [⟨"/p", "main"⟩] {} with
    | .ok [(_, r)] => r.visible == ["A", "B", "M"] && r.parsed.map (·.leaf) == ["main", "a", "base", "b"]
    | _ => false) = true := by
  rw [processMainsS_eq_l]
  decide +kernel

end Prophy.C20L

#print axioms Prophy.C20L.C20_links_cache_transparent
#print axioms Prophy.C20L.C20_links_order_independent
#print axioms Prophy.C20L.C20_links_as_alone
#print axioms Prophy.C20L.C20_links_refines_files
#print axioms Prophy.C20L.C20_links_parsed_once
#print axioms Prophy.C20L.C20_links_sameIncludes_trivial
#print axioms Prophy.C20L.C20_links_sameIncludes_trivial_inv

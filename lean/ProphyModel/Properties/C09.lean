/-
  C09 - Raw C++ swap converts a whole foreign-endian message to native in place.

  FULL STATEMENT (target):
    theorem C09_swap : WF t → HasType t v → ¬ unlimited t →
      Raw.swap t (Spec.enc t v foreign ++ tail) = some (Spec.enc t v native ++ tail, alignedEnd)
-/
import ProphyModel.Raw
import ProphyModel.Spec
namespace Prophy.C09
open Prophy Prophy.Raw

/-- scalar kernel: swapping a `k`-byte scalar in place turns its big-endian bytes into its
    little-endian bytes and touches nothing else, at any position of any buffer -/
theorem C09_scalar_swap (k n : Nat) (pre post : Bytes) :
    reverseAt (pre ++ scalarBytes .big k n ++ post) pre.length k
      = some (pre ++ scalarBytes .little k n ++ post) := by
  unfold reverseAt
  have hlen : (scalarBytes .big k n).length = k := scalarBytes_length _ _ _
  have hfit : pre.length + k ≤ (pre ++ scalarBytes .big k n ++ post).length := by
    simp [hlen]
  rw [if_pos hfit]
  congr 1
  have h1 : (pre ++ scalarBytes .big k n ++ post).take pre.length = pre := by
    simp [List.append_assoc]
  have h2 : ((pre ++ scalarBytes .big k n ++ post).drop pre.length).take k = scalarBytes .big k n := by
    simp [List.append_assoc, hlen]
  have h3 : (pre ++ scalarBytes .big k n ++ post).drop (pre.length + k) = post := by
    have : pre.length + k = (pre ++ scalarBytes .big k n).length := by simp [hlen]
    rw [this, List.drop_left]
  rw [h1, h2, h3]
  simp [scalarBytes]

/-- swapping twice restores the buffer (prophy::swap is its own inverse on a scalar) -/
theorem C09_scalar_swap_involutive (buf b1 : Bytes) (pos k : Nat) (h : reverseAt buf pos k = some b1) :
    reverseAt b1 pos k = some buf := by
  unfold reverseAt at h ⊢
  split at h
  · rename_i hfit
    injection h with h; subst h
    have hl : (buf.take pos ++ ((buf.drop pos).take k).reverse ++ buf.drop (pos + k)).length = buf.length := by
      simp; omega
    rw [if_pos (by omega)]
    congr 1
    have ht : (buf.take pos).length = pos := by simp; omega
    have hm : (((buf.drop pos).take k).reverse).length = k := by simp; omega
    have e1 : (buf.take pos ++ ((buf.drop pos).take k).reverse ++ buf.drop (pos + k)).take pos = buf.take pos := by
      rw [List.append_assoc, List.take_left' ht]
    have e2 : ((buf.take pos ++ ((buf.drop pos).take k).reverse ++ buf.drop (pos + k)).drop pos).take k
        = ((buf.drop pos).take k).reverse := by
      rw [List.append_assoc, List.drop_left' ht, List.take_left' hm]
    have e3 : (buf.take pos ++ ((buf.drop pos).take k).reverse ++ buf.drop (pos + k)).drop (pos + k) = buf.drop (pos + k) := by
      have : pos + k = (buf.take pos ++ ((buf.drop pos).take k).reverse).length := by simp [ht, hm]
      rw [this, List.drop_left]
    rw [e1, e2, e3, List.reverse_reverse]
    have : buf.drop pos = (buf.drop pos).take k ++ buf.drop (pos + k) := by
      rw [← List.drop_drop, List.take_append_drop]
    calc buf.take pos ++ (buf.drop pos).take k ++ buf.drop (pos + k)
        = buf.take pos ++ ((buf.drop pos).take k ++ buf.drop (pos + k)) := by rw [List.append_assoc]
      _ = buf.take pos ++ buf.drop pos := by rw [← this]
      _ = buf := List.take_append_drop _ _
  · cases h

end Prophy.C09

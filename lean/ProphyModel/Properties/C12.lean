/-
  C12 - Whatever prophyc accepts, every back-end can realise; rule breakers are rejected.

  FULL STATEMENT (target):
    theorem C12_accepted_realisable (t : Ty) : Accept.front t = true → Accept.pyRt t = true
  (whether g++ accepts the generated translation units is outside the model: decided by
  correspondence only - compile of all generated sources.)
-/
import ProphyModel.Accept
import ProphyModel.Lemmas.WFAccept
import ProphyModel.Lemmas.AcceptImplies
import ProphyModel.Lemmas.ModelAccept
import ProphyModel.Properties.Tables
import ProphyModel.Properties.TablesTexts
namespace Prophy.C12
open Prophy Prophy.Accept

/-- enums: the front-end and the Python runtime accept exactly the same enumerator lists
    (unique names, values below 2^32, at least one) -/
theorem C12_enum_agree (n : String) (es : List (String × Nat)) : front (.enum n es) = pyRt (.enum n es) := by
  simp [front, pyRt]

/-- documented rule breakers are rejected by the front-end, whatever the rest of the struct is:
    an optional field of a dynamic type -/
theorem C12_optional_dynamic_rejected (all before r : List Member) (n : String) (t : Ty)
    (h : (PL.nodeTy t).kind ≠ 0) : frontMs all (.mk n t .optional :: r) before = false := by
  simp [frontMs, isOptional, h]

/-- a fixed or limited array of a dynamic type -/
theorem C12_sized_array_dynamic_rejected (all before r : List Member) (n s : String) (t : Ty) (c : Nat)
    (h : (PL.nodeTy t).kind ≠ 0) :
    frontMs all (.mk n t (.fixed c) :: r) before = false ∧ frontMs all (.mk n t (.limited s c) :: r) before = false := by
  simp [frontMs, sizeOf?, h]

/-- any array of an unlimited type -/
theorem C12_array_unlimited_rejected (all before r : List Member) (n s : String) (t : Ty)
    (h : (PL.nodeTy t).kind = 2) :
    frontMs all (.mk n t (.dyn s sh) :: r) before = false ∧ frontMs all (.mk n t .greedy :: r) before = false := by
  simp [frontMs, isArrayKind, sizeOf?, isOptional, h]

/-- a greedy array or an unlimited struct that is not the last field -/
theorem C12_unlimited_not_last_rejected (all before : List Member) (n : String) (t : Ty) (m : Member) (r : List Member) :
    frontMs all (.mk n t .greedy :: m :: r) before = false := by
  simp [frontMs, isGreedy]

/-- an array whose sizer does not precede it -/
theorem C12_sizer_missing_rejected (all r : List Member) (n s : String) (t : Ty) :
    frontMs all (.mk n t (.dyn s sh) :: r) [] = false := by
  simp [frontMs, MKind.sizer?]

/-- a zero array size -/
theorem C12_zero_size_rejected (all before r : List Member) (n : String) (t : Ty) :
    frontMs all (.mk n t (.fixed 0) :: r) before = false := by
  simp [frontMs, sizeOf?]

/-- duplicate field names, duplicate or out-of-range discriminators -/
theorem C12_duplicate_field_rejected (sn n : String) (t1 t2 : Ty) (k1 k2 : MKind) :
    front (.struct sn [.mk n t1 k1, .mk n t2 k2]) = false := by
  simp [front, uniq, Member.name]

theorem C12_duplicate_discriminator_rejected (un a b : String) (d : Nat) (t1 t2 : Ty) :
    front (.union un [.mk a d t1, .mk b d t2]) = false := by
  simp [front, uniq, Arm.disc]

theorem C12_discriminator_out_of_range_rejected (un a : String) (d : Nat) (t : Ty) (h : 2 ^ 32 ≤ d) :
    front (.union un [.mk a d t]) = false := by
  have : ¬ d < 4294967296 := by omega
  simp [front, Arm.disc, this]

theorem C12_enumerator_out_of_range_rejected (n a : String) (v : Nat) (h : 2 ^ 32 ≤ v) :
    front (.enum n [(a, v)]) = false := by
  have : ¬ v < 4294967296 := by omega
  simp [front, this]

/-- a schema that the prophy front-end accepts and whose generated module the Python runtime
    imports satisfies every composability rule the codec theorems (C01, C19) assume -/
theorem C12_accepted_is_wellformed (t : Ty) (hf : front t = true) (hp : pyRt t = true) : WF.wfTy t = true :=
  Accept.wf_of_accept t hf hp

/-- the Python runtime never accepts a dynamic type where a fixed one is required: what it lets
    through as optional / fixed / limited element / union arm has one size on the wire -/
theorem C12_runtime_fixed (t : Ty) (hp : pyRt t = true) (hd : (Py.stTy t).dyn = false) : Spec.fixedTy t = true :=
  Accept.fixed_of_pyRt t hp hd


/-- FULL STATEMENT (model level): whatever the prophy front-end accepts, the Python runtime imports.
    `noShift`: prophyc never emits a shifted counter (`shift=` exists only in hand-written Python
    descriptors, which `front` does not judge); without it the implication fails, see below -/
theorem C12_accepted_realisable (t : Ty) (hf : front t = true) (hns : Accept.noShift t = true) : pyRt t = true :=
  Accept.pyRt_of_front t hf hns

/-- on accepted schemas the runtime's checks reduce to its two checks on shifts -/
theorem C12_runtime_checks_beyond_front (t : Ty) (hf : front t = true) : pyRt t = true ↔ Accept.shiftsOk t = true :=
  Accept.pyRt_iff_shiftsOk t hf

theorem C12_shift_needs_the_runtime_check : ¬ (∀ t : Ty, front t = true → pyRt t = true) := Accept.pyRt_of_front_false

/-- prophyc's and the runtime's notions of stiffness coincide on accepted schemas -/
theorem C12_stiffness_bridge (t : Ty) (ht : front t = true) :
    ((PL.nodeTy t).kind = 0 ↔ (Py.stTy t).dyn = false) ∧ ((PL.nodeTy t).kind = 2 ↔ (Py.stTy t).unl = true) ∧ (PL.nodeTy t).kind ≤ 2 :=
  Accept.stTy_kind_p12 t ht

/-- EVERY FRONT-END: the validation `model.evaluate_model` applies to the nodes of any front-end and patch (`Accept.model`)
    refuses nothing the prophy parser accepts ... -/
theorem C12_model_validation_accepts_what_the_parser_accepts (t : Ty) (h : front t = true) : Accept.model t = true :=
  Accept.model_of_front t h

/-- ... and is as strict as the parser on everything the language can express (`Accept.grammar`: containers have members,
    `byte` only as array element): a rule breaker is refused whether it comes from prophy text, isar XML or a patch -/
theorem C12_model_validation_is_as_strict_as_the_parser (t : Ty) (hm : Accept.model t = true) (hg : Accept.grammar t = true) :
    front t = true :=
  Accept.front_of_model t hm hg

theorem C12_front_is_model_and_grammar (t : Ty) : front t = (Accept.model t && Accept.grammar t) :=
  Accept.front_eq_model_and_grammar t

/-- hence whatever ANY front-end lets through (and the language can express) the Python runtime can realise -/
theorem C12_any_front_end_realisable (t : Ty) (hm : Accept.model t = true) (hg : Accept.grammar t = true)
    (hns : Accept.noShift t = true) : pyRt t = true :=
  C12_accepted_realisable t (Accept.front_of_model t hm hg) hns

/-- non-vacuity and the difference between the two: a struct without members passes the model validation (finding D56),
    the grammar cannot write it -/
example : Accept.model (.struct "E" []) = true ∧ front (.struct "E" []) = false := by decide


end Prophy.C12

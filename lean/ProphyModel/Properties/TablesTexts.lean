/-
  Obligations about the texts and limits that translator T1 copies from /repo's sources on every run
  (Generated/Texts.lean): the regular expression of expression text prophyc refuses to paste, the include
  depth limit, the names reserved for the generated C++.  A source edit that changes one of them re-runs
  these proofs against the new value; when they break, the model definitions that mirror the old value
  (`Expr.unwritable`, `FilesL.depthLimit`) no longer speak about the code.
-/
import ProphyModel.Generated.Texts
import ProphyModel.FilesL
namespace Prophy.Tables

/-- `Expr.unwritable` (Lemmas/ExprCppLex.lean, `C14_unwritable_is_regex`) is the scan of exactly this regular
    expression: control characters other than TAB, `--`, `++`, a hexadecimal literal (not inside a name) ending in e/E before a sign -/
theorem unwritable_regex_is_source :
    Generated.unwritableRegex = "[\\x00-\\x08\\x0a-\\x1f]|--|\\+\\+|(?<![A-Za-z0-9_])0[xX][0-9a-fA-F]*[eE][-+]" := by decide

/-- the depth limit of the file processor model is the one of the code -/
theorem include_depth_limit_is_source : FilesL.depthLimit = Generated.includeDepthLimit := by decide

/-- every name the generated C++ uses unqualified inside its classes and function bodies is refused as a schema name
    by both C++ generators (defects D114, D155, D173: the fixed-width integer types, `encoded_byte_size` in every class;
    `native` / `little` / `big` / `indent` of the printer and the codec are in the full codec's list since D202) -/
theorem cpp_runtime_names_cover :
    ["encoded_byte_size", "size_t", "prophy", "std",
     "int8_t", "int16_t", "int32_t", "int64_t", "uint8_t", "uint16_t", "uint32_t", "uint64_t"].all
      (fun n => Generated.cppRuntimeNames.contains n) = true := by decide

/-- the nested names of the raw C++ header (blocks `part2`, `part3`, ..., the union's `_discriminator`) are refused by `--cpp_out` -/
theorem cpp_raw_generated_names_is_source :
    Generated.cppRawGeneratedNames = "(part([2-9]|[1-9][0-9]+)|_discriminator)\\Z" := by decide

/-- the names of `prophy::detail` and of the generated classes that the full codec's sources use unqualified are refused by
`--cpp_full_out` (D195); `array` and `optional` also as member names -/
theorem cpp_full_runtime_names_cover :
    ["array", "optional", "message", "message_impl", "encoder", "decoder", "printer", "align", "align_ptr", "alignment", "nearest",
     "byte_size", "int2type", "codec_traits", "print_traits", "do_encode", "do_decode", "do_print", "endianness", "detail",
     "generated", "swap", "discriminator", "encode", "decode", "print", "get_byte_size", "native", "little", "big", "indent",
     "do_decode_advance", "do_decode_align", "do_decode_greedy", "do_decode_in_place", "do_decode_resize", "encode_int", "decode_int",
     "print_byte", "indent_t", "is_class_or_union", "decoder_greedy", "heap_value", "optional_detail", "to_literal"].all
      (fun n => Generated.cppFullRuntimeNames.contains n) = true ∧
    ["array", "optional", "encode", "get_byte_size"].all (fun n => Generated.cppFullMemberNames.contains n) = true := by decide

/-- the names of the raw codec's runtime that its generated sources use unqualified are refused by `--cpp_out` (D195) -/
theorem cpp_raw_runtime_names_cover :
    ["swap", "cast", "bool_t", "detail", "align", "align_ptr", "alignment", "swap_n_fixed", "swap_n_dynamic", "discriminator"].all
      (fun n => Generated.cppRawRuntimeNames.contains n) = true := by decide

end Prophy.Tables

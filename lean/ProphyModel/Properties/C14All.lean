/- C14: the evaluators (Properties/C14.lean) and the host-language reading of pasted expression text
   (Properties/C14Host.lean) and the character-level lexer facts (Properties/C14Lex.lean) and the rendering of lone literals by the C++ generators
   (Properties/C14Literal.lean) audited together -/
import ProphyModel.Properties.C14
import ProphyModel.Properties.C14Host
import ProphyModel.Properties.C14Lex
import ProphyModel.Properties.C14CppLex
import ProphyModel.Properties.TablesTexts
import ProphyModel.Properties.C14Literal

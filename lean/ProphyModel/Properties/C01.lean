/-
  C01 - Python encode emits exactly the documented wire format.
  (theorems are added below as they are proved; the full statement stays visible)

  FULL STATEMENT (target):
    theorem C01_py_encode_canonical (t : Ty) (v : Val) (e : Endian) :
      WF t → HasType t v → Py.encode t v e = .ok (Spec.enc t v e)
-/
import ProphyModel.Properties.Tables
import ProphyModel.Properties.DocExamples
import ProphyModel.Lemmas.Statics
namespace Prophy.C01
open Prophy

/-- `_ALIGNMENT` of every generated class is the alignment the document assigns -/
theorem C01_py_alignment (t : Ty) : (Py.stTy t).align = Spec.alignTy t := Py.stTy_align t

end Prophy.C01

/-
  C01 - Python encode emits exactly the documented wire format.

  `C01_py_encode_canonical` is the full statement: for every schema tree that satisfies the
  composability rules (`WF.wfTy`, implied by `Accept.front ∧ Accept.pyRt`, see C12), every value
  of the type (`hasType`) whose arrays sharing a counter agree in length (`WF.agreeTy`; otherwise
  the real encode raises "Size mismatch of arrays") and either byte order, the model of
  `Message.encode()` returns the canonical encoding of docs/encoding.rst (`Spec.enc`): field
  order, sizes, the positions of the padding, zero padding bytes, counters equal to the element
  counts (plus the declared shift), optional flags and union discriminators as 32-bit integers.
  The proof (Lemmas/PyEncode.lean) is by mutual structural induction on the value; its layout
  core is that the runtime's "pad before each field to its alignment, and after a dynamic field to
  the partial alignment" reaches the same offsets as the document's "first field of a block has
  the greatest alignment of the block".
-/
import ProphyModel.Properties.Tables
import ProphyModel.Properties.DocExamples
import ProphyModel.Lemmas.Statics
import ProphyModel.Lemmas.PyEncode
import ProphyModel.Lemmas.WFAccept
namespace Prophy.C01
open Prophy

/-- `_ALIGNMENT` of every generated class is the alignment the document assigns -/
theorem C01_py_alignment (t : Ty) : (Py.stTy t).align = Spec.alignTy t := Py.stTy_align t

/-- FULL STATEMENT: encode is canonical, for every well-formed schema, every well-typed coherent
    value and both byte orders -/
theorem C01_py_encode_canonical (t : Ty) (v : Val) (e : Endian)
    (hw : WF.wfTy t = true) (hv : hasType t v = true) (ha : WF.agreeTy t v = true) :
    Py.encode t v e = .ok (Spec.enc t v e) :=
  Py.encode_canonical t v e hw hv ha

/-- the same for every schema that prophyc accepts and the runtime imports (C12 bridges the
    hypotheses): no assumption on the schema beyond acceptance by the real tool chain's models -/
theorem C01_accepted_encode_canonical (t : Ty) (v : Val) (e : Endian)
    (hf : Accept.front t = true) (hp : Accept.pyRt t = true)
    (hv : hasType t v = true) (ha : WF.agreeTy t v = true) :
    Py.encode t v e = .ok (Spec.enc t v e) :=
  Py.encode_canonical t v e (Accept.wf_of_accept t hf hp) hv ha

/-- the length of what encode returns is the sum of the documented chunk lengths -/
theorem C01_py_encode_length (t : Ty) (v : Val) (e : Endian) (b : Bytes)
    (hw : WF.wfTy t = true) (hv : hasType t v = true) (ha : WF.agreeTy t v = true)
    (h : Py.encode t v e = .ok b) : b.length = Spec.clen (Spec.chunksTy t v) := by
  rw [C01_py_encode_canonical t v e hw hv ha] at h
  injection h with h
  rw [← h]; simp [Spec.enc]

/-- the runtime's `_DYNAMIC` flag is the document's stiffness on well-formed schemas -/
theorem C01_py_dynamic (t : Ty) (hw : WF.wfTy t = true) : (Py.stTy t).dyn = Spec.dynTy t := Py.stTy_dyn t hw

/-! the hypotheses are satisfiable by a non-trivial type and value: a struct with a shared,
    narrow, shifted counter, a nested dynamic struct followed by less and more aligned fields, an
    optional, a limited array and a union -/
def exInner : Ty := .struct "Dy" [.mk "num_of_a" (.prim .u32) .plain, .mk "a" (.prim .u8) (.dyn "num_of_a" 0)]
def exUnion : Ty := .union "U" [.mk "a" 1 (.prim .u8), .mk "b" 5 (.prim .u64)]
def exT : Ty := .struct "X"
  [ .mk "n" (.prim .u8) .plain, .mk "x" (.prim .u16) (.dyn "n" 2), .mk "y" (.prim .u8) (.dyn "n" 2),
    .mk "d" exInner .plain, .mk "t" (.prim .u8) .plain, .mk "w" (.prim .u64) .plain,
    .mk "o" (.prim .u16) .optional, .mk "num_of_l" (.prim .u32) .plain, .mk "l" (.prim .u16) (.limited "num_of_l" 3),
    .mk "u" exUnion .plain ]
def exV : Val := .struct
  [ .sizer, .arr [.int 1, .int 2], .arr [.int 3, .int 4], .struct [.sizer, .arr [.int 9, .int 8, .int 7]], .int 5, .int 6,
    .present (.int 7), .sizer, .arr [.int 1], .union 1 (.int 77) ]

example : WF.wfTy exT = true ∧ hasType exT exV = true ∧ WF.agreeTy exT exV = true := by decide
example : Accept.front exT = true ∧ Accept.pyRt exT = true := by decide

end Prophy.C01

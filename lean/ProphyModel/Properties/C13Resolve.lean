/-
  C13 (and C14, the meaning of a NAME in a constant expression): the two `while` loops with a `seen` set of prophyc's
  evaluator terminate, and mean what they should.

  `Resolve.loop` / `Resolve.resolve` model `calc.p_expression_name`; `Resolve.lastInChain` models
  `model._collect_constants.get_last_in_chain` (`ProphyModel/Resolve.lean`).  The models carry fuel; the theorems here say
  that the fuel `fuelOf vars = vars.length + 2` is never used up and that more fuel changes nothing, so the model's answer
  is THE answer of the loop, and the Python loops terminate on every dictionary.  The reason: `seen` holds distinct KEYS of
  `vars` (names found by `lookup`), so it never has more than `vars.length` elements (pigeonhole over `vars.map (·.1)`;
  duplicate keys in the list only make the bound slack), and every iteration adds one.

  Two seeded defects changed the `seen` bookkeeping of the first loop and made prophyc hang on `A -> B -> B`: the
  characterisation below says that the answer there is `selfDefined` (a name visited BEFORE is reached, not only the
  start name).
-/
import ProphyModel.Resolve
import ProphyModel.Lemmas.ResolveLemmas
namespace Prophy.C13
open Prophy Prophy.Resolve

/-! ### 1. termination with the given fuel -/

theorem C13_resolve_never_out_of_fuel (vars : Vars) (name : String) : resolve vars name ≠ .error .fuel :=
  loop_ne_fuel_p26 vars (fuelOf vars) [] name (seenInv_nil_p26 vars) (by simp [fuelOf])

/-- a sharper form: already `vars.length + 1` iterations are enough -/
theorem C13_loop_never_out_of_fuel (vars : Vars) (n : Nat) (name : String) (h : vars.length + 1 ≤ n) :
    loop vars n [] name ≠ .error .fuel :=
  loop_ne_fuel_p26 vars n [] name (seenInv_nil_p26 vars) (by simpa using h)

/-! ### 2. fuel independence -/

theorem C13_loop_fuel_independent (vars : Vars) (n m : Nat) (name : String)
    (hn : fuelOf vars ≤ n) (hm : fuelOf vars ≤ m) : loop vars n [] name = loop vars m [] name :=
  loop_eq_of_ne_fuel_p26 vars n m [] name
    (C13_loop_never_out_of_fuel vars n name (by simp only [fuelOf] at hn; omega))
    (C13_loop_never_out_of_fuel vars m name (by simp only [fuelOf] at hm; omega))

theorem C13_resolve_eq_loop (vars : Vars) (n : Nat) (name : String) (hn : fuelOf vars ≤ n) :
    loop vars n [] name = resolve vars name :=
  C13_loop_fuel_independent vars n (fuelOf vars) name hn (Nat.le_refl _)

/-- any run of the loop that does not end for lack of fuel gives the answer of `resolve`, whatever its fuel -/
theorem C13_loop_eq_resolve_of_ne_fuel (vars : Vars) (n : Nat) (name : String)
    (h : loop vars n [] name ≠ .error .fuel) : loop vars n [] name = resolve vars name :=
  loop_eq_of_ne_fuel_p26 vars n (fuelOf vars) [] name h (C13_resolve_never_out_of_fuel vars name)

/-! ### 3. meaning

`Chain vars a path b` (`Lemmas/ResolveLemmas.lean`): following NAME entries of `vars` from `a` visits exactly the names
`path` (in order, `a` first, `b` not included) and arrives at `b`:
  `Chain vars a [] a`;   `vars.lookup a = some (.name c) → Chain vars c path b → Chain vars a (a :: path) b`.
So `path ++ [b]` is the list of all names the walk has seen when it stands at `b`. -/

/-- the walk from `n` reaches, without repeating a name, a name whose entry is the integer `v` -/
def ReachesInt (vars : Vars) (n : String) (v : Int) : Prop :=
  ∃ path b, Chain vars n path b ∧ (path ++ [b]).Nodup ∧ vars.lookup b = some (.int v)

/-- the walk from `n` reaches a name it has visited before (the names before it being distinct: it is the FIRST repetition) -/
def ReachesVisited (vars : Vars) (n : String) : Prop :=
  ∃ path b, Chain vars n path b ∧ path.Nodup ∧ b ∈ path

/-- the walk from `n` reaches, without repeating a name, a name that is no key or whose entry is `None` -/
def ReachesMissing (vars : Vars) (n : String) : Prop :=
  ∃ path b, Chain vars n path b ∧ (path ++ [b]).Nodup ∧ (vars.lookup b = Option.none ∨ vars.lookup b = some .none)

private theorem resolve_of_loop_p26 (vars : Vars) (n : String) (fuel : Nat) (r : Except Err Int)
    (h : loop vars fuel [] n = r) (hr : r ≠ .error .fuel) : resolve vars n = r := by
  rw [← h]
  exact (C13_loop_eq_resolve_of_ne_fuel vars fuel n (by rw [h]; exact hr)).symm

theorem C13_resolve_ok_iff (vars : Vars) (n : String) (v : Int) :
    resolve vars n = .ok v ↔ ReachesInt vars n v := by
  constructor
  · intro h
    obtain ⟨path, b, hch, hb, hnd, _, _⟩ := loop_ok_sound_p26 vars _ [] n v h
    exact ⟨path, b, hch, hnd, hb⟩
  · rintro ⟨path, b, hch, hnd, hb⟩
    have hterm : Terminal vars b := by intro s hs; rw [hb] at hs; cases hs
    have := loop_terminal_complete_p26 hch (path.length + 1) [] hnd (by simp) (Nat.le_refl _) hterm
    rw [hb] at this
    exact resolve_of_loop_p26 vars n _ _ this (by simp)

theorem C13_resolve_selfDefined_iff (vars : Vars) (n : String) :
    resolve vars n = .error .selfDefined ↔ ReachesVisited vars n := by
  constructor
  · intro h
    obtain ⟨path, b, hch, hnd, _, hb, _⟩ := loop_selfDefined_sound_p26 vars _ [] n h
    exact ⟨path, b, hch, hnd, by simpa using hb⟩
  · rintro ⟨path, b, hch, hnd, hb⟩
    have := loop_selfDefined_complete_p26 hch (path.length + 1) [] hnd (by simp) (Or.inl hb) (Nat.le_refl _)
    exact resolve_of_loop_p26 vars n _ _ this (by simp)

theorem C13_resolve_notFound_iff (vars : Vars) (n : String) :
    resolve vars n = .error .notFound ↔ ReachesMissing vars n := by
  constructor
  · intro h
    obtain ⟨path, b, hch, hb, hnd, _, _⟩ := loop_notFound_sound_p26 vars _ [] n h
    exact ⟨path, b, hch, hnd, hb⟩
  · rintro ⟨path, b, hch, hnd, hb⟩
    have hterm : Terminal vars b := by
      intro s hs
      rcases hb with hb | hb <;> (rw [hb] at hs; cases hs)
    have := loop_terminal_complete_p26 hch (path.length + 1) [] hnd (by simp) (Nat.le_refl _) hterm
    have e : endAnswer (vars.lookup b) = .error .notFound := by
      rcases hb with hb | hb <;> rw [hb] <;> rfl
    rw [e] at this
    exact resolve_of_loop_p26 vars n _ _ this (by simp)

/-- "without repeating a name" is automatic for the two terminal outcomes: a walk that repeats a name goes round for ever
    and reaches no integer / missing name.  So the side condition may be dropped on the right. -/
theorem C13_resolve_ok_iff' (vars : Vars) (n : String) (v : Int) :
    resolve vars n = .ok v ↔ ∃ path b, Chain vars n path b ∧ vars.lookup b = some (.int v) := by
  rw [C13_resolve_ok_iff]
  constructor
  · rintro ⟨path, b, hch, _, hb⟩; exact ⟨path, b, hch, hb⟩
  · rintro ⟨path, b, hch, hb⟩
    have hterm : Terminal vars b := by intro s hs; rw [hb] at hs; cases hs
    exact ⟨path, b, hch, chain_terminal_nodup_p26 hch hterm, hb⟩

theorem C13_resolve_notFound_iff' (vars : Vars) (n : String) :
    resolve vars n = .error .notFound ↔
      ∃ path b, Chain vars n path b ∧ (vars.lookup b = Option.none ∨ vars.lookup b = some .none) := by
  rw [C13_resolve_notFound_iff]
  constructor
  · rintro ⟨path, b, hch, _, hb⟩; exact ⟨path, b, hch, hb⟩
  · rintro ⟨path, b, hch, hb⟩
    have hterm : Terminal vars b := by
      intro s hs
      rcases hb with hb | hb <;> (rw [hb] at hs; cases hs)
    exact ⟨path, b, hch, chain_terminal_nodup_p26 hch hterm, hb⟩

/-- the three outcomes are exhaustive (from 1) ... -/
theorem C13_resolve_trichotomy (vars : Vars) (n : String) :
    (∃ v, resolve vars n = .ok v) ∨ resolve vars n = .error .selfDefined ∨ resolve vars n = .error .notFound := by
  have h := C13_resolve_never_out_of_fuel vars n
  cases hr : resolve vars n with
  | ok v => exact Or.inl ⟨v, rfl⟩
  | error e =>
    cases e with
    | selfDefined => exact Or.inr (Or.inl rfl)
    | notFound => exact Or.inr (Or.inr rfl)
    | fuel => exact absurd hr h

/-- likewise "first repetition" may be dropped: the walk comes back to a name it has visited, somewhere -/
theorem C13_resolve_selfDefined_iff' (vars : Vars) (n : String) :
    resolve vars n = .error .selfDefined ↔ ∃ path b, Chain vars n path b ∧ b ∈ path := by
  constructor
  · intro h
    obtain ⟨path, b, hch, _, hb⟩ := (C13_resolve_selfDefined_iff vars n).mp h
    exact ⟨path, b, hch, hb⟩
  · rintro ⟨path, b, hch, hb⟩
    rcases C13_resolve_trichotomy vars n with ⟨v, h⟩ | h | h
    · obtain ⟨q, t, hq, ht⟩ := (C13_resolve_ok_iff' vars n v).mp h
      exact (chain_cycle_no_terminal_p26 hch hb hq (by intro s hs; rw [ht] at hs; cases hs)).elim
    · exact h
    · obtain ⟨q, t, hq, ht⟩ := (C13_resolve_notFound_iff' vars n).mp h
      exact (chain_cycle_no_terminal_p26 hch hb hq (by
        intro s hs
        rcases ht with ht | ht <;> (rw [ht] at hs; cases hs))).elim

/-- ... and so are the three descriptions of the walk: every walk ends in exactly one of the three ways -/
theorem C13_walk_exhaustive (vars : Vars) (n : String) :
    (∃ v, ReachesInt vars n v) ∨ ReachesVisited vars n ∨ ReachesMissing vars n := by
  rcases C13_resolve_trichotomy vars n with ⟨v, h⟩ | h | h
  · exact Or.inl ⟨v, (C13_resolve_ok_iff vars n v).mp h⟩
  · exact Or.inr (Or.inl ((C13_resolve_selfDefined_iff vars n).mp h))
  · exact Or.inr (Or.inr ((C13_resolve_notFound_iff vars n).mp h))

/-- ... and exclusive: the integer is unique, and no two of the three descriptions hold together -/
theorem C13_walk_exclusive (vars : Vars) (n : String) :
    (∀ v w, ReachesInt vars n v → ReachesInt vars n w → v = w) ∧
    (∀ v, ReachesInt vars n v → ¬ ReachesVisited vars n) ∧
    (∀ v, ReachesInt vars n v → ¬ ReachesMissing vars n) ∧
    (ReachesVisited vars n → ¬ ReachesMissing vars n) := by
  refine ⟨?_, ?_, ?_, ?_⟩
  · intro v w hv hw
    have h1 := (C13_resolve_ok_iff vars n v).mpr hv
    have h2 := (C13_resolve_ok_iff vars n w).mpr hw
    rw [h1] at h2
    cases h2; rfl
  · intro v hv hs
    have h1 := (C13_resolve_ok_iff vars n v).mpr hv
    have h2 := (C13_resolve_selfDefined_iff vars n).mpr hs
    rw [h1] at h2; cases h2
  · intro v hv hs
    have h1 := (C13_resolve_ok_iff vars n v).mpr hv
    have h2 := (C13_resolve_notFound_iff vars n).mpr hs
    rw [h1] at h2; cases h2
  · intro hv hs
    have h1 := (C13_resolve_selfDefined_iff vars n).mpr hv
    have h2 := (C13_resolve_notFound_iff vars n).mpr hs
    rw [h1] at h2; cases h2

/-! ### 4. `get_last_in_chain`

`KChain vars a path b` (`Lemmas/ResolveLemmas.lean`): following entries `lookupKey vars a = some v` with `valToKey v ≠ a`
from the key `a` visits exactly `path` and arrives at `b`.  `KStop vars b`: `b` is no key of the dictionary (in particular
an int or `None`), or its entry maps it to itself - the loop's condition `constants.get(key, key) != key` fails. -/

theorem C13_lastInChain_fuel_independent (vars : Vars) (n m : Nat) (key : Key)
    (hn : vars.length + 2 ≤ n) (hm : vars.length + 2 ≤ m) :
    lastInChain vars n [] key = lastInChain vars m [] key := by
  have base : ∀ k, vars.length + 2 ≤ k → lastInChain vars k [] key = lastInChain vars (vars.length + 2) [] key := by
    intro k hk
    obtain ⟨d, rfl⟩ : ∃ d, k = vars.length + 2 + d := ⟨k - (vars.length + 2), by omega⟩
    exact lastInChain_mono_p26 vars (vars.length + 2) [] key d (kseenInv_nil_p26 vars) (by simp)
  rw [base n hn, base m hm]

/-- what the answer is: a key reachable from the start by steps of the dictionary along distinct keys, at which the loop's
    own conditions stop it: it was visited before, or it is no key / maps to itself. -/
theorem C13_lastInChain_spec (vars : Vars) (n : Nat) (key : Key) (hn : vars.length + 2 ≤ n) :
    ∃ path, KChain vars key path (lastInChain vars n [] key) ∧ path.Nodup ∧
      (lastInChain vars n [] key ∈ path ∨ KStop vars (lastInChain vars n [] key)) := by
  obtain ⟨path, hch, hnd, _, hb⟩ :=
    lastInChain_sound_p26 vars n [] key (kseenInv_nil_p26 vars) (by simp only [List.length_nil]; omega)
  exact ⟨path, hch, hnd, by simpa using hb⟩

/-- and this determines the answer: the characterisation is an equivalence -/
theorem C13_lastInChain_iff (vars : Vars) (n : Nat) (key b : Key) (hn : vars.length + 2 ≤ n) :
    lastInChain vars n [] key = b ↔ ∃ path, KChain vars key path b ∧ path.Nodup ∧ (b ∈ path ∨ KStop vars b) := by
  constructor
  · intro h
    rw [← h]
    exact C13_lastInChain_spec vars n key hn
  · rintro ⟨path, hch, hnd, hb⟩
    have hb' : b ∈ path ∨ b ∈ ([] : List Key) ∨ KStop vars b := by
      rcases hb with hb | hb
      · exact Or.inl hb
      · exact Or.inr (Or.inr hb)
    by_cases hlen : path.length + 1 ≤ n
    · exact lastInChain_complete_p26 hch n [] hnd (by simp) hb' hlen
    · have h1 := lastInChain_complete_p26 hch (path.length + 1) [] hnd (by simp) hb' (Nat.le_refl _)
      rw [← h1]
      exact C13_lastInChain_fuel_independent vars n (path.length + 1) key hn (by omega)

/-! ### 5. examples -/

instance decEqResult_p26 : DecidableEq (Except Err Int)
  | .ok a, .ok b => if h : a = b then isTrue (by rw [h]) else isFalse (by intro e; cases e; exact h rfl)
  | .error a, .error b => if h : a = b then isTrue (by rw [h]) else isFalse (by intro e; cases e; exact h rfl)
  | .ok _, .error _ => isFalse (by intro e; cases e)
  | .error _, .ok _ => isFalse (by intro e; cases e)

-- `A -> B -> 5` resolves to 5
example : resolve [("A", .name "B"), ("B", .int 5)] "A" = .ok 5 := by decide
-- `A -> B -> B`: defined by itself (the seeded defects made prophyc hang here)
example : resolve [("A", .name "B"), ("B", .name "B")] "A" = .error .selfDefined := by decide
-- `A -> A`
example : resolve [("A", .name "A")] "A" = .error .selfDefined := by decide
-- a longer cycle entered from outside: `A -> B -> C -> B`
example : resolve [("A", .name "B"), ("B", .name "C"), ("C", .name "B")] "A" = .error .selfDefined := by decide
-- `A -> B`, `B` missing
example : resolve [("A", .name "B")] "A" = .error .notFound := by decide
-- `A -> None`
example : resolve [("A", .none)] "A" = .error .notFound := by decide
-- the name itself is missing
example : resolve [] "A" = .error .notFound := by decide
-- a dictionary with a duplicate key: the first entry counts, the list is longer than the set of keys
example : resolve [("A", .name "B"), ("A", .name "A"), ("B", .int 7), ("B", .name "A")] "A" = .ok 7 := by decide
example : resolve [("A", .name "A"), ("A", .int 1)] "A" = .error .selfDefined := by decide
-- with too little fuel the model says so (and `fuelOf` is never too little)
example : loop [("A", .name "B"), ("B", .name "C"), ("C", .int 1)] 2 [] "A" = .error .fuel := by decide

-- `get_last_in_chain`: typedef chains
example : lastInChain [("A", .name "B"), ("B", .name "u32")] 4 [] (.name "A") = .name "u32" := by decide
example : lastInChain [("A", .name "B"), ("B", .name "A")] 4 [] (.name "A") = .name "A" := by decide
example : lastInChain [("A", .name "B"), ("B", .name "B")] 4 [] (.name "A") = .name "B" := by decide
example : lastInChain [("A", .name "B"), ("B", .name "C"), ("C", .name "B")] 5 [] (.name "A") = .name "B" := by decide
-- a chain that ends in a constant gives its VALUE (an int, or `None`), which is no key
example : lastInChain [("A", .name "N"), ("N", .int 3)] 4 [] (.name "A") = .int 3 := by decide
example : lastInChain [("A", .name "N"), ("N", .none)] 4 [] (.name "A") = .none := by decide

end Prophy.C13

#print axioms Prophy.C13.C13_resolve_never_out_of_fuel
#print axioms Prophy.C13.C13_loop_fuel_independent
#print axioms Prophy.C13.C13_resolve_ok_iff
#print axioms Prophy.C13.C13_resolve_selfDefined_iff
#print axioms Prophy.C13.C13_resolve_notFound_iff
#print axioms Prophy.C13.C13_resolve_ok_iff'
#print axioms Prophy.C13.C13_resolve_notFound_iff'
#print axioms Prophy.C13.C13_resolve_selfDefined_iff'
#print axioms Prophy.C13.C13_resolve_trichotomy
#print axioms Prophy.C13.C13_walk_exhaustive
#print axioms Prophy.C13.C13_walk_exclusive
#print axioms Prophy.C13.C13_lastInChain_fuel_independent
#print axioms Prophy.C13.C13_lastInChain_spec
#print axioms Prophy.C13.C13_lastInChain_iff

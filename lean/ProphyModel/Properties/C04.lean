/-
  C04 - prophyc's computed layout equals the wire rules and both runtimes' statics.
-/
import ProphyModel.Properties.Tables
import ProphyModel.Lemmas.Statics
import ProphyModel.PLayout
import ProphyModel.Properties.DocExamples
import ProphyModel.Lemmas.PLayoutSpec
namespace Prophy.C04
open Prophy

/-- the Python runtime's `_ALIGNMENT` is the documented alignment, for every type -/
theorem C04_py_alignment (t : Ty) : (Py.stTy t).align = Spec.alignTy t := Py.stTy_align t

/-- `_SIZE` of every generated class of a fixed type (any nesting of structs, unions, optionals,
    fixed and limited arrays, any field order) is the documented static size: the padding loop of
    struct_generator.add_attributes (pad after each field up to the next field's alignment)
    reaches exactly the offset the document's rule (pad before each field; composite size is a
    multiple of its alignment; optionals are not) assigns -/
theorem C04_py_size_fixed (t : Ty) (h : Spec.fixedTy t = true) : (Py.stTy t).size = Spec.sizeTy t :=
  Py.stTy_size_fixed t h

/-- a fixed type is never classified dynamic by the documented rules -/
theorem C04_fixed_not_dynamic (t : Ty) (h : Spec.fixedTy t = true) : Spec.dynTy t = false :=
  Spec.dynTy_of_fixed t h

/-- non-vacuity: the `Nested`/`X` struct of encoding.rst "Composite padding" is fixed, its size is 32 -/
example : Spec.fixedTy DocExamples.Nested3 = true ∧ (Py.stTy (.struct "X" [DocExamples.plain "x" DocExamples.u64,
    DocExamples.plain "y" DocExamples.u32, DocExamples.plain "z" DocExamples.u8, DocExamples.plain "n" DocExamples.Nested3])).size = 32 := by
  decide


/-- FULL STATEMENT for prophyc: for every schema prophyc accepts, the alignment, the stiffness
    kind and the byte size it computes for every type are the documented ones -/
theorem C04_prophyc_layout (t : Ty) (hf : Accept.front t = true) :
    (PL.nodeTy t).align = Spec.alignTy t ∧
    (PL.nodeTy t).kind = (if Spec.unlTy t then 2 else if Spec.dynTy t then 1 else 0) ∧
    (PL.nodeTy t).size = Spec.sizeTy t :=
  ⟨PL.nodeTy_align t hf, PL.nodeTy_kind t hf, PL.nodeTy_size t hf⟩

/-- the signed per-member paddings prophyc hands to the C++ generators (>= 0: that many bytes,
    < 0: align to |p|) reproduce the canonical length of every value of every accepted struct -/
theorem C04_paddings_give_canonical_length (n : String) (ms : List Member) (vs : List Val)
    (hf : Accept.front (.struct n ms) = true) (hv : hasType (.struct n ms) (.struct vs) = true) :
    PL.lengthByPaddings (Spec.memberLens ms vs ms vs) ((PL.structMembers ms).map (·.2.2)) 0
      = Spec.clen (Spec.chunksTy (.struct n ms) (.struct vs)) :=
  PL.lengthByPaddings_spec n ms vs hf hv

end Prophy.C04

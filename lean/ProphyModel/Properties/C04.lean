/-
  C04 - prophyc's computed layout equals the wire rules and both runtimes' statics.
-/
import ProphyModel.Properties.Tables
import ProphyModel.Lemmas.Statics
import ProphyModel.PLayout
import ProphyModel.Properties.DocExamples
namespace Prophy.C04
open Prophy

/-- the Python runtime's `_ALIGNMENT` is the documented alignment, for every type -/
theorem C04_py_alignment (t : Ty) : (Py.stTy t).align = Spec.alignTy t := Py.stTy_align t

/-- `_SIZE` of every generated class of a fixed type (any nesting of structs, unions, optionals,
    fixed and limited arrays, any field order) is the documented static size: the padding loop of
    struct_generator.add_attributes (pad after each field up to the next field's alignment)
    reaches exactly the offset the document's rule (pad before each field; composite size is a
    multiple of its alignment; optionals are not) assigns -/
theorem C04_py_size_fixed (t : Ty) (h : Spec.fixedTy t = true) : (Py.stTy t).size = Spec.sizeTy t :=
  Py.stTy_size_fixed t h

/-- a fixed type is never classified dynamic by the documented rules -/
theorem C04_fixed_not_dynamic (t : Ty) (h : Spec.fixedTy t = true) : Spec.dynTy t = false :=
  Spec.dynTy_of_fixed t h

/-- non-vacuity: the `Nested`/`X` struct of encoding.rst "Composite padding" is fixed, its size is 32 -/
example : Spec.fixedTy DocExamples.Nested3 = true ∧ (Py.stTy (.struct "X" [DocExamples.plain "x" DocExamples.u64,
    DocExamples.plain "y" DocExamples.u32, DocExamples.plain "z" DocExamples.u8, DocExamples.plain "n" DocExamples.Nested3])).size = 32 := by
  decide

end Prophy.C04

/-
  C04 - prophyc's computed layout equals the wire rules and both runtimes' statics.
-/
import ProphyModel.Properties.Tables
import ProphyModel.Lemmas.Statics
import ProphyModel.PLayout
namespace Prophy.C04
open Prophy

/-- the Python runtime's `_ALIGNMENT` is the documented alignment, for every type -/
theorem C04_py_alignment (t : Ty) : (Py.stTy t).align = Spec.alignTy t := Py.stTy_align t

end Prophy.C04

/-
  Obligations about the tables that translator T1 regenerates from /repo's sources
  on every run.  A source edit that changes a table re-runs these proofs against
  the new table.
-/
import ProphyModel.Generated.PyScalars
import ProphyModel.Generated.ProphycSizes
import ProphyModel.Generated.Ranges
import ProphyModel.Expr
import ProphyModel.Accept
import ProphyModel.Py
import ProphyModel.Spec
namespace Prophy.Tables

def primOfName : String → Option Prim
  | "i8" => some .i8 | "i16" => some .i16 | "i32" => some .i32 | "i64" => some .i64
  | "u8" => some .u8 | "u16" => some .u16 | "u32" => some .u32 | "u64" => some .u64
  | "r32" => some .r32 | "r64" => some .r64
  | _ => none

/-- `struct` module format characters: standard sizes 1/2/4/8, lower case signed -/
def structChar : Prim → String
  | .i8 => "b" | .i16 => "h" | .i32 => "i" | .i64 => "q"
  | .u8 => "B" | .u16 => "H" | .u32 => "I" | .u64 => "Q"
  | .r32 => "f" | .r64 => "d"

def intRowOk (r : String × Nat × String × Int × Int) : Bool :=
  match primOfName r.1 with
  | some p => !p.isFloat && p.size == r.2.1 && structChar p == r.2.2.1
      && (Py.primRange p).1 == r.2.2.2.1 && (Py.primRange p).2 == r.2.2.2.2
  | none => false

def floatRowOk (r : String × Nat × String) : Bool :=
  match primOfName r.1 with
  | some p => p.isFloat && p.size == r.2.1 && structChar p == r.2.2
  | none => false

/-- every Python integer class has the size, `struct` format, and range `[-2^(8s-1), 2^(8s-1)-1]`
    resp. `[0, 2^(8s)-1]` that the model's `Prim` assumes -/
theorem pyInts_sound : Generated.pyInts.all intRowOk = true := by decide

theorem pyFloats_sound : Generated.pyFloats.all floatRowOk = true := by decide

/-- all ten scalar classes are present (none dropped) -/
theorem pyScalars_complete :
    Generated.pyInts.map (·.1) ++ Generated.pyFloats.map (·.1)
      = ["i8", "i16", "i32", "i64", "u8", "u16", "u32", "u64", "r32", "r64"] := by decide

theorem pyAlign_is_size : Generated.pyAlignIsSize = true := by decide
theorem pyArrayGuard_eq : Generated.pyArrayGuard = Py.arrayGuard := by decide
/-- the model's `Py.decSizer` bounds the ELEMENT count: the source subtracts the shift before comparing with the guard (D144) -/
theorem pyGuard_after_shift : Generated.pyGuardAfterShift = true := by decide

/-- the ranges of prophyc's legality checks are the ones the model assumes: enumerators and discriminators in 32 bits for the
    parser and for the model-level validation alike (`Accept.front`, `Accept.model`: `< 2 ^ 32`), constants in
    [-2^63, 2^64) for the parser and the model-level validation (`Expr.constOk`), types below 2^64 bytes -/
theorem legality_ranges_are_source :
    Generated.modelValueLow = 0 ∧ Generated.modelValueHigh = 2 ^ 32 - 1 ∧ Generated.parserValueHighs = [2 ^ 32 - 1]
    ∧ Generated.modelConstLowBits = 63 ∧ Generated.modelConstHighBits = 64
    ∧ Generated.parserConstLowBits = Generated.modelConstLowBits ∧ Generated.parserConstHighBits = Generated.modelConstHighBits
    ∧ Generated.modelSizeBits = 64 := by decide

/-- `Expr.constOk` is that range -/
theorem constOk_is_source (v : Int) :
    Expr.constOk v = (decide (-((2 ^ Generated.parserConstLowBits : Nat) : Int) ≤ v) && decide (v < ((2 ^ Generated.parserConstHighBits : Nat) : Int))) := by
  unfold Expr.constOk Generated.parserConstLowBits Generated.parserConstHighBits
  rfl

theorem pyFlag_is_u32 : Generated.pyFlagType = "u32" ∧ Generated.pyDiscType = "u32" := by decide

def builtinRowOk (r : String × Nat) : Bool :=
  match primOfName r.1 with
  | some p => p.size == r.2
  | none => r.1 == "byte" && r.2 == 1

/-- prophyc's BUILTIN_SIZES agree with the scalar sizes; `byte` is 1 -/
theorem builtinSizes_sound : Generated.builtinSizes.all builtinRowOk = true := by decide
theorem builtinSizes_complete : Generated.builtinSizes.length = 11 := by decide
theorem disc_enum_size : Generated.discSize = Spec.flagSize ∧ Generated.enumSize = 4 := by decide
theorem kinds_ordered : Generated.kindFixed < Generated.kindDynamic ∧ Generated.kindDynamic < Generated.kindUnlimited := by decide

end Prophy.Tables

/- C06: totality, typedness and the fixpoint of the Python decoder (Properties/C06.lean) and the bound of what it returns by
   what it was given (Properties/C06Size.lean) audited together -/
import ProphyModel.Properties.C06
import ProphyModel.Properties.C06Size

/-
  Well-formed schemas and coherent values: the hypotheses of the codec theorems.

  `wfTy t`     the composability rules of docs (and of prophyc / the runtime) that the codec
               proofs rely on: member names unique, every bound array has an integer, plain sizer
               in its struct, optional / fixed / limited members and union arms are of fixed
               types, discriminators fit 32 bits.  `Accept.front t ∧ Accept.pyRt t → wfTy t` is
               proved in Lemmas/WFAccept.lean, so the predicate is not an extra assumption about
               accepted schemas.
  `agreeTy t v` all arrays bound to one sizer have the same length (otherwise `encode` raises
               "Size mismatch of arrays", generators.py evaluate_size).
-/
import ProphyModel.Spec
import ProphyModel.Typing
namespace Prophy
namespace WF

def uniq : List String → Bool
  | [] => true
  | x :: r => !(r.contains x) && uniq r

/-- the sizer named `s` is a plain member of a non-float scalar type -/
def sizerOk (all : List Member) (s : String) : Bool :=
  match all.find? (fun m => m.name == s) with
  | some (.mk _ (.prim p) .plain) => !p.isFloat
  | _ => false

/-- member kinds whose element / value type must be of fixed size -/
def needsFixed : MKind → Bool
  | .optional => true
  | .fixed _ => true
  | .limited _ _ => true
  | _ => false

/-- the counter can hold the shift (generators.py substitute_len_field) and all arrays on one sizer
    shift alike (validate_bound_shift) -/
def shiftOk (all : List Member) (k : MKind) : Bool :=
  match k.sizer? with
  | some s => decide ((k.shift : Int) < sizerMax s all) && k.shift == sizerShift s all
  | none => true

mutual
  def wfTy : Ty → Bool
    | .struct _ ms => uniq (ms.map (·.name)) && wfMs ms ms
    | .union _ arms => arms.all (fun a => decide (a.disc < 2 ^ 32)) && wfArms arms
    | .enum _ es => es.all (fun en => decide (en.2 < 2 ^ 32))
    | _ => true
  def wfMs (all : List Member) : List Member → Bool
    | [] => true
    | .mk _ t k :: r =>
      wfTy t
      && (!(needsFixed k) || Spec.fixedTy t)
      && (match k.sizer? with | some s => sizerOk all s | none => true)
      && shiftOk all k
      && wfMs all r
  def wfArms : List Arm → Bool
    | [] => true
    | .mk _ _ t :: r => wfTy t && Spec.fixedTy t && wfArms r
end

/-- all arrays of one struct bound to the same sizer have the same length -/
def agreeMs (all : List Member) (allv : List Val) : Bool :=
  all.all fun m =>
    match m.kind.sizer? with
    | some s => (boundLens s all allv).all (· == Spec.counter s all allv)
    | none => true

mutual
  def agreeTy : Ty → Val → Bool
    | t, .present x => agreeTy t x
    | t, .arr xs => agreeElems t xs
    | .struct _ ms, .struct vs => agreeMs ms vs && agreeFields ms vs
    | .union _ arms, .union idx v =>
      (match arms[idx]? with
       | some (.mk _ _ t) => agreeTy t v
       | none => true)
    | _, _ => true
  def agreeFields : List Member → List Val → Bool
    | .mk _ t _ :: r, v :: vs => agreeTy t v && agreeFields r vs
    | _, _ => true
  def agreeElems : Ty → List Val → Bool
    | _, [] => true
    | t, x :: xs => agreeTy t x && agreeElems t xs
end

/-- the decoder's counter guard (generators.py container_len._decode, `array_guard = 65536`): the
    element count of every bound array is at most 65536 (the shift is subtracted before the guard is applied).  Values beyond it
    encode but are refused by decode (known finding D49). -/
def guardLimit : Nat := 65536

mutual
  def guardTy : Ty → Val → Bool
    | t, .present x => guardTy t x
    | t, .arr xs => guardElems t xs
    | .struct _ ms, .struct vs => guardFields ms ms vs
    | .union _ arms, .union idx v =>
      (match arms[idx]? with
       | some (.mk _ _ t) => guardTy t v
       | none => true)
    | _, _ => true
  def guardFields (all : List Member) : List Member → List Val → Bool
    | .mk _ t k :: r, v :: vs =>
      (match k.sizer? with
       | some _ => decide (v.len ≤ guardLimit)
       | none => true) && guardTy t v && guardFields all r vs
    | _, _ => true
  def guardElems : Ty → List Val → Bool
    | _, [] => true
    | t, x :: xs => guardTy t x && guardElems t xs
end

end WF
end Prophy

/-
  Raw C++ codec: the header prophyc/generators/cpp.py emits (translate_struct :98,
  translate_union :151, model.partition) laid out by the g++ rule for
  `__attribute__((aligned(n), packed))` structs, and the generated `prophy::swap`
  (_CppSwapTranslator :261, prophy.hpp cast/swap, detail/prophy.hpp swap_n_fixed/dynamic)
  run on a byte buffer whose base address is 16-byte aligned.
-/
import ProphyModel.Schema
import ProphyModel.PLayout
namespace Prophy
namespace Raw

/-- a data member of a generated struct: name, byte size of one element, element count
    (`T x[n]`; dynamic and greedy arrays are declared with 1 element) -/
structure Field where
  name : String
  elemSize : Nat
  count : Nat
  deriving Repr, DecidableEq, Inhabited

def Field.size (f : Field) : Nat := f.elemSize * f.count

/-- `_Padder.generate_padding`: members of 1, 2, 4 bytes for the set bits of `padding` -/
def padders (padding : Nat) (idx : Nat) : List Field × Nat :=
  let p1 := if padding % 2 = 1 then [Field.mk s!"_padding{idx}" 1 1] else []
  let i1 := idx + p1.length
  let p2 := if (padding / 2) % 2 = 1 then [Field.mk s!"_padding{i1}" 2 1] else []
  let i2 := i1 + p2.length
  let p4 := if (padding / 4) % 2 = 1 then [Field.mk s!"_padding{i2}" 4 1] else []
  (p1 ++ p2 ++ p4, i2 + p4.length)

/-- packed layout: every field at the running sum of the sizes before it -/
def offsets : List Field → Nat → List (String × Nat)
  | [], _ => []
  | f :: r, off => (f.name, off) :: offsets r (off + f.size)

def totalSize : List Field → Nat
  | [] => 0
  | f :: r => f.size + totalSize r

/-- one block of a generated struct (the main block or `partN`): declared alignment and fields -/
structure Block where
  align : Nat
  fields : List Field
  deriving Repr, Inhabited

def Block.sizeof (b : Block) : Nat := alignUp (totalSize b.fields) b.align

/-- `model.partition`: a new part starts after every member (but the last) that is a dynamic
    array or of dynamic type -/
def partition {α : Type} (isDyn : α → Bool) : List α → List (List α)
  | [] => [[]]
  | [x] => [[x]]
  | x :: y :: r =>
    if isDyn x then [x] :: partition isDyn (y :: r)
    else match partition isDyn (y :: r) with
      | [] => [[x]]
      | p :: ps => (x :: p) :: ps

mutual
  /-- `sizeof(T)` of the generated type -/
  def sizeofTy : Ty → Nat
    | .prim p => p.size
    | .byte => 1
    | .enum _ _ => 4
    | .struct _ ms =>
      let blocks := blocksOf ms ms (PL.structMembers ms) (PL.memsOf ms)
      structSizeof blocks (PL.nodeTy (.struct "" ms)).align
    | .union _ arms =>
      let a := (PL.nodeTy (.union "" arms)).align
      alignUp (4 + (if a = 8 then 4 else 0) + alignUp (maxArmSizeof arms) (maxArmAlign arms)) a
  /-- the fields a member contributes (gen_member): has_ flag (+ padding up to an 8-aligned
      value), the field itself, manual padding from a positive `member.padding` -/
  def memberFields (all : List Member) : List Member → List (Nat × Nat × Int) → List PL.Mem → Nat →
      List (List Field × Bool)
    | .mk n t k :: r, (_, _, padding) :: ls, mem :: mems, idx =>
      let (flag, idx1) : List Field × Nat :=
        match k with
        | .optional =>
          -- _optional_flag_padding: member.byte_size - value size - 4 = (alignment of the optional) - 4
          let fp := (PL.memOf (PL.nodeTy t) .optional).size - (PL.nodeTy t).size - 4
          let (p, i) := if fp > 0 then padders fp idx else ([], idx)
          (Field.mk ("has_" ++ n) 4 1 :: p, i)
        | _ => ([], idx)
      let count := match k with
        | .fixed c => c
        | .limited _ c => c
        | _ => 1
      let (pad, idx2) := if padding > 0 then padders padding.toNat idx1 else ([], idx1)
      let isDyn := mem.kind == 1 || mem.isDynamic
      (flag ++ [Field.mk n (sizeofTy t) count] ++ pad, isDyn) :: memberFields all r ls mems idx2
    | _, _, _, _ => []
  def blocksOf (all : List Member) : List Member → List (Nat × Nat × Int) → List PL.Mem → List (List Field × Bool × Nat)
    | ms, ls, mems =>
      -- each member's fields, tagged with "ends a part" and the member's (bumped) alignment
      let fs := memberFields all ms ls mems 0
      (fs.zip ls).map fun ((f, d), (_, a, _)) => (f, d, a)
  def maxArmSizeof : List Arm → Nat
    | [] => 0
    | .mk _ _ t :: r => max (sizeofTy t) (maxArmSizeof r)
  def maxArmAlign : List Arm → Nat
    | [] => 1
    | .mk _ _ t :: r => max (alignofTy t) (maxArmAlign r)
  /-- `__alignof__(T)`: natural alignment of scalars, the declared `aligned(n)` of generated types -/
  def alignofTy : Ty → Nat
    | .prim p => p.size
    | .byte => 1
    | .enum _ _ => 4
    | .struct _ ms => (PL.nodeTy (.struct "" ms)).align
    | .union _ arms => (PL.nodeTy (.union "" arms)).align
  /-- main block + parts: partition the per-member field groups, a part's alignment is its first member's -/
  def structSizeof (groups : List (List Field × Bool × Nat)) (salign : Nat) : Nat :=
    let parts := partition (fun (g : List Field × Bool × Nat) => g.2.1) groups
    let sizes := parts.zipIdx.map fun (p, i) =>
      let fields := p.flatMap (·.1)
      if i = 0 then totalSize fields
      else alignUp (totalSize fields) (match p with | g :: _ => g.2.2 | [] => 1)
    alignUp (sizes.foldl (· + ·) 0) salign
end

/-- the blocks of a generated struct: main block (declared alignment = struct alignment) and parts -/
def structBlocks (ms : List Member) : List Block :=
  let groups := blocksOf ms ms (PL.structMembers ms) (PL.memsOf ms)
  let parts := partition (fun (g : List Field × Bool × Nat) => g.2.1) groups
  parts.zipIdx.map fun (p, i) =>
    { align := if i = 0 then (PL.nodeTy (.struct "" ms)).align else (match p with | g :: _ => g.2.2 | [] => 1),
      fields := p.flatMap (·.1) }

/-- fields of a generated union: discriminator, padding when the alignment is 8, then the arms
    (all at the same offset, inside the anonymous union) -/
def unionLayout (arms : List Arm) : List (String × Nat) :=
  let a := (PL.nodeTy (.union "" arms)).align
  let pad := if a = 8 then 4 else 0
  [("discriminator", 0)] ++ (if a = 8 then [("_padding0", 4)] else []) ++ arms.map fun arm => (arm.name, 4 + pad)

end Raw
end Prophy

/-! ### generated `prophy::swap` -/
namespace Prophy
namespace Raw

/-- a member with the fields generated for it, whether it ends a part, and its (bumped) alignment -/
structure MG where
  m : Member
  fields : List Field
  isDyn : Bool
  align : Nat
  kind : PL.Kind         -- kind of the member's type
  deriving Inhabited

def groupsOf (ms : List Member) : List MG :=
  let fs := memberFields ms ms (PL.structMembers ms) (PL.memsOf ms) 0
  (ms.zip (fs.zip ((PL.structMembers ms).zip (PL.memsOf ms)))).map fun (m, (f, d), (_, a, _), mem) =>
    { m := m, fields := f, isDyn := d, align := a, kind := mem.kind }

/-- reverse `k` bytes at `pos` (`swap(uintN_t*)`); `none` = access outside the buffer -/
def reverseAt (buf : Bytes) (pos k : Nat) : Option Bytes :=
  if pos + k ≤ buf.length then some (buf.take pos ++ ((buf.drop pos).take k).reverse ++ buf.drop (pos + k))
  else none

def leRead (buf : Bytes) (pos k : Nat) : Option Nat :=
  if pos + k ≤ buf.length then some (leVal ((buf.drop pos).take k)) else none

/-- offset of field `name` inside a block -/
def fieldOffset (fields : List Field) (name : String) : Nat :=
  ((offsets fields 0).lookup name).getD 0

mutual
  /-- `swap(T* payload)` at absolute offset `pos`: the buffer afterwards and the returned pointer -/
  def swapTy : Nat → Ty → Bytes → Nat → Option (Bytes × Nat)
    | 0, _, _, _ => none
    | fuel + 1, t, buf, pos =>
      match t with
      | .prim p => (reverseAt buf pos p.size).map fun b => (b, pos + p.size)
      | .byte => some (buf, pos + 1)
      | .enum _ _ => (reverseAt buf pos 4).map fun b => (b, pos + 4)
      | .union _ arms =>
        match reverseAt buf pos 4 with
        | none => none
        | some b1 =>
          match leRead b1 pos 4 with
          | none => none
          | some d =>
            let a := (PL.nodeTy t).align
            let armPos := pos + 4 + (if a = 8 then 4 else 0)
            match arms.find? (fun arm => arm.disc = d) with
            | some arm =>
              match swapTy fuel arm.ty b1 armPos with
              | some (b2, _) => some (b2, pos + sizeofTy t)
              | none => none
            | none => some (b1, pos + sizeofTy t)
      | .struct _ ms =>
        let parts := partition (fun (g : MG) => g.isDyn) (groupsOf ms)
        swapParts fuel (PL.nodeTy t).align (sizeofTy t) ((PL.nodeTy t).kind) parts buf pos pos [] true
  /-- the chain main -> part2 -> ... ; `start` is the struct's address, `sizers` the absolute
      addresses (and widths) of counters already swapped -/
  def swapParts : Nat → Nat → Nat → PL.Kind → List (List MG) → Bytes → Nat → Nat → List (String × Nat × Nat) → Bool →
      Option (Bytes × Nat)
    | 0, _, _, _, _, _, _, _, _, _ => none
    | _ + 1, _, _, _, [], buf, pos, _, _, _ => some (buf, pos)
    | fuel + 1, salign, ssize, skind, part :: rest, buf, pos, start, sizers, isMain =>
      -- `cast<partN*>`: align to the part's declared alignment (the main block is where the caller put it)
      let palign := match part with
        | g :: _ => if isMain then 1 else g.align
        | [] => 1
      let ppos := pos + padTo pos palign
      let fields := part.flatMap (·.fields)
      match swapMembers fuel part fields buf ppos sizers with
      | none => none
      | some (buf1, lastEnd, sizers1, lastDynamic, lastUnlimited, lastAddr) =>
        match rest with
        | [] =>
          -- gen_last_member
          if lastUnlimited then
            let e1 := lastAddr + padTo lastAddr (if isMain then salign else palign)
            some (buf1, e1 + padTo e1 salign)
          else if lastDynamic then
            let e1 := lastEnd + padTo lastEnd (if isMain then salign else palign)
            some (buf1, e1 + padTo e1 salign)
          else
            let e1 := ppos + (if isMain then ssize else alignUp (totalSize fields) palign)
            some (buf1, e1 + padTo e1 salign)
        | _ =>
          -- a part that is not the last one ends with a dynamic member; its swap function returns
          -- `cast<partN*>(end)`: aligned to its OWN alignment (the main block's end is not aligned here)
          let e1 := if isMain then lastEnd else lastEnd + padTo lastEnd palign
          swapParts fuel salign ssize skind rest buf1 e1 start sizers1 false
  /-- gen_member for every member of a block; returns the buffer, the end pointer of the last member's
      data, the counters seen, whether the last member is dynamic / unlimited, and its address -/
  def swapMembers : Nat → List MG → List Field → Bytes → Nat → List (String × Nat × Nat) →
      Option (Bytes × Nat × List (String × Nat × Nat) × Bool × Bool × Nat)
    | 0, _, _, _, _, _ => none
    | _ + 1, [], _, buf, ppos, sizers => some (buf, ppos, sizers, false, false, ppos)
    | fuel + 1, g :: r, fields, buf, ppos, sizers =>
      let addr := ppos + fieldOffset fields g.m.name
      let isLast := r.isEmpty
      let unlimitedLast := isLast && (g.kind == 2 || (match g.m.kind with | .greedy => true | _ => false))
      -- gen_last_member: an unlimited last member is not swapped at all, only its address is returned
      let step : Option (Bytes × Nat) :=
        if unlimitedLast then some (buf, addr) else
        match g.m.kind with
        | .plain => swapTy fuel g.m.ty buf addr
        | .optional =>
          let faddr := ppos + fieldOffset fields ("has_" ++ g.m.name)
          match reverseAt buf faddr 4 with
          | none => none
          | some b1 =>
            match leRead b1 faddr 4 with
            | none => none
            | some flag => if flag ≠ 0 then (swapTy fuel g.m.ty b1 addr).map fun (b2, _) => (b2, addr) else some (b1, addr)
        | .fixed c => swapN fuel (g.kind == 1) g.m.ty c buf addr
        | .dyn s _ | .limited s _ =>
          match sizers.lookup s with
          | some (saddr, ssz) =>
            match leRead buf saddr ssz with
            | some n => swapN fuel (g.kind == 1) g.m.ty n buf addr
            | none => none
          | none => none
        | .greedy => some (buf, addr)
      match step with
      | none => none
      | some (buf1, e) =>
        let sizers1 := match g.m.ty, g.m.kind with
          | .prim p, .plain => (g.m.name, addr, p.size) :: sizers
          | _, _ => sizers
        if isLast then
          let unlimited := g.kind == 2 || (match g.m.kind with | .greedy => true | _ => false)
          let dynamic := g.kind == 1 || (match g.m.kind with | .dyn _ _ => true | _ => false)
          some (buf1, e, sizers1, dynamic, unlimited, addr)
        else swapMembers fuel r fields buf1 ppos sizers1
  /-- swap_n_fixed (`++first`) / swap_n_dynamic (`first = swap(first)`) -/
  def swapN : Nat → Bool → Ty → Nat → Bytes → Nat → Option (Bytes × Nat)
    | 0, _, _, _, _, _ => none
    | _ + 1, _, _, 0, buf, pos => some (buf, pos)
    | fuel + 1, dynamic, t, n + 1, buf, pos =>
      match swapTy fuel t buf pos with
      | none => none
      | some (b1, e) => swapN fuel dynamic t n b1 (if dynamic then e else pos + sizeofTy t)
end

/-- `prophy::swap(reinterpret_cast<T*>(msg))` on a buffer (message followed by a tail) -/
def swap (t : Ty) (buf : Bytes) : Option (Bytes × Nat) := swapTy (4 * buf.length + 256) t buf 0

end Raw
end Prophy

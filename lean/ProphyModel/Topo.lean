/-
  Model of prophyc/model.py topological_sort (:385): the rotation algorithm with its
  `known` / `available` sets, `find_first_dep`, `nodes.insert(index, nodes.pop(found))`,
  and the rotation bound per position (more than `len(nodes)` rotations = cycle =
  ModelError).  A node is its name and the list `dependencies()` yields.
-/
import ProphyModel.Basic
namespace Prophy
namespace Topo

structure TNode where
  name : String
  deps : List String
  /-- an `Include` node: it stands in the list that is sorted, but it is no definition
      (`dependencies()` of an Include is empty; it is not `available`, is skipped by
      `find_first_dep` and is never added to `known`) -/
  incl : Bool := false
  deriving DecidableEq, Repr, Inhabited

/-- `known = set(BUILTIN_SIZES)` (model.py; until the repair of D78 the set also held `r8` and `r16`, which are not types) -/
def builtins : List String :=
  ["i8", "i16", "i32", "i64", "u8", "u16", "u32", "u64", "r32", "r64", "byte"]

/-- `find_first_dep(dependency, start_index)` relative to a suffix: index of the first node named `dep`
    that is not an Include (`n.name == dependency and not isinstance(n, Include)`) -/
def findIdx (dep : String) : List TNode → Option Nat
  | [] => none
  | n :: r => if n.name = dep ∧ n.incl = false then some 0 else (findIdx dep r).map (· + 1)

/-- `x :: l` with the element at `k` removed from `l` (the node that is moved to the front) -/
def moveFront : List TNode → Nat → List TNode
  | [], _ => []
  | x :: r, 0 => x :: r
  | x :: r, k + 1 =>
    match moveFront r k with
    | [] => [x]
    | y :: r' => y :: x :: r'

inductive Step
  | moved (suffix : List TNode)   -- returned True after `nodes.insert(index, nodes.pop(found_index))`
  | stuck                         -- returned True without changing anything (dependency not found later)
  | done                          -- fell through: `known.add(node.name)`

/-- model_sort_rotate on the suffix starting at `index` (positions before `index` are never touched) -/
def rotate (suffix : List TNode) (known available : List String) : Step :=
  match suffix with
  | [] => .done
  | node :: rest =>
    match node.deps.find? (fun d => !known.contains d && available.contains d) with
    | none => .done
    | some dep =>
      match findIdx dep rest with
      | some k => .moved (moveFront (node :: rest) (k + 1))
      | none => .stuck

/-- the `while model_sort_rotate()` loop at one position with the rotation bound;
    `none` = ModelError (cyclic dependency) -/
def settle (known available : List String) : Nat → List TNode → Option (List TNode)
  | 0, _ => none
  | fuel + 1, suffix =>
    match rotate suffix known available with
    | .done => some suffix
    | .moved s => settle known available fuel s
    | .stuck => settle known available fuel suffix

/-- the `for index in range(len(nodes))` loop: `total` is `len(nodes)`, the first argument the
    number of positions still to settle -/
def sortFrom (total : Nat) (available : List String) : Nat → List TNode → List String → Option (List TNode)
  | 0, suffix, _ => some suffix
  | k + 1, suffix, known =>
    match settle known available (total + 1) suffix with
    | none => none
    | some [] => some []
    | some (m :: r) =>
      -- `if not isinstance(node, Include): known.add(node.name)`
      (sortFrom total available k r (if m.incl then known else m.name :: known)).map (m :: ·)

/-- `available = set(node.name for node in nodes if not isinstance(node, Include))` -/
def availableOf (nodes : List TNode) : List String :=
  (nodes.filter (fun n => !n.incl)).map (·.name)

def sort (nodes : List TNode) : Option (List TNode) :=
  sortFrom nodes.length (availableOf nodes) nodes.length nodes builtins

/-! ### `dependencies()` of the model nodes (prophyc/model.py) -/

/-- what the sort looks at in a definition -/
inductive Decl
  | const (name value : String)
  | enum (name : String) (members : List (String × String))            -- (enumerator, value text)
  | typedef (name type : String)
  | struct (name : String) (members : List (String × Option String))   -- (type_name, size text)
  | union (name : String) (arms : List (String × String))              -- (type_name, discriminator text)
  | incl (name : String)                                               -- an included file (model.Include)
  deriving Repr, Inhabited

def Decl.name : Decl → String
  | .const n _ => n
  | .enum n _ => n
  | .typedef n _ => n
  | .struct n _ => n
  | .union n _ => n
  | .incl n => n

def isWordChar (c : Char) : Bool := c.isAlphanum || c == '_'

/-- maximal runs of word characters -/
def wordRuns : List Char → List Char → List (List Char)
  | [], cur => if cur.isEmpty then [] else [cur.reverse]
  | c :: r, cur =>
    if isWordChar c then wordRuns r (c :: cur)
    else if cur.isEmpty then wordRuns r [] else cur.reverse :: wordRuns r []

/-- `re.findall(r"\b[A-Za-z_]\w*\b", s)`: the maximal word runs that start with a letter or `_` -/
def idents (s : String) : List String :=
  (wordRuns s.toList []).filterMap fun w =>
    match w with
    | c :: _ => if c.isAlpha || c == '_' then some (String.ofList w) else none
    | [] => none

def Decl.rawDeps : Decl → List String
  | .const _ v => idents v
  | .enum _ ms => ms.flatMap fun m => idents m.2
  | .typedef _ t => [t]
  | .struct _ ms => ms.flatMap fun m => m.1 :: (match m.2 with | some sz => idents sz | none => [])
  | .union _ arms => arms.flatMap fun a => a.1 :: idents a.2
  | .incl _ => []

/-- enumerator name -> enum name (later definitions win, as in `dict(...)`) -/
def enumeratorOwner (ds : List Decl) (sym : String) : String :=
  let owners := ds.flatMap fun d =>
    match d with
    | .enum n ms => ms.map fun m => (m.1, n)
    | _ => []
  match owners.reverse.lookup sym with
  | some o => o
  | none => sym

/-- the dependency list model_sort_rotate iterates over: enumerators mapped to their enum,
    an enum's references to its own enumerators dropped -/
def toNodes (ds : List Decl) : List TNode :=
  ds.map fun d =>
    let mapped := d.rawDeps.map (enumeratorOwner ds)
    let deps := match d with
      | .enum n _ => mapped.filter (· != n)
      | _ => mapped
    ⟨d.name, deps, match d with | .incl _ => true | _ => false⟩

/-- order of definition names prophyc emits (Include nodes left out), or `none` for a reported cycle -/
def sortDecls (ds : List Decl) : Option (List String) :=
  (sort (toNodes ds)).map fun r => (r.filter (fun n => !n.incl)).map (·.name)

end Topo
end Prophy

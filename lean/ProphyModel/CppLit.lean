/-
  CppLit: the C++ generators' `_to_literal` (prophyc/generators/cpp.py and cpp_full.py, identical).

  ```python
  def _to_literal(value):
      """ `- 5`, `-(5)`, `(-5)` and `-((5))` are the literal -5 as well """
      bare = re.sub(r"[\s()]", "", value)
      if re.match(r"-(0[xX][0-9a-fA-F]+|[0-9]+)\Z", bare) and re.match(r"[\s(]*-[\s(]*\w+[\s)]*\Z", value) and value.count("(") == value.count(")"):
          value = bare
      try:
          number = int(value, 0)
      except ValueError:
          return value                       # pasted verbatim (an expression)
      if number < 0:
          return '({} - 1)'.format(number + 1) if number == -(1 << 63) else str(number)
      return '{}{}'.format(value.strip(), number > 0 and 'u' or '')
  ```

  The texts are ASCII, the only blank characters are space and TAB (established elsewhere: `model.unwritable`,
  the calc lexer, P22/P24).  Everything is computable and over `List Char`.

  Parts:
  * `bare`, `negLit` (first regular expression), `shape` (second regular expression), `balanced`,
  * `pyInt0` = Python's `int(text, 0)` on such texts,
  * `toLiteral` = the function,
  * `cppRead` = what a C++11 compiler (LP64) computes for the rendered forms, with the typing of integer literals
    explicit (`CTy`, `litType`, `cneg`, `csub`),
  * `loneValue` = the integer prophyc (calc) computed for a lone literal text.
-/
namespace Prophy.CppLit

/-! ### character classes (ASCII) -/

/-- `\s` on the texts that reach the generators: space and TAB -/
def isBlank (c : Char) : Bool := c == ' ' || c == '\t'
/-- `[\s(]` -/
def isOpen (c : Char) : Bool := isBlank c || c == '('
/-- `[\s)]` -/
def isClose (c : Char) : Bool := isBlank c || c == ')'
/-- `[\s()]` -/
def isBlankParen (c : Char) : Bool := isBlank c || c == '(' || c == ')'
/-- `[0-9]` -/
def isDec (c : Char) : Bool := 48 ≤ c.toNat && c.toNat ≤ 57
/-- `[0-7]` -/
def isOct (c : Char) : Bool := 48 ≤ c.toNat && c.toNat ≤ 55
/-- `[0-9a-fA-F]` -/
def isHex (c : Char) : Bool :=
  isDec c || (97 ≤ c.toNat && c.toNat ≤ 102) || (65 ≤ c.toNat && c.toNat ≤ 70)
/-- `\w` restricted to ASCII: letter, digit, `_` -/
def isWord (c : Char) : Bool :=
  isDec c || (97 ≤ c.toNat && c.toNat ≤ 122) || (65 ≤ c.toNat && c.toNat ≤ 90) || c == '_'
/-- `[xX]` -/
def isX (c : Char) : Bool := c == 'x' || c == 'X'

/-- value of a digit character in bases up to 16 (`0` for other characters; only used on digits) -/
def hexVal (c : Char) : Nat :=
  if isDec c then c.toNat - 48
  else if 97 ≤ c.toNat && c.toNat ≤ 102 then c.toNat - 87
  else if 65 ≤ c.toNat && c.toNat ≤ 70 then c.toNat - 55
  else 0

/-- value of a digit string, most significant digit first -/
def digitsVal (base : Nat) (ds : List Char) : Nat :=
  ds.foldl (fun acc c => acc * base + hexVal c) 0

/-- `[0-9a-fA-F]+` (whole string) -/
def hexDigits (cs : List Char) : Bool := !cs.isEmpty && cs.all isHex
/-- `[0-9]+` (whole string) -/
def decDigits (cs : List Char) : Bool := !cs.isEmpty && cs.all isDec

/-! ### the three conditions of `_to_literal` -/

/-- `re.sub(r"[\s()]", "", value)` -/
def bare (cs : List Char) : List Char := cs.filter (fun c => !isBlankParen c)

/-- `0[xX][0-9a-fA-F]+` (whole string) -/
def hexLit : List Char → Bool
  | z :: x :: hs => z == '0' && isX x && hexDigits hs
  | _ => false

/-- `re.match(r"-(0[xX][0-9a-fA-F]+|[0-9]+)\Z", bare)` -/
def negLit : List Char → Bool
  | [] => false
  | c :: r => c == '-' && (hexLit r || decDigits r)

/-- `re.match(r"[\s(]*-[\s(]*\w+[\s)]*\Z", value)`.  The classes `[\s(]`, `-`, `\w`, `[\s)]` that follow one another
    are disjoint, so the greedy left-to-right matcher decides the regular expression. -/
def shape (cs : List Char) : Bool :=
  match cs.dropWhile isOpen with
  | [] => false
  | c :: r =>
    c == '-' &&
      (let r2 := r.dropWhile isOpen
       !(r2.takeWhile isWord).isEmpty && (r2.dropWhile isWord).all isClose)

/-- `value.count("(") == value.count(")")` -/
def balanced (cs : List Char) : Bool := cs.count '(' == cs.count ')'

/-! ### Python's `int(text, 0)` -/

/-- `str.rstrip()` -/
def rstrip : List Char → List Char
  | [] => []
  | c :: r => if isBlank c && (rstrip r).isEmpty then [] else c :: rstrip r

/-- `str.strip()` -/
def strip (cs : List Char) : List Char := rstrip (cs.dropWhile isBlank)

/-- Python's digit values (`_PyLong_DigitValue`): `0-9`, then letters of either case from 10 -/
def pyDigit (c : Char) : Option Nat :=
  if isDec c then some (c.toNat - 48)
  else if 97 ≤ c.toNat && c.toNat ≤ 122 then some (c.toNat - 87)
  else if 65 ≤ c.toNat && c.toNat ≤ 90 then some (c.toNat - 55)
  else none

/-- the digit loop of `PyLong_FromString`: `us` = the previous character was an underscore -/
def pyDigitsGo (base : Nat) : Nat → Bool → List Char → Option Nat
  | acc, us, [] => if us then none else some acc
  | acc, us, c :: r =>
    if c == '_' then (if us then none else pyDigitsGo base acc true r)
    else match pyDigit c with
      | some d => if d < base then pyDigitsGo base (acc * base + d) false r else none
      | none => none

/-- digits of `base` with single underscores between them: at least one digit, no leading, trailing or doubled
    underscore -/
def pyDigits (base : Nat) (cs : List Char) : Option Nat :=
  match cs with
  | [] => none
  | c :: _ => if c == '_' then none else pyDigitsGo base 0 false cs

/-- after a base prefix one underscore is allowed (`0x_ff`) -/
def pyPrefixed (base : Nat) (cs : List Char) : Option Nat :=
  match cs with
  | [] => none
  | c :: r => if c == '_' then pyDigits base r else pyDigits base (c :: r)

/-- the base a prefix letter selects -/
def pyBase (x : Char) : Option Nat :=
  if x == 'x' || x == 'X' then some 16
  else if x == 'o' || x == 'O' then some 8
  else if x == 'b' || x == 'B' then some 2
  else none

/-- the unsigned part with base 0: a prefixed literal, or decimal; a decimal literal that starts with `0` must be
    zero (`0`, `00`, `0_0`; `012` is refused) -/
def pyMag (body : List Char) : Option Nat :=
  match body with
  | [] => none
  | c :: r =>
    if c == '0' then
      match r with
      | [] => some 0
      | x :: hs =>
        match pyBase x with
        | some b => pyPrefixed b hs
        | none => (pyDigits 10 body).bind (fun n => if n = 0 then some 0 else none)
    else pyDigits 10 body

/-- `int(text, 0)`; `none` = ValueError -/
def pyInt0 (cs : List Char) : Option Int :=
  match strip cs with
  | [] => none
  | c :: r =>
    if c == '-' then (pyMag r).map (fun n => -(n : Int))
    else if c == '+' then (pyMag r).map (fun n => (n : Int))
    else (pyMag (c :: r)).map (fun n => (n : Int))

/-! ### `str(number)` -/

def digitChar : Nat → Char
  | 0 => '0' | 1 => '1' | 2 => '2' | 3 => '3' | 4 => '4'
  | 5 => '5' | 6 => '6' | 7 => '7' | 8 => '8' | _ => '9'

/-- decimal digits with `fuel` divisions at most -/
def natDigitsF : Nat → Nat → List Char
  | 0, n => [digitChar (n % 10)]
  | f + 1, n => if n < 10 then [digitChar n] else natDigitsF f (n / 10) ++ [digitChar (n % 10)]

/-- number of decimal digits is at most the number of binary digits -/
def natToDigits (n : Nat) : List Char := natDigitsF n.log2 n

/-- `str(number)` -/
def intStr (i : Int) : List Char :=
  if i < 0 then '-' :: natToDigits i.natAbs else natToDigits i.toNat

/-! ### the function -/

def toLiteral (cs : List Char) : List Char :=
  let b := bare cs
  let value := if negLit b && shape cs && balanced cs then b else cs
  match pyInt0 value with
  | none => value
  | some number =>
    if number < 0 then
      (if number = -(2 ^ 63 : Int) then '(' :: (intStr (number + 1) ++ " - 1)".toList) else intStr number)
    else strip value ++ (if number > 0 then ['u'] else [])

/-! ### what the C++ compiler reads (C++11, LP64: int 32 bits, long and long long 64 bits) -/

inductive CTy where
  | int | uint | long | ulong
  deriving DecidableEq, Repr

/-- [lex.icon] table: the type of an integer literal is the first of its list in which the value fits.
    decimal, no suffix: int, long (never unsigned; too large: ill-formed);
    octal or hexadecimal, no suffix: int, unsigned int, long, unsigned long;
    suffix `u`: unsigned int, unsigned long.  (long long has the range of long.) -/
def litType (nonDecimal : Bool) (u : Bool) (n : Nat) : Option CTy :=
  if u then
    (if n < 2 ^ 32 then some .uint else if n < 2 ^ 64 then some .ulong else none)
  else if nonDecimal then
    (if n < 2 ^ 31 then some .int else if n < 2 ^ 32 then some .uint
     else if n < 2 ^ 63 then some .long else if n < 2 ^ 64 then some .ulong else none)
  else
    (if n < 2 ^ 31 then some .int else if n < 2 ^ 63 then some .long else none)

/-- the values of a type -/
def CTy.holds : CTy → Int → Bool
  | .int, v => -(2 ^ 31 : Int) ≤ v && v < (2 ^ 31 : Int)
  | .uint, v => 0 ≤ v && v < (2 ^ 32 : Int)
  | .long, v => -(2 ^ 63 : Int) ≤ v && v < (2 ^ 63 : Int)
  | .ulong, v => 0 ≤ v && v < (2 ^ 64 : Int)

/-- unary `-`: the operand keeps its type (no promotion above int is needed); signed: negation, overflow is
    undefined (`none`); unsigned: modulo 2^width -/
def cneg (t : CTy) (v : Int) : Option Int :=
  match t with
  | .int => if t.holds (-v) then some (-v) else none
  | .long => if t.holds (-v) then some (-v) else none
  | .uint => some ((-v) % (2 ^ 32 : Int))
  | .ulong => some ((-v) % (2 ^ 64 : Int))

/-- usual arithmetic conversions of two operands among the four types -/
def CTy.common : CTy → CTy → CTy
  | .ulong, _ | _, .ulong => .ulong
  | .long, _ | _, .long => .long          -- long holds every unsigned int
  | .uint, _ | _, .uint => .uint
  | .int, .int => .int

/-- binary `-` in the common type: signed overflow is undefined (`none`), unsigned is modulo -/
def csub (t1 : CTy) (a : Int) (t2 : CTy) (b : Int) : Option (CTy × Int) :=
  match CTy.common t1 t2 with
  | .int => if CTy.int.holds (a - b) then some (.int, a - b) else none
  | .long => if CTy.long.holds (a - b) then some (.long, a - b) else none
  | .uint => some (.uint, (a - b) % (2 ^ 32 : Int))
  | .ulong => some (.ulong, (a - b) % (2 ^ 64 : Int))

/-- the digits of a literal: `0x`/`0X` + hex digits; `0` + octal digits (a lone `0` is an octal literal);
    a decimal literal.  Result: (not decimal, value) -/
def litBody (cs : List Char) : Option (Bool × Nat) :=
  match cs with
  | [] => none
  | c :: r =>
    if c == '0' then
      match r with
      | [] => some (true, 0)
      | x :: hs =>
        if isX x then (if hexDigits hs then some (true, digitsVal 16 hs) else none)
        else if r.all isOct then some (true, digitsVal 8 r) else none
    else if cs.all isDec then some (false, digitsVal 10 cs) else none

/-- an integer literal with optional suffix `u`/`U`: its type and value -/
def readLit (cs : List Char) : Option (CTy × Int) :=
  let u := cs.getLast? == some 'u' || cs.getLast? == some 'U'
  let body := if u then cs.dropLast else cs
  match litBody body with
  | none => none
  | some (nd, n) => (litType nd u n).map (fun t => (t, (n : Int)))

/-- optional blanks, optional `+` or `-`, optional blanks, a literal -/
def readSigned (cs : List Char) : Option (CTy × Int) :=
  match cs.dropWhile isBlank with
  | [] => none
  | c :: r =>
    if c == '-' then
      (readLit (r.dropWhile isBlank)).bind (fun (t, v) => (cneg t v).map (fun w => (t, w)))
    else if c == '+' then readLit (r.dropWhile isBlank)
    else readLit (c :: r)

/-- the forms `_to_literal` renders: a signed literal, or `(` signed literal ` - ` literal `)` -/
def cppRead (cs : List Char) : Option Int :=
  match cs with
  | [] => none
  | c :: r =>
    if c == '(' then
      -- `(` sign? literal ` - ` literal `)`
      let a := r.takeWhile (fun c => c == '-' || isWord c)
      let rest := r.dropWhile (fun c => c == '-' || isWord c)
      match rest with
      | s1 :: m :: s2 :: rest2 =>
        if s1 == ' ' && m == '-' && s2 == ' ' && rest2.getLast? == some ')' then
          (readSigned a).bind (fun (t1, x) =>
            (readLit rest2.dropLast).bind (fun (t2, y) =>
              (csub t1 x t2 y).map (fun p => p.2)))
        else none
      | _ => none
    else (readSigned cs).map (fun p => p.2)

/-! ### the integer prophyc computed for a lone literal -/

/-- `[\s(+-]`: what may stand before the literal -/
def isPre (c : Char) : Bool := isOpen c || c == '-' || c == '+'

/-- the unsigned literal calc reads: `0x`/`0X` + hex digits (base 16), or decimal digits without a leading zero
    except the single digit `0` (base 10) -/
def litVal (cs : List Char) : Option Nat :=
  match cs with
  | [] => none
  | c :: r =>
    if c == '0' then
      match r with
      | [] => some 0
      | x :: hs => if isX x && hexDigits hs then some (digitsVal 16 hs) else none
    else if cs.all isDec then some (digitsVal 10 cs) else none

/-- optional one `-` or `+`, then the literal (on the bare text) -/
def signedLit (cs : List Char) : Option Int :=
  match cs with
  | [] => none
  | c :: r =>
    if c == '-' then (litVal r).map (fun n => -(n : Int))
    else if c == '+' then (litVal r).map (fun n => (n : Int))
    else (litVal cs).map (fun n => (n : Int))

/-- the text is `[\s(+-]* literal [\s)]*`: every `(` before the literal, every `)` after it -/
def loneShape (cs : List Char) : Bool :=
  let rest := cs.dropWhile isPre
  !(rest.takeWhile isWord).isEmpty && (rest.dropWhile isWord).all isClose

/-- calc's value of a lone literal text (unary sign applied to a literal, parentheses around either) -/
def loneValue (cs : List Char) : Option Int :=
  if balanced cs && loneShape cs then signedLit (bare cs) else none

/-- "the sign is `-`, or the text without surrounding blanks has no parenthesis and no blank": for a lone literal,
    the condition under which `toLiteral` renders the text rather than pastes it -/
def rendered (cs : List Char) : Bool :=
  (bare cs).head? == some '-' || (strip cs).all (fun c => !isBlankParen c)

/-
  Examples (`#eval`, not executed in the build):

  #eval String.ofList (toLiteral "(-0x80000000)".toList)          -- "-2147483648"
  #eval String.ofList (toLiteral "- 5".toList)                    -- "-5"
  #eval String.ofList (toLiteral "5".toList)                      -- "5u"
  #eval String.ofList (toLiteral "0".toList)                      -- "0"
  #eval String.ofList (toLiteral "-0x8000000000000000".toList)    -- "(-9223372036854775807 - 1)"
  #eval String.ofList (toLiteral "0xFFFFFFFF".toList)             -- "0xFFFFFFFFu"
  #eval String.ofList (toLiteral "1 + 2".toList)                  -- "1 + 2"
  #eval String.ofList (toLiteral "(5)".toList)                    -- "(5)"
  #eval String.ofList (toLiteral "-(012)".toList)                 -- "-012"   (int() refuses, the bare text is pasted)
  #eval pyInt0 " -0x_fF ".toList                                  -- some (-255)
  #eval pyInt0 "1__0".toList                                      -- none
  #eval pyInt0 "- 5".toList                                       -- none
  #eval cppRead "-2147483648".toList                              -- some (-2147483648)
  #eval cppRead "-0x80000000".toList                              -- some 2147483648
  #eval cppRead "0xFFFFFFFFu".toList                              -- some 4294967295
  #eval cppRead "-9223372036854775808".toList                     -- none
  #eval cppRead "(-9223372036854775807 - 1)".toList               -- some (-9223372036854775808)
  #eval loneValue "( - ( 0x10 ) )".toList                         -- some (-16)
-/

end Prophy.CppLit

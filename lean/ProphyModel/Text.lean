/-
  Text rendering: Python `str(message)` (prophy/composite.py field_to_string :13,
  struct.__str__ :38, union.__str__ :133, six.repr_bytes) and C++ `print()`
  (prophy_cpp/include/prophy/detail/printer.hpp, generate_struct_print /
  generate_union_print of prophyc/generators/cpp_full.py).

  Output is modelled as a list of lines, each with its indentation level; the text is
  `"  " * level ++ line ++ "\n"` for every line.  (Python indents the rendered text of a
  nested composite by splitting it at newlines; no field text contains a raw newline, so
  this is the same as raising the level of its lines.)  The C++ stream carries an explicit
  formatting state: whether `std::hex` is in force.
-/
import ProphyModel.Schema
namespace Prophy
namespace Text

abbrev Line := Nat × String

def renderLines (ls : List Line) : String :=
  String.join (ls.map fun (lvl, s) => String.join (List.replicate lvl "  ") ++ s ++ "\n")

def hexDigit (n : Nat) : Char := if n < 10 then Char.ofNat (48 + n) else Char.ofNat (87 + n)

/-- `\xNN`, lower case, two digits -/
def hexEscape (b : UInt8) : String :=
  "\\x" ++ String.ofList [hexDigit (b.toNat / 16), hexDigit (b.toNat % 16)]

/-- one byte inside a Python bytes repr delimited by `quote` -/
def pyByte (quote : Char) (b : UInt8) : String :=
  if b = 92 then "\\\\"
  else if b.toNat = quote.toNat then String.ofList ['\\', quote]
  else if b = 9 then "\\t"
  else if b = 10 then "\\n"
  else if b = 13 then "\\r"
  else if 32 ≤ b.toNat ∧ b.toNat ≤ 126 then String.ofList [Char.ofNat b.toNat]
  else hexEscape b

/-- Python's choice of quote for `repr(bytes)`: double quotes iff the value has `'` and no `"` -/
def pyQuote (b : Bytes) : Char := if b.contains 39 && !b.contains 34 then '"' else '\''

/-- `repr_bytes(value)` on Python 3 -/
def pyReprBytes (b : Bytes) : String :=
  let q := pyQuote b
  String.ofList [q] ++ String.join (b.map (pyByte q)) ++ String.ofList [q]

/-- C++ `print_byte`: text appended for one byte (the stream flags are saved and restored around the hex escape) -/
def cppByte (b : UInt8) : String :=
  if b = 9 then "\\t"
  else if b = 10 then "\\n"
  else if b = 13 then "\\r"
  else if b = 39 then "\\'"
  else if b = 92 then "\\\\"
  else if 32 ≤ b.toNat ∧ b.toNat ≤ 126 then String.ofList [Char.ofNat b.toNat]
  else hexEscape b

def cppBytes (b : Bytes) : String := "'" ++ String.join (b.map cppByte) ++ "'"

def enumName (es : List (String × Nat)) (i : Int) : Option String :=
  (es.reverse.find? fun e => (e.2 : Int) = i).map (·.1)   -- enumerators sharing a value: the last name (Python: dict of value to name; C++: the case kept by translate_enum)

def bump (ls : List Line) : List Line := ls.map fun (lvl, s) => (lvl + 1, s)

/-! ### Python -/
mutual
  /-- `str(message)` as lines at level 0 -/
  def pyStr : Ty → Val → List Line
    | .struct _ ms, .struct vs => pyMs ms vs
    | .union _ arms, .union idx v =>
      match arms[idx]? with
      | some (.mk n _ t) => pyField .plain n t v
      | none => []
    | _, _ => []
  /-- what `struct.__str__` yields for one member of kind `k`: nothing for a counter or an absent
      optional, else `field_to_string(name, type, value)` -/
  def pyField (k : MKind) (name : String) : Ty → Val → List Line
    | _, .sizer => []                                  -- the counter attribute does not exist
    | _, .absent => []
    | t, .present x => pyField .plain name t x
    | _, .bytes b => [(0, name ++ ": " ++ pyReprBytes b)]
    | t, .arr xs => pyElems name t xs
    | .prim _, .int i => [(0, name ++ ": " ++ toString i)]
    | .byte, .int i => [(0, name ++ ": " ++ toString i)]
    | .enum _ es, .int i => [(0, name ++ ": " ++ (enumName es i).getD "<KeyError>")]
    | .struct _ ms, .struct vs => (0, name ++ " {") :: bump (pyMs ms vs) ++ [(0, "}")]
    | .union _ arms, .union idx v =>
      (0, name ++ " {") :: bump (match arms[idx]? with
                                 | some (.mk n _ t) => pyField .plain n t v
                                 | none => []) ++ [(0, "}")]
    | _, _ => []
  def pyMs : List Member → List Val → List Line
    | .mk n t k :: r, v :: vs => pyField k n t v ++ pyMs r vs
    | _, _ => []
  def pyElems (name : String) : Ty → List Val → List Line
    | _, [] => []
    | t, x :: xs => pyField .plain name t x ++ pyElems name t xs
end

/-! ### C++ -/

/-- formatting state of the `std::ostream` that matters for integers -/
structure Stream where
  hex : Bool := false
  deriving DecidableEq, Repr

/-- `out << x` for an integer under the stream's base -/
def cppInt (s : Stream) (i : Int) : String :=
  if s.hex then "<hex>" ++ toString i else toString i

/-- how many elements generate_struct_print passes for an array member -/
def printCount (k : MKind) (len : Nat) : Nat :=
  match k with
  | .limited _ lim => min len lim
  | .fixed c => c
  | _ => len

mutual
  /-- `message_impl<T>::print(x, out, indent)`: lines and the stream state afterwards -/
  def cppPrint : Ty → Val → Nat → Stream → List Line × Stream
    | .struct _ ms, .struct vs, lvl, s => cppMs ms vs lvl s
    | .union _ arms, .union idx v, lvl, s =>
      match arms[idx]? with
      | some (.mk n _ t) => cppField .plain n t v lvl s
      | none => ([], s)
    | _, _, _, s => ([], s)
  /-- the statement generate_struct_print emits for one member of kind `k` / `do_print(out, indent, name, x)` -/
  def cppField (k : MKind) (name : String) : Ty → Val → Nat → Stream → List Line × Stream
    | _, .sizer, _, s => ([], s)
    | _, .absent, _, s => ([], s)
    | t, .present x, lvl, s => cppField .plain name t x lvl s
    | _, .bytes b, lvl, s => ([(lvl, name ++ ": " ++ cppBytes (b.take (printCount k b.length)))], s)   -- print_byte restores the flags
    | t, .arr xs, lvl, s => cppElems name t xs (printCount k xs.length) lvl s
    | .prim _, .int i, lvl, s => ([(lvl, name ++ ": " ++ cppInt s i)], s)
    | .byte, .int i, lvl, s => ([(lvl, name ++ ": " ++ cppInt s i)], s)
    | .enum _ es, .int i, lvl, s =>
      ([(lvl, name ++ ": " ++ (match enumName es i with
                               | some n => n
                               | none => cppInt s i))], s)
    | .struct _ ms, .struct vs, lvl, s =>
      let (inner, s') := cppMs ms vs (lvl + 1) s
      ((lvl, name ++ " {") :: inner ++ [(lvl, "}")], s')
    | .union _ arms, .union idx v, lvl, s =>
      let (inner, s') : List Line × Stream :=
        match arms[idx]? with
        | some (.mk n _ t) => cppField .plain n t v (lvl + 1) s
        | none => ([], s)
      ((lvl, name ++ " {") :: inner ++ [(lvl, "}")], s')
    | _, _, _, s => ([], s)
  /-- generate_struct_print: one statement per member -/
  def cppMs : List Member → List Val → Nat → Stream → List Line × Stream
    | .mk n t k :: r, v :: vs, lvl, s =>
      let (here, s1) := cppField k n t v lvl s
      let (rest, s2) := cppMs r vs lvl s1
      (here ++ rest, s2)
    | _, _, _, s => ([], s)
  /-- `printer<T>::print(out, indent, name, x, n)`: the first `n` elements -/
  def cppElems (name : String) : Ty → List Val → Nat → Nat → Stream → List Line × Stream
    | _, [], _, _, s => ([], s)
    | _, _, 0, _, s => ([], s)
    | t, x :: xs, n + 1, lvl, s =>
      let (a, s1) := cppField .plain name t x lvl s
      let (b, s2) := cppElems name t xs n lvl s1
      (a ++ b, s2)
end

/-- `str(msg)` in Python -/
def pyText (t : Ty) (v : Val) : String := renderLines (pyStr t v)

/-- `msg.print()` in C++ (fresh `std::stringstream`) -/
def cppText (t : Ty) (v : Val) : String := renderLines (cppPrint t v 0 {}).1

end Text
end Prophy

/-
  Model of the generated C++ full codec: what prophyc/generators/cpp_full.py emits
  (generate_struct_encode/decode/get_byte_size, generate_union_*), composed with the
  semantics of the templates it calls (prophy_cpp/include/prophy/detail/encoder.hpp,
  decoder.hpp, message.hpp, align.hpp, byte_size.hpp), run on an abstract machine:

  * a buffer is addressed by offsets from a base that is 8-aligned (std::vector / malloc
    storage), so `align<N>(ptr)` acts on the offset;
  * the pointer encoder leaves padding bytes untouched: it produces *cells*
    (`some b` = byte written, `none` = skipped); `encode<E>()` writes them into a
    zero-initialised vector of `get_byte_size()` bytes;
  * the decoder works on `[0, size)`; `size_t(end - pos)` wraps modulo 2^64 when
    `pos > end`; every read outside the buffer is the distinguished outcome `fault`;
    `resize` requests are recorded.

  Driven by the layout prophyc computes (`PL`): signed paddings, member byte sizes, kinds.
-/
import ProphyModel.Schema
import ProphyModel.PLayout
namespace Prophy
namespace Cpp

abbrev Cell := Option UInt8

def written (bs : Bytes) : List Cell := bs.map some
def skip (n : Nat) : List Cell := List.replicate n none

/-- cells of a call whose result pointer is discarded, followed by `pos = pos + n` -/
def overlay (cs : List Cell) (n : Nat) : List Cell := cs ++ skip (n - cs.length)

/- `alignment<T>::value` of the *generated C++ class* (x86-64 ABI): std::vector is
   8-aligned, array<T,N> and optional<T> are aligned as T, enums as int; sizer
   members are not fields of the class -/
mutual
  def cppAlign : Ty → Nat
    | .prim p => p.size
    | .byte => 1
    | .enum _ _ => 4
    | .struct _ ms => cppAlignMs ms ms
    | .union _ arms => max 4 (cppAlignArms arms)
  def cppAlignMs (all : List Member) : List Member → Nat
    | [] => 1
    | .mk n t k :: r =>
      max (match k with
           | .plain => if isSizer n all then 1 else cppAlign t
           | .optional => cppAlign t
           | .fixed _ => cppAlign t
           | _ => 8) (cppAlignMs all r)
  def cppAlignArms : List Arm → Nat
    | [] => 1
    | .mk _ _ t :: r => max (cppAlign t) (cppAlignArms r)
end

/-- `codec_traits<T>::size`: scalar size, 4 for enums, `T::encoded_byte_size` for messages
    (`-1` for non-fixed structs) -/
def codecSize (t : Ty) : Int :=
  match t with
  | .prim p => p.size
  | .byte => 1
  | .enum _ _ => 4
  | .struct _ _ => let n := PL.nodeTy t; if n.kind = 0 then (n.size : Int) else -1
  | .union _ _ => (PL.nodeTy t).size

/- does the type contain (at any depth) an optional member whose value class has another C++
   alignment than its wire alignment beyond the 4-byte flag?  (`do_encode/do_decode(optional<T>)`
   pad the flag to `alignment<T>::value`) -/
mutual
  def optMisaligned : Ty → Bool
    | .struct _ ms => optMisalignedMs ms
    | .union _ arms => optMisalignedArms arms
    | _ => false
  def optMisalignedMs : List Member → Bool
    | [] => false
    | .mk _ t k :: r =>
      (match k with
       | .optional => max 4 (cppAlign t) != max 4 (PL.nodeTy t).align
       | _ => false) || optMisaligned t || optMisalignedMs r
  def optMisalignedArms : List Arm → Bool
    | [] => false
    | .mk _ _ t :: r => optMisaligned t || optMisalignedArms r
end

def sizerPrimOf (s : String) (all : List Member) : Prim :=
  match all.find? (fun m => m.name == s) with
  | some (.mk _ (.prim p) _) => p
  | _ => .u32

/-- the member bound to sizer `s` and its value -/
def boundOf (s : String) : List Member → List Val → Option (Member × Val)
  | m :: ms, v :: vs => if m.kind.sizer? = some s then some (m, v) else boundOf s ms vs
  | _, _ => none

/-- conversion `CT(x.size())` to the counter's C++ type -/
def castCount (p : Prim) (n : Nat) : Nat := n % 256 ^ p.size

def elemsOf : Val → List Val
  | .arr xs => xs
  | .bytes b => b.map (fun x => Val.int x.toNat)
  | _ => []

/-! ### encode -/
mutual
  /-- `do_encode<E>(pos, x)` of a value of type `t` at absolute offset `pos` -/
  def encTy (e : Endian) : Ty → Val → Nat → List Cell
    | .prim p, .int i, _ => written (scalarBytes e p.size (toUnsigned p.size i))
    | .byte, .int i, _ => written (scalarBytes e 1 (toUnsigned 1 i))
    | .enum _ _, .int i, _ => written (scalarBytes e 4 (toUnsigned 4 i))
    | .struct _ ms, .struct vs, pos => encMs e ms vs ms vs (PL.structMembers ms) pos
    | .union n arms, .union idx v, pos =>
      match arms[idx]? with
      | some (.mk _ d t) =>
        let node := PL.nodeTy (.union n arms)
        let discpad := if node.align > PL.discSize then node.align - PL.discSize else 0
        written (scalarBytes e 4 d) ++ skip discpad
          ++ overlay (encTy e t v (pos + 4 + discpad)) (node.size - PL.discSize - discpad)
      | none => []
    | _, _, _ => []
  /-- generate_struct_encode: one statement per member plus its padding statement -/
  def encMs (e : Endian) (all : List Member) (allv : List Val) :
      List Member → List Val → List (Nat × Nat × Int) → Nat → List Cell
    | .mk n t k :: r, v :: vs, (msize, _, padding) :: ls, pos =>
      let body : List Cell :=
        match k, v with
        | .plain, v =>
          if isSizer n all then
            match boundOf n all allv with
            | some (.mk _ _ (.limited _ lim), bv) =>
              written (scalarBytes e (sizerPrimOf n all).size (castCount (sizerPrimOf n all) (min bv.len lim)))
            | some (_, bv) =>
              written (scalarBytes e (sizerPrimOf n all).size (castCount (sizerPrimOf n all) bv.len))
            | none => []
          else if codecSize t ≥ 0 then overlay (encTy e t v pos) (codecSize t).toNat
          else encTy e t v pos
        | .optional, .absent =>
          written (scalarBytes e 4 0) ++ skip (if cppAlign t > 4 then cppAlign t - 4 else 0)
            ++ skip (codecSize t).toNat
        | .optional, .present x =>
          let pre := written (scalarBytes e 4 1) ++ skip (if cppAlign t > 4 then cppAlign t - 4 else 0)
          pre ++ (if codecSize t ≥ 0 then overlay (encTy e t x (pos + pre.length)) (codecSize t).toNat
                  else encTy e t x (pos + pre.length))
        | .fixed c, .arr xs => encElems e t xs c pos
        | .fixed c, .bytes b => written (b.take c)
        | .dyn s _, .arr xs => encElems e t xs (castCount (sizerPrimOf s all) xs.length) pos
        | .dyn s _, .bytes b => written (b.take (castCount (sizerPrimOf s all) b.length))
        | .limited s lim, .arr xs =>
          overlay (encElems e t xs (castCount (sizerPrimOf s all) (min xs.length lim)) pos) msize
        | .limited s lim, .bytes b =>
          overlay (written (b.take (castCount (sizerPrimOf s all) (min b.length lim)))) msize
        | .greedy, .arr xs => encElems e t xs xs.length pos
        | .greedy, .bytes b => written b
        | _, _ => []
      let pos1 := pos + body.length
      let pad : List Cell :=
        if padding < 0 then skip (padTo pos1 padding.natAbs) else skip padding.toNat
      body ++ pad ++ encMs e all allv r vs ls (pos1 + pad.length)
    | _, _, _, _ => []
  /-- `encoder<E,T>::encode(data, x, n)`: the first `n` elements -/
  def encElems (e : Endian) : Ty → List Val → Nat → Nat → List Cell
    | _, [], _, _ => []
    | _, _, 0, _ => []
    | t, x :: xs, n + 1, pos =>
      let c := if codecSize t ≥ 0 then overlay (encTy e t x pos) (codecSize t).toNat else encTy e t x pos
      c ++ encElems e t xs n (pos + c.length)
end

/-- `message::encode<E>(void*)`: the cells written from offset 0; its return value is the length -/
def encodePtr (t : Ty) (v : Val) (e : Endian) : List Cell := encTy e t v 0

/-! ### get_byte_size -/
def nearest (n : Nat) (x : Int) : Int := (x + (n : Int) - 1) / (n : Int) * (n : Int)

mutual
  /-- `x.get_byte_size()` -/
  def byteSizeTy : Ty → Val → Int
    | .struct _ ms, .struct vs => byteSizeMs ms ms vs (PL.memsOf ms) (PL.structMembers ms) 0 0
    | t, _ => (PL.nodeTy t).size
  /-- generate_struct_get_byte_size: `acc` is the value of the element list so far,
      `bytes` the constant being accumulated -/
  def byteSizeMs (all : List Member) :
      List Member → List Val → List PL.Mem → List (Nat × Nat × Int) → Int → Int → Int
    | .mk _ t k :: r, v :: vs, mem :: mems, (msize, _, padding) :: ls, acc, bytes =>
      let dynOrGreedy := match k with
        | .dyn _ _ => true
        | .greedy => true
        | _ => false
      let (acc1, bytes1) : Int × Int :=
        if mem.kind = 0 then
          if dynOrGreedy then (acc + (v.len : Int) * ((PL.nodeTy t).size : Int), bytes)
          else (acc, bytes + (msize : Int) + max padding 0)
        else
          if dynOrGreedy then (acc + (match v with | .arr xs => byteSizeElems t xs | _ => 0), bytes)
          else (acc + byteSizeTy t v, bytes)
      let (acc2, bytes2) : Int × Int :=
        if padding < 0 then
          let a := if bytes1 ≠ 0 then acc1 + bytes1 else acc1
          (nearest padding.natAbs a, 0)
        else (acc1, bytes1)
      byteSizeMs all r vs mems ls acc2 bytes2
    | _, _, _, _, acc, bytes => if bytes ≠ 0 then acc + bytes else acc
  def byteSizeElems : Ty → List Val → Int
    | _, [] => 0
    | t, x :: xs => byteSizeTy t x + byteSizeElems t xs
end

/-- `get_byte_size()` as a `size_t` -/
def getByteSize (t : Ty) (v : Val) : Nat := ((byteSizeTy t v) % (2 ^ 64 : Nat)).toNat

inductive EncRes
  | ok (b : Bytes)
  | fault               -- a write outside the vector's storage
  deriving Repr, DecidableEq

/-- `message::encode<E>()`: zero-filled vector of `get_byte_size()` bytes, then the pointer encoder -/
def encodeVec (t : Ty) (v : Val) (e : Endian) : EncRes :=
  let cells := encodePtr t v e
  let n := getByteSize t v
  if cells.length ≤ n then .ok (cells.map (·.getD 0) ++ zeros (n - cells.length))
  else if (cells.drop n).all (·.isNone) then .ok ((cells.take n).map (·.getD 0))
  else .fault

/-! ### decode -/

inductive DRes (α : Type)
  | ok (a : α) (pos : Nat) (resizes : List Nat)
  | fail (resizes : List Nat)       -- `return false`
  | fault                           -- read outside [data, data+size)
  | throw (resizes : List Nat)      -- a C++ exception leaves decode (vector::resize of an absurd size)
  deriving Repr

def sizeMax : Nat := 2 ^ 64

/-- `size_t(end - pos)` -/
def remaining (size pos : Nat) : Nat := if pos ≤ size then size - pos else sizeMax - (pos - size)

/-- do_decode_resize: `codec_traits<T>::size > 0 ? size_t(codec_traits<T>::size) : 1` for the element type `T` of
    the array bound to sizer `n` (the C++ generator refuses several arrays on one sizer) -/
def resizeElem (n : String) (all : List Member) : Nat :=
  match all.find? (fun m => m.kind.sizer? = some n) with
  | some m => if codecSize m.ty > 0 then (codecSize m.ty).toNat else 1
  | none => 1

/-- largest `resize` the model lets through before `std::length_error`/`bad_alloc` (elements) -/
def resizeLimit : Nat := 2 ^ 28

def readScalar (e : Endian) (k : Nat) (data : Bytes) (pos : Nat) : Option Nat :=
  if pos + k ≤ data.length then some (scalarVal e ((data.drop pos).take k)) else none

/-- `decoder<E,T>::decode(x, pos, end)` for arithmetic `T` and enums -/
def decScalar (e : Endian) (k : Nat) (signed : Bool) (data : Bytes) (pos : Nat) (rs : List Nat) : DRes Int :=
  if remaining data.length pos < k then .fail rs
  else match readScalar e k data pos with
    | some n => .ok (if signed then toSigned k n else (n : Int)) (pos + k) rs
    | none => .fault

def DRes.bind {α β : Type} (r : DRes α) (f : α → Nat → List Nat → DRes β) : DRes β :=
  match r with
  | .ok a pos rs => f a pos rs
  | .fail rs => .fail rs
  | .fault => .fault
  | .throw rs => .throw rs

/-- do_decode_advance -/
def advance (n : Nat) (size pos : Nat) (rs : List Nat) : DRes Unit :=
  if remaining size pos < n then .fail rs else .ok () (pos + n) rs

/-- do_decode_align<A> -/
def alignStep (a : Nat) (size pos : Nat) (rs : List Nat) : DRes Unit :=
  let aligned := pos + padTo pos a
  if aligned > size then .fail rs else .ok () aligned rs

/-- `for n times: decode element`; returns also the position reached on failure -/
def decN (f : Nat → List Nat → DRes Val × Nat) : Nat → Nat → List Nat → DRes (List Val) × Nat
  | 0, pos, rs => (.ok [] pos rs, pos)
  | n + 1, pos, rs =>
    match f pos rs with
    | (.ok v pos1 rs1, _) =>
      match decN f n pos1 rs1 with
      | (.ok vs pos2 rs2, p) => (.ok (v :: vs) pos2 rs2, p)
      | other => other
    | (.fail rs1, p) => (.fail rs1, p)
    | (.fault, p) => (.fault, p)
    | (.throw rs1, p) => (.throw rs1, p)

/-- decoder_greedy for dynamic elements: push_back / decode until an element fails; the
    position is reset to the start of the failing element -/
def decGreedyDyn (f : Nat → List Nat → DRes Val × Nat) : Nat → Nat → List Nat → DRes (List Val)
  | 0, _, rs => .throw rs
  | fuel + 1, pos, rs =>
    match f pos rs with
    | (.ok a pos1 rs1, _) =>
      (decGreedyDyn f fuel pos1 rs1).bind fun as pos2 rs2 => .ok (a :: as) pos2 rs2
    | (.fail rs1, _) => .ok [] pos rs1               -- `pos = element`: an incomplete element is not consumed
    | (.fault, _) => .fault
    | (.throw rs1, _) => .throw rs1

def isMessage : Ty → Bool
  | .struct _ _ => true
  | .union _ _ => true
  | _ => false

def toBytesVal (vs : List Val) : Val :=
  .bytes (vs.map fun v => match v with
    | .int i => UInt8.ofNat i.toNat
    | _ => 0)

/-- `decoder<E,T>::decode(x, n, pos, end)`: arithmetic element types check `n * sizeof(T)`
    up front, message element types decode one by one; `f` decodes one element -/
def decArray (f : Nat → List Nat → DRes Val × Nat) (t : Ty) (cnt : Nat) (size : Nat) (pos : Nat)
    (rs : List Nat) : DRes Val × Nat :=
  if isMessage t then
    match decN f cnt pos rs with
    | (.ok vs pos1 rs1, p) => (.ok (Val.arr vs) pos1 rs1, p)
    | (.fail rs1, p) => (.fail rs1, p)
    | (.fault, p) => (.fault, p)
    | (.throw rs1, p) => (.throw rs1, p)
  else
    let k := (codecSize t).toNat
    if remaining size pos < (cnt * k) % sizeMax then (.fail rs, pos)
    else
      match decN f cnt pos rs with
      | (.ok vs pos1 rs1, p) =>
        (.ok (match t with
              | .byte => toBytesVal vs
              | _ => Val.arr vs) pos1 rs1, p)
      | (.fail rs1, p) => (.fail rs1, p)
      | (.fault, p) => (.fault, p)
      | (.throw rs1, p) => (.throw rs1, p)

def retag {α β : Type} (r : DRes α × Nat) (g : α → β) : DRes β × Nat :=
  match r with
  | (.ok a pos rs, p) => (.ok (g a) pos rs, p)
  | (.fail rs, p) => (.fail rs, p)
  | (.fault, p) => (.fault, p)
  | (.throw rs, p) => (.throw rs, p)

mutual
  /-- `decoder<E,T>::decode(x, pos, end)`; also returns the position reached when the result
      is `fail` (the C++ `pos` is a reference and keeps the partial advance) -/
  def decTy (e : Endian) : Ty → Bytes → Nat → List Nat → DRes Val × Nat
    | .prim p, data, pos, rs =>
      ((decScalar e p.size p.isSigned data pos rs).bind fun i pos1 rs1 => .ok (.int i) pos1 rs1, pos)
    | .byte, data, pos, rs => ((decScalar e 1 false data pos rs).bind fun i pos1 rs1 => .ok (.int i) pos1 rs1, pos)
    | .enum _ _, data, pos, rs => ((decScalar e 4 false data pos rs).bind fun i pos1 rs1 => .ok (.int i) pos1 rs1, pos)
    | .struct _ ms, data, pos, rs =>
      retag (decMs e ms ms (PL.structMembers ms) data pos rs []) Val.struct
    | .union n arms, data, pos, rs =>
      let node := PL.nodeTy (.union n arms)
      let discpad := if node.align > PL.discSize then node.align - PL.discSize else 0
      match decScalar e 4 false data pos rs with
      | .ok d pos1 rs1 =>
        match (if discpad ≠ 0 then advance discpad data.length pos1 rs1 else .ok () pos1 rs1) with
        | .ok _ pos2 rs2 =>
          match decArms e arms d data pos2 rs2 0 with
          | .ok (idx, v) _ rs3 =>
            match advance (node.size - PL.discSize - discpad) data.length pos2 rs3 with
            | .ok _ pos4 rs4 => (.ok (.union idx v) pos4 rs4, pos4)
            | .fail rs4 => (.fail rs4, pos2)
            | .fault => (.fault, pos2)
            | .throw rs4 => (.throw rs4, pos2)
          | .fail rs3 => (.fail rs3, pos2)
          | .fault => (.fault, pos2)
          | .throw rs3 => (.throw rs3, pos2)
        | .fail rs2 => (.fail rs2, pos1)
        | .fault => (.fault, pos1)
        | .throw rs2 => (.throw rs2, pos1)
      | .fail rs1 => (.fail rs1, pos)
      | .fault => (.fault, pos)
      | .throw rs1 => (.throw rs1, pos)
  /-- the `switch (x.discriminator)` of generate_union_decode: `do_decode_in_place` of the arm -/
  def decArms (e : Endian) : List Arm → Int → Bytes → Nat → List Nat → Nat → DRes (Nat × Val)
    | [], _, _, _, rs, _ => .fail rs
    | .mk _ d t :: r, disc, data, pos, rs, idx =>
      if (d : Int) = disc then
        match decTy e t data pos rs with
        | (.ok v pos1 rs1, _) => .ok (idx, v) pos1 rs1
        | (.fail rs1, _) => .fail rs1
        | (.fault, _) => .fault
        | (.throw rs1, _) => .throw rs1
      else decArms e r disc data pos rs (idx + 1)
  /-- generate_struct_decode: the `&&` chain; `lens` holds the vector sizes set by do_decode_resize -/
  def decMs (e : Endian) (all : List Member) :
      List Member → List (Nat × Nat × Int) → Bytes → Nat → List Nat → List (String × Nat) →
      DRes (List Val) × Nat
    | .mk n t k :: r, (msize, _, padding) :: ls, data, pos, rs, lens =>
      let size := data.length
      let elem : Nat → List Nat → DRes Val × Nat := fun q rs' => decTy e t data q rs'
      -- the member's own statement(s)
      let step : DRes (Val × List (String × Nat)) × Nat :=
        match k with
        | .plain =>
          if isSizer n all then
            -- do_decode_resize<E, CT>(x.b, pos, end[, max])
            let p := sizerPrimOf n all
            match decScalar e p.size p.isSigned data pos rs with
            | .ok c pos1 rs1 =>
              let cnt : Nat := if c < 0 then sizeMax - c.natAbs else c.toNat     -- conversion to size_t
              let lim : Option Nat := (all.find? (fun m => m.kind.sizer? = some n)).bind fun m =>
                match m.kind with
                | .limited _ l => some l
                | _ => none
              if (match lim with | some l => decide (cnt > l) | none => false) then (.fail rs1, pos1)
              else if cnt > remaining size pos1 / resizeElem n all then (.fail rs1, pos1)     -- the counter cannot be satisfied
              else if cnt > resizeLimit then (.throw (cnt :: rs1), pos1)
              else
                let bound := all.filterMap (fun m => if m.kind.sizer? = some n then some (m.name, cnt) else none)
                (.ok (Val.sizer, bound ++ lens) pos1 (cnt :: rs1), pos1)
            | .fail rs1 => (.fail rs1, pos)
            | .fault => (.fault, pos)
            | .throw rs1 => (.throw rs1, pos)
          else retag (decTy e t data pos rs) (fun v => (v, lens))
        | .optional =>
          -- do_decode(optional<T>&)
          match decScalar e 4 false data pos rs with
          | .ok disc pos1 rs1 =>
            let apad := if cppAlign t > 4 then cppAlign t - 4 else 0
            match (if apad ≠ 0 then advance apad size pos1 rs1 else .ok () pos1 rs1) with
            | .ok _ pos2 rs2 =>
              if disc ≠ 0 then retag (decTy e t data pos2 rs2) (fun v => (Val.present v, lens))
              else
                -- `return do_decode_advance(codec_traits<T>::size, pos, end)`
                match advance (if codecSize t ≥ 0 then (codecSize t).toNat else sizeMax - 1) size pos2 rs2 with
                | .ok _ pos3 rs3 => (.ok (Val.absent, lens) pos3 rs3, pos3)
                | .fail rs3 => (.fail rs3, pos2)
                | .fault => (.fault, pos2)
                | .throw rs3 => (.throw rs3, pos2)
            | .fail rs2 => (.fail rs2, pos1)
            | .fault => (.fault, pos1)
            | .throw rs2 => (.throw rs2, pos1)
          | .fail rs1 => (.fail rs1, pos)
          | .fault => (.fault, pos)
          | .throw rs1 => (.throw rs1, pos)
        | .fixed c => retag (decArray elem t c size pos rs) (fun v => (v, lens))
        | .dyn _ _ => retag (decArray elem t ((lens.lookup n).getD 0) size pos rs) (fun v => (v, lens))
        | .limited _ _ =>
          -- do_decode_in_place (position by value) && do_decode_advance(byte_size)
          match decArray elem t ((lens.lookup n).getD 0) size pos rs with
          | (.ok v _ rs1, _) =>
            match advance msize size pos rs1 with
            | .ok _ pos2 rs2 => (.ok (v, lens) pos2 rs2, pos2)
            | .fail rs2 => (.fail rs2, pos)
            | .fault => (.fault, pos)
            | .throw rs2 => (.throw rs2, pos)
          | (.fail rs1, _) => (.fail rs1, pos)
          | (.fault, _) => (.fault, pos)
          | (.throw rs1, _) => (.throw rs1, pos)
        | .greedy =>
          if codecSize t ≥ 0 then
            -- decoder_greedy<E,T,false>: n = size_t(end - pos) / size; resize; decode n
            let cnt := remaining size pos / (codecSize t).toNat
            if cnt > resizeLimit then (.throw (cnt :: rs), pos)
            else retag (decArray elem t cnt size pos (cnt :: rs)) (fun v => (v, lens))
          else
            match decGreedyDyn elem (size + 1) pos rs with
            | .ok vs pos1 rs1 => (.ok (Val.arr vs, lens) pos1 rs1, pos1)
            | .fail rs1 => (.fail rs1, pos)
            | .fault => (.fault, pos)
            | .throw rs1 => (.throw rs1, pos)
      match step with
      | (.ok (v, lens') pos1 rs1, _) =>
        -- the padding statement
        let padStep : DRes Unit :=
          if padding < 0 then alignStep padding.natAbs size pos1 rs1
          else if padding > 0 then advance padding.toNat size pos1 rs1
          else .ok () pos1 rs1
        match padStep with
        | .ok _ pos2 rs2 =>
          match decMs e all r ls data pos2 rs2 lens' with
          | (.ok vs pos3 rs3, p) => (.ok (v :: vs) pos3 rs3, p)
          | other => other
        | .fail rs2 => (.fail rs2, pos1)
        | .fault => (.fault, pos1)
        | .throw rs2 => (.throw rs2, pos1)
      | (.fail rs1, p) => (.fail rs1, p)
      | (.fault, p) => (.fault, p)
      | (.throw rs1, p) => (.throw rs1, p)
    | _, _, _, pos, rs, _ => (.ok [] pos rs, pos)
end

inductive Outcome
  | accepted (v : Val) (resizes : List Nat)     -- decode returned true
  | rejected (resizes : List Nat)               -- decode returned false
  | fault
  | exception (resizes : List Nat)
  deriving Repr

/-- `message::decode<E>(data, size)`: success and all bytes read -/
def decode (t : Ty) (data : Bytes) (e : Endian) : Outcome :=
  match (decTy e t data 0 []).1 with
  | .ok v pos rs => if pos = data.length then .accepted v rs else .rejected rs
  | .fail rs => .rejected rs
  | .fault => .fault
  | .throw rs => .exception rs

end Cpp
end Prophy

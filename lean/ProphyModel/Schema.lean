/-
  Resolved schema trees and values.

  A schema reaches the model with typedefs resolved and with prophyc's member
  desugaring already applied (`T x<>` is the two members `num_of_x : u32` and
  `x : T` bound to `num_of_x`, exactly the member list of
  prophyc/parsers/prophy.py:281-296).  Names are kept.
-/
import ProphyModel.Basic
namespace Prophy

inductive Prim | i8 | i16 | i32 | i64 | u8 | u16 | u32 | u64 | r32 | r64
  deriving DecidableEq, Repr, Inhabited

def Prim.size : Prim → Nat
  | .i8 | .u8 => 1
  | .i16 | .u16 => 2
  | .i32 | .u32 | .r32 => 4
  | .i64 | .u64 | .r64 => 8

def Prim.isFloat : Prim → Bool
  | .r32 | .r64 => true
  | _ => false

def Prim.isSigned : Prim → Bool
  | .i8 | .i16 | .i32 | .i64 => true
  | _ => false

/-- how a struct member uses its type -/
inductive MKind
  | plain
  | optional
  | fixed (n : Nat)
  | dyn (sizer : String) (shift : Nat)   -- `T x<@sizer>`; the counter holds the count plus `shift`
                                         -- (prophy.array(..., bound=, shift=); always 0 in prophyc output)
  | limited (sizer : String) (n : Nat)   -- `T x<n>` (its own `num_of_x` sizer)
  | greedy                               -- `T x<...>`
  deriving DecidableEq, Repr, Inhabited

mutual
  inductive Ty
    | prim (p : Prim)
    | byte                                              -- element of a bytes field; a plain `byte` is a `u8`
    | enum (name : String) (es : List (String × Nat))
    | struct (name : String) (ms : List Member)
    | union (name : String) (arms : List Arm)
  inductive Member
    | mk (name : String) (ty : Ty) (k : MKind)
  inductive Arm
    | mk (name : String) (disc : Nat) (ty : Ty)
end

instance : Inhabited Ty := ⟨.byte⟩
instance : Inhabited Member := ⟨.mk "" .byte .plain⟩
instance : Inhabited Arm := ⟨.mk "" 0 .byte⟩

def Member.name : Member → String | .mk n _ _ => n
def Member.ty : Member → Ty | .mk _ t _ => t
def Member.kind : Member → MKind | .mk _ _ k => k
def Arm.name : Arm → String | .mk n _ _ => n
def Arm.disc : Arm → Nat | .mk _ d _ => d
def Arm.ty : Arm → Ty | .mk _ _ t => t

/-- Values.  Integers, enums and (as raw bit patterns) floats are `int`; a bytes
    field is `bytes`; an array is `arr`; a struct is the list of its members'
    values in declaration order with `sizer` standing for counters (they are
    derived, never stored); a union is the index of its arm and that arm's value. -/
inductive Val
  | int (i : Int)
  | bytes (b : Bytes)
  | arr (vs : List Val)
  | struct (fs : List Val)
  | union (arm : Nat) (v : Val)
  | absent
  | present (v : Val)
  | sizer
  deriving Repr, Inhabited

/-- number of elements of an array / bytes value -/
def Val.len : Val → Nat
  | .arr vs => vs.length
  | .bytes b => b.length
  | _ => 0

/-- the member occupies a slot of fixed size (it is not a dynamic or greedy array) -/
def MKind.isStatic : MKind → Bool
  | .dyn _ _ => false
  | .greedy => false
  | _ => true

def MKind.sizer? : MKind → Option String
  | .dyn s _ => some s
  | .limited s _ => some s
  | _ => none

def MKind.shift : MKind → Nat
  | .dyn _ sh => sh
  | _ => 0

/-- shift of the arrays bound to sizer `s` (that of the first one; generators.py validate_bound_shift
    makes them all equal) -/
def sizerShift (s : String) : List Member → Nat
  | [] => 0
  | m :: r => if m.kind.sizer? = some s then m.kind.shift else sizerShift s r

/-- lengths of all arrays of the struct bound to sizer `s` (prophy/generators.py:377) -/
def boundLens (s : String) : List Member → List Val → List Nat
  | m :: ms, v :: vs =>
    if m.kind.sizer? = some s then v.len :: boundLens s ms vs else boundLens s ms vs
  | _, _ => []

/-- is some member bound to `s`? -/
def isSizer (s : String) (ms : List Member) : Bool :=
  ms.any (fun m => m.kind.sizer? = some s)

end Prophy

/-
  Model of prophyc's layout computation (prophyc/model.py):

    calc_wire_stiffness            (:161, :326)
    evaluate_member_size / evaluate_node_size (:508-548)
    evaluate_array_and_optional_size          (:525)
    evaluate_partial_padding_size             (:556)
    evaluate_struct_size                      (:561)   signed per-member `padding`
    evaluate_union_size                       (:588)

  on resolved trees (typedef resolution and constant evaluation stay on the
  implementation side of the comparison).
-/
import ProphyModel.Schema
namespace Prophy
namespace PL

/-- `Kind.FIXED / DYNAMIC / UNLIMITED` = 0 / 1 / 2 -/
abbrev Kind := Nat

structure Node where
  size : Nat
  align : Nat
  kind : Kind
  deriving DecidableEq, Repr, Inhabited

/-- a struct member after evaluate_member_size + evaluate_array_and_optional_size -/
structure Mem where
  size : Nat          -- member.byte_size
  align : Nat         -- member.alignment
  kind : Kind         -- member.kind: the kind of the member's *type*
  isDynamic : Bool    -- bound and not size
  greedy : Bool
  isArray : Bool      -- bound or size or greedy
  hasSize : Bool      -- member.size
  deriving DecidableEq, Repr, Inhabited

def discSize : Nat := 4
def enumSize : Nat := 4

/-- evaluate_array_and_optional_size applied to the type's (size, alignment) -/
def memOf (n : Node) : MKind → Mem
  | .plain => ⟨n.size, n.align, n.kind, false, false, false, false⟩
  | .optional => ⟨n.size + max discSize n.align, max discSize n.align, n.kind, false, false, false, false⟩
  | .fixed c => ⟨n.size * c, n.align, n.kind, false, false, true, true⟩
  | .dyn _ _ => ⟨0, n.align, n.kind, true, false, true, false⟩
  | .limited _ c => ⟨n.size * c, n.align, n.kind, false, false, true, true⟩
  | .greedy => ⟨0, n.align, n.kind, false, true, true, false⟩

/-- predicate of `split_after` in evaluate_partial_padding_size -/
def endsPart (m : Mem) : Bool := m.kind == 1 || (m.isArray && !m.hasSize)

/-- max alignment of the part starting here (up to and including the member that ends it) -/
def partMax : List Mem → Nat
  | [] => 0
  | m :: r => if endsPart m then m.align else max m.align (partMax r)

/-- evaluate_partial_padding_size: the first member of every part but the first gets the
    greatest alignment of its part -/
def bump : List Mem → Bool → List Mem
  | [], _ => []
  | m :: r, first =>
    (if first then { m with align := max m.align (partMax (m :: r)) } else m) :: bump r (endsPart m)

def isMemberDynamic (m : Mem) : Bool := m.isDynamic || m.greedy || m.kind != 0

def maxAlign : List Mem → Nat
  | [] => 0
  | m :: r => max m.align (maxAlign r)

/-- the loop of evaluate_struct_size from the second member on: `prev` is the previous
    member, `bs` the byte size so far; returns the final byte size before end padding,
    the paddings of all members but the last, and the last member -/
def sizeLoop : List Mem → Mem → Nat → Nat × List Int × Mem
  | [], prev, bs => (bs, [], prev)
  | m :: r, prev, bs =>
    let padding := padTo bs m.align
    let pprev : Int := if isMemberDynamic prev && prev.align < m.align then -(m.align : Int) else (padding : Int)
    let (bs', ps, last) := sizeLoop r m (bs + m.size + padding)
    (bs', pprev :: ps, last)

/-- evaluate_struct_size: (byte_size, alignment, paddings) -/
def structSize (ms : List Mem) : Nat × Nat × List Int :=
  match ms with
  | [] => (0, 1, [])
  | m0 :: r =>
    let alignment := maxAlign ms
    let (bs, ps, last) := sizeLoop r m0 (m0.size + padTo 0 m0.align)
    let padding := padTo bs alignment
    let plast : Int :=
      if ms.any isMemberDynamic then (if last.align < alignment then -(alignment : Int) else (padding : Int))
      else (padding : Int)
    (bs + padding, alignment, ps ++ [plast])

/-- _SerializableContainer.calc_wire_stiffness for structs -/
def structKind (ms : List Mem) : Kind :=
  match ms.getLast? with
  | none => 0
  | some l =>
    if l.greedy then 2
    else
      let k := ms.foldl (fun k m => max k m.kind) 0
      if ms.any (·.isDynamic) then max k 1 else k

def maxSize : List Node → Nat
  | [] => 0
  | n :: r => max n.size (maxSize r)

def maxNodeAlign : List Node → Nat
  | [] => 0
  | n :: r => max n.align (maxNodeAlign r)

/-- evaluate_union_size (the float division `int((s + a - 1) / a) * a` is exact integer
    division for every size below 2^53; modelled as integer division) -/
def unionNode (arms : List Node) : Node :=
  let a := max discSize (if arms.isEmpty then 1 else maxNodeAlign arms)
  let s := maxSize arms + a
  ⟨(s + a - 1) / a * a, a, 0⟩

mutual
  def nodeTy : Ty → Node
    | .prim p => ⟨p.size, p.size, 0⟩
    | .byte => ⟨1, 1, 0⟩
    | .enum _ _ => ⟨enumSize, enumSize, 0⟩
    | .struct _ ms =>
      let mems := memsOf ms
      let bumped := bump mems false
      let (s, a, _) := structSize bumped
      ⟨s, a, structKind mems⟩
    | .union _ arms => unionNode (armsOf arms)
  def memsOf : List Member → List Mem
    | [] => []
    | .mk _ t k :: r => memOf (nodeTy t) k :: memsOf r
  def armsOf : List Arm → List Node
    | [] => []
    | .mk _ _ t :: r => nodeTy t :: armsOf r
end

/-- members of a struct as prophyc leaves them: (byte_size, alignment, padding) -/
def structMembers (ms : List Member) : List (Nat × Nat × Int) :=
  let bumped := bump (memsOf ms) false
  let (_, _, ps) := structSize bumped
  (bumped.zip ps).map (fun (m, p) => (m.size, m.align, p))

/-- number of bytes the signed paddings make a writer emit for a member sequence:
    `>= 0` adds that many bytes, `< 0` aligns to `|p|` (this is how both C++ generators
    consume `member.padding`); `sizes` are the actual byte sizes of the members' values -/
def lengthByPaddings : List Nat → List Int → Nat → Nat
  | s :: ss, p :: ps, off =>
    let off1 := off + s
    let off2 := if p < 0 then off1 + padTo off1 p.natAbs else off1 + p.toNat
    lengthByPaddings ss ps off2
  | _, _, off => off

end PL
end Prophy

/-
  The wire format as laid down in docs/encoding.rst, written independently of
  any implementation.  Every sentence of the document that constrains a byte is
  quoted next to the definition that realises it.
-/
import ProphyModel.Schema
namespace Prophy
namespace Spec

/-- "Optional is a fixed-size value prepended by a boolean value encoded as a
    32-bit integer"; union "discriminator encoded as a 32-bit integer";
    dynamic array "counted by 32-bit unsigned delimiter". -/
def flagSize : Nat := 4

/-! ### Alignment: "Composite (struct or union) alignment is the greatest
    alignment of its fields.  Optional flag, union discriminator, array
    delimiter all contribute to struct alignment." -/
mutual
  def alignTy : Ty → Nat
    | .prim p => p.size
    | .byte => 1
    | .enum _ _ => 4
    | .struct _ ms => alignMs ms
    | .union _ arms => max flagSize (alignArms arms)
  def alignMs : List Member → Nat
    | [] => 1
    | .mk _ t k :: r =>
      max (match k with
           | .optional => max flagSize (alignTy t)
           | _ => alignTy t) (alignMs r)
  def alignArms : List Arm → Nat
    | [] => 1
    | .mk _ _ t :: r => max (alignTy t) (alignArms r)
end

def alignMember (m : Member) : Nat :=
  match m.kind with
  | .optional => max flagSize (alignTy m.ty)
  | _ => alignTy m.ty

/-! ### Stiffness: "Struct containing dynamic arrays directly or indirectly
    becomes dynamic itself"; "Struct which contains greedy array or unlimited
    struct in the last field becomes an unlimited struct." -/
mutual
  def dynTy : Ty → Bool
    | .struct _ ms => dynMs ms
    | _ => false
  def dynMs : List Member → Bool
    | [] => false
    | .mk _ t k :: r =>
      (match k with
       | .dyn _ _ => true
       | .greedy => true
       | .plain => dynTy t
       | _ => false) || dynMs r
end

mutual
  def unlTy : Ty → Bool
    | .struct _ ms => unlMs ms
    | _ => false
  def unlMs : List Member → Bool
    | [] => false
    | .mk _ t k :: r =>
      (match k with
       | .greedy => true
       | .plain => unlTy t
       | _ => false) || unlMs r
end

/- a type none of whose parts, at any depth, is a dynamic or greedy array: its encodings all
   have one length ("fixed size on wire") -/
mutual
  def fixedTy : Ty → Bool
    | .struct _ ms => fixedMs ms
    | .union _ arms => fixedArms arms
    | _ => true
  def fixedMs : List Member → Bool
    | [] => true
    | .mk _ t k :: r => k.isStatic && fixedTy t && fixedMs r
  def fixedArms : List Arm → Bool
    | [] => true
    | .mk _ _ t :: r => fixedTy t && fixedArms r
end

/-- a member after which a new block starts ("blocks which end with dynamic fields") -/
def endsBlock (m : Member) : Bool :=
  match m.kind with
  | .dyn _ _ => true
  | .greedy => true
  | .plain => dynTy m.ty
  | _ => false

/-- "first field of such block has the greatest alignment of all block fields":
    the greatest alignment from here up to and including the next dynamic field. -/
def blockAlign : List Member → Nat
  | [] => 1
  | m :: r => if endsBlock m then alignMember m else max (alignMember m) (blockAlign r)

/-! ### Static sizes.  For a fixed type this is the length of every encoding
    ("each composite byte-size must be a multiple of its alignment"; optionals
    "don't follow the composite rule").  For a dynamic type it is the length of
    the encoding in which every dynamic and greedy array is empty. -/
mutual
  def sizeTy : Ty → Nat
    | .prim p => p.size
    | .byte => 1
    | .enum _ _ => 4
    | .struct _ ms => alignUp (endMs ms 0 false) (alignMs ms)
    | .union _ arms =>
      let a := max flagSize (alignArms arms)
      alignUp (a + maxArm arms) a
  /-- offset reached after laying out the members from offset `off` -/
  def endMs : List Member → Nat → Bool → Nat
    | [], off, _ => off
    | .mk n t k :: r, off, afterDyn =>
      let a := if afterDyn then blockAlign (.mk n t k :: r) else alignMember (.mk n t k)
      let slot := match k with
        | .plain => sizeTy t
        | .optional => max flagSize (alignTy t) + sizeTy t
        | .fixed c => c * sizeTy t
        | .limited _ c => c * sizeTy t
        | .dyn _ _ => 0
        | .greedy => 0
      endMs r (alignUp off a + slot) (endsBlock (.mk n t k))
  def maxArm : List Arm → Nat
    | [] => 0
    | .mk _ _ t :: r => max (sizeTy t) (maxArm r)
end

/-! ### Encoding as a list of chunks.  Byte order can only act inside a scalar
    chunk; padding is zero ("canonically encoded messages should be padded with
    zeroes"). -/
inductive Chunk
  | scalar (k n : Nat)     -- a `k`-byte scalar holding the unsigned image `n`
  | pad (n : Nat)          -- `n` zero bytes
  | raw (b : Bytes)        -- bytes field contents (1-byte scalars)
  deriving Repr, Inhabited

def Chunk.len : Chunk → Nat
  | .scalar k _ => k
  | .pad n => n
  | .raw b => b.length

def clen : List Chunk → Nat
  | [] => 0
  | c :: r => c.len + clen r

def Chunk.render (e : Endian) : Chunk → Bytes
  | .scalar k n => scalarBytes e k n
  | .pad n => zeros n
  | .raw b => b

def render (e : Endian) : List Chunk → Bytes
  | [] => []
  | c :: r => c.render e ++ render e r

/-- "counters equal to the actual element counts": the count of the first array bound to `s` -/
def counter (s : String) (ms : List Member) (vs : List Val) : Nat :=
  (boundLens s ms vs).headD 0

mutual
  def chunksTy : Ty → Val → List Chunk
    | .prim p, .int i => [.scalar p.size (toUnsigned p.size i)]
    | .byte, .int i => [.scalar 1 (toUnsigned 1 i)]
    | .enum _ _, .int i => [.scalar 4 (toUnsigned 4 i)]
    | .struct _ ms, .struct vs =>
      let body := chunksMs ms vs ms vs 0 false
      body ++ [.pad (padTo (clen body) (alignMs ms))]
    | .union _ arms, .union idx v =>
      match arms[idx]? with
      | some (.mk _ d t) =>
        let a := max flagSize (alignArms arms)
        let body := chunksTy t v
        [.scalar flagSize d, .pad (a - flagSize)] ++ body
          ++ [.pad (sizeTy (.union "" arms) - a - clen body)]
      | none => []
    | _, _ => []
  /-- `all`/`allv` are the whole member/value lists of the struct (for counters),
      `off` the offset reached relative to the struct start. -/
  def chunksMs (all : List Member) (allv : List Val) :
      List Member → List Val → Nat → Bool → List Chunk
    | .mk n t k :: r, v :: vs, off, afterDyn =>
      let a := if afterDyn then blockAlign (.mk n t k :: r) else alignMember (.mk n t k)
      let p := padTo off a
      let body : List Chunk :=
        match k, v with
        | .plain, .sizer =>
          -- a counter: "array delimiter"; its width is the sizer field's type
          [.scalar (sizeTy t) (counter n all allv + sizerShift n all)]
        | .plain, v => chunksTy t v
        | .optional, .absent => [.pad (max flagSize (alignTy t) + sizeTy t)]
        | .optional, .present x =>
          [.scalar flagSize 1, .pad (max flagSize (alignTy t) - flagSize)] ++ chunksTy t x
        | .fixed _, .arr xs => chunksElems t xs
        | .fixed _, .bytes b => [.raw b]
        | .dyn _ _, .arr xs => chunksElems t xs
        | .dyn _ _, .bytes b => [.raw b]
        | .limited _ c, .arr xs =>
          let es := chunksElems t xs
          es ++ [.pad (c * sizeTy t - clen es)]
        | .limited _ c, .bytes b => [.raw b, .pad (c - b.length)]
        | .greedy, .arr xs => chunksElems t xs
        | .greedy, .bytes b => [.raw b]
        | _, _ => []
      .pad p :: body ++ chunksMs all allv r vs (off + p + clen body) (endsBlock (.mk n t k))
    | _, _, _, _ => []
  def chunksElems : Ty → List Val → List Chunk
    | _, [] => []
    | t, x :: xs => chunksTy t x ++ chunksElems t xs
end

/-- byte length of each member's own encoding (without the padding before it), in
    declaration order -/
def memberLens (all : List Member) (allv : List Val) : List Member → List Val → List Nat
  | .mk _ t k :: r, v :: vs =>
    (match k, v with
     | .plain, .sizer => sizeTy t
     | .plain, v => clen (chunksTy t v)
     | .optional, _ => max flagSize (alignTy t) + sizeTy t
     | .fixed c, _ => c * sizeTy t
     | .limited _ c, _ => c * sizeTy t
     | .dyn _ _, .arr xs => clen (chunksElems t xs)
     | .greedy, .arr xs => clen (chunksElems t xs)
     | .dyn _ _, .bytes b => b.length
     | .greedy, .bytes b => b.length
     | _, _ => 0) :: memberLens all allv r vs
  | _, _ => []

/-- offset (from the struct start) at which each member's own encoding begins, given the members'
    byte lengths `memberLens` -/
def memberStarts : List Member → List Nat → Nat → Bool → List Nat
  | m :: r, l :: ls, off, afterDyn =>
    let a := if afterDyn then blockAlign (m :: r) else alignMember m
    let s := off + padTo off a
    s :: memberStarts r ls (s + l) (endsBlock m)
  | _, _, _, _ => []

/-! ### Offsets of members relative to the start of their block (the struct start for the first
    block; every later block starts at an address aligned to the greatest alignment of its
    fields, so offsets inside it do not depend on the dynamic data before it). -/

/-- offsets inside one run of members laid out from offset `off`: the flag of an optional is
    `has_<name>`, its value `<name>` follows after the flag padded to the value's alignment -/
def runOffsets : List Member → Nat → List (String × Nat)
  | [], _ => []
  | .mk n t k :: r, off =>
    let o := alignUp off (alignMember (.mk n t k))
    match k with
    | .optional =>
      ("has_" ++ n, o) :: (n, o + max flagSize (alignTy t)) ::
        runOffsets r (o + max flagSize (alignTy t) + sizeTy t)
    | .fixed c => (n, o) :: runOffsets r (o + c * sizeTy t)
    | .limited _ c => (n, o) :: runOffsets r (o + c * sizeTy t)
    | .plain => (n, o) :: runOffsets r (o + sizeTy t)
    | _ => (n, o) :: runOffsets r o

/-- split after every member that ends a block, except after the last member -/
def blocks : List Member → List (List Member)
  | [] => [[]]
  | [m] => [[m]]
  | m :: m' :: r =>
    if endsBlock m then [m] :: blocks (m' :: r)
    else match blocks (m' :: r) with
      | [] => [[m]]
      | b :: bs => (m :: b) :: bs

def blockOffsets (ms : List Member) : List (List (String × Nat)) :=
  (blocks ms).map fun b => runOffsets b 0

/-! ### "a greedy array whose tail does not end on the enclosing message's alignment
    boundary" is the documented exception of the round-trip guarantee: trailing
    padding is indistinguishable from elements.  `galTy t v` says that no padding
    follows the greedy tail of `v` (vacuously true without a greedy tail). -/
mutual
  def galTy : Ty → Val → Bool
    | .struct _ ms, .struct vs =>
      let body := chunksMs ms vs ms vs 0 false
      (!(unlMs ms) || padTo (clen body) (alignMs ms) == 0) && galMs ms vs
    | _, _ => true
  /-- only the last member can hold the greedy tail -/
  def galMs : List Member → List Val → Bool
    | [.mk _ t .plain], [v] => galTy t v
    | [_], [_] => true
    | _ :: r, _ :: vs => galMs r vs
    | _, _ => true
end

/-- the canonical encoding of `v : t` in byte order `e` -/
def enc (t : Ty) (v : Val) (e : Endian) : Bytes := render e (chunksTy t v)

end Spec
end Prophy

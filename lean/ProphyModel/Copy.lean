/-
  `copy_from` (prophy/composite_base.py:7, composite.py struct._copy_implementation /
  set_field :96-115, union._copy_implementation :172, container.py
  bound_composite_array.extend :168).

  The destination is cleared and rebuilt from the source field by field.  The model returns,
  next to the copied value, whether any *mutable* object (message or array) of the source
  ended up shared with the destination: scalars and bytes are immutable Python objects, so
  storing them is never sharing; lists and messages are, so they must be rebuilt.
-/
import ProphyModel.Typing
import ProphyModel.Api
namespace Prophy
namespace Copy

/- how set_field treats a member of kind `k` and type `t` holding `v`:
   `(value in the destination, some mutable object is shared)` -/
mutual
  def copyField (k : MKind) : Ty → Val → Val × Bool
    | _, .sizer => (.sizer, false)
    | _, .absent => (.absent, false)                   -- nothing stored: the field stays unset
    | t, .present x =>
      -- scalar: `self._fields[name] = rhs`; composite: enabled, then copy_from
      let (c, s) := copyField .plain t x
      (.present c, s)
    | _, .bytes b => (.bytes b, false)                 -- immutable
    | t, .arr xs =>
      -- scalars: `lhs[:] = rhs[:]` (a new list of immutable values);
      -- composites: `del lhs[:]; lhs.extend(rhs[:])` for bound arrays, element-wise copy_from for fixed ones
      let (cs, s) := copyElems t xs
      (.arr cs, s)
    | _, .int i => (.int i, false)
    | .struct _ ms, .struct vs =>
      let (cs, s) := copyMs ms vs
      (.struct cs, s)
    | .union _ arms, .union idx v =>
      match arms[idx]? with
      | some (.mk _ _ t) =>
        let (c, s) := copyField .plain t v
        (.union idx c, s)
      | none => (.union idx v, true)
    | _, v => (v, true)
  def copyMs : List Member → List Val → List Val × Bool
    | .mk _ t k :: r, v :: vs =>
      let (c, s1) := copyField k t v
      let (cs, s2) := copyMs r vs
      (c :: cs, s1 || s2)
    | _, _ => ([], false)
  def copyElems : Ty → List Val → List Val × Bool
    | _, [] => ([], false)
    | t, x :: xs =>
      let (c, s1) := copyField .plain t x
      let (cs, s2) := copyElems t xs
      (c :: cs, s1 || s2)
end

/- the value has the shape of the type: struct values list one value per member, a union value
   selects an existing arm (every state reachable through the API has this shape) -/
mutual
  def shapeField : Ty → Val → Bool
    | _, .sizer => true
    | _, .absent => true
    | t, .present x => shapeField t x
    | _, .bytes _ => true
    | t, .arr xs => shapeElems t xs
    | _, .int _ => true
    | .struct _ ms, .struct vs => shapeMs ms vs
    | .union _ arms, .union idx v =>
      match arms[idx]? with
      | some (.mk _ _ t) => shapeField t v
      | none => false
    | _, _ => false
  def shapeMs : List Member → List Val → Bool
    | [], [] => true
    | .mk _ t _ :: r, v :: vs => shapeField t v && shapeMs r vs
    | _, _ => false
  def shapeElems : Ty → List Val → Bool
    | _, [] => true
    | t, x :: xs => shapeField t x && shapeElems t xs
end

/-- `b.copy_from(a)`: the state of `b` afterwards (whatever it held before) and the sharing flag -/
def copyFrom (t : Ty) (a : Val) : Val × Bool := copyField .plain t a

end Copy
end Prophy

/-
  Basic vocabulary shared by every model: byte strings, padding arithmetic,
  little-endian byte lists of naturals, two's complement.

  Core Lean only (no Mathlib): this file is linked into the native driver.
-/
namespace Prophy

abbrev Bytes := List UInt8

/-- `distance_to_next_multiply` (prophy/composite.py:8) and the
    `(alignment - byte_size % alignment) % alignment` of prophyc/model.py:567. -/
def padTo (off a : Nat) : Nat := (a - off % a) % a

/-- round `n` up to the next multiple of `a` -/
def alignUp (n a : Nat) : Nat := n + padTo n a

def zeros (n : Nat) : Bytes := List.replicate n 0

/-- `k` little-endian bytes of `n` (truncating: `n mod 256^k`). -/
def leBytes : Nat → Nat → Bytes
  | 0, _ => []
  | k + 1, n => UInt8.ofNat (n % 256) :: leBytes k (n / 256)

/-- value of a little-endian byte list -/
def leVal : Bytes → Nat
  | [] => 0
  | b :: r => b.toNat + 256 * leVal r

inductive Endian | little | big
  deriving DecidableEq, Repr, Inhabited

/-- bytes of a `k`-byte scalar holding `n` in byte order `e` -/
def scalarBytes (e : Endian) (k n : Nat) : Bytes :=
  match e with
  | .little => leBytes k n
  | .big => (leBytes k n).reverse

def scalarVal (e : Endian) (bs : Bytes) : Nat :=
  match e with
  | .little => leVal bs
  | .big => leVal bs.reverse

/-- two's complement: the `k`-byte unsigned image of a (possibly negative) integer -/
def toUnsigned (k : Nat) (i : Int) : Nat := (i % (256 ^ k : Nat)).toNat

/-- interpretation of a `k`-byte unsigned image as a signed integer -/
def toSigned (k : Nat) (n : Nat) : Int :=
  if 2 * n < 256 ^ k then (n : Int) else (n : Int) - (256 ^ k : Nat)

@[simp] theorem zeros_length (n : Nat) : (zeros n).length = n := by simp [zeros]

@[simp] theorem leBytes_length (k n : Nat) : (leBytes k n).length = k := by
  induction k generalizing n with
  | zero => rfl
  | succ k ih => simp [leBytes, ih]

@[simp] theorem scalarBytes_length (e : Endian) (k n : Nat) : (scalarBytes e k n).length = k := by
  cases e <;> simp [scalarBytes]

end Prophy

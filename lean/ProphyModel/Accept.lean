/-
  Legality of schemas.

  `front`   what the prophy front-end accepts: prophyc/parsers/prophy.py
            _validate_struct_members (:128), p_union_def (:311), p_enum_member, unique_id,
            positive_expression, with kinds from model.calc_wire_stiffness (`PL`).
  `pyRt`    what the Python runtime accepts when the generated module is imported:
            prophy/generators.py struct_generator.validate (:185) / substitute_len_field,
            union_generator.validate (:408), enum_generator, prophy/container.py array() (:204),
            prophy/optional.py optional() (:6), with the runtime's own statics (`Py.stTy`).
-/
import ProphyModel.PLayout
import ProphyModel.Py
import ProphyModel.Typing
namespace Prophy
namespace Accept

def isIntPrim : Ty → Bool
  | .prim p => !p.isFloat
  | _ => false

def sizeOf? : MKind → Option Nat
  | .fixed c => some c
  | .limited _ c => some c
  | _ => none

def isArrayKind : MKind → Bool
  | .plain => false
  | .optional => false
  | _ => true

def isGreedy : MKind → Bool
  | .greedy => true
  | _ => false

def isOptional : MKind → Bool
  | .optional => true
  | _ => false

def uniq : List String → Bool
  | [] => true
  | x :: r => !(r.contains x) && uniq r

/-! ### front-end -/
mutual
  def front : Ty → Bool
    | .prim _ => true
    | .byte => true
    | .enum _ es => uniq (es.map (·.1)) && es.all (fun e => e.2 < 2 ^ 32) && !es.isEmpty
    | .struct _ ms => !ms.isEmpty && uniq (ms.map (·.name)) && frontMs ms ms []
    | .union _ arms =>
      !arms.isEmpty && uniq (arms.map (·.name)) && uniq (arms.map (fun a => toString a.disc))
        && arms.all (fun a => a.disc < 2 ^ 32) && frontArms arms
  /-- the per-member checks; `before` are the members seen so far (for the sizer lookup) -/
  def frontMs (all : List Member) : List Member → List Member → Bool
    | [], _ => true
    | .mk n t k :: r, before =>
      let kind := (PL.nodeTy t).kind
      front t
      && !(isOptional k && kind != 0)
      && !((sizeOf? k).isSome && kind != 0)
      && !(isArrayKind k && kind == 2)
      && (match sizeOf? k with | some c => decide (0 < c) | none => true)
      && (match k.sizer? with
          | some s => (match before.find? (·.name == s) with
              | some (.mk _ st sk) => isIntPrim st && !(isOptional sk) && !(isArrayKind sk)
              | none => false)
          | none => true)
      && (r.isEmpty || (!(isGreedy k) && kind != 2))
      && (match t with | .byte => isArrayKind k | _ => true)
      && frontMs all r (before ++ [.mk n t k])
  def frontArms : List Arm → Bool
    | [] => true
    | .mk _ _ t :: r => front t && (PL.nodeTy t).kind == 0 && (match t with | .byte => false | _ => true) && frontArms r
end

/-! ### Python runtime -/
mutual
  def pyRt : Ty → Bool
    | .prim _ => true
    | .byte => true
    | .enum _ es => uniq (es.map (·.1)) && es.all (fun e => e.2 < 2 ^ 32) && !es.isEmpty
    | .struct _ ms => pyRtMs ms ms []
    | .union _ arms => !arms.isEmpty && pyRtArms arms
  def pyRtMs (all : List Member) : List Member → List Member → Bool
    | [], _ => true
    | .mk n t k :: r, before =>
      let st := Py.stTy t
      pyRt t
      -- optional(): dynamic fields not implemented; array(): static/limited array of dynamic type, unlimited element
      && !(isOptional k && st.dyn)
      && !((sizeOf? k).isSome && st.dyn)
      && !(isArrayKind k && st.unl)
      -- struct_generator.validate: an unlimited field is the last one
      && (r.isEmpty || !(Py.fieldSt st k).unl)
      -- substitute_len_field: sizer placed before, not optional, an integer
      && (match k.sizer? with
          | some s => (match before.find? (·.name == s) with
              | some (.mk _ sty sk) => isIntPrim sty && !(isOptional sk) && !(isArrayKind sk)
              | none => false)
          | none => true)
      -- substitute_len_field: the shift leaves the sizer room to count; validate_bound_shift: one shift per sizer
      && (match k.sizer? with
          | some s => decide ((k.shift : Int) < sizerMax s all) && k.shift == sizerShift s all
          | none => true)
      && pyRtMs all r (before ++ [.mk n t k])
  def pyRtArms : List Arm → Bool
    | [] => true
    | .mk _ _ t :: r => pyRt t && !(Py.stTy t).dyn && pyRtArms r
end

/-! ### model level: what `model.evaluate_model` accepts, whatever front-end (prophy, isar, sack) and patch produced the nodes

  prophyc/model.py: `_Container._check_members_duplication` (names of members / enumerators / arms), `validate_bounds` (the
  sizer is a member), `validate_sizer_types` (a builtin integer, possibly behind typedefs - resolved away in `Ty`),
  `validate_values` (enumerators and discriminators in 32 bits, discriminators distinct), `validate_composability` (optional /
  sized array of a non-fixed type, array of an unlimited type, sizer before its array and neither optional nor an array,
  positive sizes, greedy / unlimited member last, fixed union arms).  Structs, enums and unions WITHOUT members pass (a patch
  `remove` or sack can make them: finding D56); names being identifiers and not those of builtins (`validate_names`,
  `validate_unique_names`) are properties of the name space, which a resolved tree does not have. -/
mutual
  def model : Ty → Bool
    | .prim _ => true
    | .byte => true
    | .enum _ es => uniq (es.map (·.1)) && es.all (fun e => e.2 < 2 ^ 32)
    | .struct _ ms => uniq (ms.map (·.name)) && modelMs ms ms []
    | .union _ arms =>
      uniq (arms.map (·.name)) && uniq (arms.map (fun a => toString a.disc))
        && arms.all (fun a => a.disc < 2 ^ 32) && modelArms arms
  def modelMs (all : List Member) : List Member → List Member → Bool
    | [], _ => true
    | .mk n t k :: r, before =>
      let kind := (PL.nodeTy t).kind
      model t
      && !(isOptional k && kind != 0)
      && !((sizeOf? k).isSome && kind != 0)
      && !(isArrayKind k && kind == 2)
      && (match k.sizer? with
          | some s =>
            all.any (·.name == s)                                   -- validate_bounds
            && (match before.find? (·.name == s) with               -- validate_composability + validate_sizer_types
                | some (.mk _ st sk) => isIntPrim st && !(isOptional sk) && !(isArrayKind sk)
                | none => false)
          | none => true)
      && (match sizeOf? k with | some c => decide (0 < c) | none => true)
      && (r.isEmpty || (!(isGreedy k) && kind != 2))
      && modelMs all r (before ++ [.mk n t k])
  def modelArms : List Arm → Bool
    | [] => true
    | .mk _ _ t :: r => model t && (PL.nodeTy t).kind == 0 && modelArms r
end

/- what only the grammar of the prophy language adds: containers have members, `bytes` is an array kind of its own
   (a bare `byte` member or arm does not exist) -/
mutual
  def grammar : Ty → Bool
    | .prim _ => true
    | .byte => true
    | .enum _ es => !es.isEmpty
    | .struct _ ms => !ms.isEmpty && grammarMs ms
    | .union _ arms => !arms.isEmpty && grammarArms arms
  def grammarMs : List Member → Bool
    | [] => true
    | .mk _ t k :: r => grammar t && (match t with | .byte => isArrayKind k | _ => true) && grammarMs r
  def grammarArms : List Arm → Bool
    | [] => true
    | .mk _ _ t :: r => grammar t && (match t with | .byte => false | _ => true) && grammarArms r
end

end Accept
end Prophy

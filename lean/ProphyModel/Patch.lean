/-
  Model of prophyc/parsers/isar.py make_struct_members (:129) and of prophyc/patch.py (:37-215)
  on prophyc's member records (name, type, bound, size, greedy, optional).
-/
import ProphyModel.Basic
namespace Prophy
namespace Patch

/-- a boolean attribute of isar (`isar.flag`): true, false, 1, 0 in any case with blanks around; anything else is refused -/
def readFlag (text : String) : Option Bool :=
  let isBlank (c : Char) : Bool := c == ' ' || c == '\t' || c == '\n' || c == '\r' || c == '\x0b' || c == '\x0c'
  let word := String.ofList (((text.toList.dropWhile isBlank).reverse.dropWhile isBlank).reverse.map Char.toLower)
  if word == "true" || word == "1" then some true
  else if word == "false" || word == "0" then some false
  else none

/-- `model.StructMember` as far as the front-ends are concerned -/
structure PM where
  name : String
  type : String
  bound : Option String := none
  size : Option String := none
  greedy : Bool := false
  optional : Bool := false
  deriving DecidableEq, Repr, Inhabited

/-- `<dimension .../>` of an isar member -/
structure Dim where
  size : Option String := none
  size2 : Option String := none
  sizerName : Option String := none      -- variableSizeFieldName
  sizerType : Option String := none      -- variableSizeFieldType
  isVariable : Bool := false             -- attribute isVariableSize present
  marker : Bool := false                 -- "THIS_IS_VARIABLE_SIZE_ARRAY" occurs in `size`
  deriving Repr, Inhabited

/-- `re.match(r"\w+\Z", expr)`: letters, digits and underscores only -/
def isWord (s : String) : Bool := !s.isEmpty && s.toList.all (fun c => c.isAlphanum || c == '_')

def factor (s : String) : String := if isWord s then s else "(" ++ s ++ ")"

def capitalize (s : String) : String :=
  match s.toList with
  | [] => ""
  | c :: r => String.ofList (c.toUpper :: r)

/-- make_struct_members: the members one `<member>` element yields; `dynamicArray` is true
    inside `<message>` elements -/
def isarMembers (name type : String) (optional : Bool) (dim : Option Dim) (dynamicArray : Bool) : List PM :=
  match dim with
  | none => [{ name := name, type := type, optional := optional }]
  | some d =>
    -- `factor`: an expression is parenthesised before it is multiplied (a bare name or number is not)
    let size := match d.size, d.size2 with
      | some s, some s2 => some (factor s ++ "*" ++ factor s2)
      | s, _ => s
    let enabler : List PM := if optional then [{ name := "has_" ++ name, type := "u32" }] else []
    enabler ++
    (match d.sizerName with
     | some sn =>
       if sn.startsWith "@" then [{ name := name, type := type, bound := some (sn.drop 1).toString }]
       else body d size sn
     | none => body d size (name ++ "_len"))
where
  body (d : Dim) (size : Option String) (sizerName : String) : List PM :=
    if d.marker && size.isSome then
      [{ name := name, type := type, bound := some ("numOf" ++ capitalize name) }]
    else if d.isVariable then
      [{ name := sizerName, type := d.sizerType.getD "u32" },
       { name := name, type := type, bound := some sizerName, size := if dynamicArray then none else size }]
    else [{ name := name, type := type, size := size }]

/-! ### patch actions -/

inductive Action
  | type (member newType : String)
  | insert (index : Int) (name type : String)
  | remove (member : String)
  | dynamic (member lenName : String)
  | greedy (member : String)
  | static (member size : String)
  | limited (member lenName : String)
  | rename (member newName : String)
  deriving Repr, Inhabited

inductive PErr | memberNotFound | lenNotFound | notLast | notFixed | badSize | duplicate
  deriving DecidableEq, Repr

def findIdx (ms : List PM) (n : String) : Option Nat := ms.findIdx? (·.name == n)

def modifyAt (ms : List PM) (i : Nat) (f : PM → PM) : List PM :=
  ms.mapIdx fun j m => if j = i then f m else m

/-- Python `list.insert(index, x)` -/
def pyInsert (ms : List PM) (index : Int) (x : PM) : List PM :=
  let n := ms.length
  let j : Int := if index < 0 then index + n else index
  let k : Nat := if j < 0 then 0 else if j > n then n else j.toNat
  ms.take k ++ x :: ms.drop k

/-- `_is_int(size) and int(size) <= 0` -/
def nonPositiveInt (s : String) : Bool :=
  match s.toInt? with
  | some v => decide (v ≤ 0)
  | none => false

def applyAction (ms : List PM) : Action → Except PErr (List PM)
  | .type m t => match findIdx ms m with
    | some i => .ok (modifyAt ms i fun x => { x with type := t })
    | none => .error .memberNotFound
  | .insert idx n t => .ok (pyInsert ms idx { name := n, type := t })
  | .remove m => match findIdx ms m with
    | some i => .ok (ms.eraseIdx i)
    | none => .error .memberNotFound
  | .dynamic m l => match findIdx ms m with
    | some i =>
      if (ms.take i).any (·.name == l) then
        .ok (modifyAt ms i fun x => { x with bound := some l, size := none, greedy := false, optional := false })
      else .error .lenNotFound
    | none => .error .memberNotFound
  | .greedy m => match findIdx ms m with
    | some i =>
      if i + 1 = ms.length then
        .ok (modifyAt ms i fun x => { x with greedy := true, bound := none, size := none, optional := false })
      else .error .notLast
    | none => .error .memberNotFound
  | .static m s => match findIdx ms m with
    | some i =>
      if nonPositiveInt s then .error .badSize
      else .ok (modifyAt ms i fun x => { x with bound := none, size := some s, greedy := false, optional := false })
    | none => .error .memberNotFound
  | .limited m l => match findIdx ms m with
    | some i =>
      if (ms.take i).any (·.name == l) then
        match ms[i]? with
        | some x => if x.size.isSome then .ok (modifyAt ms i fun x => { x with bound := some l, optional := false })
                    else .error .notFixed
        | none => .error .memberNotFound
      else .error .lenNotFound
    | none => .error .memberNotFound
  | .rename m n => match findIdx ms m with
    | some i => .ok (modifyAt ms i fun x => { x with name := n })
    | none => .error .memberNotFound

def applyAll (ms : List PM) : List Action → Except PErr (List PM)
  | [] => .ok ms
  | a :: r => match applyAction ms a with
    | .ok ms' => applyAll ms' r
    | .error e => .error e

def uniqNames : List PM → Bool
  | [] => true
  | m :: r => !(r.any (·.name == m.name)) && uniqNames r

/-- patch.patch: the rules of one definition are applied in order, then `_check_members_duplication` (since the repair of D94) -/
def applyRules (ms : List PM) (as : List Action) : Except PErr (List PM) :=
  match applyAll ms as with
  | .ok ms' => if as.isEmpty || uniqNames ms' then .ok ms' else .error .duplicate
  | .error e => .error e

end Patch
end Prophy

/- the generated C++ full decoder reads the canonical encoding back (property C03) -/
import ProphyModel.Lemmas.CppRoundTripBase3
namespace Prophy
open Prophy WF Accept

/-- what the decode of a counter member needs to know; `post` are the bytes after the counter -/
abbrev SizerAtC (all : List Member) (allv : List Val) (n : String) (t : Ty) (post : Bytes) : Prop :=
  isSizer n all = true → ∃ p, t = .prim p ∧ Cpp.sizerPrimOf n all = p ∧
    inRange p ((Spec.counter n all allv : Nat) : Int) = true ∧ sizerShift n all = 0 ∧
    Spec.counter n all allv ≤ Cpp.resizeLimit ∧ Spec.counter n all allv * Cpp.resizeElem n all ≤ post.length ∧
    (∀ m, all.find? (fun m => decide (m.kind.sizer? = some n)) = some m → ∀ s l, m.kind = .limited s l →
      Spec.counter n all allv ≤ l)

mutual
  theorem dec_field_p10 (e : Endian) : (v : Val) → ∀ (all : List Member) (allv : List Val) (n : String) (t : Ty) (k : MKind)
      (data pre post : Bytes) (pos : Nat) (rs : List Nat) (lens : List (String × Nat)),
      front t = true → pyRt t = true → Cpp.noShift t = true → Cpp.optMisaligned t = false →
      (k = .optional → max 4 (Cpp.cppAlign t) = max 4 (PL.nodeTy t).align) →
      (needsFixed k = true → (PL.nodeTy t).kind = 0) →
      (needsFixed k = true → Spec.fixedTy t = true) →
      (isArrayKind k = true → (Py.stTy t).unl = false) →
      (isArrayKind k = true → Spec.unlTy t = false) →
      hasField all k t v = true → agreeTy t v = true → Cpp.resizeOkTy t v = true →
      (k = .greedy → Cpp.codecSize t ≥ 0 → v.len ≤ Cpp.resizeLimit) →
      ((Py.stTy t).unl = true → Spec.galTy t v = true) →
      ((Py.fieldSt (Py.stTy t) k).unl = true → post = []) →
      Spec.alignMember (.mk n t k) ∣ pos →
      v.isCounter = isSizer n all → SizerAtC all allv n t post →
      (∀ s, k.sizer? = some s → lens.lookup n = some v.len) →
      data = pre ++ (Spec.render e (Spec.fieldChunks all allv n t k v) ++ post) → pre.length = pos →
      ∃ rs' p, Cpp.memberStep e all n t k (PL.memOf (PL.nodeTy t) k).size data pos rs lens
          (fun q r => Cpp.decTy e t data q r) =
        (.ok (v, if isSizer n all then boundHints all n (Spec.counter n all allv) ++ lens else lens)
          (pos + Spec.clen (Spec.fieldChunks all allv n t k v)) rs', p)
    | .sizer, all, allv, n, t, k, data, pre, post, pos, rs, lens, hft, hpt, hns, hom, hoa, hk0, hfx, hnu, hnu2, hh, hag,
        hrz, hrg, hgl, hpost, hal, hc, hsz, hhint, hd, hpos => by
      have hk : k = .plain := by cases k <;> simp_all [hasField]
      subst hk
      have hs : isSizer n all = true := by simpa [Val.isCounter] using hc.symm
      obtain ⟨p, rfl, hsp, hr, hsh, hrl, hrem, hlim⟩ := hsz hs
      have hd' : data = pre ++ (scalarBytes e p.size (Spec.counter n all allv) ++ post) := by
        rw [hd]; simp [Spec.fieldChunks, Spec.render, Spec.Chunk.render, Spec.sizeTy, hsh]
      have hlt := inRange_nat_lt p _ hr
      have h1 := Cpp.decScalar_at_p10 e p.size (Spec.counter n all allv) p.isSigned data pre post pos rs hd' hpos hlt
      have hval : (if p.isSigned = true then toSigned p.size (Spec.counter n all allv)
          else ((Spec.counter n all allv : Nat) : Int)) = ((Spec.counter n all allv : Nat) : Int) := by
        have := signed_roundtrip_p10 p ((Spec.counter n all allv : Nat) : Int) hr
        rwa [toUnsigned_nat p.size _ hlt] at this
      rw [hval] at h1
      have hlen : data.length = pos + p.size + post.length := by
        rw [hd', ← hpos]; simp; omega
      refine ⟨Spec.counter n all allv :: rs, pos + p.size, ?_⟩
      rw [Cpp.memberStep_sizer_p10 e all n (.prim p) _ data pos rs lens _ hs (Spec.counter n all allv) (pos + p.size)
        (by rw [hsp]; exact h1) hlim (by rw [Cpp.remaining_le_p10 (by omega)]; omega) hrl]
      simp [hs, Spec.fieldChunks, Spec.clen, Spec.Chunk.len, Spec.sizeTy]
    | .int i, all, allv, n, t, k, data, pre, post, pos, rs, lens, hft, hpt, hns, hom, hoa, hk0, hfx, hnu, hnu2, hh, hag,
        hrz, hrg, hgl, hpost, hal, hc, hsz, hhint, hd, hpos => by
      have hns' : isSizer n all = false := by simpa [Val.isCounter] using hc.symm
      have hk : k = .plain := by cases k <;> cases t <;> simp_all [hasField]
      subst hk
      rw [Spec.fieldChunks_plain all allv n t _ rfl] at hd ⊢
      simp only [hns', Bool.false_eq_true, if_false]
      suffices h : ∃ rs' p, Cpp.decTy e t data pos rs =
          (.ok (.int i) (pos + Spec.clen (Spec.chunksTy t (.int i))) rs', p) by
        obtain ⟨rs', p, h⟩ := h
        exact ⟨rs', p, Cpp.memberStep_plain_ok_p10 e all n t _ data pos rs lens hns' _ _ _ _ h⟩
      cases t with
      | prim p =>
        have hr : inRange p i = true := by simpa [hasField] using hh
        have hd' : data = pre ++ (scalarBytes e p.size (toUnsigned p.size i) ++ post) := by
          rw [hd]; simp [Spec.chunksTy, Spec.render, Spec.Chunk.render]
        have h1 := Cpp.decScalar_at_p10 e p.size _ p.isSigned data pre post pos rs hd' hpos (toUnsigned_lt _ _)
        rw [signed_roundtrip_p10 p i hr] at h1
        refine ⟨rs, pos, ?_⟩
        rw [Cpp.decTy, h1]
        simp [Cpp.DRes.bind, Spec.chunksTy, Spec.clen, Spec.Chunk.len]
      | byte =>
        have hr : inRange .u8 i = true := by simpa [hasField] using hh
        have hv : ((toUnsigned 1 i : Nat) : Int) = i := by
          simpa [Prim.isSigned, Prim.size] using signed_roundtrip_p10 .u8 i hr
        have hd' : data = pre ++ (scalarBytes e 1 (toUnsigned 1 i) ++ post) := by
          rw [hd]; simp [Spec.chunksTy, Spec.render, Spec.Chunk.render]
        have h1 := Cpp.decScalar_at_p10 e 1 _ false data pre post pos rs hd' hpos (toUnsigned_lt _ _)
        simp only [Bool.false_eq_true, if_false, hv] at h1
        refine ⟨rs, pos, ?_⟩
        rw [Cpp.decTy, h1]
        simp [Cpp.DRes.bind, Spec.chunksTy, Spec.clen, Spec.Chunk.len]
      | enum nm es =>
        have hwt := Accept.wf_of_accept _ hft hpt
        have hany : es.any (fun e => (e.2 : Int) == i) = true := by simpa [hasField] using hh
        have hr : inRange .u32 i = true := inRange_enum es i (by simpa [wfTy] using hwt) hany
        have hv : ((toUnsigned 4 i : Nat) : Int) = i := by
          simpa [Prim.isSigned, Prim.size] using signed_roundtrip_p10 .u32 i hr
        have hd' : data = pre ++ (scalarBytes e 4 (toUnsigned 4 i) ++ post) := by
          rw [hd]; simp [Spec.chunksTy, Spec.render, Spec.Chunk.render]
        have h1 := Cpp.decScalar_at_p10 e 4 _ false data pre post pos rs hd' hpos (toUnsigned_lt _ _)
        simp only [Bool.false_eq_true, if_false, hv] at h1
        refine ⟨rs, pos, ?_⟩
        rw [Cpp.decTy, h1]
        simp [Cpp.DRes.bind, Spec.chunksTy, Spec.clen, Spec.Chunk.len]
      | struct nm ms => simp [hasField] at hh
      | union nm arms => simp [hasField] at hh
    | .struct vs, all, allv, n, t, k, data, pre, post, pos, rs, lens, hft, hpt, hns, hom, hoa, hk0, hfx, hnu, hnu2, hh, hag,
        hrz, hrg, hgl, hpost, hal, hc, hsz, hhint, hd, hpos => by
      have hns' : isSizer n all = false := by simpa [Val.isCounter] using hc.symm
      cases t with
      | struct nm ms =>
        have hk : k = .plain := by cases k <;> simp_all [hasField]
        subst hk
        rw [Spec.fieldChunks_plain all allv n _ _ rfl] at hd ⊢
        simp only [hns', Bool.false_eq_true, if_false]
        suffices h : ∃ rs' p, Cpp.decTy e (.struct nm ms) data pos rs =
            (.ok (.struct vs) (pos + Spec.clen (Spec.chunksTy (.struct nm ms) (.struct vs))) rs', p) by
          obtain ⟨rs', p, h⟩ := h
          exact ⟨rs', p, Cpp.memberStep_plain_ok_p10 e all n _ _ data pos rs lens hns' _ _ _ _ h⟩
        have hhm : hasMs ms ms vs = true := by simpa [hasField] using hh
        obtain ⟨hne, huq, hw, hfm, hpm⟩ := Accept.struct_facts nm ms hft hpt
        simp only [agreeTy, Bool.and_eq_true] at hag
        have hnsm : Cpp.noShiftMs ms = true := by simpa [Cpp.noShift] using hns
        have homm : Cpp.optMisalignedMs ms = false := by simpa [Cpp.optMisaligned] using hom
        have hrzm : Cpp.resizeOkFields ms vs = true := by simpa [Cpp.resizeOkTy] using hrz
        have hsd := sizerDecC ms vs huq hw hhm hnsm hrzm
        have hlens := lensOk_of_agree ms vs hag.1
        have halS : Spec.alignMs ms ∣ pos := by
          simpa [Spec.alignMember, Member.kind, Member.ty, Spec.alignTy] using hal
        have hunl : (Py.stMs ms).any (·.unl) = true → (Py.stTy (.struct nm ms)).unl = true := by
          intro h; simpa [Py.stTy, Py.structSt] using h
        have hq0 : (Py.stMs ms).any (·.unl) = true →
            padTo (Spec.clen (Spec.chunksMs ms vs ms vs 0 false)) (Spec.alignMs ms) = 0 ∧ Spec.galMs ms vs = true := by
          intro hu
          have hg := hgl (hunl hu)
          have hus := Accept.unl_spec (.struct nm ms) hpt (hunl hu)
          simp only [Spec.unlTy] at hus
          simp only [Spec.galTy, hus, Bool.not_true, Bool.false_or, Bool.and_eq_true, beq_iff_eq] at hg
          exact hg
        cases ms with
        | nil => exact absurd rfl hne
        | cons m r =>
          obtain ⟨n0, t0, k0⟩ := m
          have hbodyeq : Spec.chunksMs (.mk n0 t0 k0 :: r) vs (.mk n0 t0 k0 :: r) vs 0 false =
              Spec.Chunk.pad 0 :: Spec.bodyMs (.mk n0 t0 k0 :: r) vs n0 t0 k0 r vs 0 := by
            cases vs with
            | nil => simp [hasMs] at hhm
            | cons v vs' =>
              rw [Spec.chunksMs_cons]
              simp [Spec.bodyMs, PL.padTo_zero]
          rw [hbodyeq] at hq0
          have hcb : Spec.clen (Spec.Chunk.pad 0 :: Spec.bodyMs (.mk n0 t0 k0 :: r) vs n0 t0 k0 r vs 0) =
              Spec.clen (Spec.bodyMs (.mk n0 t0 k0 :: r) vs n0 t0 k0 r vs 0) := by
            simp [clen_cons, Spec.Chunk.len]
          rw [hcb] at hq0
          have hd1 : data = pre ++ (Spec.render e (Spec.bodyMs (.mk n0 t0 k0 :: r) vs n0 t0 k0 r vs 0) ++
              (zeros (padTo (Spec.clen (Spec.bodyMs (.mk n0 t0 k0 :: r) vs n0 t0 k0 r vs 0)) (Spec.alignMs (.mk n0 t0 k0 :: r))) ++ post)) := by
            rw [hd]
            simp [Spec.chunksTy, hbodyeq, Spec.render, Spec.Chunk.render, List.append_assoc, clen_cons, Spec.Chunk.len,
              zeros]
          obtain ⟨rs', p, hIH⟩ := dec_ms_p10 e vs n0 t0 k0 r (.mk n0 t0 k0 :: r) vs [] data pre _ [] rs false false 0 0 pos
            (Spec.alignMs (.mk n0 t0 k0 :: r)) (false || (PL.memsOf (.mk n0 t0 k0 :: r)).any PL.isMemberDynamic)
            (by simp) huq hfm hpm hnsm homm hhm hag.2 hrzm
            (fun hu => (hq0 hu).2)
            (fun hu => by rw [(hq0 hu).1, hpost (hunl hu)]; rfl)
            rfl halS (by omega) hd1
            (by simp only [alignUp, List.length_append, zeros_length, Nat.zero_add]; omega)
            hlens (HintInv.nil _ vs _) hsd (by intro m hm; cases hm) rfl (fun _ => rfl) rfl (Nat.dvd_zero _) (Nat.dvd_zero _)
          refine ⟨rs', p, ?_⟩
          rw [Cpp.decTy, PL.structMembers_eq_p10 n0 t0 k0 r hfm]
          simp only [Bool.false_or, Nat.add_zero] at hIH
          rw [hIH]
          simp only [Cpp.retag, Spec.chunksTy, hbodyeq, Spec.clen_append, clen_cons, clen_nil, Spec.Chunk.len, alignUp,
            Nat.zero_add, Nat.add_zero]
      | prim p => cases k <;> simp [hasField] at hh
      | byte => cases k <;> simp [hasField] at hh
      | enum nm es => cases k <;> simp [hasField] at hh
      | union nm arms => cases k <;> simp [hasField] at hh
    | .union idx x, all, allv, n, t, k, data, pre, post, pos, rs, lens, hft, hpt, hns, hom, hoa, hk0, hfx, hnu, hnu2, hh, hag,
        hrz, hrg, hgl, hpost, hal, hc, hsz, hhint, hd, hpos => by
      have hns' : isSizer n all = false := by simpa [Val.isCounter] using hc.symm
      cases t with
      | union nm arms =>
        have hk : k = .plain := by cases k <;> simp_all [hasField]
        subst hk
        rw [Spec.fieldChunks_plain all allv n _ _ rfl] at hd ⊢
        simp only [hns', Bool.false_eq_true, if_false]
        suffices h : ∃ rs' p, Cpp.decTy e (.union nm arms) data pos rs =
            (.ok (.union idx x) (pos + Spec.clen (Spec.chunksTy (.union nm arms) (.union idx x))) rs', p) by
          obtain ⟨rs', p, h⟩ := h
          exact ⟨rs', p, Cpp.memberStep_plain_ok_p10 e all n _ _ data pos rs lens hns' _ _ _ _ h⟩
        have hhU := hh
        simp only [hasField, Bool.true_and] at hh
        cases ha : arms[idx]? with
        | none => simp [ha] at hh
        | some a =>
          obtain ⟨an, d, t'⟩ := a
          simp only [ha, Bool.and_eq_true, Bool.not_eq_true'] at hh
          have hwt := Accept.wf_of_accept _ hft hpt
          have hfxU := Spec.fixedTy_union_of_wf nm arms hwt
          have hftU := hft
          simp only [front, Bool.and_eq_true] at hft
          simp only [pyRt, Bool.and_eq_true] at hpt
          have hft' := Accept.frontArms_get arms hft.2 idx _ ha
          obtain ⟨hpt', hnd⟩ := Accept.pyRtArms_get arms hpt.2 idx _ ha
          simp only [Arm.ty] at hft' hpt' hnd
          have hun : (Py.stTy t').unl = false := by
            cases h : (Py.stTy t').unl with
            | false => rfl
            | true => have := Py.stTy_unl_dyn t' h; rw [hnd] at this; cases this
          have hd32 : d < 2 ^ 32 := by
            have := List.all_eq_true.1 hft.1.2 (.mk an d t') (List.mem_of_getElem? ha)
            exact of_decide_eq_true this
          have hnst' : Cpp.noShift t' = true :=
            Cpp.noShiftArms_get_p10 arms (by simpa [Cpp.noShift] using hns) idx _ ha
          have homt' : Cpp.optMisaligned t' = false :=
            Cpp.optMisalignedArms_get_p10 arms (by simpa [Cpp.optMisaligned] using hom) idx _ ha
          have hM : (PL.nodeTy (.union nm arms)).align = max 4 (Spec.alignArms arms) := by
            rw [PL.nodeTy_align']; simp [Spec.alignTy, Spec.flagSize]
          have hsize : (PL.nodeTy (.union nm arms)).size = Spec.sizeTy (.union nm arms) := PL.nodeTy_size' _ hftU
          have hszM : max 4 (Spec.alignArms arms) ≤ Spec.sizeTy (.union nm arms) := by
            have := le_alignUp (max Spec.flagSize (Spec.alignArms arms) + Spec.maxArm arms) (max Spec.flagSize (Spec.alignArms arms))
            simp only [Spec.sizeTy, Spec.flagSize] at this ⊢
            omega
          have hcl : Spec.clen (Spec.chunksTy (.union nm arms) (.union idx x)) = Spec.sizeTy (.union nm arms) :=
            Spec.clen_fixed _ _ hfxU rfl hhU
          have hnm : Spec.sizeTy (.union "" arms) = Spec.sizeTy (.union nm arms) := by simp [Spec.sizeTy]
          have hd0 : data = pre ++ (scalarBytes e 4 d ++ (zeros (max 4 (Spec.alignArms arms) - 4) ++
              (Spec.render e (Spec.chunksTy t' x) ++ (zeros (Spec.sizeTy (.union nm arms) - max 4 (Spec.alignArms arms)
                - Spec.clen (Spec.chunksTy t' x)) ++ post)))) := by
            rw [hd]
            simp [Spec.chunksTy, ha, Spec.render, Spec.Chunk.render, Spec.flagSize, List.append_assoc, hnm]
          have h0 := Cpp.decScalar_at_p10 e 4 d false data pre _ pos rs hd0 hpos (by omega)
          simp only [Bool.false_eq_true, if_false] at h0
          have hdisc := Accept.uniq_disc arms hft.1.1.2 idx _ ha
          have hpick := Cpp.decArms_pick_p10 e data (pos + 4 + (max 4 (Spec.alignArms arms) - 4)) rs d an t' arms 0 idx ha
            (fun j b hj hb => hdisc j b hj hb)
          have hd1 : data = (pre ++ scalarBytes e 4 d ++ zeros (max 4 (Spec.alignArms arms) - 4)) ++
              (Spec.render e (Spec.fieldChunks [] [] "" t' .plain x) ++
                (zeros (Spec.sizeTy (.union nm arms) - max 4 (Spec.alignArms arms)
                  - Spec.clen (Spec.chunksTy t' x)) ++ post)) := by
            rw [hd0, Spec.fieldChunks_plain [] [] "" t' x hh.1]
            simp [List.append_assoc]
          have halU : max 4 (Spec.alignArms arms) ∣ pos := by
            simpa [Spec.alignMember, Member.kind, Member.ty, Spec.alignTy, Spec.flagSize] using hal
          obtain ⟨rs1, p1, h1⟩ := dec_field_p10 e x [] [] "" t' .plain data _ _ (pos + 4 + (max 4 (Spec.alignArms arms) - 4))
            rs [] hft' hpt' hnst' homt' (by intro h; cases h) (by intro h; cases h) (by intro h; cases h)
            (by intro h; cases h) (by intro h; cases h) hh.2 (by simpa [agreeTy, ha] using hag)
            (by simpa [Cpp.resizeOkTy, ha] using hrz) (by intro h; cases h)
            (by intro h; rw [hun] at h; cases h) (by intro h; simp only [Py.fieldSt] at h; rw [hun] at h; cases h)
            (by
              have h1 : Spec.alignTy t' ∣ max 4 (Spec.alignArms arms) := Spec.alignArm_dvd arms idx _ ha
              have h2 : pos + 4 + (max 4 (Spec.alignArms arms) - 4) = pos + max 4 (Spec.alignArms arms) := by omega
              rw [h2]
              have : Spec.alignTy t' ∣ pos + max 4 (Spec.alignArms arms) := (Nat.dvd_add_right (Nat.dvd_trans h1 halU)).2 h1
              simpa [Spec.alignMember, Member.kind, Member.ty] using this)
            (by rw [hh.1]; rfl) (by intro h; cases h) (by intro s h; cases h) hd1
            (by simp [hpos]; omega)
          have h1' := Cpp.decTy_of_memberStep_p10 e t' _ data _ rs [] _ x _ rs1 p1 h1
          have harms : Cpp.decArms e arms (d : Int) data (pos + 4 + (max 4 (Spec.alignArms arms) - 4)) rs 0 =
              .ok (idx, x) (pos + 4 + (max 4 (Spec.alignArms arms) - 4) +
                Spec.clen (Spec.fieldChunks [] [] "" t' .plain x)) rs1 := by
            rw [hpick, h1']; simp
          have hlen : data.length = pos + Spec.sizeTy (.union nm arms) + post.length := by
            rw [hd, ← hpos]; simp only [List.length_append, Spec.render_length, hcl]; omega
          refine ⟨rs1, pos + Spec.sizeTy (.union nm arms), ?_⟩
          rw [Cpp.decTy_union_ok_p10 e nm arms data pos rs d (max 4 (Spec.alignArms arms)) (Spec.sizeTy (.union nm arms))
            idx x rs1 _ h0 hM hsize (by omega) hszM harms (by omega), hcl]
      | prim p => cases k <;> simp [hasField] at hh
      | byte => cases k <;> simp [hasField] at hh
      | enum nm es => cases k <;> simp [hasField] at hh
      | struct nm ms => cases k <;> simp [hasField] at hh
    | .absent, all, allv, n, t, k, data, pre, post, pos, rs, lens, hft, hpt, hns, hom, hoa, hk0, hfx, hnu, hnu2, hh, hag,
        hrz, hrg, hgl, hpost, hal, hc, hsz, hhint, hd, hpos => by
      have hk : k = .optional := by cases k <;> simp_all [hasField]
      subst hk
      have hns' : isSizer n all = false := by simpa [Val.isCounter] using hc.symm
      have hcs := Cpp.codecSize_kind0_p10 t hft (hk0 rfl)
      have hM : max 4 (Cpp.cppAlign t) = max 4 (Spec.alignTy t) := by rw [hoa rfl, PL.nodeTy_align' t]
      have hap : (if Cpp.cppAlign t > 4 then Cpp.cppAlign t - 4 else 0) = max 4 (Spec.alignTy t) - 4 := by
        split <;> omega
      have hz : zeros (max 4 (Spec.alignTy t) + Spec.sizeTy t) =
          zeros 4 ++ zeros (max 4 (Spec.alignTy t) + Spec.sizeTy t - 4) := by
        rw [← zeros_add]; congr 1; omega
      have hd' : data = pre ++ (scalarBytes e 4 0 ++ (zeros (max 4 (Spec.alignTy t) + Spec.sizeTy t - 4) ++ post)) := by
        rw [hd]
        simp only [Spec.fieldChunks, Spec.render, Spec.Chunk.render, Spec.flagSize, List.append_nil, hz, List.append_assoc,
          scalarBytes_zero]
      have h1 := Cpp.decScalar_at_p10 e 4 0 false data pre _ pos rs hd' hpos (by decide)
      simp only [Bool.false_eq_true, if_false, Int.natCast_zero] at h1
      have hlen : data.length = pos + (max 4 (Spec.alignTy t) + Spec.sizeTy t) + post.length := by
        rw [hd, ← hpos]
        simp [Spec.fieldChunks, Spec.render, Spec.Chunk.render, Spec.flagSize]
        omega
      refine ⟨rs, pos + 4 + (max 4 (Spec.alignTy t) - 4) + Spec.sizeTy t, ?_⟩
      rw [Cpp.memberStep_absent_ok_p10 e all n t _ data pos rs lens _ (max 4 (Spec.alignTy t) - 4) (Spec.sizeTy t) h1
        hap hcs (by omega)]
      have hp : pos + 4 + (max 4 (Spec.alignTy t) - 4) + Spec.sizeTy t =
          pos + Spec.clen (Spec.fieldChunks all allv n t .optional .absent) := by
        simp [Spec.fieldChunks, Spec.clen, Spec.Chunk.len, Spec.flagSize]; omega
      rw [hp]
      simp [hns']
    | .present x, all, allv, n, t, k, data, pre, post, pos, rs, lens, hft, hpt, hns, hom, hoa, hk0, hfx, hnu, hnu2, hh, hag,
        hrz, hrg, hgl, hpost, hal, hc, hsz, hhint, hd, hpos => by
      have hk : k = .optional := by cases k <;> simp_all [hasField]
      subst hk
      have hns' : isSizer n all = false := by simpa [Val.isCounter] using hc.symm
      simp only [hasField, Bool.true_and, Bool.and_eq_true, Bool.not_eq_true'] at hh
      have hx : hasField [] .plain t x = true := by rw [hasField_plain_indep [] all]; exact hh.2
      have hfxt := hfx rfl
      have hun := Accept.not_unl_of_fixed t hft hpt hfxt
      have hM : max 4 (Cpp.cppAlign t) = max 4 (Spec.alignTy t) := by rw [hoa rfl, PL.nodeTy_align' t]
      have hap : (if Cpp.cppAlign t > 4 then Cpp.cppAlign t - 4 else 0) = max 4 (Spec.alignTy t) - 4 := by
        split <;> omega
      have hd0 : data = pre ++ (scalarBytes e 4 1 ++ (zeros (max 4 (Spec.alignTy t) - 4) ++
          (Spec.render e (Spec.chunksTy t x) ++ post))) := by
        rw [hd]
        simp [Spec.fieldChunks, Spec.render, Spec.Chunk.render, Spec.flagSize, List.append_assoc]
      have h0 := Cpp.decScalar_at_p10 e 4 1 false data pre _ pos rs hd0 hpos (by decide)
      simp only [Bool.false_eq_true, if_false, Int.natCast_one] at h0
      have hd1 : data = (pre ++ scalarBytes e 4 1 ++ zeros (max 4 (Spec.alignTy t) - 4)) ++
          (Spec.render e (Spec.fieldChunks [] [] "" t .plain x) ++ post) := by
        rw [hd, Spec.fieldChunks_plain [] [] "" t x hh.1]
        simp [Spec.fieldChunks, Spec.render, Spec.Chunk.render, Spec.flagSize, List.append_assoc]
      have halm : max 4 (Spec.alignTy t) ∣ pos := by
        simpa [Spec.alignMember, Member.kind, Member.ty, Spec.flagSize] using hal
      have hlen : data.length = pos + 4 + (max 4 (Spec.alignTy t) - 4) + Spec.clen (Spec.chunksTy t x) + post.length := by
        rw [hd0, ← hpos]; simp; omega
      obtain ⟨rs1, p1, h1⟩ := dec_field_p10 e x [] [] "" t .plain data _ post (pos + 4 + (max 4 (Spec.alignTy t) - 4)) rs []
        hft hpt hns hom (by intro h; cases h) (by intro h; cases h) (by intro h; cases h) (by intro h; cases h)
        (by intro h; cases h) hx (by simpa [agreeTy] using hag) (by simpa [Cpp.resizeOkTy] using hrz)
        (by intro h; cases h) (by intro h; rw [hun] at h; cases h)
        (by intro h; simp only [Py.fieldSt] at h; rw [hun] at h; cases h)
        (by
          have h1 : Spec.alignTy t ∣ max 4 (Spec.alignTy t) := IsAl.dvd_max_right IsAl.four (Spec.alignTy_isAl t)
          have h2 : pos + 4 + (max 4 (Spec.alignTy t) - 4) = pos + max 4 (Spec.alignTy t) := by omega
          rw [h2]
          have : Spec.alignTy t ∣ pos + max 4 (Spec.alignTy t) := (Nat.dvd_add_right (Nat.dvd_trans h1 halm)).2 h1
          simpa [Spec.alignMember, Member.kind, Member.ty] using this)
        (by rw [hh.1]; rfl) (by intro h; cases h) (by intro s h; cases h) hd1
        (by simp [hpos]; omega)
      have h1' := Cpp.decTy_of_memberStep_p10 e t _ data _ rs [] _ x _ rs1 p1 h1
      rw [Spec.fieldChunks_plain [] [] "" t x hh.1] at h1'
      refine ⟨rs1, p1, ?_⟩
      rw [Cpp.memberStep_present_p10 e all n t _ data pos rs lens _ (max 4 (Spec.alignTy t) - 4) h0 hap (by omega)]
      rw [Cpp.retag_ok_p10 _ _ _ _ _ _ h1']
      have hp : pos + 4 + (max 4 (Spec.alignTy t) - 4) + Spec.clen (Spec.chunksTy t x) =
          pos + Spec.clen (Spec.fieldChunks all allv n t .optional (.present x)) := by
        simp [Spec.fieldChunks, Spec.clen, Spec.Chunk.len, Spec.flagSize]; omega
      rw [hp]
      simp [hns']
    | .bytes b, all, allv, n, t, k, data, pre, post, pos, rs, lens, hft, hpt, hns, hom, hoa, hk0, hfx, hnu, hnu2, hh, hag,
        hrz, hrg, hgl, hpost, hal, hc, hsz, hhint, hd, hpos => by
      have ht : t = .byte := by cases t <;> simp_all [hasField]
      subst ht
      have hns' : isSizer n all = false := by simpa [Val.isCounter] using hc.symm
      have hd' : data = pre ++ (b ++ (Spec.render e ((Spec.fieldChunks all allv n .byte k (.bytes b)).drop 1) ++ post)) := by
        rw [hd]; cases k <;> first | (exfalso; simp [hasField] at hh; done) | simp [Spec.fieldChunks, Spec.render, Spec.Chunk.render]
      have hlen : data.length = pos + b.length + (Spec.render e ((Spec.fieldChunks all allv n .byte k (.bytes b)).drop 1)).length
          + post.length := by
        rw [hd', ← hpos]; simp only [List.length_append]; omega
      simp only [hns', Bool.false_eq_true, if_false]
      cases k with
      | plain => simp [hasField] at hh
      | optional => simp [hasField] at hh
      | fixed c =>
        have hl : b.length = c := by simpa [hasField] using hh
        subst hl
        obtain ⟨pN, hN⟩ := Cpp.decN_bytes_p10 e data b pre _ pos rs hd' hpos
        have hA := Cpp.decArray_bytes_p10 _ b.length data.length pos rs _ _ _ pN hN (by omega)
        rw [Cpp.toBytesVal_map_p10] at hA
        refine ⟨rs, pN, ?_⟩
        rw [Cpp.memberStep_fixed_p10, Cpp.retag_ok_p10 _ _ _ _ _ _ hA]
        simp [Spec.fieldChunks, Spec.clen, Spec.Chunk.len]
      | dyn s sh =>
        have hlk : (lens.lookup n).getD 0 = b.length := by rw [hhint s rfl]; rfl
        obtain ⟨pN, hN⟩ := Cpp.decN_bytes_p10 e data b pre _ pos rs hd' hpos
        have hA := Cpp.decArray_bytes_p10 _ b.length data.length pos rs _ _ _ pN hN (by omega)
        rw [Cpp.toBytesVal_map_p10] at hA
        refine ⟨rs, pN, ?_⟩
        rw [Cpp.memberStep_dyn_p10, hlk, Cpp.retag_ok_p10 _ _ _ _ _ _ hA]
        simp [Spec.fieldChunks, Spec.clen, Spec.Chunk.len]
      | limited s c =>
        have hl : b.length ≤ c := by
          simp only [hasField, Bool.true_and, Bool.and_eq_true, decide_eq_true_eq] at hh; exact hh.1
        have hlk : (lens.lookup n).getD 0 = b.length := by rw [hhint s rfl]; rfl
        have hrl : (Spec.render e ((Spec.fieldChunks all allv n .byte (.limited s c) (.bytes b)).drop 1)).length = c - b.length := by
          simp [Spec.fieldChunks, Spec.clen, Spec.Chunk.len]
        rw [hrl] at hlen
        obtain ⟨pN, hN⟩ := Cpp.decN_bytes_p10 e data b pre _ pos rs hd' hpos
        have hA := Cpp.decArray_bytes_p10 _ b.length data.length pos rs _ _ _ pN hN (by omega)
        rw [Cpp.toBytesVal_map_p10] at hA
        have hms : (PL.memOf (PL.nodeTy .byte) (.limited s c)).size = c := by simp [PL.memOf, PL.nodeTy]
        refine ⟨rs, pos + c, ?_⟩
        rw [hms, Cpp.memberStep_limited_ok_p10 e all n .byte s c c data pos rs lens _ (.bytes b) _ rs pN
          (by rw [hlk]; exact hA) (by omega)]
        have hp : pos + c = pos + Spec.clen (Spec.fieldChunks all allv n .byte (.limited s c) (.bytes b)) := by
          simp [Spec.fieldChunks, Spec.clen, Spec.Chunk.len]; omega
        rw [← hp]
      | greedy =>
        have hp : post = [] := hpost rfl
        subst hp
        have hd2 : data = pre ++ (b ++ []) := by
          rw [hd]; simp [Spec.fieldChunks, Spec.render, Spec.Chunk.render]
        have hlen2 : data.length = pos + b.length := by rw [hd2, ← hpos]; simp
        have hbl : b.length ≤ Cpp.resizeLimit := hrg rfl (by decide)
        obtain ⟨pN, hN⟩ := Cpp.decN_bytes_p10 e data b pre [] pos (b.length :: rs) hd2 hpos
        have hA := Cpp.decArray_bytes_p10 _ b.length data.length pos (b.length :: rs) _ _ _ pN hN (by omega)
        rw [Cpp.toBytesVal_map_p10] at hA
        refine ⟨b.length :: rs, pN, ?_⟩
        rw [Cpp.memberStep_greedy_fixed_ok_p10 e all n .byte _ data pos rs lens _ b.length (.bytes b) _ _ pN (by decide)
          (by
            rw [Cpp.remaining_le_p10 (by omega), hlen2]
            have : (Cpp.codecSize .byte).toNat = 1 := rfl
            rw [this, Nat.div_one]; omega)
          hbl hA]
        simp [Spec.fieldChunks, Spec.clen, Spec.Chunk.len]
    | .arr xs, all, allv, n, t, k, data, pre, post, pos, rs, lens, hft, hpt, hns, hom, hoa, hk0, hfx, hnu, hnu2, hh, hag,
        hrz, hrg, hgl, hpost, hal, hc, hsz, hhint, hd, hpos => by
      have hns' : isSizer n all = false := by simpa [Val.isCounter] using hc.symm
      have htb : t ≠ .byte := by intro h; subst h; cases k <;> simp [hasField] at hh
      have hel : hasElems t xs = true := by
        cases t <;> simp_all [hasField]
      have hka : isArrayKind k = true := by
        cases k <;> first | rfl | (cases t <;> simp [hasField] at hh)
      have hun := hnu hka
      have hun2 := hnu2 hka
      have hagE : agreeElems t xs = true := by simpa [agreeTy] using hag
      have hrzE : Cpp.resizeOkElems t xs = true := by simpa [Cpp.resizeOkTy] using hrz
      have halT : Spec.alignTy t ∣ pos := by
        cases k <;> first | (simp [isArrayKind] at hka; done) | simpa [Spec.alignMember, Member.kind, Member.ty] using hal
      have hd1 : data = pre ++ (Spec.render e (Spec.chunksElems t xs) ++
          (Spec.render e ((Spec.fieldChunks all allv n t k (.arr xs)).drop (Spec.chunksElems t xs).length) ++ post)) := by
        rw [hd]
        cases k <;> first | (simp [isArrayKind] at hka; done) | simp [Spec.fieldChunks, Spec.render, List.append_assoc]
      have IH := fun rs0 => dec_elems_p10 e xs t data pre _ pos rs0 hft hpt hns hom hun hun2 hel hagE hrzE halT hd1 hpos
      simp only [hns', Bool.false_eq_true, if_false]
      have hlen : data.length = pos + Spec.clen (Spec.chunksElems t xs) +
          (Spec.render e ((Spec.fieldChunks all allv n t k (.arr xs)).drop (Spec.chunksElems t xs).length)).length + post.length := by
        rw [hd1, ← hpos]; simp only [List.length_append, Spec.render_length]; omega
      have hposx : ∀ x ∈ xs, 0 < Spec.clen (Spec.chunksTy t x) := fun x hx =>
        Spec.clen_pos t x hft hpt hun (hasElems_mem t xs hel x hx).1 (hasElems_mem t xs hel x hx).2
      have hle := Spec.length_le_clen_elems t xs hposx
      have hremN : Cpp.isMessage t = false →
          pos + xs.length * (Cpp.codecSize t).toNat ≤ pos + Spec.clen (Spec.chunksElems t xs) := by
        intro hm
        have hfxt : Spec.fixedTy t = true := by cases t <;> simp_all [Cpp.isMessage, Spec.fixedTy]
        have hk0' : (PL.nodeTy t).kind = 0 := by cases t <;> first | rfl | simp [Cpp.isMessage] at hm
        rw [Cpp.codecSize_kind0_p10 t hft hk0', fixed_elems xs t hfxt hel]; simp
      cases k with
      | plain => simp [isArrayKind] at hka
      | optional => simp [isArrayKind] at hka
      | fixed c =>
        have hl : xs.length = c := by cases t <;> simp_all [hasField]
        subst hl
        obtain ⟨⟨rs1, p1, hN⟩, _⟩ := IH rs
        have hA := Cpp.decArray_arr_p10 _ t xs.length data.length pos rs xs _ rs1 p1 hN htb
          (fun hm => by have := hremN hm; omega)
        refine ⟨rs1, p1, ?_⟩
        rw [Cpp.memberStep_fixed_p10, Cpp.retag_ok_p10 _ _ _ _ _ _ hA]
        simp [Spec.fieldChunks]
      | dyn s sh =>
        have hlk : (lens.lookup n).getD 0 = xs.length := by rw [hhint s rfl]; rfl
        obtain ⟨⟨rs1, p1, hN⟩, _⟩ := IH rs
        have hA := Cpp.decArray_arr_p10 _ t xs.length data.length pos rs xs _ rs1 p1 hN htb
          (fun hm => by have := hremN hm; omega)
        refine ⟨rs1, p1, ?_⟩
        rw [Cpp.memberStep_dyn_p10, hlk, Cpp.retag_ok_p10 _ _ _ _ _ _ hA]
        simp [Spec.fieldChunks]
      | limited s lim =>
        have hl : xs.length ≤ lim := by cases t <;> simp_all [hasField]
        have hlk : (lens.lookup n).getD 0 = xs.length := by rw [hhint s rfl]; rfl
        have hfxt := hfx rfl
        have hcl := fixed_elems xs t hfxt hel
        have hmul := Nat.mul_le_mul_right (Spec.sizeTy t) hl
        have hrl : (Spec.render e ((Spec.fieldChunks all allv n t (.limited s lim) (.arr xs)).drop
            (Spec.chunksElems t xs).length)).length = lim * Spec.sizeTy t - Spec.clen (Spec.chunksElems t xs) := by
          simp [Spec.fieldChunks, Spec.clen, Spec.Chunk.len]
        rw [hrl] at hlen
        obtain ⟨⟨rs1, p1, hN⟩, _⟩ := IH rs
        have hA := Cpp.decArray_arr_p10 _ t xs.length data.length pos rs xs _ rs1 p1 hN htb
          (fun hm => by have := hremN hm; omega)
        have hms : (PL.memOf (PL.nodeTy t) (.limited s lim)).size = lim * Spec.sizeTy t := by
          rw [PL.memOf_size, PL.nodeTy_size' t hft]
        refine ⟨rs1, pos + lim * Spec.sizeTy t, ?_⟩
        rw [hms, Cpp.memberStep_limited_ok_p10 e all n t s lim _ data pos rs lens _ (.arr xs) _ rs1 p1
          (by rw [hlk]; exact hA) (by omega)]
        have hp : pos + lim * Spec.sizeTy t = pos + Spec.clen (Spec.fieldChunks all allv n t (.limited s lim) (.arr xs)) := by
          simp [Spec.fieldChunks, Spec.clen, Spec.clen_append, Spec.Chunk.len]; omega
        rw [← hp]
      | greedy =>
        have hp : post = [] := hpost rfl
        subst hp
        have hd2 : data = pre ++ (Spec.render e (Spec.chunksElems t xs) ++ []) := by
          rw [hd]; simp [Spec.fieldChunks]
        have hlen2 : data.length = pos + Spec.clen (Spec.chunksElems t xs) := by
          rw [hd2, ← hpos]; simp
        have IH2 := fun rs0 => dec_elems_p10 e xs t data pre [] pos rs0 hft hpt hns hom hun hun2 hel hagE hrzE halT hd2 hpos
        by_cases hcs : Cpp.codecSize t ≥ 0
        · have hkind := Cpp.kind0_of_codecSize_p10 t hcs
          have hfxt := PL.fixed_of_kind t hft hkind
          have hcse := Cpp.codecSize_kind0_p10 t hft hkind
          have hcl := fixed_elems xs t hfxt hel
          have hxl : xs.length ≤ Cpp.resizeLimit := hrg rfl hcs
          have hcnt : Cpp.remaining data.length pos / (Cpp.codecSize t).toNat = xs.length := by
            rw [Cpp.remaining_le_p10 (by omega), hlen2, hcse, hcl]
            simp only [Int.toNat_natCast]
            by_cases hz : Spec.sizeTy t = 0
            · rw [hz] at hcl
              have : xs.length = 0 := by omega
              rw [hz, this]; simp
            · rw [Nat.add_sub_cancel_left, Nat.mul_div_cancel _ (by omega)]
          obtain ⟨⟨rs1, p1, hN⟩, _⟩ := IH2 (xs.length :: rs)
          have hA := Cpp.decArray_arr_p10 _ t xs.length data.length pos (xs.length :: rs) xs _ rs1 p1 hN htb
            (fun hm => by have := hremN hm; omega)
          refine ⟨rs1, p1, ?_⟩
          rw [Cpp.memberStep_greedy_fixed_ok_p10 e all n t _ data pos rs lens _ xs.length (.arr xs) _ rs1 p1 hcs hcnt hxl hA]
          simp [Spec.fieldChunks]
        · obtain ⟨_, hG⟩ := IH2 rs
          obtain ⟨rs1, hG1⟩ := hG rfl (data.length + 1) (by omega)
          refine ⟨rs1, pos + Spec.clen (Spec.chunksElems t xs), ?_⟩
          rw [Cpp.memberStep_greedy_dyn_ok_p10 e all n t _ data pos rs lens _ xs _ rs1 hcs hG1]
          simp [Spec.fieldChunks]
  theorem dec_ms_p10 (e : Endian) : (vs : List Val) → ∀ (n : String) (t : Ty) (k : MKind) (r : List Member)
      (all : List Member) (allv : List Val) (before : List Member) (data pre post : Bytes)
      (lens : List (String × Nat)) (rs : List Nat) (first pd : Bool) (off st base A : Nat) (d : Bool),
      all = before ++ .mk n t k :: r → WF.uniq (all.map (·.name)) = true →
      frontMs all (.mk n t k :: r) before = true → pyRtMs all (.mk n t k :: r) before = true →
      Cpp.noShiftMs (.mk n t k :: r) = true → Cpp.optMisalignedMs (.mk n t k :: r) = false →
      hasMs all (.mk n t k :: r) vs = true → agreeFields (.mk n t k :: r) vs = true →
      Cpp.resizeOkFields (.mk n t k :: r) vs = true →
      ((Py.stMs all).any (·.unl) = true → Spec.galMs (.mk n t k :: r) vs = true) →
      ((Py.stMs all).any (·.unl) = true → post = []) →
      A = Spec.alignMs all → A ∣ base → pre.length = base + off →
      data = pre ++ (Spec.render e (Spec.bodyMs all allv n t k r vs off) ++ post) →
      alignUp (off + Spec.clen (Spec.bodyMs all allv n t k r vs off)) A
        - (off + Spec.clen (Spec.bodyMs all allv n t k r vs off)) ≤ post.length →
      lensOk all allv (.mk n t k :: r) vs → HintInv all allv lens before (.mk n t k :: r) → SizerDecC all allv →
      (∀ m ∈ before, ∀ s, m.kind.sizer? = some s → ∃ x ∈ before, x.name = s) →
      d = (pd || (PL.memsOf (.mk n t k :: r)).any PL.isMemberDynamic) →
      (pd = false → off = st) →
      off % Spec.blockAlign (.mk n t k :: r) = st % Spec.blockAlign (.mk n t k :: r) →
      Spec.alignMember (.mk n t k) ∣ off →
      (PL.curMem first n t k r).align ∣ st →
      ∃ rs' p, Cpp.decMs e all (.mk n t k :: r)
          (PL.lsFrom A d (PL.curMem first n t k r) (PL.bump (PL.memsOf r) (PL.endsPart (PL.memOf (PL.nodeTy t) k)))
            (st + (PL.memOf (PL.nodeTy t) k).size)) data (base + off) rs lens =
        (.ok vs (base + alignUp (off + Spec.clen (Spec.bodyMs all allv n t k r vs off)) A) rs', p)
    | [], n, t, k, r, all, allv, before, data, pre, post, lens, rs, first, pd, off, st, base, A, d, hall, huq, hfm, hpm,
        hns, hom, hh, hag, hrz, hgl, hpost, hA, hbase, hpre, hd, hfin, hlens, hinv, hsd, hbef, hdd, hi1, hi2, hi3, hi4 => by
      simp [hasMs] at hh
    | v :: vs, n, t, k, r, all, allv, before, data, pre, post, lens, rs, first, pd, off, st, base, A, d, hall, huq, hfm,
        hpm, hns, hom, hh, hag, hrz, hgl, hpost, hA, hbase, hpre, hd, hfin, hlens, hinv, hsd, hbef, hdd, hi1, hi2, hi3,
        hi4 => by
      have hw := Accept.wfMs_of_accept all (.mk n t k :: r) before hall hfm hpm
      obtain ⟨hwt, hfx, _, _, hwr⟩ := (wfMs_cons all n t k r).1 hw
      obtain ⟨hft, _, hfr⟩ := Accept.frontMs_cons all n t k r before hfm
      obtain ⟨_, ho, hs, ha, hl, _⟩ := frontMs_cons_playou all n t k r before hfm
      obtain ⟨hpt, h2, h3, h4, h5, h6, _, hpr⟩ := (Accept.pyRtMs_cons all n t k r before).1 hpm
      obtain ⟨hcnt, hf, hhr⟩ := (hasMs_cons all n t k r v vs).1 hh
      obtain ⟨hsh, hnst, hnsr⟩ := (Cpp.noShiftMs_cons n t k r).1 hns
      obtain ⟨hoa, homt, homr⟩ := (Cpp.optMisalignedMs_cons n t k r).1 hom
      obtain ⟨⟨hrz1, hrz2⟩, hrzt, hrzr⟩ := (Cpp.resizeOkFields_cons n t k r v vs).1 hrz
      simp only [agreeFields, Bool.and_eq_true] at hag
      simp only [lensOk] at hlens
      simp only [Spec.bodyMs] at hd hfin ⊢
      have hmem : Member.mk n t k ∈ all := by rw [hall]; simp
      have hsub : ∀ m ∈ r, m ∈ all := by intro m hm; rw [hall]; simp [hm]
      have hAal : IsAl A := by rw [hA]; exact Spec.alignMs_isAl all
      have hdm : Spec.alignMember (.mk n t k) ∣ A := by rw [hA]; exact Spec.alignMember_dvd_alignMs _ all hmem
      have hk0 : needsFixed k = true → (PL.nodeTy t).kind = 0 := by
        intro h
        rcases (Accept.needsFixed_iff k).1 h with h | h
        · exact ho h
        · exact hs h
      have hnu2 : isArrayKind k = true → Spec.unlTy t = false := fun h => PL.unl_of_kind_p10 t hft (ha h)
      have hlenF : Spec.clen (Spec.fieldChunks all allv n t k v) = Spec.memberLen t k v :=
        Spec.clen_fieldChunks all allv n t k v hf (by
          intro hne hst
          cases k with
          | plain => exact absurd rfl hne
          | optional => exact PL.fixed_of_kind t hft (ho rfl)
          | fixed c => exact PL.fixed_of_kind t hft (hs rfl)
          | limited s c => exact PL.fixed_of_kind t hft (hs rfl)
          | dyn s sh => simp [MKind.isStatic] at hst
          | greedy => simp [MKind.isStatic] at hst)
      -- the member's own decode
      have hd1 : data = pre ++ (Spec.render e (Spec.fieldChunks all allv n t k v) ++
          (Spec.render e (Spec.chunksMs all allv r vs (off + Spec.clen (Spec.fieldChunks all allv n t k v))
            (Spec.endsBlock (.mk n t k))) ++ post)) := by
        rw [hd]; simp [List.append_assoc]
      have hlenD : data.length = base + off + Spec.clen (Spec.fieldChunks all allv n t k v) +
          Spec.clen (Spec.chunksMs all allv r vs (off + Spec.clen (Spec.fieldChunks all allv n t k v))
            (Spec.endsBlock (.mk n t k))) + post.length := by
        rw [hd1, ← hpre]; simp only [List.length_append, Spec.render_length]; omega
      have hanyu : (Py.fieldSt (Py.stTy t) k).unl = true → (Py.stMs all).any (·.unl) = true :=
        Py.stMs_any_unl_mem all n t k hmem
      have hrnil : (Py.fieldSt (Py.stTy t) k).unl = true → r = [] := by
        intro hu
        rcases h5 with h5 | h5
        · simpa using h5
        · rw [h5] at hu; cases hu
      have hszC : SizerAtC all allv n t (Spec.render e (Spec.chunksMs all allv r vs
          (off + Spec.clen (Spec.fieldChunks all allv n t k v)) (Spec.endsBlock (.mk n t k))) ++ post) := by
        intro his
        obtain ⟨p, hp1, hp2, hp3, hp4, hp5, hp6⟩ := hsd.dec n t k hmem his
        refine ⟨p, hp1, hp2, hp3, hp4, hp5, ?_, hp6⟩
        obtain ⟨m', hm', hs', hre⟩ := Cpp.resizeElem_mem_r1 n all his
        have hmr : m' ∈ r := by
          rw [hall] at hm'
          rcases List.mem_append.1 hm' with hb | hc
          · exfalso
            obtain ⟨x, hx, hxn⟩ := hbef m' hb n hs'
            have huq' : WF.uniq (before.map (·.name) ++ n :: r.map (·.name)) = true := by
              rw [hall] at huq; simpa [Member.name] using huq
            exact WF.uniq_not_mem_prefix_p10 n _ _ huq' (List.mem_map.2 ⟨x, hx, hxn⟩)
          · rcases List.mem_cons.1 hc with rfl | hr
            · exfalso
              have hv : v = .sizer := by
                rw [his] at hcnt
                cases v <;> simp [Val.isCounter] at hcnt
                rfl
              subst hv
              have hkp : k = .plain := by cases k <;> simp_all [hasField]
              subst hkp
              simp [Member.kind, MKind.sizer?] at hs'
            · exact hr
        have := Spec.counter_mul_le_clen_r1 all allv n r vs (before ++ [.mk n t k])
          (off + Spec.clen (Spec.fieldChunks all allv n t k v)) (Spec.endsBlock (.mk n t k)) hfr hpr hhr hlens.2
          m' hmr hs'
        rw [hre]
        simp only [List.length_append, Spec.render_length]
        omega
      obtain ⟨rs1, p1, hbody⟩ := dec_field_p10 e v all allv n t k data pre _ (base + off) rs lens
        hft hpt hnst homt hoa hk0 hfx h4 hnu2 hf hag.1 hrzt hrz2
        (by
          intro hu
          cases k with
          | plain =>
            have hr := hrnil hu
            subst hr
            have hvs : vs = [] := by cases vs <;> simp_all [hasMs]
            subst hvs
            exact Spec.galMs_single n t v (hgl (hanyu hu))
          | optional => have := Py.stTy_unl_dyn t hu; rw [h2 rfl] at this; cases this
          | fixed c => rw [h4 rfl] at hu; cases hu
          | dyn s sh => rw [h4 rfl] at hu; cases hu
          | limited s c => rw [h4 rfl] at hu; cases hu
          | greedy => rw [h4 rfl] at hu; cases hu)
        (by
          intro hu
          have hr := hrnil hu
          subst hr
          simp [Spec.chunksMs, Spec.render, hpost (hanyu hu)])
        (Nat.dvd_add (Nat.dvd_trans hdm hbase) hi3)
        hcnt hszC
        (by
          intro s hs'
          obtain ⟨sn, sty, sk, hfind, _⟩ := h6 s hs'
          obtain ⟨y, hy, hyn⟩ := find?_name_mem before s _ hfind
          have := hinv (.mk n t k) (List.mem_cons_self ..) s hs' ⟨y, hy, hyn⟩
          rw [hlens.1 s hs']; exact this)
        hd1 hpre
      cases r with
      | nil =>
        have hvs : vs = [] := by cases vs <;> simp_all [hasMs]
        subst hvs
        simp only [Spec.chunksMs, clen_nil, Nat.add_zero, List.append_nil] at hfin hlenD ⊢
        have hAle : Spec.alignMs [.mk n t k] ≤ A := by
          rw [hA, hall]; exact Spec.alignMs_suffix_p10 before _
        have hlast := PL.last_p10 A hAal d all all allv n t k v before first pd off st hfm hh hAle hdd hi1 hi2 hi3 hi4
        rw [← hlenF] at hlast
        have hpb := Cpp.applyPad_base_p10
          (PL.plastOf A d (PL.curMem first n t k []) (st + (PL.memOf (PL.nodeTy t) k).size)) base
          (off + Spec.clen (Spec.fieldChunks all allv n t k v))
          (fun h => by rw [PL.plastOf_neg_p10 A d _ _ h]; exact hbase)
        rw [hlast] at hpb
        have hge := le_alignUp (off + Spec.clen (Spec.fieldChunks all allv n t k v)) A
        have hps := Cpp.padStep_ok_p10
          (PL.plastOf A d (PL.curMem first n t k []) (st + (PL.memOf (PL.nodeTy t) k).size)) data.length
          (base + (off + Spec.clen (Spec.fieldChunks all allv n t k v))) rs1 (by rw [hpb]; omega)
        rw [hpb] at hps
        simp only [PL.memsOf, PL.bump, PL.lsFrom_nil]
        have hcs : (PL.curMem first n t k []).size = (PL.memOf (PL.nodeTy t) k).size := rfl
        rw [hcs, Cpp.decMs_cons, hbody]
        simp only [Nat.add_assoc] at hps ⊢
        simp only [hps, Cpp.decMs_nil]
        exact ⟨rs1, _, rfl⟩
      | cons m' r' =>
        obtain ⟨n', t', k'⟩ := m'
        cases vs with
        | nil => simp [hasMs] at hhr
        | cons v2 vs' =>
          obtain ⟨_, hk2⟩ := hl (by simp)
          have hep := PL.endsPart_memOf n t k hft ho hs hk2
          have hmd : PL.isMemberDynamic (PL.memOf (PL.nodeTy t) k) = Spec.endsBlock (.mk n t k) := by
            rw [PL.isMemberDynamic_memOf t k hft hk2, hep]
          have hstep := PL.step_p10 all all n t k v n' t' k' r' before first pd off st hfm hf hi1 hi2 hi3 hi4
          rw [← hlenF] at hstep
          obtain ⟨hs1, hs2, hs3, hs4⟩ := hstep
          have hR : Spec.chunksMs all allv (.mk n' t' k' :: r') (v2 :: vs')
              (off + Spec.clen (Spec.fieldChunks all allv n t k v)) (Spec.endsBlock (.mk n t k)) =
              Spec.Chunk.pad (padTo (off + Spec.clen (Spec.fieldChunks all allv n t k v))
                  (PL.curMem (Spec.endsBlock (.mk n t k)) n' t' k' r').align) ::
                Spec.bodyMs all allv n' t' k' r' (v2 :: vs')
                  (alignUp (off + Spec.clen (Spec.fieldChunks all allv n t k v))
                    (PL.curMem (Spec.endsBlock (.mk n t k)) n' t' k' r').align) := by
            rw [Spec.chunksMs_cons]; rfl
          rw [hR] at hd hfin hlenD ⊢
          have ha'A : (PL.curMem (Spec.endsBlock (.mk n t k)) n' t' k' r').align ∣ A := by
            show (if Spec.endsBlock (.mk n t k) = true then Spec.blockAlign (.mk n' t' k' :: r')
              else Spec.alignMember (.mk n' t' k')) ∣ A
            split
            · rw [hA]
              exact Spec.blockAlign_dvd _ (Spec.alignMs_isAl all) _
                (fun m hm => Spec.alignMember_dvd_alignMs m all (hsub m hm))
            · rw [hA]
              exact Spec.alignMember_dvd_alignMs _ all (hsub _ (List.mem_cons_self ..))
          have hpos2 : 0 < (PL.curMem (Spec.endsBlock (.mk n t k)) n' t' k' r').align := by
            show 0 < (if Spec.endsBlock (.mk n t k) = true then Spec.blockAlign (.mk n' t' k' :: r')
              else Spec.alignMember (.mk n' t' k'))
            split
            · exact (Spec.blockAlign_isAl _).pos
            · exact Spec.alignMember_pos _
          have hpb := Cpp.applyPad_base_p10
            (if (PL.isMemberDynamic (PL.curMem first n t k (.mk n' t' k' :: r')) &&
                  decide ((PL.curMem first n t k (.mk n' t' k' :: r')).align <
                    (PL.curMem (Spec.endsBlock (.mk n t k)) n' t' k' r').align)) = true
              then -((PL.curMem (Spec.endsBlock (.mk n t k)) n' t' k' r').align : Int)
              else (padTo (st + (PL.memOf (PL.nodeTy t) k).size)
                (PL.curMem (Spec.endsBlock (.mk n t k)) n' t' k' r').align : Int))
            base (off + Spec.clen (Spec.fieldChunks all allv n t k v))
            (fun h => by rw [PL.pprev_neg_p10 _ _ _ h]; exact Nat.dvd_trans ha'A hbase)
          rw [hs1] at hpb
          have hps := Cpp.padStep_ok_p10
            (if (PL.isMemberDynamic (PL.curMem first n t k (.mk n' t' k' :: r')) &&
                  decide ((PL.curMem first n t k (.mk n' t' k' :: r')).align <
                    (PL.curMem (Spec.endsBlock (.mk n t k)) n' t' k' r').align)) = true
              then -((PL.curMem (Spec.endsBlock (.mk n t k)) n' t' k' r').align : Int)
              else (padTo (st + (PL.memOf (PL.nodeTy t) k).size)
                (PL.curMem (Spec.endsBlock (.mk n t k)) n' t' k' r').align : Int))
            data.length
            (base + (off + Spec.clen (Spec.fieldChunks all allv n t k v))) rs1
            (by
              rw [hpb, hlenD]
              simp only [clen_cons, Spec.Chunk.len, alignUp]
              omega)
          rw [hpb] at hps
          have hinv' : HintInv all allv
              (if isSizer n all then boundHints all n (Spec.counter n all allv) ++ lens else lens)
              (before ++ [.mk n t k]) (.mk n' t' k' :: r') := by
            cases hsz : isSizer n all with
            | true =>
              simp only [if_true]
              exact HintInv.step_sizer all allv lens before (.mk n t k) _ hall huq hinv
            | false =>
              simp only [Bool.false_eq_true, if_false]
              exact HintInv.step_plain all allv lens before (.mk n t k) _ hall hsz hinv
          have hbef' : ∀ m ∈ before ++ [.mk n t k], ∀ s, m.kind.sizer? = some s →
              ∃ x ∈ before ++ [.mk n t k], x.name = s := by
            intro m hm s hs'
            rcases List.mem_append.1 hm with hb | hc
            · obtain ⟨x, hx, hxn⟩ := hbef m hb s hs'
              exact ⟨x, List.mem_append_left _ hx, hxn⟩
            · have hmc : m = .mk n t k := by simpa using hc
              subst hmc
              obtain ⟨sn, sty, sk, hfind, _⟩ := h6 s hs'
              obtain ⟨y, hy, hyn⟩ := find?_name_mem before s _ hfind
              exact ⟨y, List.mem_append_left _ hy, hyn⟩
          have hdd' : d = ((pd || Spec.endsBlock (.mk n t k)) ||
              (PL.memsOf (.mk n' t' k' :: r')).any PL.isMemberDynamic) := by
            rw [hdd]; simp only [PL.memsOf, List.any_cons, hmd, Bool.or_assoc]
          have hd2 : data = (pre ++ Spec.render e (Spec.fieldChunks all allv n t k v) ++
              zeros (padTo (off + Spec.clen (Spec.fieldChunks all allv n t k v))
                (PL.curMem (Spec.endsBlock (.mk n t k)) n' t' k' r').align)) ++
              (Spec.render e (Spec.bodyMs all allv n' t' k' r' (v2 :: vs')
                (alignUp (off + Spec.clen (Spec.fieldChunks all allv n t k v))
                  (PL.curMem (Spec.endsBlock (.mk n t k)) n' t' k' r').align)) ++ post) := by
            rw [hd]; simp [Spec.render, Spec.Chunk.render, List.append_assoc]
          have hcl : off + Spec.clen (Spec.fieldChunks all allv n t k v ++
                Spec.Chunk.pad (padTo (off + Spec.clen (Spec.fieldChunks all allv n t k v))
                  (PL.curMem (Spec.endsBlock (.mk n t k)) n' t' k' r').align) ::
                Spec.bodyMs all allv n' t' k' r' (v2 :: vs')
                  (alignUp (off + Spec.clen (Spec.fieldChunks all allv n t k v))
                    (PL.curMem (Spec.endsBlock (.mk n t k)) n' t' k' r').align)) =
              alignUp (off + Spec.clen (Spec.fieldChunks all allv n t k v))
                  (PL.curMem (Spec.endsBlock (.mk n t k)) n' t' k' r').align +
                Spec.clen (Spec.bodyMs all allv n' t' k' r' (v2 :: vs')
                  (alignUp (off + Spec.clen (Spec.fieldChunks all allv n t k v))
                    (PL.curMem (Spec.endsBlock (.mk n t k)) n' t' k' r').align)) := by
            simp only [Spec.clen_append, clen_cons, Spec.Chunk.len, alignUp]; omega
          rw [hcl] at hfin ⊢
          obtain ⟨rs2, p2, hIH⟩ := dec_ms_p10 e (v2 :: vs') n' t' k' r' all allv (before ++ [.mk n t k]) data _ post
            (if isSizer n all then boundHints all n (Spec.counter n all allv) ++ lens else lens) rs1
            (Spec.endsBlock (.mk n t k)) (pd || Spec.endsBlock (.mk n t k))
            (alignUp (off + Spec.clen (Spec.fieldChunks all allv n t k v))
              (PL.curMem (Spec.endsBlock (.mk n t k)) n' t' k' r').align)
            (alignUp (st + (PL.memOf (PL.nodeTy t) k).size) (PL.curMem (Spec.endsBlock (.mk n t k)) n' t' k' r').align)
            base A d
            (by simp [hall]) huq hfr hpr hnsr homr hhr hag.2 hrzr
            (fun hu => Spec.galMs_tail _ _ v _ (hgl hu)) hpost hA hbase
            (by simp only [List.length_append, Spec.render_length, zeros_length, hpre, alignUp]; omega)
            hd2 hfin hlens.2 hinv' hsd hbef' hdd' hs2 hs3 hs4 (dvd_alignUp _ _ hpos2)
          have hbs : st + (PL.memOf (PL.nodeTy t) k).size + (PL.curMem (Spec.endsBlock (.mk n t k)) n' t' k' r').size +
              padTo (st + (PL.memOf (PL.nodeTy t) k).size) (PL.curMem (Spec.endsBlock (.mk n t k)) n' t' k' r').align =
              alignUp (st + (PL.memOf (PL.nodeTy t) k).size) (PL.curMem (Spec.endsBlock (.mk n t k)) n' t' k' r').align +
                (PL.memOf (PL.nodeTy t') k').size := by
            have hc2s : (PL.curMem (Spec.endsBlock (.mk n t k)) n' t' k' r').size = (PL.memOf (PL.nodeTy t') k').size := rfl
            rw [hc2s]; unfold alignUp; omega
          rw [hep, PL.bump_memsOf_cons all _ n' t' k' r' _ hfr, PL.lsFrom_cons, hbs]
          have hcs : (PL.curMem first n t k (.mk n' t' k' :: r')).size = (PL.memOf (PL.nodeTy t) k).size := rfl
          rw [hcs, Cpp.decMs_cons, hbody]
          simp only [Nat.add_assoc] at hps ⊢
          simp only [hps, hIH]
          exact ⟨rs2, p2, rfl⟩
  theorem dec_elems_p10 (e : Endian) : (xs : List Val) → ∀ (t : Ty) (data pre post : Bytes) (pos : Nat) (rs : List Nat),
      front t = true → pyRt t = true → Cpp.noShift t = true → Cpp.optMisaligned t = false →
      (Py.stTy t).unl = false → Spec.unlTy t = false →
      hasElems t xs = true → agreeElems t xs = true → Cpp.resizeOkElems t xs = true →
      Spec.alignTy t ∣ pos →
      data = pre ++ (Spec.render e (Spec.chunksElems t xs) ++ post) → pre.length = pos →
      (∃ rs' p, Cpp.decN (fun q r => Cpp.decTy e t data q r) xs.length pos rs =
          (.ok xs (pos + Spec.clen (Spec.chunksElems t xs)) rs', p)) ∧
        (post = [] → ∀ fuel, xs.length < fuel → ∃ rs',
          Cpp.decGreedyDyn (fun q r => Cpp.decTy e t data q r) fuel pos rs =
            .ok xs (pos + Spec.clen (Spec.chunksElems t xs)) rs')
    | [], t, data, pre, post, pos, rs, hft, hpt, hns, hom, hnu, hnu2, hh, hag, hrz, hal, hd, hpos => by
      refine ⟨⟨rs, pos, by simp [Cpp.decN, Spec.chunksElems, Spec.clen]⟩, ?_⟩
      intro hp fuel hfu
      subst hp
      have hlen : data.length = pos := by rw [hd, ← hpos]; simp [Spec.chunksElems, Spec.render]
      subst hlen
      obtain ⟨rs', p, hfail⟩ := Cpp.decTy_fail_end_p10 e t hft hpt hnu2 data rs
      cases fuel with
      | zero => simp at hfu
      | succ fuel =>
        refine ⟨rs', ?_⟩
        simp [Cpp.decGreedyDyn, hfail, Spec.chunksElems, Spec.clen]
    | x :: xs, t, data, pre, post, pos, rs, hft, hpt, hns, hom, hnu, hnu2, hh, hag, hrz, hal, hd, hpos => by
      simp only [hasElems, Bool.and_eq_true, Bool.not_eq_true'] at hh
      simp only [agreeElems, Bool.and_eq_true] at hag
      simp only [Cpp.resizeOkElems, Bool.and_eq_true] at hrz
      have hwt := Accept.wf_of_accept t hft hpt
      have hd1 : data = pre ++ (Spec.render e (Spec.fieldChunks [] [] "" t .plain x) ++
          (Spec.render e (Spec.chunksElems t xs) ++ post)) := by
        rw [hd, Spec.fieldChunks_plain [] [] "" t x hh.1.1]
        simp [Spec.chunksElems, List.append_assoc]
      obtain ⟨rs1, p1, h1⟩ := dec_field_p10 e x [] [] "" t .plain data pre _ pos rs [] hft hpt hns hom
        (by intro h; cases h) (by intro h; cases h) (by intro h; cases h) (by intro h; cases h) (by intro h; cases h)
        hh.1.2 hag.1 hrz.1 (by intro h; cases h) (by intro h; rw [hnu] at h; cases h)
        (by intro h; simp only [Py.fieldSt] at h; rw [hnu] at h; cases h)
        (by simpa [Spec.alignMember, Member.kind, Member.ty] using hal) (by rw [hh.1.1]; rfl) (by intro h; cases h)
        (by intro s h; cases h) hd1 hpos
      have h1' := Cpp.decTy_of_memberStep_p10 e t _ data pos rs [] _ x _ rs1 p1 h1
      rw [Spec.fieldChunks_plain [] [] "" t x hh.1.1] at h1'
      have hdv := Spec.align_dvd_clen t x hwt hh.1.1 hh.1.2
      have hd2 : data = (pre ++ Spec.render e (Spec.chunksTy t x)) ++ (Spec.render e (Spec.chunksElems t xs) ++ post) := by
        rw [hd]; simp [Spec.chunksElems, List.append_assoc]
      obtain ⟨⟨rs2, p2, h2⟩, h2g⟩ := dec_elems_p10 e xs t data (pre ++ Spec.render e (Spec.chunksTy t x)) post
        (pos + Spec.clen (Spec.chunksTy t x)) rs1 hft hpt hns hom hnu hnu2 hh.2 hag.2 hrz.2
        ((Nat.dvd_add_right hal).2 hdv) hd2 (by simp [hpos])
      have hcl : pos + Spec.clen (Spec.chunksTy t x) + Spec.clen (Spec.chunksElems t xs) =
          pos + Spec.clen (Spec.chunksElems t (x :: xs)) := by
        simp only [Spec.chunksElems, Spec.clen_append]; omega
      rw [hcl] at h2 h2g
      refine ⟨⟨rs2, p2, ?_⟩, ?_⟩
      · simp only [List.length_cons, Cpp.decN, h1', h2]
      · intro hp fuel hfu
        cases fuel with
        | zero => simp at hfu
        | succ fuel =>
          obtain ⟨rs3, h3⟩ := h2g hp fuel (by simpa using hfu)
          refine ⟨rs3, ?_⟩
          simp [Cpp.decGreedyDyn, h1', h3, Cpp.DRes.bind]
end


/-
  ORIGINAL TARGET (false as stated, see `Cpp.decode_canonical_needs_noShift` below):

    theorem Cpp.decode_canonical (t : Ty) (v : Val) (e : Endian)
        (hf : Accept.front t = true) (hp : Accept.pyRt t = true) (hm : Cpp.optMisaligned t = false)
        (hv : hasType t v = true) (ha : WF.agreeTy t v = true) (hg : Spec.galTy t v = true) :
        ∃ rs, Cpp.decode t (Spec.enc t v e) e = .accepted (Cpp.canonVal t v) rs

  The decoder returns the model value `v` itself (`Cpp.canonVal t v = v`: counters come back as
  `Val.sizer`, bytes fields as `Val.bytes`, enums/floats as their integer images), so the theorem is
  stated with `v`.  Two hypotheses had to be added:

  * `Cpp.noShift t`     no array of `t` (at any depth) has a shifted counter.  `Accept.pyRt` allows
                        `MKind.dyn s shift` with `shift > 0` (hand-written Python descriptors); the canonical
                        encoding then stores `count + shift` in the counter, while the generated C++ code has no
                        notion of a shift and takes the raw counter as the element count.
  * `Cpp.resizeOkTy t v` every array of `v` that makes the decoder call `resize` (arrays with a counter:
                        `dyn`/`limited`; greedy arrays of fixed-size elements) has at most
                        `Cpp.resizeLimit = 2^28` elements; beyond it the model's `resize` throws
                        (`Outcome.exception`).  C++ has no counter guard, so `WF.guardTy` is not needed.

  No "one array per sizer" hypothesis is needed: the model's `do_decode_resize` resizes every array bound to
  the counter, and `WF.agreeTy` makes them all as long as the counter says.
-/

/-- C03 (decode half): the generated C++ full decoder accepts the canonical encoding of every
    well-typed, coherent value of an accepted schema, returns that value, and consumes all bytes -/
theorem Cpp.decode_canonical (t : Ty) (v : Val) (e : Endian)
    (hf : Accept.front t = true) (hp : Accept.pyRt t = true) (hm : Cpp.optMisaligned t = false)
    (hns : Cpp.noShift t = true) (hrz : Cpp.resizeOkTy t v = true)
    (hv : hasType t v = true) (ha : WF.agreeTy t v = true) (hg : Spec.galTy t v = true) :
    ∃ rs, Cpp.decode t (Spec.enc t v e) e = .accepted v rs := by
  simp only [hasType, Bool.and_eq_true, Bool.not_eq_true'] at hv
  obtain ⟨rs', p, h⟩ := dec_field_p10 e v [] [] "" t .plain (Spec.enc t v e) [] [] 0 [] [] hf hp hns hm
    (by intro h; cases h) (by intro h; cases h) (by intro h; cases h) (by intro h; cases h) (by intro h; cases h)
    hv.2 ha hrz (by intro h; cases h) (fun _ => hg) (fun _ => rfl) (Nat.dvd_zero _) (by rw [hv.1]; rfl)
    (by intro h; cases h) (by intro s h; cases h)
    (by rw [Spec.fieldChunks_plain [] [] "" t v hv.1]; simp [Spec.enc]) rfl
  have h' := Cpp.decTy_of_memberStep_p10 e t _ _ _ _ _ _ v _ rs' p h
  rw [Spec.fieldChunks_plain [] [] "" t v hv.1] at h'
  refine ⟨rs', ?_⟩
  unfold Cpp.decode
  rw [h']
  simp [Spec.enc]

/-! ### the added hypothesis `noShift` is necessary: a shifted counter is misread -/
namespace CppRoundTripExamples
def T : Ty := .struct "X" [.mk "n" (.prim .u8) .plain, .mk "a" (.prim .u8) (.dyn "n" 1)]
def V : Val := .struct [.sizer, .arr []]

/-- all hypotheses of the original statement hold for `T`, `V` (an empty array whose counter holds the
    shift 1), its canonical encoding is the single byte `01`, and the C++ decoder rejects it -/
example : Accept.front T = true ∧ Accept.pyRt T = true ∧ Cpp.optMisaligned T = false ∧ hasType T V = true ∧
    WF.agreeTy T V = true ∧ Spec.galTy T V = true ∧ Cpp.resizeOkTy T V = true ∧ Cpp.noShift T = false ∧
    Spec.enc T V .little = [1] := by decide

theorem rejected : Cpp.decode T (Spec.enc T V .little) .little = .rejected [] := by rfl
end CppRoundTripExamples

/-- the original statement (without `noShift`) is false -/
theorem Cpp.decode_canonical_needs_noShift :
    ∃ (t : Ty) (v : Val) (e : Endian), Accept.front t = true ∧ Accept.pyRt t = true ∧ Cpp.optMisaligned t = false ∧
      hasType t v = true ∧ WF.agreeTy t v = true ∧ Spec.galTy t v = true ∧
      ¬ ∃ rs, Cpp.decode t (Spec.enc t v e) e = .accepted v rs := by
  refine ⟨CppRoundTripExamples.T, CppRoundTripExamples.V, .little, by decide, by decide, by decide, by decide,
    by decide, by decide, ?_⟩
  rintro ⟨rs, h⟩
  rw [CppRoundTripExamples.rejected] at h
  cases h

end Prophy

#print axioms Prophy.Cpp.decode_canonical
#print axioms Prophy.Cpp.decode_canonical_needs_noShift

/- every value of an accepted, not unlimited type has a non-empty encoding (so that the greedy
   `while pos < len(data)` loop of the decoder sees every element) -/
import ProphyModel.Lemmas.PyRoundTripAccept
namespace Prophy
open Prophy WF Accept

theorem Accept.struct_facts (nm : String) (ms : List Member) (hf : front (.struct nm ms) = true)
    (hp : pyRt (.struct nm ms) = true) :
    ms ≠ [] ∧ WF.uniq (ms.map (·.name)) = true ∧ wfMs ms ms = true ∧ frontMs ms ms [] = true ∧ pyRtMs ms ms [] = true := by
  have hw := Accept.wf_of_accept _ hf hp
  simp only [front, Bool.and_eq_true, Bool.not_eq_true'] at hf
  simp only [pyRt] at hp
  simp only [wfTy, Bool.and_eq_true] at hw
  refine ⟨?_, hw.1, hw.2, hf.2, hp⟩
  intro h; subst h; simp at hf

def posKind (k : MKind) : Prop := k = .plain ∨ k = .optional ∨ ∃ c, 0 < c ∧ k = .fixed c

mutual
  theorem pos_field : (v : Val) → ∀ (all : List Member) (allv : List Val) (n : String) (t : Ty) (k : MKind),
      front t = true → pyRt t = true → hasField all k t v = true → (Py.stTy t).unl = false → posKind k →
      (v = .sizer → ∃ p, t = .prim p) → 0 < Spec.clen (Spec.fieldChunks all allv n t k v)
    | .sizer, all, allv, n, t, k, hf, hp, hh, hu, hk, hs => by
      have hk : k = .plain := by cases k <;> simp_all [hasField]
      subst hk
      obtain ⟨p, rfl⟩ := hs rfl
      have := Py.size_pos p
      simp [Spec.fieldChunks, Spec.clen, Spec.Chunk.len, Spec.sizeTy]; omega
    | .int i, all, allv, n, t, k, hf, hp, hh, hu, hk, hs => by
      have hk : k = .plain := by cases k <;> cases t <;> simp_all [hasField]
      subst hk
      cases t with
      | prim p =>
        have := Py.size_pos p
        simp [Spec.fieldChunks, Spec.chunksTy, Spec.clen, Spec.Chunk.len]; omega
      | byte => simp [Spec.fieldChunks, Spec.chunksTy, Spec.clen, Spec.Chunk.len]
      | enum nm es => simp [Spec.fieldChunks, Spec.chunksTy, Spec.clen, Spec.Chunk.len]
      | struct nm ms => simp [hasField] at hh
      | union nm arms => simp [hasField] at hh
    | .struct vs, all, allv, n, t, k, hf, hp, hh, hu, hk, hs => by
      cases t with
      | struct nm ms =>
        have hk : k = .plain := by cases k <;> simp_all [hasField]
        subst hk
        have hhm : hasMs ms ms vs = true := by simpa [hasField] using hh
        obtain ⟨hne, huq, hw, hfm, hpm⟩ := Accept.struct_facts nm ms hf hp
        have hu' : (Py.stMs ms).any (·.unl) = false := by simpa [Py.stTy, Py.structSt] using hu
        have := pos_ms vs ms vs hne huq hw hfm hpm hhm hu'
        simp only [Spec.fieldChunks, Spec.chunksTy, Spec.clen_append]
        omega
      | prim p => cases k <;> simp [hasField] at hh
      | byte => cases k <;> simp [hasField] at hh
      | enum nm es => cases k <;> simp [hasField] at hh
      | union nm arms => cases k <;> simp [hasField] at hh
    | .union idx x, all, allv, n, t, k, hf, hp, hh, hu, hk, hs => by
      cases t with
      | union nm arms =>
        have hk : k = .plain := by cases k <;> simp_all [hasField]
        subst hk
        simp only [hasField, Bool.true_and] at hh
        cases ha : arms[idx]? with
        | none => simp [ha] at hh
        | some a =>
          obtain ⟨an, d, t'⟩ := a
          simp [Spec.fieldChunks, Spec.chunksTy, ha, Spec.clen, Spec.Chunk.len, Spec.flagSize]
          omega
      | prim p => cases k <;> simp [hasField] at hh
      | byte => cases k <;> simp [hasField] at hh
      | enum nm es => cases k <;> simp [hasField] at hh
      | struct nm ms => cases k <;> simp [hasField] at hh
    | .absent, all, allv, n, t, k, hf, hp, hh, hu, hk, hs => by
      have hk : k = .optional := by cases k <;> simp_all [hasField]
      subst hk
      simp [Spec.fieldChunks, Spec.clen, Spec.Chunk.len, Spec.flagSize]; omega
    | .present x, all, allv, n, t, k, hf, hp, hh, hu, hk, hs => by
      have hk : k = .optional := by cases k <;> simp_all [hasField]
      subst hk
      simp [Spec.fieldChunks, Spec.clen, Spec.Chunk.len, Spec.flagSize]; omega
    | .bytes b, all, allv, n, t, k, hf, hp, hh, hu, hk, hs => by
      have ht : t = .byte := by cases t <;> simp_all [hasField]
      subst ht
      rcases hk with rfl | rfl | ⟨c, hc, rfl⟩
      · simp [hasField] at hh
      · simp [hasField] at hh
      · have hl : b.length = c := by simpa [hasField] using hh
        simp [Spec.fieldChunks, Spec.clen, Spec.Chunk.len]; omega
    | .arr xs, all, allv, n, t, k, hf, hp, hh, hu, hk, hs => by
      have hel : hasElems t xs = true := by
        cases t <;> simp_all [hasField]
      rcases hk with rfl | rfl | ⟨c, hc, rfl⟩
      · cases t <;> simp [hasField] at hh
      · cases t <;> simp [hasField] at hh
      · have hl : xs.length = c := by cases t <;> simp_all [hasField]
        have hne : xs ≠ [] := by intro h; subst h; simp at hl; omega
        have := pos_elems xs t hf hp hu hel hne
        simpa [Spec.fieldChunks] using this
  theorem pos_ms : (vs : List Val) → ∀ (ms : List Member) (allv : List Val), ms ≠ [] →
      WF.uniq (ms.map (·.name)) = true → wfMs ms ms = true → frontMs ms ms [] = true → pyRtMs ms ms [] = true →
      hasMs ms ms vs = true → (Py.stMs ms).any (·.unl) = false →
      0 < Spec.clen (Spec.chunksMs ms allv ms vs 0 false)
    | [], ms, allv, hne, huq, hw, hfm, hpm, hh, hu => by
      cases ms with
      | nil => exact absurd rfl hne
      | cons m r => obtain ⟨n, t, k⟩ := m; simp [hasMs] at hh
    | v :: vs, ms, allv, hne, huq, hw, hfm, hpm, hh, hu => by
      cases ms with
      | nil => exact absurd rfl hne
      | cons m r =>
        obtain ⟨n, t, k⟩ := m
        obtain ⟨hft, hc, _⟩ := Accept.frontMs_cons _ n t k r [] hfm
        obtain ⟨hpt, _, _, h4, _, h6, _, _⟩ := (Accept.pyRtMs_cons _ n t k r []).1 hpm
        obtain ⟨hcnt, hf, _⟩ := (hasMs_cons _ n t k r v vs).1 hh
        simp only [Py.stMs, List.any_cons, Bool.or_eq_false_iff] at hu
        have hk : posKind k := by
          cases k with
          | plain => exact Or.inl rfl
          | optional => exact Or.inr (Or.inl rfl)
          | fixed c => exact Or.inr (Or.inr ⟨c, hc c rfl, rfl⟩)
          | dyn s sh => obtain ⟨_, _, _, hfind, _⟩ := h6 s rfl; simp at hfind
          | limited s c => obtain ⟨_, _, _, hfind, _⟩ := h6 s rfl; simp at hfind
          | greedy => simp [Py.fieldSt] at hu
        have hut : (Py.stTy t).unl = false := by
          rcases hk with rfl | rfl | ⟨c, _, rfl⟩
          · exact hu.1
          · exact hu.1
          · exact h4 rfl
        have hsz : v = .sizer → ∃ p, t = .prim p := by
          intro hv; subst hv
          have hs : isSizer n (.mk n t k :: r) = true := by simpa [Val.isCounter] using hcnt.symm
          obtain ⟨p, hp, _⟩ := WF.sizer_prim _ huq hw n t k (List.mem_cons_self ..) hs
          exact ⟨p, hp⟩
        have := pos_field v (.mk n t k :: r) allv n t k hft hpt hf hut hk hsz
        rw [Spec.chunksMs_cons]
        simp only [clen_cons, Spec.clen_append]
        omega
  theorem pos_elems : (xs : List Val) → ∀ (t : Ty), front t = true → pyRt t = true → (Py.stTy t).unl = false →
      hasElems t xs = true → xs ≠ [] → 0 < Spec.clen (Spec.chunksElems t xs)
    | [], t, hf, hp, hu, hh, hne => absurd rfl hne
    | x :: xs, t, hf, hp, hu, hh, _ => by
      simp only [hasElems, Bool.and_eq_true, Bool.not_eq_true'] at hh
      have h1 := pos_field x [] [] "" t .plain hf hp hh.1.2 hu (Or.inl rfl) (by intro h; subst h; simp [Val.isCounter] at hh)
      rw [Spec.fieldChunks_plain [] [] "" t x hh.1.1] at h1
      simp only [Spec.chunksElems, Spec.clen_append]
      omega
end

/-- a value of an accepted, limited type occupies at least one byte -/
theorem Spec.clen_pos (t : Ty) (v : Val) (hf : front t = true) (hp : pyRt t = true) (hu : (Py.stTy t).unl = false)
    (hc : v.isCounter = false) (hh : hasField [] .plain t v = true) : 0 < Spec.clen (Spec.chunksTy t v) := by
  have := pos_field v [] [] "" t .plain hf hp hh hu (Or.inl rfl) (by intro h; subst h; simp [Val.isCounter] at hc)
  rwa [Spec.fieldChunks_plain [] [] "" t v hc] at this

theorem Spec.length_le_clen_elems (t : Ty) : (xs : List Val) → (∀ x ∈ xs, 0 < Spec.clen (Spec.chunksTy t x)) →
    xs.length ≤ Spec.clen (Spec.chunksElems t xs)
  | [], _ => by simp
  | x :: xs, h => by
    have h1 := h x (List.mem_cons_self ..)
    have h2 := Spec.length_le_clen_elems t xs (fun y hy => h y (List.mem_cons_of_mem _ hy))
    simp only [Spec.chunksElems, Spec.clen_append, List.length_cons]
    omega

end Prophy

/- C09: the generated raw `prophy::swap` converts a foreign-endian (big-endian) message to native (little-endian)
   in place, leaves the bytes after the message untouched and returns the pointer one past the aligned end.

   Files: `RawSwapLayout` (generated fields / parts / `sizeof` = documented layout), `RawSwapBase` (hypotheses
   `partsOk`, fuel measure `needTy`, unfolding of the model, byte kernels), `RawSwapMember` (scalars, arrays,
   unions, one struct member), `RawSwapWalk` (walk over members and parts, induction on the value),
   `RawSwapFuel` (the fuel needed is at most schema depth + message length), `RawSwapUnl` (unlimited messages:
   the prefix variant), this file (the theorems). -/
import ProphyModel.Lemmas.RawSwapWalk
import ProphyModel.Lemmas.RawSwapFuel
import ProphyModel.Lemmas.RawSwapUnl
namespace Prophy

/-! ## C09 -/

/-- the swap of a message of type `t` that lies at an aligned position `pos` of a buffer, run with enough fuel -/
theorem Raw.swapTy_spec (t : Ty) (v : Val) (pre post : Bytes) (fuel pos : Nat)
    (hf : Accept.front t = true) (hp : Accept.pyRt t = true) (hd : Raw.partsOk t = true)
    (hv : hasType t v = true) (ha : WF.agreeTy t v = true) (hu : Spec.unlTy t = false)
    (hpre : pre.length = pos) (hal : Spec.alignTy t ∣ pos) (hfuel : Raw.needTy t v ≤ fuel) :
    Raw.swapTy fuel t (pre ++ Spec.enc t v .big ++ post) pos =
      some (pre ++ Spec.enc t v .little ++ post, pos + (Spec.enc t v .little).length) := by
  simp only [hasType, Bool.and_eq_true, Bool.not_eq_true'] at hv
  have := (Raw.deep_ok v).1 t pre post fuel pos hf hp hd hv.1 hv.2 ha hu hpre hal hfuel
  simpa only [Spec.enc, Spec.render_length] using this

/- ORIGINAL TARGET (false as stated, see the witnesses at the end of this file):

   theorem Raw.swap_spec (t : Ty) (v : Val) (tail : Bytes)
       (hf : Accept.front t = true) (hp : Accept.pyRt t = true) (hd : Raw.partsOk t = true)
       (hv : hasType t v = true) (ha : WF.agreeTy t v = true) (hu : Spec.unlTy t = false) :
       Raw.swap t (Spec.enc t v .big ++ tail) = some (Spec.enc t v .little ++ tail, (Spec.enc t v .little).length)

   With `Raw.partsOk` excluding only defect D23 it fails for three more reasons:
   1. field-name clashes (`namesOk`): the swap finds a member through the first generated field of its name, and
      prophyc generates `has_<x>` and `_padding<N>` fields next to the members;
   2. shifted counters (`shiftOk`): `Accept.pyRt` admits counters that hold `count + shift` (Python-only descriptors),
      the swap then walks `shift` elements too many;
   3. fuel: the model recurses on a fuel counter started at `4 * length + 256`; a schema nested deeper than that
      (or a struct with very many empty arrays) exhausts it although the C++ code has no such limit.
   1 and 2 are folded into `Raw.partsOk` (defined in `RawSwapBase`, with `monoOk` for D23); 3 is the extra
   hypothesis `hfuel` (on the value) or `hdepth` (on the schema only). -/

/-- C09 (fuel hypothesis on the value): `prophy::swap` on a big-endian message followed by `tail` yields the
    little-endian message, leaves `tail` untouched and returns the pointer one past the (aligned) end. -/
theorem Raw.swap_spec_fuel (t : Ty) (v : Val) (tail : Bytes)
    (hf : Accept.front t = true) (hp : Accept.pyRt t = true) (hd : Raw.partsOk t = true)
    (hv : hasType t v = true) (ha : WF.agreeTy t v = true) (hu : Spec.unlTy t = false)
    (hfuel : Raw.needTy t v ≤ 4 * (Spec.enc t v .big ++ tail).length + 256) :
    Raw.swap t (Spec.enc t v .big ++ tail) = some (Spec.enc t v .little ++ tail, (Spec.enc t v .little).length) := by
  have := Raw.swapTy_spec t v [] tail (4 * (Spec.enc t v .big ++ tail).length + 256) 0 hf hp hd hv ha hu rfl
    (Nat.dvd_zero _) hfuel
  simpa [Raw.swap] using this

/-- C09: the target statement with the hypothesis `hdepth` added (the static nesting depth of the schema, counted
    in calls of the model, is within the constant part of the model's fuel).  `Raw.partsOk t` is
    `namesOk ∧ monoOk ∧ shiftOk` for every struct of `t` at any depth. -/
theorem Raw.swap_spec (t : Ty) (v : Val) (tail : Bytes)
    (hf : Accept.front t = true) (hp : Accept.pyRt t = true) (hd : Raw.partsOk t = true)
    (hv : hasType t v = true) (ha : WF.agreeTy t v = true) (hu : Spec.unlTy t = false)
    (hdepth : Raw.depthTy t ≤ 256) :
    Raw.swap t (Spec.enc t v .big ++ tail) = some (Spec.enc t v .little ++ tail, (Spec.enc t v .little).length) := by
  apply Raw.swap_spec_fuel t v tail hf hp hd hv ha hu
  have := Raw.needTy_le t v hf hp hv
  simp only [List.length_append]
  omega

/-- C09 for unlimited messages (prefix variant, `Raw.swapTy_unl_spec` in `RawSwapUnl`): the swap converts the bytes
    before the own bytes of the unlimited last member (offset `Raw.unlStart t v`: a greedy array, or an unlimited
    struct, which is not entered at all), leaves that member and `tail` untouched and returns the aligned address
    of that member. -/
theorem Raw.swap_unl_spec (t : Ty) (v : Val) (tail : Bytes)
    (hf : Accept.front t = true) (hp : Accept.pyRt t = true) (hd : Raw.partsOk t = true)
    (hv : hasType t v = true) (ha : WF.agreeTy t v = true) (hu : Spec.unlTy t = true)
    (hdepth : Raw.depthTy t ≤ 256) :
    Raw.swap t (Spec.enc t v .big ++ tail) =
      some ((Spec.enc t v .little).take (Raw.unlStart t v) ++ (Spec.enc t v .big).drop (Raw.unlStart t v) ++ tail,
        alignUp (Raw.unlStart t v) (Spec.alignTy t)) := by
  have hfuel : Raw.needTy t v ≤ 4 * (Spec.enc t v .big ++ tail).length + 256 := by
    have := Raw.needTy_le t v hf hp hv
    simp only [List.length_append]
    omega
  have := Raw.swapTy_unl_spec t v [] tail (4 * (Spec.enc t v .big ++ tail).length + 256) 0 hf hp hd hv ha hu rfl
    (Nat.dvd_zero _) hfuel
  simpa [Raw.swap] using this

/-! ## witnesses: the added hypotheses are needed

  (`#guard` evaluates the model; `decide` cannot be used because the generated field names are `String`s.) -/
namespace RawSwapExamples

/-- everything the target statement assumes, except `partsOk` -/
def accepted (t : Ty) (v : Val) : Bool :=
  Accept.front t && Accept.pyRt t && hasType t v && WF.agreeTy t v && !Spec.unlTy t

def swapsRight (t : Ty) (v : Val) (tail : Bytes) : Bool :=
  Raw.swap t (Spec.enc t v .big ++ tail) == some (Spec.enc t v .little ++ tail, (Spec.enc t v .little).length)

/-- D23: part 2 (`y`, `z`) is 8-aligned, part 3 (`w`) 1-aligned: the end of `z` is aligned to 8 before `w` is read -/
def D23 : Ty := .struct "S" [.mk "n" (.prim .u32) .plain, .mk "x" .byte (.dyn "n" 0), .mk "y" (.prim .u64) .plain,
  .mk "z" .byte (.dyn "n" 0), .mk "w" (.prim .u8) .plain]
def d23 : Val := .struct [.sizer, .bytes [1], .int 77, .bytes [2], .int 5]
#guard accepted D23 d23 && !Raw.partsOk D23 && !swapsRight D23 d23 []
#guard Raw.namesOk [.mk "n" (.prim .u32) .plain, .mk "x" .byte (.dyn "n" 0), .mk "y" (.prim .u64) .plain,
    .mk "z" .byte (.dyn "n" 0), .mk "w" (.prim .u8) .plain] &&
  !Raw.monoOk [.mk "n" (.prim .u32) .plain, .mk "x" .byte (.dyn "n" 0), .mk "y" (.prim .u64) .plain,
    .mk "z" .byte (.dyn "n" 0), .mk "w" (.prim .u8) .plain]

/-- not D23 although the part alignments decrease (4 then 1): the `u32` array always ends 4-aligned (second
    disjunct of `Raw.pairOk`) -/
def Dec : Ty := .struct "S" [.mk "n" (.prim .u32) .plain, .mk "a" (.prim .u32) (.dyn "n" 0),
  .mk "b" (.prim .u32) (.dyn "n" 0), .mk "c" .byte (.dyn "n" 0)]
def dec : Val := .struct [.sizer, .arr [.int 1], .arr [.int 2], .bytes [3]]
#guard accepted Dec dec && Raw.partsOk Dec && swapsRight Dec dec [9, 9]

/-- name clash 1: a member `has_x` after an optional `x` -/
def Clash1 : Ty := .struct "S" [.mk "x" (.prim .u32) .optional, .mk "has_x" (.prim .u64) .plain]
def clash1 : Val := .struct [.present (.int 5), .int 7]
#guard accepted Clash1 clash1 && !Raw.partsOk Clash1 && !swapsRight Clash1 clash1 []

/-- name clash 2: a member called like a generated padder -/
def Clash2 : Ty := .struct "S" [.mk "x" (.prim .u8) .plain, .mk "_padding0" (.prim .u64) .plain]
def clash2 : Val := .struct [.int 5, .int 7]
#guard accepted Clash2 clash2 && !Raw.partsOk Clash2 && !swapsRight Clash2 clash2 []

/-- a shifted counter: the counter holds 3 for 2 elements, the swap also reverses the first two bytes of the tail -/
def Shift : Ty := .struct "S" [.mk "n" (.prim .u32) .plain, .mk "x" (.prim .u16) (.dyn "n" 1)]
def shift : Val := .struct [.sizer, .arr [.int 1, .int 2]]
#guard accepted Shift shift && !Raw.partsOk Shift && !swapsRight Shift shift [1, 2, 3, 4]

/-- fuel: 90 nested single-member structs around a `u8` -/
def nest : Nat → Ty
  | 0 => .prim .u8
  | n + 1 => .struct "N" [.mk "a" (nest n) .plain]
def nestv : Nat → Val
  | 0 => .int 1
  | n + 1 => .struct [nestv n]
#guard accepted (nest 90) (nestv 90) && Raw.partsOk (nest 90) && !swapsRight (nest 90) (nestv 90) []
#guard Raw.depthTy (nest 90) == 361 && Raw.needTy (nest 90) (nestv 90) == 271
#guard accepted (nest 80) (nestv 80) && Raw.partsOk (nest 80) && swapsRight (nest 80) (nestv 80) []

/-- a message the theorem covers: dynamic array of dynamic structs, optional, union, limited array, bytes -/
def Inner : Ty := .struct "I" [.mk "k" (.prim .u8) .plain, .mk "d" (.prim .u16) (.dyn "k" 0)]
def U : Ty := .union "U" [.mk "a" 1 (.prim .u8), .mk "b" 2 (.prim .u64)]
def Big : Ty := .struct "B" [.mk "n" (.prim .u32) .plain, .mk "xs" Inner (.dyn "n" 0), .mk "o" (.prim .u64) .optional,
  .mk "u" U .plain, .mk "m" (.prim .u16) .plain, .mk "l" (.prim .u32) (.limited "m" 3), .mk "e" (.enum "E" [("A", 1)]) .plain,
  .mk "bs" .byte (.fixed 3)]
def big : Val := .struct [.sizer, .arr [.struct [.sizer, .arr [.int 1, .int 2, .int 3]], .struct [.sizer, .arr []]],
  .present (.int 258), .union 1 (.int 772), .sizer, .arr [.int 5, .int 6], .int 1, .bytes [1, 2, 3]]
#guard accepted Big big && Raw.partsOk Big && decide (Raw.depthTy Big ≤ 256) && swapsRight Big big [7, 7, 7]

/-- an unlimited message: the greedy tail (and, in `Nested`, the whole unlimited last struct) is left big-endian -/
def Tail : Ty := .struct "T" [.mk "a" (.prim .u32) .plain, .mk "g" (.prim .u16) .greedy]
def tailv : Val := .struct [.int 1, .arr [.int 2, .int 3]]
def Nested : Ty := .struct "O" [.mk "x" (.prim .u16) .plain, .mk "t" Tail .plain]
def nestedv : Val := .struct [.int 5, tailv]
def unlRight (t : Ty) (v : Val) (tail : Bytes) : Bool :=
  Raw.swap t (Spec.enc t v .big ++ tail) ==
    some ((Spec.enc t v .little).take (Raw.unlStart t v) ++ (Spec.enc t v .big).drop (Raw.unlStart t v) ++ tail,
      alignUp (Raw.unlStart t v) (Spec.alignTy t))
#guard Spec.unlTy Tail && Raw.partsOk Tail && unlRight Tail tailv [9] && Raw.unlStart Tail tailv == 4
#guard Spec.unlTy Nested && Raw.partsOk Nested && unlRight Nested nestedv [9] && Raw.unlStart Nested nestedv == 4
#guard Raw.swap Nested (Spec.enc Nested nestedv .big) == some ([5, 0, 0, 0, 0, 0, 0, 1, 0, 2, 0, 3], 4)

end RawSwapExamples

end Prophy

#print axioms Prophy.Raw.swapTy_spec
#print axioms Prophy.Raw.swap_spec_fuel
#print axioms Prophy.Raw.swap_spec
#print axioms Prophy.Raw.swap_unl_spec

/- C06: the Python decoder is total (returns or raises ProphyError) on every accepted schema -/
import ProphyModel.Accept
import ProphyModel.Lemmas.Scalars
import ProphyModel.Lemmas.WFAccept
namespace Prophy
open Prophy Accept
namespace Py

/-- "returns, or raises ProphyError" -/
def Tot {α : Type} (x : M α) : Prop := (∃ r, x = .ok r) ∨ x = .error .prophy

theorem Tot.ok {α : Type} (r : α) : Tot (Except.ok r : M α) := Or.inl ⟨r, rfl⟩
theorem Tot.pure {α : Type} (r : α) : Tot (pure r : M α) := Or.inl ⟨r, rfl⟩
theorem Tot.err {α : Type} : Tot (Except.error .prophy : M α) := Or.inr rfl

theorem Tot.bind {α β : Type} {x : M α} {f : α → M β} (hx : Tot x) (hf : ∀ r, x = .ok r → Tot (f r)) :
    Tot (x >>= f) := by
  rcases hx with ⟨r, hr⟩ | hr
  · subst hr; exact hf r rfl
  · subst hr; exact Or.inr rfl

/-- the body of the loop of `struct._decode_impl` for one member (a view of the inline match of `decMs`) -/
def decField (e : Endian) (all : List Member) (n : String) (t : Ty) (k : MKind) (f : St)
    (data : Bytes) (pos0 : Nat) (hints : List (String × Nat)) : M (Val × Nat × List (String × Nat)) :=
  match k with
  | .plain =>
    if isSizer n all then do
      let (c, sz) ← decSizer e (sizerPrim t) (sizerShift n all) data pos0
      let bound := all.filterMap (fun m => if m.kind.sizer? = some n then some (m.name, c) else none)
      pure (Val.sizer, sz, bound ++ hints)
    else do
      let (v, sz) ← decTy e t data pos0 false
      pure (v, sz, hints)
  | .optional => do
    let (flag, _) ← decScalar e .u32 data pos0
    if flag ≠ 0 then do
      let (v, sz) ← decTy e t data (pos0 + f.align) false
      pure (Val.present v, f.align + sz, hints)
    else pure (Val.absent, f.align + (stTy t).size, hints)
  | .fixed c =>
    match t with
    | .byte =>
      if (data.length : Int) - (pos0 : Int) < (c : Int) then .error .prophy
      else pure (Val.bytes (slice data pos0 c), c, hints)
    | _ => do
      if (f.size : Int) > (data.length : Int) - (pos0 : Int) then .error .prophy
      let (vs, cur) ← decN (fun d q => decTy e t d q false) c data pos0 0
      pure (Val.arr vs, cur, hints)
  | .dyn _ _ => do
    let c ← lookupHint hints n
    match t with
    | .byte =>
      if (data.length : Int) - (pos0 : Int) < (c : Int) then .error .prophy
      else pure (Val.bytes (slice data pos0 c), c, hints)
    | _ => do
      if (f.size : Int) > (data.length : Int) - (pos0 : Int) then .error .prophy
      let (vs, cur) ← decN (fun d q => decTy e t d q false) c data pos0 0
      pure (Val.arr vs, max cur f.size, hints)
  | .limited _ lim => do
    let c ← lookupHint hints n
    match t with
    | .byte =>
      if (data.length : Int) - (pos0 : Int) < (lim : Int) then .error .prophy
      else if c > lim then .error .prophy
      else
        let b := slice data pos0 c
        if b.length > lim then .error .prophy
        else pure (Val.bytes b, lim, hints)
    | _ => do
      if (f.size : Int) > (data.length : Int) - (pos0 : Int) then .error .prophy
      let (vs, cur) ← decN (fun d q => decTy e t d q false) (min c lim) data pos0 0
      if c > lim then .error .prophy
      pure (Val.arr vs, max cur f.size, hints)
  | .greedy =>
    match t with
    | .byte =>
      if (data.length : Int) - (pos0 : Int) < 0 then .error .prophy
      else pure (Val.bytes (data.drop pos0), data.length - pos0, hints)
    | .struct _ _ | .union _ _ => do
      if (f.size : Int) > (data.length : Int) - (pos0 : Int) then .error .prophy
      let (vs, cur) ← decWhile (fun d q => decTy e t d q false) data.length data pos0 0
      pure (Val.arr vs, max cur f.size, hints)
    | _ => do
      if (f.size : Int) > (data.length : Int) - (pos0 : Int) then .error .prophy
      let remaining : Int := (data.length : Int) - (pos0 : Int)
      let esz := (stTy t).size
      let cnt := if remaining ≤ 0 then 0 else (remaining.toNat / esz) + (if remaining.toNat % esz = 0 then 0 else 1)
      let (vs, cur) ← decN (fun d q => decTy e t d q false) cnt data pos0 0
      pure (Val.arr vs, max cur f.size, hints)

theorem decMs_cons_pydeco (e : Endian) (all : List Member) (n : String) (t : Ty) (k : MKind) (r : List Member)
    (f : St) (fs : List St) (p : Option Nat) (ps : List (Option Nat)) (data : Bytes) (pos : Nat)
    (hints : List (String × Nat)) :
    decMs e all (.mk n t k :: r) (f :: fs) (p :: ps) data pos hints =
      (decField e all n t k f data (pos + padTo pos f.align) hints >>= fun x =>
        decMs e all r fs ps data
          (match p with
            | some a => (pos + padTo pos f.align + x.2.1) + padTo (pos + padTo pos f.align + x.2.1) a
            | none => pos + padTo pos f.align + x.2.1) x.2.2 >>= fun y =>
        pure (x.1 :: y.1, y.2)) := by
  simp only [decMs]
  rfl

/-! ### the external combinators -/

theorem decN_tot (f : Bytes → Nat → M (Val × Nat)) (hf : ∀ d q, Tot (f d q)) :
    ∀ (n : Nat) (data : Bytes) (pos cursor : Nat), Tot (decN f n data pos cursor)
  | 0, _, _, _ => Tot.pure _
  | n + 1, data, pos, cursor => by
    simp only [decN]
    refine Tot.bind (hf _ _) ?_
    rintro ⟨v, sz⟩ _
    refine Tot.bind (decN_tot f hf n data pos (cursor + sz)) ?_
    rintro ⟨vs, c⟩ _
    exact Tot.pure _

theorem decN_ge (f : Bytes → Nat → M (Val × Nat)) (data : Bytes)
    (hf : ∀ q v sz, f data q = .ok (v, sz) → 1 ≤ sz) :
    ∀ (n : Nat) (pos cursor : Nat) (vs : List Val) (c : Nat),
      decN f n data pos cursor = .ok (vs, c) → cursor + n ≤ c
  | 0, _, _, _, _, h => by
    simp only [decN, pure, Except.pure] at h
    injection h with h; injection h with h1 h2; omega
  | n + 1, pos, cursor, vs, c, h => by
    simp only [decN, bind, Except.bind] at h
    cases hx : f data (pos + cursor) with
    | error x => simp [hx] at h
    | ok r =>
      obtain ⟨v, sz⟩ := r
      simp only [hx] at h
      cases hy : decN f n data pos (cursor + sz) with
      | error x => simp [hy] at h
      | ok r2 =>
        obtain ⟨vs2, c2⟩ := r2
        simp only [hy, pure, Except.pure] at h
        injection h with h; injection h with h1 h2
        have := decN_ge f data hf n pos (cursor + sz) vs2 c2 hy
        have := hf _ _ _ hx
        omega

theorem decWhile_tot (f : Bytes → Nat → M (Val × Nat)) (hf : ∀ d q, Tot (f d q))
    (hpos : ∀ d q v sz, f d q = .ok (v, sz) → 1 ≤ sz) :
    ∀ (fuel : Nat) (data : Bytes) (pos cursor : Nat), data.length - (pos + cursor) ≤ fuel →
      Tot (decWhile f fuel data pos cursor)
  | 0, data, pos, cursor, h => by
    simp only [decWhile]
    rw [if_neg (by omega)]
    exact Tot.pure _
  | fuel + 1, data, pos, cursor, h => by
    simp only [decWhile]
    split
    · refine Tot.bind (hf _ _) ?_
      rintro ⟨v, sz⟩ hx
      have := hpos _ _ _ _ hx
      refine Tot.bind (decWhile_tot f hf hpos fuel data pos (cursor + sz) (by omega)) ?_
      rintro ⟨vs, c⟩ _
      exact Tot.pure _
    · exact Tot.pure _

theorem bind_ok {α β : Type} {x : M α} {f : α → M β} {r : β} (h : (x >>= f) = .ok r) :
    ∃ a, x = .ok a ∧ f a = .ok r := by
  cases x with
  | error err => cases h
  | ok a => exact ⟨a, rfl, h⟩

theorem Tot.guard {c : Prop} [Decidable c] :
    Tot (if c then (Except.error .prophy : M PUnit) else Pure.pure PUnit.unit) := by
  split
  · exact Tot.err
  · exact Tot.pure _

theorem Tot.guardErr {α β : Type} {c : Prop} [Decidable c] {g : α → M β} {y : M β} (hy : Tot y) :
    Tot (if c then ((Except.error .prophy : M α) >>= g) else y) := by
  split
  · exact Tot.err
  · exact hy

theorem decSizer_tot (e : Endian) (p : Prim) (shift : Nat) (data : Bytes) (pos : Nat) :
    Tot (decSizer e p shift data pos) := by
  unfold decSizer
  refine Tot.bind (decScalar_total e p data pos) ?_
  rintro ⟨v, sz⟩ _
  simp only []
  split
  · exact Tot.err
  · split
    · exact Tot.err
    · exact Tot.pure _

theorem decField_tot (e : Endian) (all : List Member) (n : String) (t : Ty) (k : MKind) (f : St)
    (data : Bytes) (pos0 : Nat) (hints : List (String × Nat))
    (ht : ∀ d q b, Tot (decTy e t d q b))
    (hpos : k = .greedy → ∀ d q v sz, decTy e t d q false = .ok (v, sz) → 1 ≤ sz)
    (hh : ∀ s, k.sizer? = some s → (hints.lookup n).isSome = true) :
    Tot (decField e all n t k f data pos0 hints) := by
  cases k with
  | plain =>
    simp only [decField]
    split
    · refine Tot.bind (decSizer_tot _ _ _ _ _) ?_
      rintro ⟨c, sz⟩ _
      exact Tot.pure _
    · refine Tot.bind (ht _ _ _) ?_
      rintro ⟨v, sz⟩ _
      exact Tot.pure _
  | optional =>
    simp only [decField]
    refine Tot.bind (decScalar_total _ _ _ _) ?_
    rintro ⟨flag, x⟩ _
    simp only []
    split
    · refine Tot.bind (ht _ _ _) ?_
      rintro ⟨v, sz⟩ _
      exact Tot.pure _
    · exact Tot.pure _
  | fixed c =>
    simp only [decField]
    split
    · split
      · exact Tot.err
      · exact Tot.pure _
    · refine Tot.guardErr ?_
      refine Tot.bind (decN_tot _ (fun d q => ht d q false) _ _ _ _) ?_
      rintro ⟨vs, cur⟩ _
      exact Tot.pure _
  | dyn s sh =>
    have hl := hh s rfl
    obtain ⟨c, hc⟩ := Option.isSome_iff_exists.1 hl
    simp only [decField, lookupHint, hc]
    refine Tot.bind (Tot.ok c) ?_
    intro c _
    split
    · split
      · exact Tot.err
      · exact Tot.pure _
    · refine Tot.guardErr ?_
      refine Tot.bind (decN_tot _ (fun d q => ht d q false) _ _ _ _) ?_
      rintro ⟨vs, cur⟩ _
      exact Tot.pure _
  | limited s lim =>
    have hl := hh s rfl
    obtain ⟨c, hc⟩ := Option.isSome_iff_exists.1 hl
    simp only [decField, lookupHint, hc]
    refine Tot.bind (Tot.ok c) ?_
    intro c _
    split
    · split
      · exact Tot.err
      · split
        · exact Tot.err
        · split
          · exact Tot.err
          · exact Tot.pure _
    · refine Tot.guardErr ?_
      refine Tot.bind (decN_tot _ (fun d q => ht d q false) _ _ _ _) ?_
      rintro ⟨vs, cur⟩ _
      refine Tot.guardErr ?_
      exact Tot.pure _
  | greedy =>
    simp only [decField]
    split
    · split
      · exact Tot.err
      · exact Tot.pure _
    · refine Tot.guardErr ?_
      refine Tot.bind (decWhile_tot _ (fun d q => ht d q false) (hpos rfl) _ _ _ _ (by omega)) ?_
      rintro ⟨vs, cur⟩ _
      exact Tot.pure _
    · refine Tot.guardErr ?_
      refine Tot.bind (decWhile_tot _ (fun d q => ht d q false) (hpos rfl) _ _ _ _ (by omega)) ?_
      rintro ⟨vs, cur⟩ _
      exact Tot.pure _
    · refine Tot.guardErr ?_
      refine Tot.bind (decN_tot _ (fun d q => ht d q false) _ _ _ _) ?_
      rintro ⟨vs, cur⟩ _
      exact Tot.pure _

/-! ### every element decode consumes at least one byte -/

theorem decMs_cons_ok {e : Endian} {all : List Member} {n : String} {t : Ty} {k : MKind} {r : List Member}
    {fs : List St} {ps : List (Option Nat)} {data : Bytes} {pos : Nat} {hints : List (String × Nat)}
    {vs : List Val} {posEnd : Nat}
    (h : decMs e all (.mk n t k :: r) fs ps data pos hints = .ok (vs, posEnd)) :
    ∃ f fs' p ps' v sz hints' vs' pos2, fs = f :: fs' ∧ ps = p :: ps' ∧
      decField e all n t k f data (pos + padTo pos f.align) hints = .ok (v, sz, hints') ∧
      pos + padTo pos f.align + sz ≤ pos2 ∧
      decMs e all r fs' ps' data pos2 hints' = .ok (vs', posEnd) ∧ vs = v :: vs' := by
  cases fs with
  | nil => simp [decMs] at h
  | cons f fs' =>
    cases ps with
    | nil => simp [decMs] at h
    | cons p ps' =>
      rw [decMs_cons_pydeco] at h
      obtain ⟨⟨v, sz, hints'⟩, hx, h⟩ := bind_ok h
      obtain ⟨⟨vs', pe⟩, hy, h⟩ := bind_ok h
      simp only [pure, Except.pure] at h
      injection h with h; injection h with h1 h2
      subst h2
      refine ⟨f, fs', p, ps', v, sz, hints', vs', _, rfl, rfl, hx, ?_, hy, h1.symm⟩
      cases p <;> simp only [] <;> omega

theorem decMs_mono (e : Endian) (all : List Member) :
    ∀ (ms : List Member) (fs : List St) (ps : List (Option Nat)) (data : Bytes) (pos : Nat)
      (hints : List (String × Nat)) (vs : List Val) (posEnd : Nat),
      decMs e all ms fs ps data pos hints = .ok (vs, posEnd) → pos ≤ posEnd
  | [], _, _, _, _, _, _, _, h => by
    simp only [decMs, pure, Except.pure] at h
    injection h with h; injection h with h1 h2; omega
  | .mk n t k :: r, fs, ps, data, pos, hints, vs, posEnd, h => by
    obtain ⟨f, fs', p, ps', v, sz, hints', vs', pos2, _, _, _, hle, hy, _⟩ := decMs_cons_ok h
    have := decMs_mono e all r fs' ps' data pos2 hints' vs' posEnd hy
    omega

theorem Prim.size_pos (p : Prim) : 1 ≤ p.size := by cases p <;> simp [Prim.size]

theorem decScalar_sz {e : Endian} {p : Prim} {data : Bytes} {pos : Nat} {v : Int} {sz : Nat}
    (h : decScalar e p data pos = .ok (v, sz)) : sz = p.size := by
  unfold decScalar at h
  split at h
  · cases h
  · obtain ⟨a, _, h⟩ := bind_ok h
    simp only [pure, Except.pure] at h
    injection h with h; injection h with h1 h2; exact h2.symm

theorem decSizer_sz {e : Endian} {p : Prim} {shift : Nat} {data : Bytes} {pos : Nat} {c sz : Nat}
    (h : decSizer e p shift data pos = .ok (c, sz)) : sz = p.size := by
  unfold decSizer at h
  obtain ⟨⟨v, s⟩, hx, h⟩ := bind_ok h
  simp only [] at h
  split at h
  · cases h
  · split at h
    · cases h
    · simp only [pure, Except.pure] at h
      injection h with h; injection h with h1 h2
      rw [← h2]; exact decScalar_sz hx

theorem decField_pos {e : Endian} {all : List Member} {n : String} {t : Ty} {k : MKind} {f : St}
    {data : Bytes} {pos0 : Nat} {hints : List (String × Nat)} {v : Val} {sz : Nat} {hints' : List (String × Nat)}
    (hk : k = .plain ∨ (k = .optional ∧ 1 ≤ f.align) ∨ ∃ c, k = .fixed c ∧ 0 < c)
    (hel : ∀ q v sz, decTy e t data q false = .ok (v, sz) → 1 ≤ sz)
    (h : decField e all n t k f data pos0 hints = .ok (v, sz, hints')) : 1 ≤ sz := by
  rcases hk with rfl | ⟨rfl, hal⟩ | ⟨c, rfl, hc⟩
  · simp only [decField] at h
    split at h
    · obtain ⟨⟨c, s⟩, hx, h⟩ := bind_ok h
      simp only [pure, Except.pure] at h
      injection h with h; injection h with h1 h2; injection h2 with h2 h3
      have := decSizer_sz hx
      have := Prim.size_pos (sizerPrim t)
      omega
    · obtain ⟨⟨w, s⟩, hx, h⟩ := bind_ok h
      simp only [pure, Except.pure] at h
      injection h with h; injection h with h1 h2; injection h2 with h2 h3
      have := hel _ _ _ hx
      omega
  · simp only [decField] at h
    obtain ⟨⟨flag, x⟩, hx, h⟩ := bind_ok h
    simp only [] at h
    split at h
    · obtain ⟨⟨w, s⟩, hy, h⟩ := bind_ok h
      simp only [pure, Except.pure] at h
      injection h with h; injection h with h1 h2; injection h2 with h2 h3
      omega
    · simp only [pure, Except.pure] at h
      injection h with h; injection h with h1 h2; injection h2 with h2 h3
      omega
  · simp only [decField] at h
    split at h
    · split at h
      · cases h
      · simp only [pure, Except.pure] at h
        injection h with h; injection h with h1 h2; injection h2 with h2 h3
        omega
    · split at h
      · cases h
      · obtain ⟨⟨ws, cur⟩, hx, h⟩ := bind_ok h
        simp only [pure, Except.pure] at h
        injection h with h; injection h with h1 h2; injection h2 with h2 h3
        have := decN_ge _ data hel c pos0 0 ws cur hx
        omega

theorem unionSt_size_pos (fs : List St) : 1 ≤ (unionSt fs).size := by
  simp only [unionSt, flagSize]; omega

mutual
  /-- a successful decode of a message of accepted, not unlimited type consumes at least one byte -/
  theorem decTy_pos (e : Endian) : (t : Ty) → front t = true → pyRt t = true → (stTy t).unl = false →
      ∀ (data : Bytes) (pos : Nat) (term : Bool) (v : Val) (sz : Nat),
        decTy e t data pos term = .ok (v, sz) → 1 ≤ sz
    | .prim p, _, _, _, data, pos, term, v, sz, h => by
      simp only [decTy] at h
      obtain ⟨⟨w, s⟩, hx, h⟩ := bind_ok h
      simp only [pure, Except.pure] at h
      injection h with h; injection h with h1 h2
      have := decScalar_sz hx
      have := Prim.size_pos p
      omega
    | .byte, _, _, _, data, pos, term, v, sz, h => by
      simp only [decTy] at h
      obtain ⟨⟨w, s⟩, hx, h⟩ := bind_ok h
      simp only [pure, Except.pure] at h
      injection h with h; injection h with h1 h2
      have := decScalar_sz hx
      have := Prim.size_pos .u8
      omega
    | .enum _ es, _, _, _, data, pos, term, v, sz, h => by
      simp only [decTy] at h
      obtain ⟨⟨w, s⟩, hx, h⟩ := bind_ok h
      obtain ⟨w', hy, h⟩ := bind_ok h
      simp only [pure, Except.pure] at h
      injection h with h; injection h with h1 h2
      have := decScalar_sz hx
      have := Prim.size_pos .u32
      omega
    | .struct _ ms, hf, hp, hu, data, pos, term, v, sz, h => by
      simp only [decTy] at h
      obtain ⟨⟨vs, pos1⟩, hx, h⟩ := bind_ok h
      simp only [] at h
      simp only [front, Bool.and_eq_true, Bool.not_eq_true'] at hf
      simp only [pyRt] at hp
      simp only [stTy, structSt] at hu
      have hne : ms ≠ [] := by
        intro h0; subst h0; simp at hf
      have := decMs_pos e ms ms hne hf.2 hp hu _ data pos [] vs pos1 hx
      split at h
      · cases h
      · simp only [pure, Except.pure] at h
        injection h with h; injection h with h1 h2
        omega
    | .union _ arms, _, _, _, data, pos, term, v, sz, h => by
      simp only [decTy] at h
      obtain ⟨⟨d, x⟩, hx, h⟩ := bind_ok h
      obtain ⟨⟨idx, w⟩, hy, h⟩ := bind_ok h
      simp only [] at h
      have := unionSt_size_pos (stArms arms)
      split at h
      · cases h
      · split at h
        · cases h
        · simp only [pure, Except.pure] at h
          injection h with h; injection h with h1 h2
          omega
  theorem decMs_pos (e : Endian) (all : List Member) : (ms : List Member) → ms ≠ [] →
      frontMs all ms [] = true → pyRtMs all ms [] = true → (stMs ms).any (·.unl) = false →
      ∀ (ps : List (Option Nat)) (data : Bytes) (pos : Nat) (hints : List (String × Nat))
        (vs : List Val) (posEnd : Nat),
        decMs e all ms (stMs ms) ps data pos hints = .ok (vs, posEnd) → pos + 1 ≤ posEnd
    | [], hne, _, _, _, _, _, _, _, _, _, _ => absurd rfl hne
    | .mk n t k :: r, _, hf, hp, hu, ps, data, pos, hints, vs, posEnd, h => by
      obtain ⟨f, fs', p, ps', v, sz, hints', vs', pos2, hfs, _, hx, hle, hy, _⟩ := decMs_cons_ok h
      simp only [stMs] at hfs
      injection hfs with hf1 hf2
      subst hf1
      have hmono := decMs_mono e all r fs' ps' data pos2 hints' vs' posEnd hy
      simp only [frontMs, Bool.and_eq_true] at hf
      have hft : front t = true := hf.1.1.1.1.1.1.1.1
      have hc := hf.1.1.1.1.2
      obtain ⟨h1, _, _, h4, _, h6, _, _⟩ := (Accept.pyRtMs_cons all n t k r []).1 hp
      simp only [stMs, List.any_cons, Bool.or_eq_false_iff] at hu
      have hu1 := hu.1
      have key : 1 ≤ sz := by
        cases k with
        | plain =>
          exact decField_pos (Or.inl rfl) (decTy_pos e t hft h1 hu1 data · false) hx
        | optional =>
          refine decField_pos (Or.inr (Or.inl ⟨rfl, ?_⟩)) (decTy_pos e t hft h1 hu1 data · false) hx
          simp only [fieldSt, flagSize]; omega
        | fixed c =>
          have hc' : 0 < c := by simpa [sizeOf?] using hc
          exact decField_pos (Or.inr (Or.inr ⟨c, rfl, hc'⟩)) (decTy_pos e t hft h1 (h4 rfl) data · false) hx
        | dyn s sh =>
          obtain ⟨_, _, _, hfind, _⟩ := h6 s rfl
          simp at hfind
        | limited s lim =>
          obtain ⟨_, _, _, hfind, _⟩ := h6 s rfl
          simp at hfind
        | greedy => simp [fieldSt] at hu1
      omega
end

/-! ### the hints: every array bound to a counter already decoded has a length hint -/

theorem lookup_isSome_of_mem (a : String) (b : Nat) : (l : List (String × Nat)) → (a, b) ∈ l →
    (l.lookup a).isSome = true
  | [], h => by cases h
  | (a', b') :: l, h => by
    simp only [List.lookup]
    cases hab : a == a' with
    | true => rfl
    | false =>
      simp only []
      rcases List.mem_cons.1 h with h | h
      · injection h with h1 h2
        subst h1
        simp at hab
      · exact lookup_isSome_of_mem a b l h

theorem lookup_isSome_append (a : String) (l2 : List (String × Nat)) : (l1 : List (String × Nat)) →
    ((l1.lookup a).isSome = true ∨ (l2.lookup a).isSome = true) → ((l1 ++ l2).lookup a).isSome = true
  | [], h => by
    rcases h with h | h
    · simp [List.lookup] at h
    · simpa using h
  | (a', b') :: l1, h => by
    simp only [List.cons_append, List.lookup] at h ⊢
    cases hab : a == a' with
    | true => rfl
    | false =>
      simp only [hab] at h ⊢
      exact lookup_isSome_append a l2 l1 h

def HintsOk (all before : List Member) (hints : List (String × Nat)) : Prop :=
  ∀ m ∈ all, ∀ s, m.kind.sizer? = some s → (∃ b ∈ before, b.name = s ∧ b.kind = .plain) →
    (hints.lookup m.name).isSome = true

theorem HintsOk.nil (all : List Member) : HintsOk all [] [] := by
  intro m _ s _ h
  obtain ⟨b, hb, _⟩ := h
  cases hb

theorem ok3 {a a' : Val} {b b' : Nat} {c c' : List (String × Nat)}
    (h : (Pure.pure (a, b, c) : M (Val × Nat × List (String × Nat))) = .ok (a', b', c')) :
    a = a' ∧ b = b' ∧ c = c' := by
  simp only [pure, Except.pure] at h
  injection h with h; injection h with h1 h2; injection h2 with h2 h3
  exact ⟨h1, h2, h3⟩

theorem decField_hints {e : Endian} {all : List Member} {n : String} {t : Ty} {k : MKind} {f : St}
    {data : Bytes} {pos0 : Nat} {hints : List (String × Nat)} {v : Val} {sz : Nat} {hints' : List (String × Nat)}
    (h : decField e all n t k f data pos0 hints = .ok (v, sz, hints')) :
    (hints' = hints ∧ (k = .plain → isSizer n all = false)) ∨
    (k = .plain ∧ ∃ c, c ≤ arrayGuard ∧ hints' =
      all.filterMap (fun m => if m.kind.sizer? = some n then some (m.name, c) else none) ++ hints) := by
  cases k with
  | plain =>
    simp only [decField] at h
    split at h
    · obtain ⟨⟨c, s⟩, hx, h⟩ := bind_ok h
      exact Or.inr ⟨rfl, c, decSizer_le_guard _ _ _ _ _ _ _ hx, (ok3 h).2.2.symm⟩
    · rename_i hs
      obtain ⟨⟨w, s⟩, hx, h⟩ := bind_ok h
      exact Or.inl ⟨(ok3 h).2.2.symm, fun _ => by simpa using hs⟩
  | optional =>
    left
    refine ⟨?_, fun h => by cases h⟩
    simp only [decField] at h
    obtain ⟨⟨flag, x⟩, hx, h⟩ := bind_ok h
    simp only [] at h
    split at h
    · obtain ⟨⟨w, s⟩, hy, h⟩ := bind_ok h
      exact (ok3 h).2.2.symm
    · exact (ok3 h).2.2.symm
  | fixed c =>
    left
    refine ⟨?_, fun h => by cases h⟩
    simp only [decField] at h
    split at h
    · split at h
      · cases h
      · exact (ok3 h).2.2.symm
    · split at h
      · cases h
      · obtain ⟨⟨ws, cur⟩, hx, h⟩ := bind_ok h
        exact (ok3 h).2.2.symm
  | dyn s sh =>
    left
    refine ⟨?_, fun h => by cases h⟩
    simp only [decField] at h
    obtain ⟨c, hc, h⟩ := bind_ok h
    split at h
    · split at h
      · cases h
      · exact (ok3 h).2.2.symm
    · split at h
      · cases h
      · obtain ⟨⟨ws, cur⟩, hx, h⟩ := bind_ok h
        exact (ok3 h).2.2.symm
  | limited s lim =>
    left
    refine ⟨?_, fun h => by cases h⟩
    simp only [decField] at h
    obtain ⟨c, hc, h⟩ := bind_ok h
    split at h
    · split at h
      · cases h
      · split at h
        · cases h
        · split at h
          · cases h
          · exact (ok3 h).2.2.symm
    · split at h
      · cases h
      · obtain ⟨⟨ws, cur⟩, hx, h⟩ := bind_ok h
        simp only [] at h
        split at h
        · cases h
        · exact (ok3 h).2.2.symm
  | greedy =>
    left
    refine ⟨?_, fun h => by cases h⟩
    simp only [decField] at h
    split at h
    · split at h
      · cases h
      · exact (ok3 h).2.2.symm
    · split at h
      · cases h
      · obtain ⟨⟨ws, cur⟩, hx, h⟩ := bind_ok h
        exact (ok3 h).2.2.symm
    · split at h
      · cases h
      · obtain ⟨⟨ws, cur⟩, hx, h⟩ := bind_ok h
        exact (ok3 h).2.2.symm
    · split at h
      · cases h
      · obtain ⟨⟨ws, cur⟩, hx, h⟩ := bind_ok h
        exact (ok3 h).2.2.symm

theorem HintsOk.step {e : Endian} {all before : List Member} {n : String} {t : Ty} {k : MKind} {f : St}
    {data : Bytes} {pos0 : Nat} {hints : List (String × Nat)} {v : Val} {sz : Nat} {hints' : List (String × Nat)}
    (h : decField e all n t k f data pos0 hints = .ok (v, sz, hints')) (hok : HintsOk all before hints) :
    HintsOk all (before ++ [.mk n t k]) hints' := by
  intro m hm s hs hb
  obtain ⟨b, hb, hbn, hbk⟩ := hb
  rcases List.mem_append.1 hb with hb | hb
  · have := hok m hm s hs ⟨b, hb, hbn, hbk⟩
    rcases decField_hints h with ⟨h1, _⟩ | ⟨_, c, _, h1⟩
    · rw [h1]; exact this
    · rw [h1]; exact lookup_isSome_append _ _ _ (Or.inr this)
  · have hb' : b = .mk n t k := by simpa using hb
    subst hb'
    simp only [Member.name, Member.kind] at hbn hbk
    subst hbn
    rcases decField_hints h with ⟨_, hns⟩ | ⟨_, c, _, h1⟩
    · have h0 := hns hbk
      have h1 : isSizer n all = true := by
        simp only [isSizer, List.any_eq_true, decide_eq_true_eq]
        exact ⟨m, hm, hs⟩
      rw [h0] at h1; cases h1
    · rw [h1]
      refine lookup_isSome_append _ _ _ (Or.inl (lookup_isSome_of_mem _ c _ ?_))
      rw [List.mem_filterMap]
      exact ⟨m, hm, by simp [hs]⟩

theorem partials_length : (fs : List St) → (partials fs).length = fs.length
  | [] => rfl
  | f :: r => by
    rw [partials_cons]
    simp [partials_length r]

theorem stMs_length : (ms : List Member) → (stMs ms).length = ms.length
  | [] => rfl
  | .mk _ _ _ :: r => by simp [stMs, stMs_length r]

theorem checkEnum_tot (es : List (String × Nat)) (v : Int) : Tot (checkEnum es v) := by
  unfold checkEnum
  split
  · exact Tot.ok _
  · exact Tot.err

/-! ### the decoder is total -/

mutual
  theorem decTy_tot (e : Endian) : (t : Ty) → front t = true → pyRt t = true →
      ∀ (data : Bytes) (pos : Nat) (term : Bool), Tot (decTy e t data pos term)
    | .prim p, _, _, data, pos, term => by
      simp only [decTy]
      refine Tot.bind (decScalar_total _ _ _ _) ?_
      rintro ⟨v, sz⟩ _
      exact Tot.pure _
    | .byte, _, _, data, pos, term => by
      simp only [decTy]
      refine Tot.bind (decScalar_total _ _ _ _) ?_
      rintro ⟨v, sz⟩ _
      exact Tot.pure _
    | .enum _ es, _, _, data, pos, term => by
      simp only [decTy]
      refine Tot.bind (decScalar_total _ _ _ _) ?_
      rintro ⟨v, sz⟩ _
      refine Tot.bind (checkEnum_tot _ _) ?_
      intro w _
      exact Tot.pure _
    | .struct _ ms, hf, hp, data, pos, term => by
      simp only [front, Bool.and_eq_true] at hf
      simp only [pyRt] at hp
      simp only [decTy]
      refine Tot.bind (decMs_tot e ms ms [] (by simp) hf.2 hp (stMs ms) (partials (stMs ms))
        (stMs_length ms) (by rw [partials_length, stMs_length]) data pos [] (HintsOk.nil ms)) ?_
      rintro ⟨vs, pos1⟩ _
      simp only []
      split
      · exact Tot.err
      · exact Tot.pure _
    | .union _ arms, hf, hp, data, pos, term => by
      simp only [front, Bool.and_eq_true] at hf
      simp only [pyRt, Bool.and_eq_true] at hp
      simp only [decTy]
      refine Tot.bind (decScalar_total _ _ _ _) ?_
      rintro ⟨d, x⟩ _
      refine Tot.bind (decArms_tot e arms arms hf.2 hp.2 _ _ _ _) ?_
      rintro ⟨idx, v⟩ _
      simp only []
      split
      · exact Tot.err
      · split
        · exact Tot.err
        · exact Tot.pure _
  theorem decMs_tot (e : Endian) (all : List Member) : (ms : List Member) → (before : List Member) →
      all = before ++ ms → frontMs all ms before = true → pyRtMs all ms before = true →
      ∀ (fs : List St) (ps : List (Option Nat)), fs.length = ms.length → ps.length = ms.length →
      ∀ (data : Bytes) (pos : Nat) (hints : List (String × Nat)), HintsOk all before hints →
        Tot (decMs e all ms fs ps data pos hints)
    | [], _, _, _, _, _, _, _, _, _, _, _, _ => by
      simp only [decMs]
      exact Tot.pure _
    | .mk n t k :: r, before, hall, hf, hp, fs, ps, hfl, hpl, data, pos, hints, hok => by
      cases fs with
      | nil => simp at hfl
      | cons f fs =>
      cases ps with
      | nil => simp at hpl
      | cons p ps =>
      simp only [frontMs, Bool.and_eq_true] at hf
      have hft : front t = true := hf.1.1.1.1.1.1.1.1
      obtain ⟨h1, _, _, h4, _, h6, _, h8⟩ := (Accept.pyRtMs_cons all n t k r before).1 hp
      rw [decMs_cons_pydeco]
      have hmem : Member.mk n t k ∈ all := by rw [hall]; simp
      refine Tot.bind (decField_tot e all n t k f data _ hints (decTy_tot e t hft h1)
        (fun hk d q v sz hd => decTy_pos e t hft h1 (h4 (by rw [hk]; rfl)) d q false v sz hd) ?_) ?_
      · intro s hs
        obtain ⟨sn, sty, sk, hfind, _, ho, ha⟩ := h6 s hs
        have hk := Accept.plain_of_flags sk ho ha
        subst hk
        have hb := List.mem_of_find?_eq_some hfind
        have hn := List.find?_some hfind
        exact hok _ hmem s hs ⟨_, hb, by simpa [Member.name] using hn, rfl⟩
      · rintro ⟨v, sz, hints'⟩ hx
        refine Tot.bind (decMs_tot e all r (before ++ [.mk n t k]) (by simp [hall]) hf.2 h8 fs ps
          (by simpa using hfl) (by simpa using hpl) data _ hints' (HintsOk.step hx hok)) ?_
        rintro ⟨vs, pe⟩ _
        exact Tot.pure _
  theorem decArms_tot (e : Endian) (all : List Arm) : (arms : List Arm) →
      frontArms arms = true → pyRtArms arms = true →
      ∀ (disc : Int) (data : Bytes) (pos idx : Nat), Tot (decArms e all arms disc data pos idx)
    | [], _, _, _, _, _, _ => by
      simp only [decArms]
      exact Tot.err
    | .mk _ d t :: r, hf, hp, disc, data, pos, idx => by
      simp only [frontArms, Bool.and_eq_true] at hf
      simp only [pyRtArms, Bool.and_eq_true] at hp
      simp only [decArms]
      split
      · refine Tot.bind (decTy_tot e t hf.1.1.1 hp.1.1 _ _ _) ?_
        rintro ⟨v, x⟩ _
        exact Tot.pure _
      · exact decArms_tot e all r hf.2 hp.2 _ _ _ _
end

end Py

/-- C06, first clause: `Message.decode` of an accepted schema returns or raises ProphyError on
    EVERY byte string: no `struct.error`, no `TypeError`, no endless `while` loop. -/
theorem Py.decode_total (t : Ty) (data : Bytes) (e : Endian)
    (hf : Accept.front t = true) (hp : Accept.pyRt t = true) :
    (∃ r, Py.decode t data e = .ok r) ∨ Py.decode t data e = .error .prophy :=
  Py.decTy_tot e t hf hp data 0 true

namespace Py

/-! ### counts: every array bound to a counter is decoded with a count within the guard -/

/-- all length hints are within the guard of `decode_array_delimiter` -/
def HintsLe (hints : List (String × Nat)) : Prop := ∀ p ∈ hints, p.2 ≤ arrayGuard

theorem HintsLe.nil : HintsLe [] := by intro p hp; cases hp

theorem mem_of_lookup (a : String) (c : Nat) : (l : List (String × Nat)) → l.lookup a = some c → (∃ a', (a', c) ∈ l)
  | [], h => by simp [List.lookup] at h
  | (a', b') :: l, h => by
    simp only [List.lookup] at h
    cases hab : a == a' with
    | true =>
      simp only [hab] at h
      injection h with h
      subst h
      exact ⟨a', List.mem_cons_self⟩
    | false =>
      simp only [hab] at h
      obtain ⟨a'', hm⟩ := mem_of_lookup a c l h
      exact ⟨a'', List.mem_cons_of_mem _ hm⟩

/-- the count an array decoder receives through `lookupHint` (the `len_hint` of `_decode_impl`) is
    within the guard -/
theorem lookupHint_le {hints : List (String × Nat)} {n : String} {c : Nat} (hl : HintsLe hints)
    (h : lookupHint hints n = .ok c) : c ≤ arrayGuard := by
  unfold lookupHint at h
  split at h
  · rename_i c' hc
    injection h with h
    subst h
    obtain ⟨a', hm⟩ := mem_of_lookup n c' hints hc
    exact hl _ hm
  · cases h

theorem HintsLe.step {e : Endian} {all : List Member} {n : String} {t : Ty} {k : MKind} {f : St}
    {data : Bytes} {pos0 : Nat} {hints : List (String × Nat)} {v : Val} {sz : Nat} {hints' : List (String × Nat)}
    (h : decField e all n t k f data pos0 hints = .ok (v, sz, hints')) (hl : HintsLe hints) :
    HintsLe hints' := by
  rcases decField_hints h with ⟨h1, _⟩ | ⟨_, c, hc, h1⟩
  · rw [h1]; exact hl
  · rw [h1]
    intro p hp
    rcases List.mem_append.1 hp with hp | hp
    · rw [List.mem_filterMap] at hp
      obtain ⟨m, _, hm⟩ := hp
      split at hm
      · injection hm with hm; subst hm; exact hc
      · cases hm
    · exact hl p hp

/-- length condition of a member value: an array bound to a counter holds at most `arrayGuard` elements -/
def cntLen (k : MKind) (n : Nat) : Bool :=
  match k.sizer? with
  | some _ => decide (n ≤ arrayGuard)
  | none => true

mutual
  /-- in a decoded value every array bound to a counter, at any depth, has at most `arrayGuard` elements -/
  def cntField (k : MKind) : Ty → Val → Bool
    | t, .present x => cntField .plain t x
    | t, .arr xs => cntLen k xs.length && cntElems t xs
    | _, .bytes b => cntLen k b.length
    | .struct _ ms, .struct vs => cntMs ms vs
    | .union _ arms, .union idx v =>
      (match arms[idx]? with
       | some (.mk _ _ t) => cntField .plain t v
       | none => true)
    | _, _ => true
  def cntMs : List Member → List Val → Bool
    | .mk _ t k :: r, v :: vs => cntField k t v && cntMs r vs
    | _, _ => true
  def cntElems : Ty → List Val → Bool
    | _, [] => true
    | t, x :: xs => cntField .plain t x && cntElems t xs
end

def countsOk (t : Ty) (v : Val) : Bool := cntField .plain t v

theorem cntField_sizer (k : MKind) (t : Ty) : cntField k t .sizer = true := by
  cases t <;> simp [cntField]

theorem cntField_absent (k : MKind) (t : Ty) : cntField k t .absent = true := by
  cases t <;> simp [cntField]

theorem cntField_int (k : MKind) (t : Ty) (i : Int) : cntField k t (.int i) = true := by
  cases t <;> simp [cntField]

theorem cntElems_of_all (t : Ty) : (vs : List Val) → (∀ v ∈ vs, cntField .plain t v = true) → cntElems t vs = true
  | [], _ => by simp [cntElems]
  | x :: xs, h => by
    simp only [cntElems, Bool.and_eq_true]
    exact ⟨h x List.mem_cons_self, cntElems_of_all t xs (fun v hv => h v (List.mem_cons_of_mem _ hv))⟩

theorem decN_all (f : Bytes → Nat → M (Val × Nat)) (P : Val → Prop)
    (hf : ∀ d q v sz, f d q = .ok (v, sz) → P v) :
    ∀ (n : Nat) (data : Bytes) (pos cursor : Nat) (vs : List Val) (c : Nat),
      decN f n data pos cursor = .ok (vs, c) → vs.length = n ∧ ∀ v ∈ vs, P v
  | 0, _, _, _, _, _, h => by
    simp only [decN, pure, Except.pure] at h
    injection h with h; injection h with h1 h2
    subst h1
    exact ⟨rfl, fun v hv => by cases hv⟩
  | n + 1, data, pos, cursor, vs, c, h => by
    simp only [decN] at h
    obtain ⟨⟨v, sz⟩, hx, h⟩ := bind_ok h
    obtain ⟨⟨vs2, c2⟩, hy, h⟩ := bind_ok h
    simp only [pure, Except.pure] at h
    injection h with h; injection h with h1 h2
    subst h1
    obtain ⟨ih1, ih2⟩ := decN_all f P hf n data pos (cursor + sz) vs2 c2 hy
    refine ⟨by simp [ih1], ?_⟩
    intro w hw
    rcases List.mem_cons.1 hw with hw | hw
    · subst hw; exact hf _ _ _ _ hx
    · exact ih2 w hw

theorem decWhile_all (f : Bytes → Nat → M (Val × Nat)) (P : Val → Prop)
    (hf : ∀ d q v sz, f d q = .ok (v, sz) → P v) :
    ∀ (fuel : Nat) (data : Bytes) (pos cursor : Nat) (vs : List Val) (c : Nat),
      decWhile f fuel data pos cursor = .ok (vs, c) → ∀ v ∈ vs, P v
  | 0, data, pos, cursor, vs, c, h => by
    simp only [decWhile] at h
    split at h
    · cases h
    · simp only [pure, Except.pure] at h
      injection h with h; injection h with h1 h2
      subst h1
      intro v hv; cases hv
  | fuel + 1, data, pos, cursor, vs, c, h => by
    simp only [decWhile] at h
    split at h
    · obtain ⟨⟨v, sz⟩, hx, h⟩ := bind_ok h
      obtain ⟨⟨vs2, c2⟩, hy, h⟩ := bind_ok h
      simp only [pure, Except.pure] at h
      injection h with h; injection h with h1 h2
      subst h1
      have ih := decWhile_all f P hf fuel data pos (cursor + sz) vs2 c2 hy
      intro w hw
      rcases List.mem_cons.1 hw with hw | hw
      · subst hw; exact hf _ _ _ _ hx
      · exact ih w hw
    · simp only [pure, Except.pure] at h
      injection h with h; injection h with h1 h2
      subst h1
      intro v hv; cases hv

theorem slice_length_le (data : Bytes) (pos n : Nat) : (slice data pos n).length ≤ n := by
  simp only [slice, List.length_take]; omega

theorem ok3' {a a' : Val} {b b' : Nat} {c c' : List (String × Nat)}
    (h : (Pure.pure (a, b, c) : M (Val × Nat × List (String × Nat))) = .ok (a', b', c')) : a' = a :=
  (ok3 h).1.symm

theorem decField_cnt {e : Endian} {all : List Member} {n : String} {t : Ty} {k : MKind} {f : St}
    {data : Bytes} {pos0 : Nat} {hints : List (String × Nat)} {v : Val} {sz : Nat} {hints' : List (String × Nat)}
    (hl : HintsLe hints)
    (ht : ∀ d q b v sz, decTy e t d q b = .ok (v, sz) → cntField .plain t v = true)
    (h : decField e all n t k f data pos0 hints = .ok (v, sz, hints')) : cntField k t v = true := by
  have hN : ∀ c d q cur ws cur', decN (fun d q => decTy e t d q false) c d q cur = .ok (ws, cur') →
      ws.length = c ∧ cntElems t ws = true := by
    intro c d q cur ws cur' hx
    obtain ⟨h1, h2⟩ := decN_all _ (fun v => cntField .plain t v = true) (fun d q v sz => ht d q false v sz) _ _ _ _ _ _ hx
    exact ⟨h1, cntElems_of_all t ws h2⟩
  cases k with
  | plain =>
    simp only [decField] at h
    split at h
    · obtain ⟨⟨c, s⟩, hx, h⟩ := bind_ok h
      rw [ok3' h]; exact cntField_sizer _ _
    · obtain ⟨⟨w, s⟩, hx, h⟩ := bind_ok h
      rw [ok3' h]; exact ht _ _ _ _ _ hx
  | optional =>
    simp only [decField] at h
    obtain ⟨⟨flag, x⟩, hx, h⟩ := bind_ok h
    simp only [] at h
    split at h
    · obtain ⟨⟨w, s⟩, hy, h⟩ := bind_ok h
      rw [ok3' h]
      simp only [cntField]
      exact ht _ _ _ _ _ hy
    · rw [ok3' h]; exact cntField_absent _ _
  | fixed c =>
    simp only [decField] at h
    split at h
    · split at h
      · cases h
      · rw [ok3' h]; simp [cntField, cntLen, MKind.sizer?]
    · split at h
      · cases h
      · obtain ⟨⟨ws, cur⟩, hx, h⟩ := bind_ok h
        rw [ok3' h]
        simp only [cntField, cntLen, MKind.sizer?, Bool.true_and]
        exact (hN _ _ _ _ _ _ hx).2
  | dyn s sh =>
    simp only [decField] at h
    obtain ⟨c, hc, h⟩ := bind_ok h
    have hc := lookupHint_le hl hc
    split at h
    · split at h
      · cases h
      · rw [ok3' h]
        have := slice_length_le data pos0 c
        simp only [cntField, cntLen, MKind.sizer?, decide_eq_true_eq]
        omega
    · split at h
      · cases h
      · obtain ⟨⟨ws, cur⟩, hx, h⟩ := bind_ok h
        rw [ok3' h]
        obtain ⟨h1, h2⟩ := hN _ _ _ _ _ _ hx
        simp only [cntField, cntLen, MKind.sizer?, Bool.and_eq_true, decide_eq_true_eq]
        exact ⟨by omega, h2⟩
  | limited s lim =>
    simp only [decField] at h
    obtain ⟨c, hc, h⟩ := bind_ok h
    have hc := lookupHint_le hl hc
    split at h
    · split at h
      · cases h
      · split at h
        · cases h
        · split at h
          · cases h
          · rw [ok3' h]
            have := slice_length_le data pos0 c
            simp only [cntField, cntLen, MKind.sizer?, decide_eq_true_eq]
            omega
    · split at h
      · cases h
      · obtain ⟨⟨ws, cur⟩, hx, h⟩ := bind_ok h
        simp only [] at h
        split at h
        · cases h
        · rw [ok3' h]
          obtain ⟨h1, h2⟩ := hN _ _ _ _ _ _ hx
          simp only [cntField, cntLen, MKind.sizer?, Bool.and_eq_true, decide_eq_true_eq]
          exact ⟨by omega, h2⟩
  | greedy =>
    simp only [decField] at h
    split at h
    · split at h
      · cases h
      · rw [ok3' h]; simp [cntField, cntLen, MKind.sizer?]
    · split at h
      · cases h
      · obtain ⟨⟨ws, cur⟩, hx, h⟩ := bind_ok h
        rw [ok3' h]
        have h2 := decWhile_all _ (fun v => cntField .plain _ v = true) (fun d q v sz => ht d q false v sz) _ _ _ _ _ _ hx
        simp only [cntField, cntLen, MKind.sizer?, Bool.true_and]
        exact cntElems_of_all _ ws h2
    · split at h
      · cases h
      · obtain ⟨⟨ws, cur⟩, hx, h⟩ := bind_ok h
        rw [ok3' h]
        have h2 := decWhile_all _ (fun v => cntField .plain _ v = true) (fun d q v sz => ht d q false v sz) _ _ _ _ _ _ hx
        simp only [cntField, cntLen, MKind.sizer?, Bool.true_and]
        exact cntElems_of_all _ ws h2
    · split at h
      · cases h
      · obtain ⟨⟨ws, cur⟩, hx, h⟩ := bind_ok h
        rw [ok3' h]
        simp only [cntField, cntLen, MKind.sizer?, Bool.true_and]
        exact (hN _ _ _ _ _ _ hx).2

mutual
  theorem decTy_cnt (e : Endian) : (t : Ty) → ∀ (data : Bytes) (pos : Nat) (term : Bool) (v : Val) (sz : Nat),
      decTy e t data pos term = .ok (v, sz) → cntField .plain t v = true
    | .prim p, data, pos, term, v, sz, h => by
      simp only [decTy] at h
      obtain ⟨⟨w, s⟩, hx, h⟩ := bind_ok h
      simp only [pure, Except.pure] at h
      injection h with h; injection h with h1 h2
      subst h1; exact cntField_int _ _ _
    | .byte, data, pos, term, v, sz, h => by
      simp only [decTy] at h
      obtain ⟨⟨w, s⟩, hx, h⟩ := bind_ok h
      simp only [pure, Except.pure] at h
      injection h with h; injection h with h1 h2
      subst h1; exact cntField_int _ _ _
    | .enum _ es, data, pos, term, v, sz, h => by
      simp only [decTy] at h
      obtain ⟨⟨w, s⟩, hx, h⟩ := bind_ok h
      obtain ⟨w', hy, h⟩ := bind_ok h
      simp only [pure, Except.pure] at h
      injection h with h; injection h with h1 h2
      subst h1; exact cntField_int _ _ _
    | .struct _ ms, data, pos, term, v, sz, h => by
      simp only [decTy] at h
      obtain ⟨⟨vs, pos1⟩, hx, h⟩ := bind_ok h
      simp only [] at h
      have := decMs_cnt e ms ms _ _ data pos [] vs pos1 HintsLe.nil hx
      split at h
      · cases h
      · simp only [pure, Except.pure] at h
        injection h with h; injection h with h1 h2
        subst h1
        simpa only [cntField] using this
    | .union _ arms, data, pos, term, v, sz, h => by
      simp only [decTy] at h
      obtain ⟨⟨d, x⟩, hx, h⟩ := bind_ok h
      obtain ⟨⟨idx, w⟩, hy, h⟩ := bind_ok h
      simp only [] at h
      obtain ⟨nm, dd, t, hi, hc⟩ := decArms_cnt e arms arms [] rfl d data _ idx w hy
      split at h
      · cases h
      · split at h
        · cases h
        · simp only [pure, Except.pure] at h
          injection h with h; injection h with h1 h2
          subst h1
          simp only [cntField, hi]
          exact hc
  theorem decMs_cnt (e : Endian) (all : List Member) : (ms : List Member) →
      ∀ (fs : List St) (ps : List (Option Nat)) (data : Bytes) (pos : Nat) (hints : List (String × Nat))
        (vs : List Val) (posEnd : Nat), HintsLe hints →
        decMs e all ms fs ps data pos hints = .ok (vs, posEnd) → cntMs ms vs = true
    | [], _, _, _, _, _, vs, _, _, _ => by simp [cntMs]
    | .mk n t k :: r, fs, ps, data, pos, hints, vs, posEnd, hl, h => by
      obtain ⟨f, fs', p, ps', v, sz, hints', vs', pos2, _, _, hx, _, hy, hvs⟩ := decMs_cons_ok h
      subst hvs
      simp only [cntMs, Bool.and_eq_true]
      exact ⟨decField_cnt hl (decTy_cnt e t) hx,
        decMs_cnt e all r fs' ps' data pos2 hints' vs' posEnd (HintsLe.step hx hl) hy⟩
  theorem decArms_cnt (e : Endian) (all : List Arm) : (arms : List Arm) → (pre : List Arm) → all = pre ++ arms →
      ∀ (disc : Int) (data : Bytes) (pos : Nat) (idx : Nat) (v : Val),
        decArms e all arms disc data pos pre.length = .ok (idx, v) →
        ∃ nm d t, all[idx]? = some (.mk nm d t) ∧ cntField .plain t v = true
    | [], _, _, _, _, _, _, _, h => by
      simp only [decArms] at h
      cases h
    | .mk nm d t :: r, pre, hall, disc, data, pos, idx, v, h => by
      simp only [decArms] at h
      split at h
      · obtain ⟨⟨w, x⟩, hx, h⟩ := bind_ok h
        simp only [pure, Except.pure] at h
        injection h with h; injection h with h1 h2
        subst h1; subst h2
        refine ⟨nm, d, t, ?_, decTy_cnt e t _ _ _ _ _ hx⟩
        rw [hall]; simp
      · have := decArms_cnt e all r (pre ++ [.mk nm d t]) (by simp [hall]) disc data pos idx v
          (by simpa using h)
        exact this
end

end Py

/-- C06, size bound: in whatever `Message.decode` returns, every array (or bytes field) bound to a
    counter, at any depth, holds at most `arrayGuard` = 65536 elements: every `decN` count reached
    through a counter (`lookupHint`, see `Py.lookupHint_le` with the invariant `Py.HintsLe.step`) is
    within the guard of `decode_array_delimiter`.  No hypothesis on the schema is needed. -/
theorem Py.decode_count_bounded (t : Ty) (data : Bytes) (e : Endian) (v : Val) (n : Nat)
    (h : Py.decode t data e = .ok (v, n)) : Py.countsOk t v = true :=
  Py.decTy_cnt e t data 0 true v n h

namespace Py

/-! ### remarks: what the predicates mean, and why the hypotheses are there -/

theorem cntField_arr (k : MKind) (t : Ty) (xs : List Val) :
    cntField k t (.arr xs) = (cntLen k xs.length && cntElems t xs) := by
  cases t <;> simp [cntField]

theorem cntField_bytes (k : MKind) (t : Ty) (b : Bytes) : cntField k t (.bytes b) = cntLen k b.length := by
  cases t <;> simp [cntField]

example : cntLen (.dyn "n" 0) 65536 = true := by decide
example : cntLen (.dyn "n" 0) 65537 = false := by decide
example : cntLen (.limited "n" 70000) 65537 = false := by decide

def excOf {α : Type} : M α → Option Exc
  | .ok _ => none
  | .error x => some x

/-- `front` is needed: an (unparsable) empty element struct is accepted by the Python runtime and makes
    the `while` loop of a greedy composite array spin forever on any non-empty input -/
example : Accept.pyRt (.struct "O" [.mk "x" (.struct "E" []) .greedy]) = true ∧
    excOf (decode (.struct "O" [.mk "x" (.struct "E" []) .greedy]) [0] .little) = some .hang := by
  decide

/-- the sizer-before-array check is needed: an array decoded before its counter raises TypeError -/
example : excOf (decode (.struct "O" [.mk "x" (.prim .u8) (.dyn "n" 0), .mk "n" (.prim .u32) .plain])
    [0] .little) = some .type := by
  decide

end Py
end Prophy

#print axioms Prophy.Py.decode_total
#print axioms Prophy.Py.decode_count_bounded

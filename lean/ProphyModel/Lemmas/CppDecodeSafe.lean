/-
  C07 — the generated C++ full decoder never reads outside `[data, data+size)`, whatever the
  bytes and whatever the schema tree, and every `resize` it requests is bounded by the number of
  input bytes that are still unread.

  Invariant carried through the whole decoder (`Good size pos rs r`): started with the cursor
  inside the buffer (`pos ≤ size`), a decode step
    * is never `fault`;
    * if it is `ok _ pos' rs'` then `pos ≤ pos' ≤ size` (cursor moves forward, stays inside);
    * in every outcome the resize log only grows at the front, and every new entry `n`
      satisfies `n ≤ size - pos` (`Ext`); unless the outcome is `throw`, also `n ≤ resizeLimit`.

  No hypothesis on the schema tree (`Accept.front`/`Accept.pyRt` are NOT needed) nor on the bytes.
  Caveat of the model, not of the proof: the greedy count `remaining / codecSize t` is Lean's
  total division, so an element type of `codec_traits<T>::size = 0` gives `cnt = 0` here (C++ would
  divide by zero); `Accept.front` rejects empty structs.
-/
import ProphyModel.Cpp
namespace Prophy.Cpp

/-! ### the invariant -/

/-- the resize log `rs'` is `rs` with new entries pushed in front, each at most `size - pos`
    and, when `lim`, at most `resizeLimit` -/
def Ext (lim : Bool) (size pos : Nat) (rs rs' : List Nat) : Prop :=
  ∃ new, rs' = new ++ rs ∧ ∀ n ∈ new, n ≤ size - pos ∧ (lim = true → n ≤ resizeLimit)

def Good {α : Type} (size pos : Nat) (rs : List Nat) : DRes α → Prop
  | .ok _ pos' rs' => pos ≤ pos' ∧ pos' ≤ size ∧ Ext true size pos rs rs'
  | .fail rs' => Ext true size pos rs rs'
  | .fault => False
  | .throw rs' => Ext false size pos rs rs'

theorem Ext.refl (lim : Bool) (size pos : Nat) (rs : List Nat) : Ext lim size pos rs rs :=
  ⟨[], by simp, by simp⟩

theorem Ext.cons {lim : Bool} {size pos n : Nat} (rs : List Nat) (h : n ≤ size - pos)
    (hl : lim = true → n ≤ resizeLimit) : Ext lim size pos rs (n :: rs) :=
  ⟨[n], by simp, by intro m hm; simp at hm; subst hm; exact ⟨h, hl⟩⟩

theorem Ext.trans {lim : Bool} {size pos pos1 : Nat} {rs rs1 rs2 : List Nat}
    (h1 : Ext true size pos rs rs1) (hp : pos ≤ pos1) (h2 : Ext lim size pos1 rs1 rs2) :
    Ext lim size pos rs rs2 := by
  obtain ⟨n1, e1, b1⟩ := h1
  obtain ⟨n2, e2, b2⟩ := h2
  refine ⟨n2 ++ n1, by simp [e1, e2], ?_⟩
  intro n hn
  rcases List.mem_append.1 hn with h | h
  · have := b2 n h; exact ⟨by omega, this.2⟩
  · have := b1 n h; exact ⟨this.1, fun _ => this.2 rfl⟩

theorem Good.mono {α : Type} {size pos pos1 : Nat} {rs rs1 : List Nat} {r : DRes α}
    (hp : pos ≤ pos1) (hx : Ext true size pos rs rs1) (h : Good size pos1 rs1 r) : Good size pos rs r := by
  cases r with
  | ok a p' rs' =>
    obtain ⟨h1, h2, h3⟩ := h
    exact ⟨by omega, h2, hx.trans hp h3⟩
  | fail rs' => exact hx.trans hp h
  | fault => exact h
  | throw rs' => exact hx.trans hp h

theorem remaining_of_le {size pos : Nat} (h : pos ≤ size) : remaining size pos = size - pos := by
  simp [remaining, h]

/-! ### the leaf steps -/

theorem decScalar_good (e : Endian) (k : Nat) (signed : Bool) (data : Bytes) (pos : Nat) (rs : List Nat)
    (hpos : pos ≤ data.length) : Good data.length pos rs (decScalar e k signed data pos rs) := by
  unfold decScalar
  rw [remaining_of_le hpos]
  split
  · exact Ext.refl _ _ _ _
  · rename_i hk
    have hfit : pos + k ≤ data.length := by omega
    simp only [readScalar, hfit, if_true]
    exact ⟨by omega, hfit, Ext.refl _ _ _ _⟩

theorem advance_good (n size pos : Nat) (rs : List Nat) (hpos : pos ≤ size) :
    Good size pos rs (advance n size pos rs) := by
  unfold advance
  rw [remaining_of_le hpos]
  split
  · exact Ext.refl _ _ _ _
  · exact ⟨by omega, by omega, Ext.refl _ _ _ _⟩

theorem alignStep_good (a size pos : Nat) (rs : List Nat) :
    Good size pos rs (alignStep a size pos rs) := by
  unfold alignStep
  simp only
  split
  · exact Ext.refl _ _ _ _
  · exact ⟨by omega, by omega, Ext.refl _ _ _ _⟩

theorem retag_good {α β : Type} {size pos : Nat} {rs : List Nat} (r : DRes α × Nat) (g : α → β)
    (h : Good size pos rs r.1) : Good size pos rs (retag r g).1 := by
  obtain ⟨r, p⟩ := r
  cases r <;> exact h

theorem bind_good {α β : Type} {size pos : Nat} {rs : List Nat} (r : DRes α)
    (f : α → Nat → List Nat → DRes β) (h : Good size pos rs r)
    (hf : ∀ a pos1 rs1, pos1 ≤ size → Good size pos1 rs1 (f a pos1 rs1)) :
    Good size pos rs (r.bind f) := by
  cases r with
  | ok a p' rs' =>
    obtain ⟨h1, h2, h3⟩ := h
    exact Good.mono h1 h3 (hf a p' rs' h2)
  | fail rs' => exact h
  | fault => exact h
  | throw rs' => exact h

/-! ### loops -/

theorem decN_good (f : Nat → List Nat → DRes Val × Nat) (size : Nat)
    (hf : ∀ q rs', q ≤ size → Good size q rs' (f q rs').1) :
    ∀ (n pos : Nat) (rs : List Nat), pos ≤ size → Good size pos rs (decN f n pos rs).1
  | 0, pos, rs, hpos => by
    simp only [decN]
    exact ⟨Nat.le_refl _, hpos, Ext.refl _ _ _ _⟩
  | n + 1, pos, rs, hpos => by
    have h1 := hf pos rs hpos
    simp only [decN]
    cases hfp : f pos rs with
    | mk r p =>
      rw [hfp] at h1
      cases r with
      | ok v pos1 rs1 =>
        obtain ⟨ha, hb, hc⟩ := h1
        have h2 := decN_good f size hf n pos1 rs1 hb
        simp only
        cases hdn : decN f n pos1 rs1 with
        | mk r2 p2 =>
          rw [hdn] at h2
          cases r2 with
          | ok vs pos2 rs2 =>
            obtain ⟨ha2, hb2, hc2⟩ := h2
            exact ⟨by omega, hb2, hc.trans ha hc2⟩
          | fail rs2 => exact hc.trans ha h2
          | fault => exact h2
          | throw rs2 => exact hc.trans ha h2
      | fail rs1 => exact h1
      | fault => exact h1
      | throw rs1 => exact h1

theorem decGreedyDyn_good (f : Nat → List Nat → DRes Val × Nat) (size : Nat)
    (hf : ∀ q rs', q ≤ size → Good size q rs' (f q rs').1) :
    ∀ (fuel pos : Nat) (rs : List Nat), pos ≤ size → Good size pos rs (decGreedyDyn f fuel pos rs)
  | 0, pos, rs, hpos => by
    simp only [decGreedyDyn]
    exact Ext.refl _ _ _ _
  | fuel + 1, pos, rs, hpos => by
    have h1 := hf pos rs hpos
    simp only [decGreedyDyn]
    cases hfp : f pos rs with
    | mk r p =>
      rw [hfp] at h1
      cases r with
      | ok v pos1 rs1 =>
        obtain ⟨ha, hb, hc⟩ := h1
        have h2 := decGreedyDyn_good f size hf fuel pos1 rs1 hb
        simp only
        refine Good.mono ha hc (bind_good _ _ h2 ?_)
        intro a q rs2 hq
        exact ⟨Nat.le_refl _, hq, Ext.refl _ _ _ _⟩
      | fail rs1 => exact ⟨Nat.le_refl _, hpos, h1⟩
      | fault => exact h1
      | throw rs1 => exact h1

theorem decArray_good (f : Nat → List Nat → DRes Val × Nat) (t : Ty) (cnt size pos : Nat) (rs : List Nat)
    (hf : ∀ q rs', q ≤ size → Good size q rs' (f q rs').1) (hpos : pos ≤ size) :
    Good size pos rs (decArray f t cnt size pos rs).1 := by
  have h := decN_good f size hf cnt pos rs hpos
  unfold decArray
  split
  · cases hdn : decN f cnt pos rs with
    | mk r p => rw [hdn] at h; cases r <;> exact h
  · simp only
    split
    · exact Ext.refl _ _ _ _
    · cases hdn : decN f cnt pos rs with
      | mk r p => rw [hdn] at h; cases r <;> exact h


/-! ### one member statement, with the element decoder abstracted -/

/-- the `step` of `decMs` with `decTy e t data` replaced by `elem` -/
def memberStep (e : Endian) (all : List Member) (n : String) (t : Ty) (k : MKind) (msize : Nat)
    (data : Bytes) (pos : Nat) (rs : List Nat) (lens : List (String × Nat))
    (elem : Nat → List Nat → DRes Val × Nat) : DRes (Val × List (String × Nat)) × Nat :=
  let size := data.length
  match k with
  | .plain =>
    if isSizer n all then
      let p := sizerPrimOf n all
      match decScalar e p.size p.isSigned data pos rs with
      | .ok c pos1 rs1 =>
        let cnt : Nat := if c < 0 then sizeMax - c.natAbs else c.toNat
        let lim : Option Nat := (all.find? (fun m => m.kind.sizer? = some n)).bind fun m =>
          match m.kind with
          | .limited _ l => some l
          | _ => none
        if (match lim with | some l => decide (cnt > l) | none => false) then (.fail rs1, pos1)
        else if cnt > remaining size pos1 / resizeElem n all then (.fail rs1, pos1)
        else if cnt > resizeLimit then (.throw (cnt :: rs1), pos1)
        else
          let bound := all.filterMap (fun m => if m.kind.sizer? = some n then some (m.name, cnt) else none)
          (.ok (Val.sizer, bound ++ lens) pos1 (cnt :: rs1), pos1)
      | .fail rs1 => (.fail rs1, pos)
      | .fault => (.fault, pos)
      | .throw rs1 => (.throw rs1, pos)
    else retag (elem pos rs) (fun v => (v, lens))
  | .optional =>
    match decScalar e 4 false data pos rs with
    | .ok disc pos1 rs1 =>
      let apad := if cppAlign t > 4 then cppAlign t - 4 else 0
      match (if apad ≠ 0 then advance apad size pos1 rs1 else .ok () pos1 rs1) with
      | .ok _ pos2 rs2 =>
        if disc ≠ 0 then retag (elem pos2 rs2) (fun v => (Val.present v, lens))
        else
          match advance (if codecSize t ≥ 0 then (codecSize t).toNat else sizeMax - 1) size pos2 rs2 with
          | .ok _ pos3 rs3 => (.ok (Val.absent, lens) pos3 rs3, pos3)
          | .fail rs3 => (.fail rs3, pos2)
          | .fault => (.fault, pos2)
          | .throw rs3 => (.throw rs3, pos2)
      | .fail rs2 => (.fail rs2, pos1)
      | .fault => (.fault, pos1)
      | .throw rs2 => (.throw rs2, pos1)
    | .fail rs1 => (.fail rs1, pos)
    | .fault => (.fault, pos)
    | .throw rs1 => (.throw rs1, pos)
  | .fixed c => retag (decArray elem t c size pos rs) (fun v => (v, lens))
  | .dyn _ _ => retag (decArray elem t ((lens.lookup n).getD 0) size pos rs) (fun v => (v, lens))
  | .limited _ _ =>
    match decArray elem t ((lens.lookup n).getD 0) size pos rs with
    | (.ok v _ rs1, _) =>
      match advance msize size pos rs1 with
      | .ok _ pos2 rs2 => (.ok (v, lens) pos2 rs2, pos2)
      | .fail rs2 => (.fail rs2, pos)
      | .fault => (.fault, pos)
      | .throw rs2 => (.throw rs2, pos)
    | (.fail rs1, _) => (.fail rs1, pos)
    | (.fault, _) => (.fault, pos)
    | (.throw rs1, _) => (.throw rs1, pos)
  | .greedy =>
    if codecSize t ≥ 0 then
      let cnt := remaining size pos / (codecSize t).toNat
      if cnt > resizeLimit then (.throw (cnt :: rs), pos)
      else retag (decArray elem t cnt size pos (cnt :: rs)) (fun v => (v, lens))
    else
      match decGreedyDyn elem (size + 1) pos rs with
      | .ok vs pos1 rs1 => (.ok (Val.arr vs, lens) pos1 rs1, pos1)
      | .fail rs1 => (.fail rs1, pos)
      | .fault => (.fault, pos)
      | .throw rs1 => (.throw rs1, pos)

/-- the padding statement after a member -/
def padStep (padding : Int) (size pos1 : Nat) (rs1 : List Nat) : DRes Unit :=
  if padding < 0 then alignStep padding.natAbs size pos1 rs1
  else if padding > 0 then advance padding.toNat size pos1 rs1
  else .ok () pos1 rs1

theorem decMs_cons (e : Endian) (all : List Member) (n : String) (t : Ty) (k : MKind) (r : List Member)
    (msize a : Nat) (padding : Int) (ls : List (Nat × Nat × Int)) (data : Bytes) (pos : Nat)
    (rs : List Nat) (lens : List (String × Nat)) :
    decMs e all (.mk n t k :: r) ((msize, a, padding) :: ls) data pos rs lens =
      match memberStep e all n t k msize data pos rs lens (fun q rs' => decTy e t data q rs') with
      | (.ok (v, lens') pos1 rs1, _) =>
        match padStep padding data.length pos1 rs1 with
        | .ok _ pos2 rs2 =>
          match decMs e all r ls data pos2 rs2 lens' with
          | (.ok vs pos3 rs3, p) => (.ok (v :: vs) pos3 rs3, p)
          | other => other
        | .fail rs2 => (.fail rs2, pos1)
        | .fault => (.fault, pos1)
        | .throw rs2 => (.throw rs2, pos1)
      | (.fail rs1, p) => (.fail rs1, p)
      | (.fault, p) => (.fault, p)
      | (.throw rs1, p) => (.throw rs1, p) := by
  cases k <;> rw [decMs] <;> rfl


theorem padStep_good (padding : Int) (size pos : Nat) (rs : List Nat) (hpos : pos ≤ size) :
    Good size pos rs (padStep padding size pos rs) := by
  unfold padStep
  split
  · exact alignStep_good _ _ _ _
  · split
    · exact advance_good _ _ _ _ hpos
    · exact ⟨Nat.le_refl _, hpos, Ext.refl _ _ _ _⟩

theorem sizerTail_good {α : Type} (b : Bool) (cnt el size pos pos1 : Nat) (rs rs1 : List Nat) (a : α)
    (ha : pos ≤ pos1) (hb : pos1 ≤ size) (hc : Ext true size pos rs rs1) :
    Good size pos rs
      (if b = true then ((DRes.fail rs1 : DRes α), pos1)
       else if cnt > remaining size pos1 / el then (.fail rs1, pos1)
       else if cnt > resizeLimit then (.throw (cnt :: rs1), pos1)
       else (.ok a pos1 (cnt :: rs1), pos1)).1 := by
  split
  · exact hc
  · split
    · exact hc
    · rename_i hrem
      rw [remaining_of_le hb] at hrem
      have hdiv : (size - pos1) / el ≤ size - pos1 := Nat.div_le_self _ _
      split
      · rename_i hl
        exact hc.trans (Nat.le_refl _) (Ext.cons _ (by omega) (by simp))
      · rename_i hl
        exact ⟨ha, hb, hc.trans (Nat.le_refl _) (Ext.cons _ (by omega) (fun _ => by omega))⟩

theorem memberStep_good (e : Endian) (all : List Member) (n : String) (t : Ty) (k : MKind) (msize : Nat)
    (data : Bytes) (pos : Nat) (rs : List Nat) (lens : List (String × Nat))
    (elem : Nat → List Nat → DRes Val × Nat)
    (hf : ∀ q rs', q ≤ data.length → Good data.length q rs' (elem q rs').1)
    (hpos : pos ≤ data.length) :
    Good data.length pos rs (memberStep e all n t k msize data pos rs lens elem).1 := by
  unfold memberStep
  cases k with
  | plain =>
    simp only
    split
    · have h1 := decScalar_good e (sizerPrimOf n all).size (sizerPrimOf n all).isSigned data pos rs hpos
      cases hd : decScalar e (sizerPrimOf n all).size (sizerPrimOf n all).isSigned data pos rs with
      | ok c pos1 rs1 =>
        rw [hd] at h1
        obtain ⟨ha, hb, hc⟩ := h1
        simp only
        exact sizerTail_good _ _ _ _ _ _ _ _ _ ha hb hc
      | fail rs1 => rw [hd] at h1; exact h1
      | fault => rw [hd] at h1; exact h1
      | throw rs1 => rw [hd] at h1; exact h1
    · exact retag_good _ _ (hf pos rs hpos)
  | optional =>
    simp only
    have h1 := decScalar_good e 4 false data pos rs hpos
    cases hd : decScalar e 4 false data pos rs with
    | ok disc pos1 rs1 =>
      rw [hd] at h1
      obtain ⟨ha, hb, hc⟩ := h1
      simp only
      generalize (if cppAlign t > 4 then cppAlign t - 4 else 0) = apad
      have h2 : Good data.length pos1 rs1
          (if apad ≠ 0 then advance apad data.length pos1 rs1 else .ok () pos1 rs1) := by
        split
        · exact advance_good _ _ _ _ hb
        · exact ⟨Nat.le_refl _, hb, Ext.refl _ _ _ _⟩
      cases hd2 : (if apad ≠ 0 then advance apad data.length pos1 rs1 else DRes.ok () pos1 rs1) with
      | ok u pos2 rs2 =>
        rw [hd2] at h2
        obtain ⟨ha2, hb2, hc2⟩ := h2
        simp only
        refine Good.mono ha hc (Good.mono ha2 hc2 ?_)
        split
        · exact retag_good _ _ (hf pos2 rs2 hb2)
        · generalize (if codecSize t ≥ 0 then (codecSize t).toNat else sizeMax - 1) = adv
          have h3 := advance_good adv data.length pos2 rs2 hb2
          cases hd3 : advance adv data.length pos2 rs2 with
          | ok u3 pos3 rs3 => rw [hd3] at h3; exact h3
          | fail rs3 => rw [hd3] at h3; exact h3
          | fault => rw [hd3] at h3; exact h3
          | throw rs3 => rw [hd3] at h3; exact h3
      | fail rs2 => rw [hd2] at h2; exact Good.mono ha hc h2
      | fault => rw [hd2] at h2; exact h2
      | throw rs2 => rw [hd2] at h2; exact Good.mono ha hc h2
    | fail rs1 => rw [hd] at h1; exact h1
    | fault => rw [hd] at h1; exact h1
    | throw rs1 => rw [hd] at h1; exact h1
  | fixed c => exact retag_good _ _ (decArray_good _ _ _ _ _ _ hf hpos)
  | dyn s sh => exact retag_good _ _ (decArray_good _ _ _ _ _ _ hf hpos)
  | limited s l =>
    simp only
    have h1 := decArray_good elem t ((lens.lookup n).getD 0) data.length pos rs hf hpos
    cases hd : decArray elem t ((lens.lookup n).getD 0) data.length pos rs with
    | mk r p =>
      rw [hd] at h1
      cases r with
      | ok v pos1 rs1 =>
        obtain ⟨ha, hb, hc⟩ := h1
        simp only
        have h3 := advance_good msize data.length pos rs1 hpos
        refine Good.mono (Nat.le_refl _) hc ?_
        cases hd3 : advance msize data.length pos rs1 with
        | ok u3 pos3 rs3 => rw [hd3] at h3; exact h3
        | fail rs3 => rw [hd3] at h3; exact h3
        | fault => rw [hd3] at h3; exact h3
        | throw rs3 => rw [hd3] at h3; exact h3
      | fail rs1 => exact h1
      | fault => exact h1
      | throw rs1 => exact h1
  | greedy =>
    simp only
    split
    · have hcnt : remaining data.length pos / (codecSize t).toNat ≤ data.length - pos := by
        rw [remaining_of_le hpos]
        exact Nat.div_le_self _ _
      generalize remaining data.length pos / (codecSize t).toNat = cnt at hcnt
      split
      · exact Ext.cons _ hcnt (by simp)
      · rename_i hl
        exact Good.mono (Nat.le_refl _) (Ext.cons _ hcnt (fun _ => by omega))
          (retag_good _ _ (decArray_good _ _ _ _ _ _ hf hpos))
    · have h1 := decGreedyDyn_good elem data.length hf (data.length + 1) pos rs hpos
      cases hd : decGreedyDyn elem (data.length + 1) pos rs with
      | ok vs pos1 rs1 => rw [hd] at h1; exact h1
      | fail rs1 => rw [hd] at h1; exact h1
      | fault => rw [hd] at h1; exact h1
      | throw rs1 => rw [hd] at h1; exact h1


/-! ### the decoder -/

theorem decMs_nil (e : Endian) (all : List Member) (ls : List (Nat × Nat × Int)) (data : Bytes) (pos : Nat)
    (rs : List Nat) (lens : List (String × Nat)) :
    decMs e all [] ls data pos rs lens = (.ok [] pos rs, pos) := by
  rw [decMs]
  intros; simp_all

theorem decMs_nil_layout (e : Endian) (all : List Member) (ms : List Member) (data : Bytes) (pos : Nat)
    (rs : List Nat) (lens : List (String × Nat)) :
    decMs e all ms [] data pos rs lens = (.ok [] pos rs, pos) := by
  rw [decMs]
  intros; simp_all

mutual
  theorem decTy_good (e : Endian) : (t : Ty) → ∀ (data : Bytes) (pos : Nat) (rs : List Nat),
      pos ≤ data.length → Good data.length pos rs (decTy e t data pos rs).1
    | .prim p, data, pos, rs, hpos => by
      simp only [decTy]
      exact bind_good _ _ (decScalar_good _ _ _ _ _ _ hpos)
        (fun a q r hq => ⟨Nat.le_refl _, hq, Ext.refl _ _ _ _⟩)
    | .byte, data, pos, rs, hpos => by
      simp only [decTy]
      exact bind_good _ _ (decScalar_good _ _ _ _ _ _ hpos)
        (fun a q r hq => ⟨Nat.le_refl _, hq, Ext.refl _ _ _ _⟩)
    | .enum _ _, data, pos, rs, hpos => by
      simp only [decTy]
      exact bind_good _ _ (decScalar_good _ _ _ _ _ _ hpos)
        (fun a q r hq => ⟨Nat.le_refl _, hq, Ext.refl _ _ _ _⟩)
    | .struct _ ms, data, pos, rs, hpos => by
      simp only [decTy]
      exact retag_good _ _ (decMs_good e ms ms _ data pos rs [] hpos)
    | .union n arms, data, pos, rs, hpos => by
      simp only [decTy]
      generalize (if (PL.nodeTy (.union n arms)).align > PL.discSize
        then (PL.nodeTy (.union n arms)).align - PL.discSize else 0) = discpad
      generalize (PL.nodeTy (.union n arms)).size - PL.discSize - discpad = tail
      have h1 := decScalar_good e 4 false data pos rs hpos
      cases hd : decScalar e 4 false data pos rs with
      | ok disc pos1 rs1 =>
        rw [hd] at h1
        obtain ⟨ha, hb, hc⟩ := h1
        simp only
        have h2 : Good data.length pos1 rs1
            (if discpad ≠ 0 then advance discpad data.length pos1 rs1 else .ok () pos1 rs1) := by
          split
          · exact advance_good _ _ _ _ hb
          · exact ⟨Nat.le_refl _, hb, Ext.refl _ _ _ _⟩
        refine Good.mono ha hc ?_
        cases hd2 : (if discpad ≠ 0 then advance discpad data.length pos1 rs1 else DRes.ok () pos1 rs1) with
        | ok u pos2 rs2 =>
          rw [hd2] at h2
          obtain ⟨ha2, hb2, hc2⟩ := h2
          simp only
          refine Good.mono ha2 hc2 ?_
          have h3 := decArms_good e arms disc data pos2 rs2 0 hb2
          cases hd3 : decArms e arms disc data pos2 rs2 0 with
          | ok iv pos3 rs3 =>
            rw [hd3] at h3
            obtain ⟨ha3, hb3, hc3⟩ := h3
            obtain ⟨idx, v⟩ := iv
            simp only
            have h4 := advance_good tail data.length pos2 rs3 hb2
            refine Good.mono (Nat.le_refl _) hc3 ?_
            cases hd4 : advance tail data.length pos2 rs3 with
            | ok u4 pos4 rs4 => rw [hd4] at h4; exact h4
            | fail rs4 => rw [hd4] at h4; exact h4
            | fault => rw [hd4] at h4; exact h4
            | throw rs4 => rw [hd4] at h4; exact h4
          | fail rs3 => rw [hd3] at h3; exact h3
          | fault => rw [hd3] at h3; exact h3
          | throw rs3 => rw [hd3] at h3; exact h3
        | fail rs2 => rw [hd2] at h2; exact h2
        | fault => rw [hd2] at h2; exact h2
        | throw rs2 => rw [hd2] at h2; exact h2
      | fail rs1 => rw [hd] at h1; exact h1
      | fault => rw [hd] at h1; exact h1
      | throw rs1 => rw [hd] at h1; exact h1
  theorem decArms_good (e : Endian) : (arms : List Arm) → ∀ (disc : Int) (data : Bytes) (pos : Nat)
      (rs : List Nat) (idx : Nat), pos ≤ data.length →
      Good data.length pos rs (decArms e arms disc data pos rs idx)
    | [], disc, data, pos, rs, idx, hpos => by
      simp only [decArms]
      exact Ext.refl _ _ _ _
    | .mk _ d t :: r, disc, data, pos, rs, idx, hpos => by
      simp only [decArms]
      split
      · have h1 := decTy_good e t data pos rs hpos
        cases hd : decTy e t data pos rs with
        | mk x p => rw [hd] at h1; cases x <;> exact h1
      · exact decArms_good e r disc data pos rs (idx + 1) hpos
  theorem decMs_good (e : Endian) (all : List Member) : (ms : List Member) →
      ∀ (ls : List (Nat × Nat × Int)) (data : Bytes) (pos : Nat) (rs : List Nat)
        (lens : List (String × Nat)), pos ≤ data.length →
      Good data.length pos rs (decMs e all ms ls data pos rs lens).1
    | [], ls, data, pos, rs, lens, hpos => by
      rw [decMs_nil]
      exact ⟨Nat.le_refl _, hpos, Ext.refl _ _ _ _⟩
    | .mk n t k :: r, [], data, pos, rs, lens, hpos => by
      rw [decMs_nil_layout]
      exact ⟨Nat.le_refl _, hpos, Ext.refl _ _ _ _⟩
    | .mk n t k :: r, (msize, a, padding) :: ls, data, pos, rs, lens, hpos => by
      rw [decMs_cons]
      have h1 := memberStep_good e all n t k msize data pos rs lens (fun q rs' => decTy e t data q rs')
        (fun q rs' hq => decTy_good e t data q rs' hq) hpos
      cases hd : memberStep e all n t k msize data pos rs lens (fun q rs' => decTy e t data q rs') with
      | mk x p =>
        rw [hd] at h1
        cases x with
        | ok vl pos1 rs1 =>
          obtain ⟨v, lens'⟩ := vl
          obtain ⟨ha, hb, hc⟩ := h1
          simp only
          have h2 := padStep_good padding data.length pos1 rs1 hb
          refine Good.mono ha hc ?_
          cases hd2 : padStep padding data.length pos1 rs1 with
          | ok u pos2 rs2 =>
            rw [hd2] at h2
            obtain ⟨ha2, hb2, hc2⟩ := h2
            simp only
            refine Good.mono ha2 hc2 ?_
            have h3 := decMs_good e all r ls data pos2 rs2 lens' hb2
            cases hd3 : decMs e all r ls data pos2 rs2 lens' with
            | mk y p3 => rw [hd3] at h3; cases y <;> exact h3
          | fail rs2 => rw [hd2] at h2; exact h2
          | fault => rw [hd2] at h2; exact h2
          | throw rs2 => rw [hd2] at h2; exact h2
        | fail rs1 => exact h1
        | fault => exact h1
        | throw rs1 => exact h1
end

/-! ### the property theorems -/

/-- C07, any position: started inside the buffer, `decTy` never reads outside it and, when it
    succeeds, leaves the cursor inside the buffer.  No hypothesis on the schema tree or the bytes. -/
theorem decTy_safe (e : Endian) (t : Ty) (data : Bytes) (pos : Nat) (rs : List Nat)
    (hpos : pos ≤ data.length) :
    (Cpp.decTy e t data pos rs).1 ≠ .fault ∧
    ∀ v pos' rs', (Cpp.decTy e t data pos rs).1 = .ok v pos' rs' → pos' ≤ data.length := by
  have h := decTy_good e t data pos rs hpos
  constructor
  · intro hf; rw [hf] at h; exact h
  · intro v pos' rs' hok; rw [hok] at h; exact h.2.1

/-- the cursor never moves backwards -/
theorem decTy_pos_mono (e : Endian) (t : Ty) (data : Bytes) (pos : Nat) (rs : List Nat)
    (hpos : pos ≤ data.length) :
    ∀ v pos' rs', (Cpp.decTy e t data pos rs).1 = .ok v pos' rs' → pos ≤ pos' := by
  have h := decTy_good e t data pos rs hpos
  intro v pos' rs' hok; rw [hok] at h; exact h.1

/-- C07: `message::decode<E>(data, size)` never reads outside `[data, data+size)`, for every
    schema tree and every byte string -/
theorem decode_no_fault (t : Ty) (data : Bytes) (e : Endian) : Cpp.decode t data e ≠ .fault := by
  have h := decTy_good e t data 0 [] (Nat.zero_le _)
  unfold decode
  cases hd : (decTy e t data 0 []).1 with
  | ok v pos rs => simp only; split <;> simp
  | fail rs => simp
  | fault => rw [hd] at h; exact h.elim
  | throw rs => simp

/-- the resize log of a step result (`fault` has none) -/
def DRes.resizes {α : Type} (rs : List Nat) : DRes α → List Nat
  | .ok _ _ rs' => rs'
  | .fail rs' => rs'
  | .fault => rs
  | .throw rs' => rs'

/-- the resize log of a `decode` call -/
def Outcome.resizes : Outcome → List Nat
  | .accepted _ rs => rs
  | .rejected rs => rs
  | .fault => []
  | .exception rs => rs

def DRes.isThrow {α : Type} : DRes α → Bool
  | .throw _ => true
  | _ => false

def Outcome.isException : Outcome → Bool
  | .exception _ => true
  | _ => false

/-- any position, any outcome (success, `return false`, exception): the log after the call is the
    log before it with new requests in front; each new request `n` (elements) is at most the
    number of bytes between the start position of the call and the end of the input; and unless
    the call ends in the exception, each is at most `resizeLimit` -/
theorem decTy_resizes_bounded (e : Endian) (t : Ty) (data : Bytes) (pos : Nat) (rs : List Nat)
    (hpos : pos ≤ data.length) :
    ∃ new, DRes.resizes rs (Cpp.decTy e t data pos rs).1 = new ++ rs ∧
      ∀ n ∈ new, n ≤ data.length - pos ∧
        ((Cpp.decTy e t data pos rs).1.isThrow = false → n ≤ resizeLimit) := by
  have h := decTy_good e t data pos rs hpos
  cases hd : (decTy e t data pos rs).1 with
  | ok v pos' rs' =>
    rw [hd] at h
    obtain ⟨new, h1, h2⟩ := h.2.2
    exact ⟨new, h1, fun n hn => ⟨(h2 n hn).1, fun _ => (h2 n hn).2 rfl⟩⟩
  | fail rs' =>
    rw [hd] at h
    obtain ⟨new, h1, h2⟩ := h
    exact ⟨new, h1, fun n hn => ⟨(h2 n hn).1, fun _ => (h2 n hn).2 rfl⟩⟩
  | fault => rw [hd] at h; exact h.elim
  | throw rs' =>
    rw [hd] at h
    obtain ⟨new, h1, h2⟩ := h
    exact ⟨new, h1, fun n hn => ⟨(h2 n hn).1, fun hc => by simp [DRes.isThrow] at hc⟩⟩

/-- no allocation disproportionate to the input: every `resize(n)` requested while decoding
    (sizer-driven `do_decode_resize` and the greedy `n = (end - pos) / size`; fixed arrays are
    `std::array`s and never resize), whatever the outcome — accepted, rejected or the
    length_error/bad_alloc exception — has `n ≤ data.length` (elements vs. input bytes); and a
    call that does not end in the exception only made requests `≤ resizeLimit` -/
theorem decode_resizes_bounded (t : Ty) (data : Bytes) (e : Endian) :
    ∀ n ∈ (Cpp.decode t data e).resizes,
      n ≤ data.length ∧ ((Cpp.decode t data e).isException = false → n ≤ resizeLimit) := by
  obtain ⟨new, hnew, hb⟩ := decTy_resizes_bounded e t data 0 [] (Nat.zero_le _)
  have key : (Cpp.decode t data e).resizes = new ∧
      (Cpp.decode t data e).isException = (decTy e t data 0 []).1.isThrow := by
    unfold decode
    cases hd : (decTy e t data 0 []).1 with
    | ok v pos rs =>
      rw [hd] at hnew
      simp only [DRes.resizes, List.append_nil] at hnew
      simp only; split <;> simpa [Outcome.resizes, Outcome.isException, DRes.isThrow] using hnew
    | fail rs =>
      rw [hd] at hnew; simpa [Outcome.resizes, DRes.resizes, Outcome.isException, DRes.isThrow] using hnew
    | fault =>
      rw [hd] at hnew; simpa [Outcome.resizes, DRes.resizes, Outcome.isException, DRes.isThrow] using hnew
    | throw rs =>
      rw [hd] at hnew; simpa [Outcome.resizes, DRes.resizes, Outcome.isException, DRes.isThrow] using hnew
  rw [key.1, key.2]
  intro n hn
  have := hb n hn
  exact ⟨by omega, this.2⟩

/-! ## the resize requests fit in BYTES (stronger than `decode_resizes_bounded`)

  `do_decode_resize` refuses a counter `cnt` when `cnt > (end - pos) / elem`, `elem` being the fixed wire size of the
  element type of the array bound to the counter (1 for dynamic elements): `resizeElem`.  So every request it lets
  through - also the one that ends in `length_error`/`bad_alloc` - satisfies `cnt * elem ≤ end - pos`.  The greedy
  `n = (end - pos) / size` satisfies the same with `elem = size`.

  * local: `memberStep_sizer_ok_fits`, `memberStep_sizer_throw_fits`, `memberStep_sizer_fail_log` (the sizer statement
    of `decMs`, see `decMs_cons`), for every struct, counter, position and byte string;
  * global: the log only records the counts, so the element size belonging to an entry is given as "one of the
    element sizes that occur in the schema tree" (`resizeElems t`): `decTy_resizes_fit`, `decode_resizes_fit`;
    corollary `decode_resizes_fit_min`: if every resizable array of the schema has elements of at least `w` wire
    bytes, every request `n` has `n * w ≤ data.length`.  (`w = 1` is the old theorem.) -/

/-- `codec_traits<T>::size > 0 ? size_t(codec_traits<T>::size) : 1` -/
def elemSz (t : Ty) : Nat := if codecSize t > 0 then (codecSize t).toNat else 1

theorem one_le_elemSz (t : Ty) : 1 ≤ elemSz t := by
  unfold elemSz
  split <;> omega

theorem resizeElem_eq (n : String) (all : List Member) :
    resizeElem n all = match all.find? (fun m => m.kind.sizer? = some n) with
      | some m => elemSz m.ty
      | none => 1 := rfl

theorem one_le_resizeElem (n : String) (all : List Member) : 1 ≤ resizeElem n all := by
  rw [resizeElem_eq]
  split
  · exact one_le_elemSz _
  · exact Nat.le_refl _

/-! ### the local fact: the sizer statement -/

theorem decScalar_ok_inv (e : Endian) (k : Nat) (signed : Bool) (data : Bytes) (pos : Nat) (rs : List Nat)
    (c : Int) (pos1 : Nat) (rs1 : List Nat) (hpos : pos ≤ data.length)
    (h : decScalar e k signed data pos rs = .ok c pos1 rs1) :
    pos1 = pos + k ∧ pos1 ≤ data.length ∧ rs1 = rs := by
  unfold decScalar at h
  rw [remaining_of_le hpos] at h
  split at h
  · cases h
  · rename_i hk
    have hfit : pos + k ≤ data.length := by omega
    simp only [readScalar, hfit, if_true] at h
    injection h with _ h2 h3
    exact ⟨h2.symm, by omega, h3.symm⟩

theorem decScalar_log (e : Endian) (k : Nat) (signed : Bool) (data : Bytes) (pos : Nat) (rs : List Nat)
    (hpos : pos ≤ data.length) :
    DRes.resizes rs (decScalar e k signed data pos rs) = rs := by
  unfold decScalar
  rw [remaining_of_le hpos]
  split
  · rfl
  · rename_i hk
    have hfit : pos + k ≤ data.length := by omega
    simp only [readScalar, hfit, if_true]
    rfl

/-- the three ways out of the checks of `do_decode_resize` -/
theorem sizerTail_inv {α : Type} (b : Bool) (cnt el size pos1 : Nat) (rs1 : List Nat) (a : α)
    (hel : 1 ≤ el) (hb : pos1 ≤ size) (r : DRes α) (p : Nat)
    (h : (if b = true then ((DRes.fail rs1 : DRes α), pos1)
       else if cnt > remaining size pos1 / el then (.fail rs1, pos1)
       else if cnt > resizeLimit then (.throw (cnt :: rs1), pos1)
       else (.ok a pos1 (cnt :: rs1), pos1)) = (r, p)) :
    p = pos1 ∧
    (r = .fail rs1 ∨
     (cnt * el ≤ size - pos1 ∧ resizeLimit < cnt ∧ r = .throw (cnt :: rs1)) ∨
     (cnt * el ≤ size - pos1 ∧ cnt ≤ resizeLimit ∧ r = .ok a pos1 (cnt :: rs1))) := by
  rw [remaining_of_le hb] at h
  split at h
  · injection h with h1 h2
    exact ⟨h2.symm, Or.inl h1.symm⟩
  · split at h
    · injection h with h1 h2
      exact ⟨h2.symm, Or.inl h1.symm⟩
    · rename_i hrem
      have hfit : cnt * el ≤ size - pos1 := (Nat.le_div_iff_mul_le (by omega)).1 (by omega)
      split at h
      · rename_i hl
        injection h with h1 h2
        exact ⟨h2.symm, Or.inr (Or.inl ⟨hfit, hl, h1.symm⟩)⟩
      · rename_i hl
        injection h with h1 h2
        exact ⟨h2.symm, Or.inr (Or.inr ⟨hfit, by omega, h1.symm⟩)⟩

/-- everything the sizer statement `do_decode_resize<E, CT>(x.b, pos, end[, max])` of a struct can do, started inside
    the buffer: it returns false without a request, or it made exactly one request `cnt`, with
    `cnt * resizeElem n all ≤` the bytes left after the counter, which either threw (`cnt > resizeLimit`) or went
    through; `p` (where the C++ `pos` is left) is the position after the counter in the last two cases -/
theorem memberStep_sizer_inv (e : Endian) (all : List Member) (n : String) (t : Ty) (msize : Nat)
    (data : Bytes) (pos : Nat) (rs : List Nat) (lens : List (String × Nat))
    (elem : Nat → List Nat → DRes Val × Nat) (hs : isSizer n all = true) (hpos : pos ≤ data.length)
    (r : DRes (Val × List (String × Nat))) (p : Nat)
    (h : memberStep e all n t .plain msize data pos rs lens elem = (r, p)) :
    r = .fail rs ∨
    ∃ cnt, pos ≤ p ∧ p ≤ data.length ∧ cnt * resizeElem n all ≤ data.length - p ∧
      ((resizeLimit < cnt ∧ r = .throw (cnt :: rs)) ∨
       (cnt ≤ resizeLimit ∧ ∃ lens', r = .ok (Val.sizer, lens') p (cnt :: rs))) := by
  unfold memberStep at h
  simp only [hs, if_true] at h
  cases hd : decScalar e (sizerPrimOf n all).size (sizerPrimOf n all).isSigned data pos rs with
  | ok c pos1 rs1 =>
    obtain ⟨h1, h2, h3⟩ := decScalar_ok_inv _ _ _ _ _ _ _ _ _ hpos hd
    subst h3
    rw [hd] at h
    simp only at h
    obtain ⟨hp, hr⟩ := sizerTail_inv _ _ _ _ _ _ _ (one_le_resizeElem n all) h2 _ _ h
    subst hp
    rcases hr with hr | ⟨hfit, hl, hr⟩ | ⟨hfit, hl, hr⟩
    · exact Or.inl hr
    · exact Or.inr ⟨_, by omega, h2, hfit, Or.inl ⟨hl, hr⟩⟩
    · exact Or.inr ⟨_, by omega, h2, hfit, Or.inr ⟨hl, _, hr⟩⟩
  | fail rs1 =>
    have hl := decScalar_log e (sizerPrimOf n all).size (sizerPrimOf n all).isSigned data pos rs hpos
    rw [hd] at h hl
    simp only [DRes.resizes] at hl
    subst hl
    injection h with h1 h2
    exact Or.inl h1.symm
  | fault =>
    exfalso
    have := decScalar_good e (sizerPrimOf n all).size (sizerPrimOf n all).isSigned data pos rs hpos
    rw [hd] at this
    exact this
  | throw rs1 =>
    exfalso
    unfold decScalar at hd
    split at hd
    · cases hd
    · split at hd <;> cases hd

/-- LOCAL, accepted request: whenever the sizer statement of `decMs` returns `.ok` (having pushed `cnt` on the log), the
    request fits in bytes: `cnt * resizeElem n all ≤` the bytes between the end of the counter and the end of the
    input -/
theorem memberStep_sizer_ok_fits (e : Endian) (all : List Member) (n : String) (t : Ty) (msize : Nat)
    (data : Bytes) (pos : Nat) (rs : List Nat) (lens : List (String × Nat))
    (elem : Nat → List Nat → DRes Val × Nat) (hs : isSizer n all = true) (hpos : pos ≤ data.length)
    (v : Val) (lens' : List (String × Nat)) (pos1 : Nat) (rs1 : List Nat) (p : Nat)
    (h : memberStep e all n t .plain msize data pos rs lens elem = (.ok (v, lens') pos1 rs1, p)) :
    ∃ cnt, rs1 = cnt :: rs ∧ pos ≤ pos1 ∧ pos1 ≤ data.length ∧
      cnt * resizeElem n all ≤ data.length - pos1 ∧ cnt ≤ resizeLimit := by
  rcases memberStep_sizer_inv e all n t msize data pos rs lens elem hs hpos _ _ h with hr | ⟨cnt, h1, h2, h3, hr⟩
  · cases hr
  · rcases hr with ⟨_, hr⟩ | ⟨hl, lens'', hr⟩
    · cases hr
    · injection hr with _ hq hrs
      subst hq
      exact ⟨cnt, hrs, h1, h2, h3, hl⟩

/-- LOCAL, request that throws (`std::length_error`/`bad_alloc`): it too was let through by the byte check -/
theorem memberStep_sizer_throw_fits (e : Endian) (all : List Member) (n : String) (t : Ty) (msize : Nat)
    (data : Bytes) (pos : Nat) (rs : List Nat) (lens : List (String × Nat))
    (elem : Nat → List Nat → DRes Val × Nat) (hs : isSizer n all = true) (hpos : pos ≤ data.length)
    (rs1 : List Nat) (p : Nat)
    (h : memberStep e all n t .plain msize data pos rs lens elem = (.throw rs1, p)) :
    ∃ cnt, rs1 = cnt :: rs ∧ pos ≤ p ∧ p ≤ data.length ∧ cnt * resizeElem n all ≤ data.length - p := by
  rcases memberStep_sizer_inv e all n t msize data pos rs lens elem hs hpos _ _ h with hr | ⟨cnt, h1, h2, h3, hr⟩
  · cases hr
  · rcases hr with ⟨_, hr⟩ | ⟨hl, lens'', hr⟩
    · injection hr with hrs
      exact ⟨cnt, hrs, h1, h2, h3⟩
    · cases hr

/-- LOCAL, `return false`: no request was made -/
theorem memberStep_sizer_fail_log (e : Endian) (all : List Member) (n : String) (t : Ty) (msize : Nat)
    (data : Bytes) (pos : Nat) (rs : List Nat) (lens : List (String × Nat))
    (elem : Nat → List Nat → DRes Val × Nat) (hs : isSizer n all = true) (hpos : pos ≤ data.length)
    (rs1 : List Nat) (p : Nat)
    (h : memberStep e all n t .plain msize data pos rs lens elem = (.fail rs1, p)) : rs1 = rs := by
  rcases memberStep_sizer_inv e all n t msize data pos rs lens elem hs hpos _ _ h with hr | ⟨cnt, h1, h2, h3, hr⟩
  · injection hr with hr
  · rcases hr with ⟨_, hr⟩ | ⟨hl, lens'', hr⟩ <;> cases hr

/-- LOCAL, at the level of `decMs` itself: when the statements of a struct from a counter member on succeed, the log
    is `later ++ cnt :: rs` where `cnt` is the counter's request, made at `pos1` (just after the counter), and
    `cnt * resizeElem n all` bytes were there -/
theorem decMs_sizer_ok_fits (e : Endian) (all : List Member) (n : String) (t : Ty) (r : List Member)
    (msize a : Nat) (padding : Int) (ls : List (Nat × Nat × Int)) (data : Bytes) (pos : Nat)
    (rs : List Nat) (lens : List (String × Nat)) (hs : isSizer n all = true) (hpos : pos ≤ data.length)
    (vs : List Val) (pos' : Nat) (rs' : List Nat) (p : Nat)
    (h : decMs e all (.mk n t .plain :: r) ((msize, a, padding) :: ls) data pos rs lens = (.ok vs pos' rs', p)) :
    ∃ cnt pos1 later, rs' = later ++ cnt :: rs ∧ pos ≤ pos1 ∧ pos1 ≤ pos' ∧ pos' ≤ data.length ∧
      cnt * resizeElem n all ≤ data.length - pos1 ∧ cnt ≤ resizeLimit := by
  rw [decMs_cons] at h
  cases hm : memberStep e all n t .plain msize data pos rs lens (fun q rs' => decTy e t data q rs') with
  | mk x p0 =>
    rw [hm] at h
    cases x with
    | ok vl pos1 rs1 =>
      obtain ⟨v, lens'⟩ := vl
      obtain ⟨cnt, hrs1, h1, h2, h3, h4⟩ :=
        memberStep_sizer_ok_fits e all n t msize data pos rs lens _ hs hpos v lens' pos1 rs1 p0 hm
      simp only at h
      have hg2 := padStep_good padding data.length pos1 rs1 h2
      cases hp : padStep padding data.length pos1 rs1 with
      | ok u pos2 rs2 =>
        rw [hp] at h hg2
        obtain ⟨ha2, hb2, new2, e2, _⟩ := hg2
        simp only at h
        have hg3 := decMs_good e all r ls data pos2 rs2 lens' hb2
        cases hd3 : decMs e all r ls data pos2 rs2 lens' with
        | mk y p3 =>
          rw [hd3] at h hg3
          cases y with
          | ok vs3 pos3 rs3 =>
            obtain ⟨ha3, hb3, new3, e3, _⟩ := hg3
            simp only at h
            injection h with h5 _
            injection h5 with _ h6 h7
            subst h6 h7
            exact ⟨cnt, pos1, new3 ++ new2, by simp [e3, e2, hrs1], h1, by omega, hb3, h3, h4⟩
          | fail rs3 => simp at h
          | fault => simp at h
          | throw rs3 => simp at h
      | fail rs2 => rw [hp] at h; simp at h
      | fault => rw [hp] at h; simp at h
      | throw rs2 => rw [hp] at h; simp at h
    | fail rs1 => simp at h
    | fault => simp at h
    | throw rs1 => simp at h

/-! ### the global fact: the invariant with element sizes -/

/- the element sizes `do_decode_resize` / `decoder_greedy` divide by, anywhere in the schema tree -/
mutual
  def resizeElems : Ty → List Nat
    | .struct _ ms => resizeElemsMs ms ms
    | .union _ arms => resizeElemsArms arms
    | _ => []
  def resizeElemsMs (all : List Member) : List Member → List Nat
    | [] => []
    | .mk n t k :: r =>
      (match k with
       | .plain => if isSizer n all then [resizeElem n all] else []
       | .greedy => if codecSize t ≥ 0 then [elemSz t] else []
       | _ => []) ++ resizeElems t ++ resizeElemsMs all r
  def resizeElemsArms : List Arm → List Nat
    | [] => []
    | .mk _ _ t :: r => resizeElems t ++ resizeElemsArms r
end

/-- the resize log `rs'` is `rs` with new entries pushed in front, each of which, multiplied by an element size
    allowed by `S`, is at most `size - pos` -/
def ExtS (S : Nat → Prop) (size pos : Nat) (rs rs' : List Nat) : Prop :=
  ∃ new, rs' = new ++ rs ∧ ∀ n ∈ new, ∃ el, S el ∧ n * el ≤ size - pos

def GoodS {α : Type} (S : Nat → Prop) (size pos : Nat) (rs : List Nat) : DRes α → Prop
  | .ok _ pos' rs' => pos ≤ pos' ∧ pos' ≤ size ∧ ExtS S size pos rs rs'
  | .fail rs' => ExtS S size pos rs rs'
  | .fault => False
  | .throw rs' => ExtS S size pos rs rs'

theorem ExtS.refl (S : Nat → Prop) (size pos : Nat) (rs : List Nat) : ExtS S size pos rs rs :=
  ⟨[], by simp, by simp⟩

theorem ExtS.cons {S : Nat → Prop} {size pos n : Nat} (rs : List Nat) (el : Nat) (hS : S el)
    (h : n * el ≤ size - pos) : ExtS S size pos rs (n :: rs) :=
  ⟨[n], by simp, by intro m hm; simp at hm; subst hm; exact ⟨el, hS, h⟩⟩

theorem ExtS.trans {S : Nat → Prop} {size pos pos1 : Nat} {rs rs1 rs2 : List Nat}
    (h1 : ExtS S size pos rs rs1) (hp : pos ≤ pos1) (h2 : ExtS S size pos1 rs1 rs2) :
    ExtS S size pos rs rs2 := by
  obtain ⟨n1, e1, b1⟩ := h1
  obtain ⟨n2, e2, b2⟩ := h2
  refine ⟨n2 ++ n1, by simp [e1, e2], ?_⟩
  intro n hn
  rcases List.mem_append.1 hn with h | h
  · obtain ⟨el, hs, hb⟩ := b2 n h
    exact ⟨el, hs, by omega⟩
  · exact b1 n h

theorem GoodS.mono {α : Type} {S : Nat → Prop} {size pos pos1 : Nat} {rs rs1 : List Nat} {r : DRes α}
    (hp : pos ≤ pos1) (hx : ExtS S size pos rs rs1) (h : GoodS S size pos1 rs1 r) : GoodS S size pos rs r := by
  cases r with
  | ok a p' rs' =>
    obtain ⟨h1, h2, h3⟩ := h
    exact ⟨by omega, h2, hx.trans hp h3⟩
  | fail rs' => exact hx.trans hp h
  | fault => exact h
  | throw rs' => exact hx.trans hp h

/-- a step that does not touch the log -/
theorem GoodS.of_good {α : Type} (S : Nat → Prop) {size pos : Nat} {rs : List Nat} {r : DRes α}
    (h : Good size pos rs r) (hl : DRes.resizes rs r = rs) : GoodS S size pos rs r := by
  cases r with
  | ok a p' rs' =>
    simp only [DRes.resizes] at hl; subst hl
    exact ⟨h.1, h.2.1, ExtS.refl _ _ _ _⟩
  | fail rs' => simp only [DRes.resizes] at hl; subst hl; exact ExtS.refl _ _ _ _
  | fault => exact h
  | throw rs' => simp only [DRes.resizes] at hl; subst hl; exact ExtS.refl _ _ _ _

theorem decScalar_goodS (S : Nat → Prop) (e : Endian) (k : Nat) (signed : Bool) (data : Bytes) (pos : Nat)
    (rs : List Nat) (hpos : pos ≤ data.length) : GoodS S data.length pos rs (decScalar e k signed data pos rs) :=
  GoodS.of_good S (decScalar_good e k signed data pos rs hpos) (decScalar_log e k signed data pos rs hpos)

theorem advance_goodS (S : Nat → Prop) (n size pos : Nat) (rs : List Nat) (hpos : pos ≤ size) :
    GoodS S size pos rs (advance n size pos rs) := by
  refine GoodS.of_good S (advance_good n size pos rs hpos) ?_
  unfold advance
  split <;> rfl

theorem alignStep_goodS (S : Nat → Prop) (a size pos : Nat) (rs : List Nat) :
    GoodS S size pos rs (alignStep a size pos rs) := by
  refine GoodS.of_good S (alignStep_good a size pos rs) ?_
  unfold alignStep
  simp only
  split <;> rfl

theorem padStep_goodS (S : Nat → Prop) (padding : Int) (size pos : Nat) (rs : List Nat) (hpos : pos ≤ size) :
    GoodS S size pos rs (padStep padding size pos rs) := by
  unfold padStep
  split
  · exact alignStep_goodS _ _ _ _ _
  · split
    · exact advance_goodS _ _ _ _ _ hpos
    · exact ⟨Nat.le_refl _, hpos, ExtS.refl _ _ _ _⟩

theorem retag_goodS {α β : Type} {S : Nat → Prop} {size pos : Nat} {rs : List Nat} (r : DRes α × Nat) (g : α → β)
    (h : GoodS S size pos rs r.1) : GoodS S size pos rs (retag r g).1 := by
  obtain ⟨r, p⟩ := r
  cases r <;> exact h

theorem bind_goodS {α β : Type} {S : Nat → Prop} {size pos : Nat} {rs : List Nat} (r : DRes α)
    (f : α → Nat → List Nat → DRes β) (h : GoodS S size pos rs r)
    (hf : ∀ a pos1 rs1, pos1 ≤ size → GoodS S size pos1 rs1 (f a pos1 rs1)) :
    GoodS S size pos rs (r.bind f) := by
  cases r with
  | ok a p' rs' =>
    obtain ⟨h1, h2, h3⟩ := h
    exact GoodS.mono h1 h3 (hf a p' rs' h2)
  | fail rs' => exact h
  | fault => exact h
  | throw rs' => exact h

theorem decN_goodS (S : Nat → Prop) (f : Nat → List Nat → DRes Val × Nat) (size : Nat)
    (hf : ∀ q rs', q ≤ size → GoodS S size q rs' (f q rs').1) :
    ∀ (n pos : Nat) (rs : List Nat), pos ≤ size → GoodS S size pos rs (decN f n pos rs).1
  | 0, pos, rs, hpos => by
    simp only [decN]
    exact ⟨Nat.le_refl _, hpos, ExtS.refl _ _ _ _⟩
  | n + 1, pos, rs, hpos => by
    have h1 := hf pos rs hpos
    simp only [decN]
    cases hfp : f pos rs with
    | mk r p =>
      rw [hfp] at h1
      cases r with
      | ok v pos1 rs1 =>
        obtain ⟨ha, hb, hc⟩ := h1
        have h2 := decN_goodS S f size hf n pos1 rs1 hb
        simp only
        cases hdn : decN f n pos1 rs1 with
        | mk r2 p2 =>
          rw [hdn] at h2
          cases r2 with
          | ok vs pos2 rs2 =>
            obtain ⟨ha2, hb2, hc2⟩ := h2
            exact ⟨by omega, hb2, hc.trans ha hc2⟩
          | fail rs2 => exact hc.trans ha h2
          | fault => exact h2
          | throw rs2 => exact hc.trans ha h2
      | fail rs1 => exact h1
      | fault => exact h1
      | throw rs1 => exact h1

theorem decGreedyDyn_goodS (S : Nat → Prop) (f : Nat → List Nat → DRes Val × Nat) (size : Nat)
    (hf : ∀ q rs', q ≤ size → GoodS S size q rs' (f q rs').1) :
    ∀ (fuel pos : Nat) (rs : List Nat), pos ≤ size → GoodS S size pos rs (decGreedyDyn f fuel pos rs)
  | 0, pos, rs, hpos => by
    simp only [decGreedyDyn]
    exact ExtS.refl _ _ _ _
  | fuel + 1, pos, rs, hpos => by
    have h1 := hf pos rs hpos
    simp only [decGreedyDyn]
    cases hfp : f pos rs with
    | mk r p =>
      rw [hfp] at h1
      cases r with
      | ok v pos1 rs1 =>
        obtain ⟨ha, hb, hc⟩ := h1
        have h2 := decGreedyDyn_goodS S f size hf fuel pos1 rs1 hb
        simp only
        refine GoodS.mono ha hc (bind_goodS _ _ h2 ?_)
        intro a q rs2 hq
        exact ⟨Nat.le_refl _, hq, ExtS.refl _ _ _ _⟩
      | fail rs1 => exact ⟨Nat.le_refl _, hpos, h1⟩
      | fault => exact h1
      | throw rs1 => exact h1

theorem decArray_goodS (S : Nat → Prop) (f : Nat → List Nat → DRes Val × Nat) (t : Ty) (cnt size pos : Nat)
    (rs : List Nat) (hf : ∀ q rs', q ≤ size → GoodS S size q rs' (f q rs').1) (hpos : pos ≤ size) :
    GoodS S size pos rs (decArray f t cnt size pos rs).1 := by
  have h := decN_goodS S f size hf cnt pos rs hpos
  unfold decArray
  split
  · cases hdn : decN f cnt pos rs with
    | mk r p => rw [hdn] at h; cases r <;> exact h
  · simp only
    split
    · exact ExtS.refl _ _ _ _
    · cases hdn : decN f cnt pos rs with
      | mk r p => rw [hdn] at h; cases r <;> exact h

/-- the greedy count: `n = size_t(end - pos) / size` elements of `size` bytes fit -/
theorem greedy_fits (t : Ty) (x : Nat) (h : codecSize t ≥ 0) : x / (codecSize t).toNat * elemSz t ≤ x := by
  unfold elemSz
  by_cases hc : codecSize t > 0
  · rw [if_pos hc]; exact Nat.div_mul_le_self _ _
  · have h0 : (codecSize t).toNat = 0 := by omega
    rw [if_neg hc, h0, Nat.div_zero]; omega

theorem memberStep_goodS (S : Nat → Prop) (e : Endian) (all : List Member) (n : String) (t : Ty) (k : MKind)
    (msize : Nat) (data : Bytes) (pos : Nat) (rs : List Nat) (lens : List (String × Nat))
    (elem : Nat → List Nat → DRes Val × Nat)
    (hf : ∀ q rs', q ≤ data.length → GoodS S data.length q rs' (elem q rs').1)
    (hsz : k = .plain → isSizer n all = true → S (resizeElem n all))
    (hgr : k = .greedy → codecSize t ≥ 0 → S (elemSz t))
    (hpos : pos ≤ data.length) :
    GoodS S data.length pos rs (memberStep e all n t k msize data pos rs lens elem).1 := by
  cases k with
  | plain =>
    cases hs : isSizer n all with
    | true =>
      cases hm : memberStep e all n t .plain msize data pos rs lens elem with
      | mk r p =>
        rcases memberStep_sizer_inv e all n t msize data pos rs lens elem hs hpos r p hm with
          hr | ⟨cnt, h1, h2, h3, hr⟩
        · subst hr; exact ExtS.refl _ _ _ _
        · have hx : ExtS S data.length pos rs (cnt :: rs) :=
            ExtS.cons rs _ (hsz rfl hs) (by omega)
          rcases hr with ⟨_, hr⟩ | ⟨_, lens', hr⟩
          · subst hr; exact hx
          · subst hr; exact ⟨h1, h2, hx⟩
    | false =>
      unfold memberStep
      simp only [hs, Bool.false_eq_true, if_false]
      exact retag_goodS _ _ (hf pos rs hpos)
  | optional =>
    unfold memberStep
    simp only
    have h1 := decScalar_goodS S e 4 false data pos rs hpos
    cases hd : decScalar e 4 false data pos rs with
    | ok disc pos1 rs1 =>
      rw [hd] at h1
      obtain ⟨ha, hb, hc⟩ := h1
      simp only
      generalize (if cppAlign t > 4 then cppAlign t - 4 else 0) = apad
      have h2 : GoodS S data.length pos1 rs1
          (if apad ≠ 0 then advance apad data.length pos1 rs1 else .ok () pos1 rs1) := by
        split
        · exact advance_goodS _ _ _ _ _ hb
        · exact ⟨Nat.le_refl _, hb, ExtS.refl _ _ _ _⟩
      cases hd2 : (if apad ≠ 0 then advance apad data.length pos1 rs1 else DRes.ok () pos1 rs1) with
      | ok u pos2 rs2 =>
        rw [hd2] at h2
        obtain ⟨ha2, hb2, hc2⟩ := h2
        simp only
        refine GoodS.mono ha hc (GoodS.mono ha2 hc2 ?_)
        split
        · exact retag_goodS _ _ (hf pos2 rs2 hb2)
        · generalize (if codecSize t ≥ 0 then (codecSize t).toNat else sizeMax - 1) = adv
          have h3 := advance_goodS S adv data.length pos2 rs2 hb2
          cases hd3 : advance adv data.length pos2 rs2 with
          | ok u3 pos3 rs3 => rw [hd3] at h3; exact h3
          | fail rs3 => rw [hd3] at h3; exact h3
          | fault => rw [hd3] at h3; exact h3
          | throw rs3 => rw [hd3] at h3; exact h3
      | fail rs2 => rw [hd2] at h2; exact GoodS.mono ha hc h2
      | fault => rw [hd2] at h2; exact h2
      | throw rs2 => rw [hd2] at h2; exact GoodS.mono ha hc h2
    | fail rs1 => rw [hd] at h1; exact h1
    | fault => rw [hd] at h1; exact h1
    | throw rs1 => rw [hd] at h1; exact h1
  | fixed c => exact retag_goodS _ _ (decArray_goodS _ _ _ _ _ _ _ hf hpos)
  | dyn s sh => exact retag_goodS _ _ (decArray_goodS _ _ _ _ _ _ _ hf hpos)
  | limited s l =>
    unfold memberStep
    simp only
    have h1 := decArray_goodS S elem t ((lens.lookup n).getD 0) data.length pos rs hf hpos
    cases hd : decArray elem t ((lens.lookup n).getD 0) data.length pos rs with
    | mk r p =>
      rw [hd] at h1
      cases r with
      | ok v pos1 rs1 =>
        obtain ⟨ha, hb, hc⟩ := h1
        simp only
        have h3 := advance_goodS S msize data.length pos rs1 hpos
        refine GoodS.mono (Nat.le_refl _) hc ?_
        cases hd3 : advance msize data.length pos rs1 with
        | ok u3 pos3 rs3 => rw [hd3] at h3; exact h3
        | fail rs3 => rw [hd3] at h3; exact h3
        | fault => rw [hd3] at h3; exact h3
        | throw rs3 => rw [hd3] at h3; exact h3
      | fail rs1 => exact h1
      | fault => exact h1
      | throw rs1 => exact h1
  | greedy =>
    unfold memberStep
    simp only
    split
    · rename_i hcs
      have hcnt : remaining data.length pos / (codecSize t).toNat * elemSz t ≤ data.length - pos := by
        rw [remaining_of_le hpos]
        exact greedy_fits t _ hcs
      generalize remaining data.length pos / (codecSize t).toNat = cnt at hcnt
      have hx : ExtS S data.length pos rs (cnt :: rs) := ExtS.cons rs _ (hgr rfl hcs) hcnt
      split
      · exact hx
      · exact GoodS.mono (Nat.le_refl _) hx (retag_goodS _ _ (decArray_goodS _ _ _ _ _ _ _ hf hpos))
    · have h1 := decGreedyDyn_goodS S elem data.length hf (data.length + 1) pos rs hpos
      cases hd : decGreedyDyn elem (data.length + 1) pos rs with
      | ok vs pos1 rs1 => rw [hd] at h1; exact h1
      | fail rs1 => rw [hd] at h1; exact h1
      | fault => rw [hd] at h1; exact h1
      | throw rs1 => rw [hd] at h1; exact h1

theorem resizeElemsMs_cons (all : List Member) (n : String) (t : Ty) (k : MKind) (r : List Member) (x : Nat) :
    x ∈ resizeElemsMs all (.mk n t k :: r) ↔
      (k = .plain ∧ isSizer n all = true ∧ x = resizeElem n all) ∨
      (k = .greedy ∧ codecSize t ≥ 0 ∧ x = elemSz t) ∨ x ∈ resizeElems t ∨ x ∈ resizeElemsMs all r := by
  cases k with
  | plain =>
    by_cases hs : isSizer n all = true
    · simp [resizeElemsMs, hs]
    · simp [resizeElemsMs, hs]
  | greedy =>
    by_cases hc : codecSize t ≥ 0
    · simp [resizeElemsMs, hc]
    · simp [resizeElemsMs, hc]
  | _ => simp [resizeElemsMs]

mutual
  theorem decTy_goodS (S : Nat → Prop) (e : Endian) : (t : Ty) → (∀ x ∈ resizeElems t, S x) →
      ∀ (data : Bytes) (pos : Nat) (rs : List Nat),
      pos ≤ data.length → GoodS S data.length pos rs (decTy e t data pos rs).1
    | .prim p, _, data, pos, rs, hpos => by
      simp only [decTy]
      exact bind_goodS _ _ (decScalar_goodS _ _ _ _ _ _ _ hpos)
        (fun a q r hq => ⟨Nat.le_refl _, hq, ExtS.refl _ _ _ _⟩)
    | .byte, _, data, pos, rs, hpos => by
      simp only [decTy]
      exact bind_goodS _ _ (decScalar_goodS _ _ _ _ _ _ _ hpos)
        (fun a q r hq => ⟨Nat.le_refl _, hq, ExtS.refl _ _ _ _⟩)
    | .enum _ _, _, data, pos, rs, hpos => by
      simp only [decTy]
      exact bind_goodS _ _ (decScalar_goodS _ _ _ _ _ _ _ hpos)
        (fun a q r hq => ⟨Nat.le_refl _, hq, ExtS.refl _ _ _ _⟩)
    | .struct _ ms, hS, data, pos, rs, hpos => by
      simp only [decTy]
      exact retag_goodS _ _ (decMs_goodS S e ms ms (by simpa [resizeElems] using hS) _ data pos rs [] hpos)
    | .union n arms, hS, data, pos, rs, hpos => by
      simp only [decTy]
      generalize (if (PL.nodeTy (.union n arms)).align > PL.discSize
        then (PL.nodeTy (.union n arms)).align - PL.discSize else 0) = discpad
      generalize (PL.nodeTy (.union n arms)).size - PL.discSize - discpad = tail
      have h1 := decScalar_goodS S e 4 false data pos rs hpos
      cases hd : decScalar e 4 false data pos rs with
      | ok disc pos1 rs1 =>
        rw [hd] at h1
        obtain ⟨ha, hb, hc⟩ := h1
        simp only
        have h2 : GoodS S data.length pos1 rs1
            (if discpad ≠ 0 then advance discpad data.length pos1 rs1 else .ok () pos1 rs1) := by
          split
          · exact advance_goodS _ _ _ _ _ hb
          · exact ⟨Nat.le_refl _, hb, ExtS.refl _ _ _ _⟩
        refine GoodS.mono ha hc ?_
        cases hd2 : (if discpad ≠ 0 then advance discpad data.length pos1 rs1 else DRes.ok () pos1 rs1) with
        | ok u pos2 rs2 =>
          rw [hd2] at h2
          obtain ⟨ha2, hb2, hc2⟩ := h2
          simp only
          refine GoodS.mono ha2 hc2 ?_
          have h3 := decArms_goodS S e arms (by simpa [resizeElems] using hS) disc data pos2 rs2 0 hb2
          cases hd3 : decArms e arms disc data pos2 rs2 0 with
          | ok iv pos3 rs3 =>
            rw [hd3] at h3
            obtain ⟨ha3, hb3, hc3⟩ := h3
            obtain ⟨idx, v⟩ := iv
            simp only
            have h4 := advance_goodS S tail data.length pos2 rs3 hb2
            refine GoodS.mono (Nat.le_refl _) hc3 ?_
            cases hd4 : advance tail data.length pos2 rs3 with
            | ok u4 pos4 rs4 => rw [hd4] at h4; exact h4
            | fail rs4 => rw [hd4] at h4; exact h4
            | fault => rw [hd4] at h4; exact h4
            | throw rs4 => rw [hd4] at h4; exact h4
          | fail rs3 => rw [hd3] at h3; exact h3
          | fault => rw [hd3] at h3; exact h3
          | throw rs3 => rw [hd3] at h3; exact h3
        | fail rs2 => rw [hd2] at h2; exact h2
        | fault => rw [hd2] at h2; exact h2
        | throw rs2 => rw [hd2] at h2; exact h2
      | fail rs1 => rw [hd] at h1; exact h1
      | fault => rw [hd] at h1; exact h1
      | throw rs1 => rw [hd] at h1; exact h1
  theorem decArms_goodS (S : Nat → Prop) (e : Endian) : (arms : List Arm) → (∀ x ∈ resizeElemsArms arms, S x) →
      ∀ (disc : Int) (data : Bytes) (pos : Nat)
      (rs : List Nat) (idx : Nat), pos ≤ data.length →
      GoodS S data.length pos rs (decArms e arms disc data pos rs idx)
    | [], _, disc, data, pos, rs, idx, hpos => by
      simp only [decArms]
      exact ExtS.refl _ _ _ _
    | .mk _ d t :: r, hS, disc, data, pos, rs, idx, hpos => by
      simp only [decArms]
      split
      · have h1 := decTy_goodS S e t (fun x hx => hS x (by simp [resizeElemsArms, hx])) data pos rs hpos
        cases hd : decTy e t data pos rs with
        | mk x p => rw [hd] at h1; cases x <;> exact h1
      · exact decArms_goodS S e r (fun x hx => hS x (by simp [resizeElemsArms, hx])) disc data pos rs (idx + 1) hpos
  theorem decMs_goodS (S : Nat → Prop) (e : Endian) (all : List Member) : (ms : List Member) →
      (∀ x ∈ resizeElemsMs all ms, S x) →
      ∀ (ls : List (Nat × Nat × Int)) (data : Bytes) (pos : Nat) (rs : List Nat)
        (lens : List (String × Nat)), pos ≤ data.length →
      GoodS S data.length pos rs (decMs e all ms ls data pos rs lens).1
    | [], _, ls, data, pos, rs, lens, hpos => by
      rw [decMs_nil]
      exact ⟨Nat.le_refl _, hpos, ExtS.refl _ _ _ _⟩
    | .mk n t k :: r, _, [], data, pos, rs, lens, hpos => by
      rw [decMs_nil_layout]
      exact ⟨Nat.le_refl _, hpos, ExtS.refl _ _ _ _⟩
    | .mk n t k :: r, hS, (msize, a, padding) :: ls, data, pos, rs, lens, hpos => by
      rw [decMs_cons]
      have h1 := memberStep_goodS S e all n t k msize data pos rs lens (fun q rs' => decTy e t data q rs')
        (fun q rs' hq => decTy_goodS S e t
          (fun x hx => hS x ((resizeElemsMs_cons all n t k r x).2 (Or.inr (Or.inr (Or.inl hx))))) data q rs' hq)
        (fun hk hs => hS _ ((resizeElemsMs_cons all n t k r _).2 (Or.inl ⟨hk, hs, rfl⟩)))
        (fun hk hc => hS _ ((resizeElemsMs_cons all n t k r _).2 (Or.inr (Or.inl ⟨hk, hc, rfl⟩))))
        hpos
      cases hd : memberStep e all n t k msize data pos rs lens (fun q rs' => decTy e t data q rs') with
      | mk x p =>
        rw [hd] at h1
        cases x with
        | ok vl pos1 rs1 =>
          obtain ⟨v, lens'⟩ := vl
          obtain ⟨ha, hb, hc⟩ := h1
          simp only
          have h2 := padStep_goodS S padding data.length pos1 rs1 hb
          refine GoodS.mono ha hc ?_
          cases hd2 : padStep padding data.length pos1 rs1 with
          | ok u pos2 rs2 =>
            rw [hd2] at h2
            obtain ⟨ha2, hb2, hc2⟩ := h2
            simp only
            refine GoodS.mono ha2 hc2 ?_
            have h3 := decMs_goodS S e all r
              (fun x hx => hS x ((resizeElemsMs_cons all n t k r x).2 (Or.inr (Or.inr (Or.inr hx)))))
              ls data pos2 rs2 lens' hb2
            cases hd3 : decMs e all r ls data pos2 rs2 lens' with
            | mk y p3 => rw [hd3] at h3; cases y <;> exact h3
          | fail rs2 => rw [hd2] at h2; exact h2
          | fault => rw [hd2] at h2; exact h2
          | throw rs2 => rw [hd2] at h2; exact h2
        | fail rs1 => exact h1
        | fault => exact h1
        | throw rs1 => exact h1
end

/-! ### the stronger property theorems -/

/-- GLOBAL, any position, any outcome: each new request `n` comes with an element size `el` of the schema tree
    (`resizeElem` of a counter / `codec_traits<T>::size` of a greedy array of fixed-size elements) such that
    `n * el` bytes are available between the start position of the call and the end of the input -/
theorem decTy_resizes_fit (e : Endian) (t : Ty) (data : Bytes) (pos : Nat) (rs : List Nat)
    (hpos : pos ≤ data.length) :
    ∃ new, DRes.resizes rs (Cpp.decTy e t data pos rs).1 = new ++ rs ∧
      ∀ n ∈ new, ∃ el ∈ resizeElems t, n * el ≤ data.length - pos := by
  have h := decTy_goodS (· ∈ resizeElems t) e t (fun x hx => hx) data pos rs hpos
  cases hd : (decTy e t data pos rs).1 with
  | ok v pos' rs' => rw [hd] at h; exact h.2.2
  | fail rs' => rw [hd] at h; exact h
  | fault => rw [hd] at h; exact h.elim
  | throw rs' => rw [hd] at h; exact h

/-- GLOBAL: every `resize(n)` requested by `message::decode<E>(data, size)`, whatever the outcome - accepted, rejected
    or the length_error/bad_alloc exception - is a request for `n` elements of `el` wire bytes each that fit in the
    input, `n * el ≤ size`, for an element size `el` the schema's arrays have -/
theorem decode_resizes_fit (t : Ty) (data : Bytes) (e : Endian) :
    ∀ n ∈ (Cpp.decode t data e).resizes, ∃ el ∈ resizeElems t, n * el ≤ data.length := by
  obtain ⟨new, hnew, hb⟩ := decTy_resizes_fit e t data 0 [] (Nat.zero_le _)
  have key : (Cpp.decode t data e).resizes = new := by
    unfold decode
    cases hd : (decTy e t data 0 []).1 with
    | ok v pos rs =>
      rw [hd] at hnew
      simp only [DRes.resizes, List.append_nil] at hnew
      simp only; split <;> simpa [Outcome.resizes] using hnew
    | fail rs => rw [hd] at hnew; simpa [Outcome.resizes, DRes.resizes] using hnew
    | fault => rw [hd] at hnew; simpa [Outcome.resizes, DRes.resizes] using hnew
    | throw rs => rw [hd] at hnew; simpa [Outcome.resizes, DRes.resizes] using hnew
  rw [key]
  intro n hn
  obtain ⟨el, h1, h2⟩ := hb n hn
  exact ⟨el, h1, by omega⟩

/- every element size is at least 1 -/
mutual
  theorem one_le_resizeElems : (t : Ty) → ∀ el ∈ resizeElems t, 1 ≤ el
    | .prim _, el, h => by simp [resizeElems] at h
    | .byte, el, h => by simp [resizeElems] at h
    | .enum _ _, el, h => by simp [resizeElems] at h
    | .struct _ ms, el, h => one_le_resizeElemsMs ms ms el (by simpa [resizeElems] using h)
    | .union _ arms, el, h => one_le_resizeElemsArms arms el (by simpa [resizeElems] using h)
  theorem one_le_resizeElemsMs (all : List Member) : (ms : List Member) → ∀ el ∈ resizeElemsMs all ms, 1 ≤ el
    | [], el, h => by simp [resizeElemsMs] at h
    | .mk n t k :: r, el, h => by
      rcases (resizeElemsMs_cons all n t k r el).1 h with ⟨_, _, rfl⟩ | ⟨_, _, rfl⟩ | h | h
      · exact one_le_resizeElem n all
      · exact one_le_elemSz t
      · exact one_le_resizeElems t el h
      · exact one_le_resizeElemsMs all r el h
  theorem one_le_resizeElemsArms : (arms : List Arm) → ∀ el ∈ resizeElemsArms arms, 1 ≤ el
    | [], el, h => by simp [resizeElemsArms] at h
    | .mk _ _ t :: r, el, h => by
      simp only [resizeElemsArms, List.mem_append] at h
      rcases h with h | h
      · exact one_le_resizeElems t el h
      · exact one_le_resizeElemsArms r el h
end

/-- GLOBAL, uniform form: if every array of the schema that the decoder resizes (arrays bound to a counter, greedy
    arrays of fixed-size elements; at any depth) has elements of at least `w` wire bytes, then every `resize(n)`
    requested while decoding, whatever the outcome, has `n * w ≤ size` of the input.  With `w = 1` the hypothesis
    always holds (`one_le_resizeElems`) and this is `decode_resizes_bounded`. -/
theorem decode_resizes_fit_min (w : Nat) (t : Ty) (data : Bytes) (e : Endian)
    (hw : ∀ el ∈ resizeElems t, w ≤ el) :
    ∀ n ∈ (Cpp.decode t data e).resizes, n * w ≤ data.length := by
  intro n hn
  obtain ⟨el, h1, h2⟩ := decode_resizes_fit t data e n hn
  exact Nat.le_trans (Nat.mul_le_mul_left n (hw el h1)) h2

end Prophy.Cpp

#print axioms Prophy.Cpp.decTy_safe
#print axioms Prophy.Cpp.decode_no_fault
#print axioms Prophy.Cpp.decode_resizes_bounded
#print axioms Prophy.Cpp.memberStep_sizer_inv
#print axioms Prophy.Cpp.memberStep_sizer_ok_fits
#print axioms Prophy.Cpp.memberStep_sizer_throw_fits
#print axioms Prophy.Cpp.decMs_sizer_ok_fits
#print axioms Prophy.Cpp.decTy_resizes_fit
#print axioms Prophy.Cpp.decode_resizes_fit
#print axioms Prophy.Cpp.decode_resizes_fit_min

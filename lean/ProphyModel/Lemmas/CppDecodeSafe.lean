/-
  C07 — the generated C++ full decoder never reads outside `[data, data+size)`, whatever the
  bytes and whatever the schema tree, and every `resize` it requests is bounded by the number of
  input bytes that are still unread.

  Invariant carried through the whole decoder (`Good size pos rs r`): started with the cursor
  inside the buffer (`pos ≤ size`), a decode step
    * is never `fault`;
    * if it is `ok _ pos' rs'` then `pos ≤ pos' ≤ size` (cursor moves forward, stays inside);
    * in every outcome the resize log only grows at the front, and every new entry `n`
      satisfies `n ≤ size - pos` (`Ext`); unless the outcome is `throw`, also `n ≤ resizeLimit`.

  No hypothesis on the schema tree (`Accept.front`/`Accept.pyRt` are NOT needed) nor on the bytes.
  Caveat of the model, not of the proof: the greedy count `remaining / codecSize t` is Lean's
  total division, so an element type of `codec_traits<T>::size = 0` gives `cnt = 0` here (C++ would
  divide by zero); `Accept.front` rejects empty structs.
-/
import ProphyModel.Cpp
namespace Prophy.Cpp

/-! ### the invariant -/

/-- the resize log `rs'` is `rs` with new entries pushed in front, each at most `size - pos`
    and, when `lim`, at most `resizeLimit` -/
def Ext (lim : Bool) (size pos : Nat) (rs rs' : List Nat) : Prop :=
  ∃ new, rs' = new ++ rs ∧ ∀ n ∈ new, n ≤ size - pos ∧ (lim = true → n ≤ resizeLimit)

def Good {α : Type} (size pos : Nat) (rs : List Nat) : DRes α → Prop
  | .ok _ pos' rs' => pos ≤ pos' ∧ pos' ≤ size ∧ Ext true size pos rs rs'
  | .fail rs' => Ext true size pos rs rs'
  | .fault => False
  | .throw rs' => Ext false size pos rs rs'

theorem Ext.refl (lim : Bool) (size pos : Nat) (rs : List Nat) : Ext lim size pos rs rs :=
  ⟨[], by simp, by simp⟩

theorem Ext.cons {lim : Bool} {size pos n : Nat} (rs : List Nat) (h : n ≤ size - pos)
    (hl : lim = true → n ≤ resizeLimit) : Ext lim size pos rs (n :: rs) :=
  ⟨[n], by simp, by intro m hm; simp at hm; subst hm; exact ⟨h, hl⟩⟩

theorem Ext.trans {lim : Bool} {size pos pos1 : Nat} {rs rs1 rs2 : List Nat}
    (h1 : Ext true size pos rs rs1) (hp : pos ≤ pos1) (h2 : Ext lim size pos1 rs1 rs2) :
    Ext lim size pos rs rs2 := by
  obtain ⟨n1, e1, b1⟩ := h1
  obtain ⟨n2, e2, b2⟩ := h2
  refine ⟨n2 ++ n1, by simp [e1, e2], ?_⟩
  intro n hn
  rcases List.mem_append.1 hn with h | h
  · have := b2 n h; exact ⟨by omega, this.2⟩
  · have := b1 n h; exact ⟨this.1, fun _ => this.2 rfl⟩

theorem Good.mono {α : Type} {size pos pos1 : Nat} {rs rs1 : List Nat} {r : DRes α}
    (hp : pos ≤ pos1) (hx : Ext true size pos rs rs1) (h : Good size pos1 rs1 r) : Good size pos rs r := by
  cases r with
  | ok a p' rs' =>
    obtain ⟨h1, h2, h3⟩ := h
    exact ⟨by omega, h2, hx.trans hp h3⟩
  | fail rs' => exact hx.trans hp h
  | fault => exact h
  | throw rs' => exact hx.trans hp h

theorem remaining_of_le {size pos : Nat} (h : pos ≤ size) : remaining size pos = size - pos := by
  simp [remaining, h]

/-! ### the leaf steps -/

theorem decScalar_good (e : Endian) (k : Nat) (signed : Bool) (data : Bytes) (pos : Nat) (rs : List Nat)
    (hpos : pos ≤ data.length) : Good data.length pos rs (decScalar e k signed data pos rs) := by
  unfold decScalar
  rw [remaining_of_le hpos]
  split
  · exact Ext.refl _ _ _ _
  · rename_i hk
    have hfit : pos + k ≤ data.length := by omega
    simp only [readScalar, hfit, if_true]
    exact ⟨by omega, hfit, Ext.refl _ _ _ _⟩

theorem advance_good (n size pos : Nat) (rs : List Nat) (hpos : pos ≤ size) :
    Good size pos rs (advance n size pos rs) := by
  unfold advance
  rw [remaining_of_le hpos]
  split
  · exact Ext.refl _ _ _ _
  · exact ⟨by omega, by omega, Ext.refl _ _ _ _⟩

theorem alignStep_good (a size pos : Nat) (rs : List Nat) :
    Good size pos rs (alignStep a size pos rs) := by
  unfold alignStep
  simp only
  split
  · exact Ext.refl _ _ _ _
  · exact ⟨by omega, by omega, Ext.refl _ _ _ _⟩

theorem retag_good {α β : Type} {size pos : Nat} {rs : List Nat} (r : DRes α × Nat) (g : α → β)
    (h : Good size pos rs r.1) : Good size pos rs (retag r g).1 := by
  obtain ⟨r, p⟩ := r
  cases r <;> exact h

theorem bind_good {α β : Type} {size pos : Nat} {rs : List Nat} (r : DRes α)
    (f : α → Nat → List Nat → DRes β) (h : Good size pos rs r)
    (hf : ∀ a pos1 rs1, pos1 ≤ size → Good size pos1 rs1 (f a pos1 rs1)) :
    Good size pos rs (r.bind f) := by
  cases r with
  | ok a p' rs' =>
    obtain ⟨h1, h2, h3⟩ := h
    exact Good.mono h1 h3 (hf a p' rs' h2)
  | fail rs' => exact h
  | fault => exact h
  | throw rs' => exact h

/-! ### loops -/

theorem decN_good (f : Nat → List Nat → DRes Val × Nat) (size : Nat)
    (hf : ∀ q rs', q ≤ size → Good size q rs' (f q rs').1) :
    ∀ (n pos : Nat) (rs : List Nat), pos ≤ size → Good size pos rs (decN f n pos rs).1
  | 0, pos, rs, hpos => by
    simp only [decN]
    exact ⟨Nat.le_refl _, hpos, Ext.refl _ _ _ _⟩
  | n + 1, pos, rs, hpos => by
    have h1 := hf pos rs hpos
    simp only [decN]
    cases hfp : f pos rs with
    | mk r p =>
      rw [hfp] at h1
      cases r with
      | ok v pos1 rs1 =>
        obtain ⟨ha, hb, hc⟩ := h1
        have h2 := decN_good f size hf n pos1 rs1 hb
        simp only
        cases hdn : decN f n pos1 rs1 with
        | mk r2 p2 =>
          rw [hdn] at h2
          cases r2 with
          | ok vs pos2 rs2 =>
            obtain ⟨ha2, hb2, hc2⟩ := h2
            exact ⟨by omega, hb2, hc.trans ha hc2⟩
          | fail rs2 => exact hc.trans ha h2
          | fault => exact h2
          | throw rs2 => exact hc.trans ha h2
      | fail rs1 => exact h1
      | fault => exact h1
      | throw rs1 => exact h1

theorem decGreedyDyn_good (f : Nat → List Nat → DRes Val × Nat) (size : Nat)
    (hf : ∀ q rs', q ≤ size → Good size q rs' (f q rs').1) :
    ∀ (fuel pos : Nat) (rs : List Nat), pos ≤ size → Good size pos rs (decGreedyDyn f fuel pos rs)
  | 0, pos, rs, hpos => by
    simp only [decGreedyDyn]
    exact Ext.refl _ _ _ _
  | fuel + 1, pos, rs, hpos => by
    have h1 := hf pos rs hpos
    simp only [decGreedyDyn]
    cases hfp : f pos rs with
    | mk r p =>
      rw [hfp] at h1
      cases r with
      | ok v pos1 rs1 =>
        obtain ⟨ha, hb, hc⟩ := h1
        have h2 := decGreedyDyn_good f size hf fuel pos1 rs1 hb
        simp only
        refine Good.mono ha hc (bind_good _ _ h2 ?_)
        intro a q rs2 hq
        exact ⟨Nat.le_refl _, hq, Ext.refl _ _ _ _⟩
      | fail rs1 => exact ⟨Nat.le_refl _, hpos, h1⟩
      | fault => exact h1
      | throw rs1 => exact h1

theorem decArray_good (f : Nat → List Nat → DRes Val × Nat) (t : Ty) (cnt size pos : Nat) (rs : List Nat)
    (hf : ∀ q rs', q ≤ size → Good size q rs' (f q rs').1) (hpos : pos ≤ size) :
    Good size pos rs (decArray f t cnt size pos rs).1 := by
  have h := decN_good f size hf cnt pos rs hpos
  unfold decArray
  split
  · cases hdn : decN f cnt pos rs with
    | mk r p => rw [hdn] at h; cases r <;> exact h
  · simp only
    split
    · exact Ext.refl _ _ _ _
    · cases hdn : decN f cnt pos rs with
      | mk r p => rw [hdn] at h; cases r <;> exact h


/-! ### one member statement, with the element decoder abstracted -/

/-- the `step` of `decMs` with `decTy e t data` replaced by `elem` -/
def memberStep (e : Endian) (all : List Member) (n : String) (t : Ty) (k : MKind) (msize : Nat)
    (data : Bytes) (pos : Nat) (rs : List Nat) (lens : List (String × Nat))
    (elem : Nat → List Nat → DRes Val × Nat) : DRes (Val × List (String × Nat)) × Nat :=
  let size := data.length
  match k with
  | .plain =>
    if isSizer n all then
      let p := sizerPrimOf n all
      match decScalar e p.size p.isSigned data pos rs with
      | .ok c pos1 rs1 =>
        let cnt : Nat := if c < 0 then sizeMax - c.natAbs else c.toNat
        let lim : Option Nat := (all.find? (fun m => m.kind.sizer? = some n)).bind fun m =>
          match m.kind with
          | .limited _ l => some l
          | _ => none
        if (match lim with | some l => decide (cnt > l) | none => false) then (.fail rs1, pos1)
        else if cnt > remaining size pos1 then (.fail rs1, pos1)
        else if cnt > resizeLimit then (.throw (cnt :: rs1), pos1)
        else
          let bound := all.filterMap (fun m => if m.kind.sizer? = some n then some (m.name, cnt) else none)
          (.ok (Val.sizer, bound ++ lens) pos1 (cnt :: rs1), pos1)
      | .fail rs1 => (.fail rs1, pos)
      | .fault => (.fault, pos)
      | .throw rs1 => (.throw rs1, pos)
    else retag (elem pos rs) (fun v => (v, lens))
  | .optional =>
    match decScalar e 4 false data pos rs with
    | .ok disc pos1 rs1 =>
      let apad := if cppAlign t > 4 then cppAlign t - 4 else 0
      match (if apad ≠ 0 then advance apad size pos1 rs1 else .ok () pos1 rs1) with
      | .ok _ pos2 rs2 =>
        if disc ≠ 0 then retag (elem pos2 rs2) (fun v => (Val.present v, lens))
        else
          match advance (if codecSize t ≥ 0 then (codecSize t).toNat else sizeMax - 1) size pos2 rs2 with
          | .ok _ pos3 rs3 => (.ok (Val.absent, lens) pos3 rs3, pos3)
          | .fail rs3 => (.fail rs3, pos2)
          | .fault => (.fault, pos2)
          | .throw rs3 => (.throw rs3, pos2)
      | .fail rs2 => (.fail rs2, pos1)
      | .fault => (.fault, pos1)
      | .throw rs2 => (.throw rs2, pos1)
    | .fail rs1 => (.fail rs1, pos)
    | .fault => (.fault, pos)
    | .throw rs1 => (.throw rs1, pos)
  | .fixed c => retag (decArray elem t c size pos rs) (fun v => (v, lens))
  | .dyn _ _ => retag (decArray elem t ((lens.lookup n).getD 0) size pos rs) (fun v => (v, lens))
  | .limited _ _ =>
    match decArray elem t ((lens.lookup n).getD 0) size pos rs with
    | (.ok v _ rs1, _) =>
      match advance msize size pos rs1 with
      | .ok _ pos2 rs2 => (.ok (v, lens) pos2 rs2, pos2)
      | .fail rs2 => (.fail rs2, pos)
      | .fault => (.fault, pos)
      | .throw rs2 => (.throw rs2, pos)
    | (.fail rs1, _) => (.fail rs1, pos)
    | (.fault, _) => (.fault, pos)
    | (.throw rs1, _) => (.throw rs1, pos)
  | .greedy =>
    if codecSize t ≥ 0 then
      let cnt := remaining size pos / (codecSize t).toNat
      if cnt > resizeLimit then (.throw (cnt :: rs), pos)
      else retag (decArray elem t cnt size pos (cnt :: rs)) (fun v => (v, lens))
    else
      match decGreedyDyn elem (size + 1) pos rs with
      | .ok vs pos1 rs1 => (.ok (Val.arr vs, lens) pos1 rs1, pos1)
      | .fail rs1 => (.fail rs1, pos)
      | .fault => (.fault, pos)
      | .throw rs1 => (.throw rs1, pos)

/-- the padding statement after a member -/
def padStep (padding : Int) (size pos1 : Nat) (rs1 : List Nat) : DRes Unit :=
  if padding < 0 then alignStep padding.natAbs size pos1 rs1
  else if padding > 0 then advance padding.toNat size pos1 rs1
  else .ok () pos1 rs1

theorem decMs_cons (e : Endian) (all : List Member) (n : String) (t : Ty) (k : MKind) (r : List Member)
    (msize a : Nat) (padding : Int) (ls : List (Nat × Nat × Int)) (data : Bytes) (pos : Nat)
    (rs : List Nat) (lens : List (String × Nat)) :
    decMs e all (.mk n t k :: r) ((msize, a, padding) :: ls) data pos rs lens =
      match memberStep e all n t k msize data pos rs lens (fun q rs' => decTy e t data q rs') with
      | (.ok (v, lens') pos1 rs1, _) =>
        match padStep padding data.length pos1 rs1 with
        | .ok _ pos2 rs2 =>
          match decMs e all r ls data pos2 rs2 lens' with
          | (.ok vs pos3 rs3, p) => (.ok (v :: vs) pos3 rs3, p)
          | other => other
        | .fail rs2 => (.fail rs2, pos1)
        | .fault => (.fault, pos1)
        | .throw rs2 => (.throw rs2, pos1)
      | (.fail rs1, p) => (.fail rs1, p)
      | (.fault, p) => (.fault, p)
      | (.throw rs1, p) => (.throw rs1, p) := by
  cases k <;> rw [decMs] <;> rfl


theorem padStep_good (padding : Int) (size pos : Nat) (rs : List Nat) (hpos : pos ≤ size) :
    Good size pos rs (padStep padding size pos rs) := by
  unfold padStep
  split
  · exact alignStep_good _ _ _ _
  · split
    · exact advance_good _ _ _ _ hpos
    · exact ⟨Nat.le_refl _, hpos, Ext.refl _ _ _ _⟩

theorem sizerTail_good {α : Type} (b : Bool) (cnt size pos pos1 : Nat) (rs rs1 : List Nat) (a : α)
    (ha : pos ≤ pos1) (hb : pos1 ≤ size) (hc : Ext true size pos rs rs1) :
    Good size pos rs
      (if b = true then ((DRes.fail rs1 : DRes α), pos1)
       else if cnt > remaining size pos1 then (.fail rs1, pos1)
       else if cnt > resizeLimit then (.throw (cnt :: rs1), pos1)
       else (.ok a pos1 (cnt :: rs1), pos1)).1 := by
  split
  · exact hc
  · split
    · exact hc
    · rename_i hrem
      rw [remaining_of_le hb] at hrem
      split
      · rename_i hl
        exact hc.trans (Nat.le_refl _) (Ext.cons _ (by omega) (by simp))
      · rename_i hl
        exact ⟨ha, hb, hc.trans (Nat.le_refl _) (Ext.cons _ (by omega) (fun _ => by omega))⟩

theorem memberStep_good (e : Endian) (all : List Member) (n : String) (t : Ty) (k : MKind) (msize : Nat)
    (data : Bytes) (pos : Nat) (rs : List Nat) (lens : List (String × Nat))
    (elem : Nat → List Nat → DRes Val × Nat)
    (hf : ∀ q rs', q ≤ data.length → Good data.length q rs' (elem q rs').1)
    (hpos : pos ≤ data.length) :
    Good data.length pos rs (memberStep e all n t k msize data pos rs lens elem).1 := by
  unfold memberStep
  cases k with
  | plain =>
    simp only
    split
    · have h1 := decScalar_good e (sizerPrimOf n all).size (sizerPrimOf n all).isSigned data pos rs hpos
      cases hd : decScalar e (sizerPrimOf n all).size (sizerPrimOf n all).isSigned data pos rs with
      | ok c pos1 rs1 =>
        rw [hd] at h1
        obtain ⟨ha, hb, hc⟩ := h1
        simp only
        exact sizerTail_good _ _ _ _ _ _ _ _ ha hb hc
      | fail rs1 => rw [hd] at h1; exact h1
      | fault => rw [hd] at h1; exact h1
      | throw rs1 => rw [hd] at h1; exact h1
    · exact retag_good _ _ (hf pos rs hpos)
  | optional =>
    simp only
    have h1 := decScalar_good e 4 false data pos rs hpos
    cases hd : decScalar e 4 false data pos rs with
    | ok disc pos1 rs1 =>
      rw [hd] at h1
      obtain ⟨ha, hb, hc⟩ := h1
      simp only
      generalize (if cppAlign t > 4 then cppAlign t - 4 else 0) = apad
      have h2 : Good data.length pos1 rs1
          (if apad ≠ 0 then advance apad data.length pos1 rs1 else .ok () pos1 rs1) := by
        split
        · exact advance_good _ _ _ _ hb
        · exact ⟨Nat.le_refl _, hb, Ext.refl _ _ _ _⟩
      cases hd2 : (if apad ≠ 0 then advance apad data.length pos1 rs1 else DRes.ok () pos1 rs1) with
      | ok u pos2 rs2 =>
        rw [hd2] at h2
        obtain ⟨ha2, hb2, hc2⟩ := h2
        simp only
        refine Good.mono ha hc (Good.mono ha2 hc2 ?_)
        split
        · exact retag_good _ _ (hf pos2 rs2 hb2)
        · generalize (if codecSize t ≥ 0 then (codecSize t).toNat else sizeMax - 1) = adv
          have h3 := advance_good adv data.length pos2 rs2 hb2
          cases hd3 : advance adv data.length pos2 rs2 with
          | ok u3 pos3 rs3 => rw [hd3] at h3; exact h3
          | fail rs3 => rw [hd3] at h3; exact h3
          | fault => rw [hd3] at h3; exact h3
          | throw rs3 => rw [hd3] at h3; exact h3
      | fail rs2 => rw [hd2] at h2; exact Good.mono ha hc h2
      | fault => rw [hd2] at h2; exact h2
      | throw rs2 => rw [hd2] at h2; exact Good.mono ha hc h2
    | fail rs1 => rw [hd] at h1; exact h1
    | fault => rw [hd] at h1; exact h1
    | throw rs1 => rw [hd] at h1; exact h1
  | fixed c => exact retag_good _ _ (decArray_good _ _ _ _ _ _ hf hpos)
  | dyn s sh => exact retag_good _ _ (decArray_good _ _ _ _ _ _ hf hpos)
  | limited s l =>
    simp only
    have h1 := decArray_good elem t ((lens.lookup n).getD 0) data.length pos rs hf hpos
    cases hd : decArray elem t ((lens.lookup n).getD 0) data.length pos rs with
    | mk r p =>
      rw [hd] at h1
      cases r with
      | ok v pos1 rs1 =>
        obtain ⟨ha, hb, hc⟩ := h1
        simp only
        have h3 := advance_good msize data.length pos rs1 hpos
        refine Good.mono (Nat.le_refl _) hc ?_
        cases hd3 : advance msize data.length pos rs1 with
        | ok u3 pos3 rs3 => rw [hd3] at h3; exact h3
        | fail rs3 => rw [hd3] at h3; exact h3
        | fault => rw [hd3] at h3; exact h3
        | throw rs3 => rw [hd3] at h3; exact h3
      | fail rs1 => exact h1
      | fault => exact h1
      | throw rs1 => exact h1
  | greedy =>
    simp only
    split
    · have hcnt : remaining data.length pos / (codecSize t).toNat ≤ data.length - pos := by
        rw [remaining_of_le hpos]
        exact Nat.div_le_self _ _
      generalize remaining data.length pos / (codecSize t).toNat = cnt at hcnt
      split
      · exact Ext.cons _ hcnt (by simp)
      · rename_i hl
        exact Good.mono (Nat.le_refl _) (Ext.cons _ hcnt (fun _ => by omega))
          (retag_good _ _ (decArray_good _ _ _ _ _ _ hf hpos))
    · have h1 := decGreedyDyn_good elem data.length hf (data.length + 1) pos rs hpos
      cases hd : decGreedyDyn elem (data.length + 1) pos rs with
      | ok vs pos1 rs1 => rw [hd] at h1; exact h1
      | fail rs1 => rw [hd] at h1; exact h1
      | fault => rw [hd] at h1; exact h1
      | throw rs1 => rw [hd] at h1; exact h1


/-! ### the decoder -/

theorem decMs_nil (e : Endian) (all : List Member) (ls : List (Nat × Nat × Int)) (data : Bytes) (pos : Nat)
    (rs : List Nat) (lens : List (String × Nat)) :
    decMs e all [] ls data pos rs lens = (.ok [] pos rs, pos) := by
  rw [decMs]
  intros; simp_all

theorem decMs_nil_layout (e : Endian) (all : List Member) (ms : List Member) (data : Bytes) (pos : Nat)
    (rs : List Nat) (lens : List (String × Nat)) :
    decMs e all ms [] data pos rs lens = (.ok [] pos rs, pos) := by
  rw [decMs]
  intros; simp_all

mutual
  theorem decTy_good (e : Endian) : (t : Ty) → ∀ (data : Bytes) (pos : Nat) (rs : List Nat),
      pos ≤ data.length → Good data.length pos rs (decTy e t data pos rs).1
    | .prim p, data, pos, rs, hpos => by
      simp only [decTy]
      exact bind_good _ _ (decScalar_good _ _ _ _ _ _ hpos)
        (fun a q r hq => ⟨Nat.le_refl _, hq, Ext.refl _ _ _ _⟩)
    | .byte, data, pos, rs, hpos => by
      simp only [decTy]
      exact bind_good _ _ (decScalar_good _ _ _ _ _ _ hpos)
        (fun a q r hq => ⟨Nat.le_refl _, hq, Ext.refl _ _ _ _⟩)
    | .enum _ _, data, pos, rs, hpos => by
      simp only [decTy]
      exact bind_good _ _ (decScalar_good _ _ _ _ _ _ hpos)
        (fun a q r hq => ⟨Nat.le_refl _, hq, Ext.refl _ _ _ _⟩)
    | .struct _ ms, data, pos, rs, hpos => by
      simp only [decTy]
      exact retag_good _ _ (decMs_good e ms ms _ data pos rs [] hpos)
    | .union n arms, data, pos, rs, hpos => by
      simp only [decTy]
      generalize (if (PL.nodeTy (.union n arms)).align > PL.discSize
        then (PL.nodeTy (.union n arms)).align - PL.discSize else 0) = discpad
      generalize (PL.nodeTy (.union n arms)).size - PL.discSize - discpad = tail
      have h1 := decScalar_good e 4 false data pos rs hpos
      cases hd : decScalar e 4 false data pos rs with
      | ok disc pos1 rs1 =>
        rw [hd] at h1
        obtain ⟨ha, hb, hc⟩ := h1
        simp only
        have h2 : Good data.length pos1 rs1
            (if discpad ≠ 0 then advance discpad data.length pos1 rs1 else .ok () pos1 rs1) := by
          split
          · exact advance_good _ _ _ _ hb
          · exact ⟨Nat.le_refl _, hb, Ext.refl _ _ _ _⟩
        refine Good.mono ha hc ?_
        cases hd2 : (if discpad ≠ 0 then advance discpad data.length pos1 rs1 else DRes.ok () pos1 rs1) with
        | ok u pos2 rs2 =>
          rw [hd2] at h2
          obtain ⟨ha2, hb2, hc2⟩ := h2
          simp only
          refine Good.mono ha2 hc2 ?_
          have h3 := decArms_good e arms disc data pos2 rs2 0 hb2
          cases hd3 : decArms e arms disc data pos2 rs2 0 with
          | ok iv pos3 rs3 =>
            rw [hd3] at h3
            obtain ⟨ha3, hb3, hc3⟩ := h3
            obtain ⟨idx, v⟩ := iv
            simp only
            have h4 := advance_good tail data.length pos2 rs3 hb2
            refine Good.mono (Nat.le_refl _) hc3 ?_
            cases hd4 : advance tail data.length pos2 rs3 with
            | ok u4 pos4 rs4 => rw [hd4] at h4; exact h4
            | fail rs4 => rw [hd4] at h4; exact h4
            | fault => rw [hd4] at h4; exact h4
            | throw rs4 => rw [hd4] at h4; exact h4
          | fail rs3 => rw [hd3] at h3; exact h3
          | fault => rw [hd3] at h3; exact h3
          | throw rs3 => rw [hd3] at h3; exact h3
        | fail rs2 => rw [hd2] at h2; exact h2
        | fault => rw [hd2] at h2; exact h2
        | throw rs2 => rw [hd2] at h2; exact h2
      | fail rs1 => rw [hd] at h1; exact h1
      | fault => rw [hd] at h1; exact h1
      | throw rs1 => rw [hd] at h1; exact h1
  theorem decArms_good (e : Endian) : (arms : List Arm) → ∀ (disc : Int) (data : Bytes) (pos : Nat)
      (rs : List Nat) (idx : Nat), pos ≤ data.length →
      Good data.length pos rs (decArms e arms disc data pos rs idx)
    | [], disc, data, pos, rs, idx, hpos => by
      simp only [decArms]
      exact Ext.refl _ _ _ _
    | .mk _ d t :: r, disc, data, pos, rs, idx, hpos => by
      simp only [decArms]
      split
      · have h1 := decTy_good e t data pos rs hpos
        cases hd : decTy e t data pos rs with
        | mk x p => rw [hd] at h1; cases x <;> exact h1
      · exact decArms_good e r disc data pos rs (idx + 1) hpos
  theorem decMs_good (e : Endian) (all : List Member) : (ms : List Member) →
      ∀ (ls : List (Nat × Nat × Int)) (data : Bytes) (pos : Nat) (rs : List Nat)
        (lens : List (String × Nat)), pos ≤ data.length →
      Good data.length pos rs (decMs e all ms ls data pos rs lens).1
    | [], ls, data, pos, rs, lens, hpos => by
      rw [decMs_nil]
      exact ⟨Nat.le_refl _, hpos, Ext.refl _ _ _ _⟩
    | .mk n t k :: r, [], data, pos, rs, lens, hpos => by
      rw [decMs_nil_layout]
      exact ⟨Nat.le_refl _, hpos, Ext.refl _ _ _ _⟩
    | .mk n t k :: r, (msize, a, padding) :: ls, data, pos, rs, lens, hpos => by
      rw [decMs_cons]
      have h1 := memberStep_good e all n t k msize data pos rs lens (fun q rs' => decTy e t data q rs')
        (fun q rs' hq => decTy_good e t data q rs' hq) hpos
      cases hd : memberStep e all n t k msize data pos rs lens (fun q rs' => decTy e t data q rs') with
      | mk x p =>
        rw [hd] at h1
        cases x with
        | ok vl pos1 rs1 =>
          obtain ⟨v, lens'⟩ := vl
          obtain ⟨ha, hb, hc⟩ := h1
          simp only
          have h2 := padStep_good padding data.length pos1 rs1 hb
          refine Good.mono ha hc ?_
          cases hd2 : padStep padding data.length pos1 rs1 with
          | ok u pos2 rs2 =>
            rw [hd2] at h2
            obtain ⟨ha2, hb2, hc2⟩ := h2
            simp only
            refine Good.mono ha2 hc2 ?_
            have h3 := decMs_good e all r ls data pos2 rs2 lens' hb2
            cases hd3 : decMs e all r ls data pos2 rs2 lens' with
            | mk y p3 => rw [hd3] at h3; cases y <;> exact h3
          | fail rs2 => rw [hd2] at h2; exact h2
          | fault => rw [hd2] at h2; exact h2
          | throw rs2 => rw [hd2] at h2; exact h2
        | fail rs1 => exact h1
        | fault => exact h1
        | throw rs1 => exact h1
end

/-! ### the property theorems -/

/-- C07, any position: started inside the buffer, `decTy` never reads outside it and, when it
    succeeds, leaves the cursor inside the buffer.  No hypothesis on the schema tree or the bytes. -/
theorem decTy_safe (e : Endian) (t : Ty) (data : Bytes) (pos : Nat) (rs : List Nat)
    (hpos : pos ≤ data.length) :
    (Cpp.decTy e t data pos rs).1 ≠ .fault ∧
    ∀ v pos' rs', (Cpp.decTy e t data pos rs).1 = .ok v pos' rs' → pos' ≤ data.length := by
  have h := decTy_good e t data pos rs hpos
  constructor
  · intro hf; rw [hf] at h; exact h
  · intro v pos' rs' hok; rw [hok] at h; exact h.2.1

/-- the cursor never moves backwards -/
theorem decTy_pos_mono (e : Endian) (t : Ty) (data : Bytes) (pos : Nat) (rs : List Nat)
    (hpos : pos ≤ data.length) :
    ∀ v pos' rs', (Cpp.decTy e t data pos rs).1 = .ok v pos' rs' → pos ≤ pos' := by
  have h := decTy_good e t data pos rs hpos
  intro v pos' rs' hok; rw [hok] at h; exact h.1

/-- C07: `message::decode<E>(data, size)` never reads outside `[data, data+size)`, for every
    schema tree and every byte string -/
theorem decode_no_fault (t : Ty) (data : Bytes) (e : Endian) : Cpp.decode t data e ≠ .fault := by
  have h := decTy_good e t data 0 [] (Nat.zero_le _)
  unfold decode
  cases hd : (decTy e t data 0 []).1 with
  | ok v pos rs => simp only; split <;> simp
  | fail rs => simp
  | fault => rw [hd] at h; exact h.elim
  | throw rs => simp

/-- the resize log of a step result (`fault` has none) -/
def DRes.resizes {α : Type} (rs : List Nat) : DRes α → List Nat
  | .ok _ _ rs' => rs'
  | .fail rs' => rs'
  | .fault => rs
  | .throw rs' => rs'

/-- the resize log of a `decode` call -/
def Outcome.resizes : Outcome → List Nat
  | .accepted _ rs => rs
  | .rejected rs => rs
  | .fault => []
  | .exception rs => rs

def DRes.isThrow {α : Type} : DRes α → Bool
  | .throw _ => true
  | _ => false

def Outcome.isException : Outcome → Bool
  | .exception _ => true
  | _ => false

/-- any position, any outcome (success, `return false`, exception): the log after the call is the
    log before it with new requests in front; each new request `n` (elements) is at most the
    number of bytes between the start position of the call and the end of the input; and unless
    the call ends in the exception, each is at most `resizeLimit` -/
theorem decTy_resizes_bounded (e : Endian) (t : Ty) (data : Bytes) (pos : Nat) (rs : List Nat)
    (hpos : pos ≤ data.length) :
    ∃ new, DRes.resizes rs (Cpp.decTy e t data pos rs).1 = new ++ rs ∧
      ∀ n ∈ new, n ≤ data.length - pos ∧
        ((Cpp.decTy e t data pos rs).1.isThrow = false → n ≤ resizeLimit) := by
  have h := decTy_good e t data pos rs hpos
  cases hd : (decTy e t data pos rs).1 with
  | ok v pos' rs' =>
    rw [hd] at h
    obtain ⟨new, h1, h2⟩ := h.2.2
    exact ⟨new, h1, fun n hn => ⟨(h2 n hn).1, fun _ => (h2 n hn).2 rfl⟩⟩
  | fail rs' =>
    rw [hd] at h
    obtain ⟨new, h1, h2⟩ := h
    exact ⟨new, h1, fun n hn => ⟨(h2 n hn).1, fun _ => (h2 n hn).2 rfl⟩⟩
  | fault => rw [hd] at h; exact h.elim
  | throw rs' =>
    rw [hd] at h
    obtain ⟨new, h1, h2⟩ := h
    exact ⟨new, h1, fun n hn => ⟨(h2 n hn).1, fun hc => by simp [DRes.isThrow] at hc⟩⟩

/-- no allocation disproportionate to the input: every `resize(n)` requested while decoding
    (sizer-driven `do_decode_resize` and the greedy `n = (end - pos) / size`; fixed arrays are
    `std::array`s and never resize), whatever the outcome — accepted, rejected or the
    length_error/bad_alloc exception — has `n ≤ data.length` (elements vs. input bytes); and a
    call that does not end in the exception only made requests `≤ resizeLimit` -/
theorem decode_resizes_bounded (t : Ty) (data : Bytes) (e : Endian) :
    ∀ n ∈ (Cpp.decode t data e).resizes,
      n ≤ data.length ∧ ((Cpp.decode t data e).isException = false → n ≤ resizeLimit) := by
  obtain ⟨new, hnew, hb⟩ := decTy_resizes_bounded e t data 0 [] (Nat.zero_le _)
  have key : (Cpp.decode t data e).resizes = new ∧
      (Cpp.decode t data e).isException = (decTy e t data 0 []).1.isThrow := by
    unfold decode
    cases hd : (decTy e t data 0 []).1 with
    | ok v pos rs =>
      rw [hd] at hnew
      simp only [DRes.resizes, List.append_nil] at hnew
      simp only; split <;> simpa [Outcome.resizes, Outcome.isException, DRes.isThrow] using hnew
    | fail rs =>
      rw [hd] at hnew; simpa [Outcome.resizes, DRes.resizes, Outcome.isException, DRes.isThrow] using hnew
    | fault =>
      rw [hd] at hnew; simpa [Outcome.resizes, DRes.resizes, Outcome.isException, DRes.isThrow] using hnew
    | throw rs =>
      rw [hd] at hnew; simpa [Outcome.resizes, DRes.resizes, Outcome.isException, DRes.isThrow] using hnew
  rw [key.1, key.2]
  intro n hn
  have := hb n hn
  exact ⟨by omega, this.2⟩

end Prophy.Cpp

#print axioms Prophy.Cpp.decTy_safe
#print axioms Prophy.Cpp.decode_no_fault
#print axioms Prophy.Cpp.decode_resizes_bounded

/- C09 for unlimited messages: the generated `prophy::swap` converts everything before the unlimited last member
   (greedy array or unlimited struct), leaves that member untouched and returns its aligned address -/
import ProphyModel.Lemmas.RawSwapWalk
import ProphyModel.Lemmas.RawSwapFuel
set_option linter.unusedSimpArgs false
namespace Prophy
namespace Raw
open Accept PL WF

/-- the bytes of the members after the swap of an unlimited struct: all members but the last are converted -/
def outMs (all : List Member) (allv : List Val) : List Member → List Val → Nat → Bool → Bytes
  | .mk n t k :: r, v :: vs, off, ad =>
    zeros (padTo off (if ad then Spec.blockAlign (.mk n t k :: r) else Spec.alignMember (.mk n t k))) ++
      (Spec.render (if r.isEmpty then .big else .little) (Spec.fieldChunks all allv n t k v) ++
        outMs all allv r vs
          (off + padTo off (if ad then Spec.blockAlign (.mk n t k :: r) else Spec.alignMember (.mk n t k))
            + Spec.clen (Spec.fieldChunks all allv n t k v)) (Spec.endsBlock (.mk n t k)))
  | _, _, _, _ => []

/-- offset (from the struct start) at which the own bytes of the last member begin -/
def lastStart (all : List Member) (allv : List Val) : List Member → List Val → Nat → Bool → Nat
  | .mk n t k :: r, v :: vs, off, ad =>
    if r.isEmpty then off + padTo off (if ad then Spec.blockAlign (.mk n t k :: r) else Spec.alignMember (.mk n t k))
    else lastStart all allv r vs
      (off + padTo off (if ad then Spec.blockAlign (.mk n t k :: r) else Spec.alignMember (.mk n t k))
        + Spec.clen (Spec.fieldChunks all allv n t k v)) (Spec.endsBlock (.mk n t k))
  | _, _, off, _ => off

theorem outMs_cons (all : List Member) (allv : List Val) (n : String) (t : Ty) (k : MKind) (r : List Member)
    (v : Val) (vs : List Val) (off : Nat) (ad : Bool) :
    outMs all allv (.mk n t k :: r) (v :: vs) off ad =
      zeros (padTo off (if ad then Spec.blockAlign (.mk n t k :: r) else Spec.alignMember (.mk n t k))) ++
      (Spec.render (if r.isEmpty then .big else .little) (Spec.fieldChunks all allv n t k v) ++
        outMs all allv r vs
          (off + padTo off (if ad then Spec.blockAlign (.mk n t k :: r) else Spec.alignMember (.mk n t k))
            + Spec.clen (Spec.fieldChunks all allv n t k v)) (Spec.endsBlock (.mk n t k))) := by
  simp only [outMs]

theorem lastStart_cons (all : List Member) (allv : List Val) (n : String) (t : Ty) (k : MKind) (r : List Member)
    (v : Val) (vs : List Val) (off : Nat) (ad : Bool) :
    lastStart all allv (.mk n t k :: r) (v :: vs) off ad =
      if r.isEmpty then off + padTo off (if ad then Spec.blockAlign (.mk n t k :: r) else Spec.alignMember (.mk n t k))
      else lastStart all allv r vs
        (off + padTo off (if ad then Spec.blockAlign (.mk n t k :: r) else Spec.alignMember (.mk n t k))
          + Spec.clen (Spec.fieldChunks all allv n t k v)) (Spec.endsBlock (.mk n t k)) := by
  simp only [lastStart]

theorem unlMs_tail (n : String) (t : Ty) (k : MKind) (r : List Member) (ht : front t = true)
    (hk2 : (nodeTy t).kind ≠ 2) (hng : k ≠ .greedy) (h : Spec.unlMs (.mk n t k :: r) = true) :
    Spec.unlMs r = true := by
  have hut := unl_of_kind_ne2_p13 t ht hk2
  simp only [Spec.unlMs, Bool.or_eq_true] at h
  rcases h with h | h
  · cases k <;> simp_all
  · exact h

/-- the unlimited last member: greedy array or unlimited struct -/
theorem unl_last (n : String) (t : Ty) (k : MKind) (ht : front t = true) (h : Spec.unlMs [.mk n t k] = true) :
    ((nodeTy t).kind == 2 || isGreedyKind k) = true ∧ flagLen_p13 t k = 0 := by
  simp only [Spec.unlMs, Bool.or_false] at h
  cases k with
  | greedy => simp [isGreedyKind, flagLen_p13]
  | plain =>
    simp only at h
    have : (nodeTy t).kind = 2 := by rw [nodeTy_kind' t ht]; unfold specKind; rw [h]; rfl
    simp [this, flagLen_p13]
  | optional => simp at h
  | fixed c => simp at h
  | dyn s sh => simp at h
  | limited s c => simp at h

theorem fieldOffset_of_group (A : Nat) (d : Bool) (g : MG) (n : String) (t : Ty) (k : MKind) (r : List Member)
    (first : Bool) (o : Nat) (fields done restF : List Field)
    (h1 : GOne_p13 A d g n t k r first o)
    (hfields : fields = done ++ (g.fields ++ restF)) (hdone : totalSize done = o)
    (hnames : WF.uniq (fields.map (·.name)) = true) : fieldOffset fields n = o + flagLen_p13 t k := by
  obtain ⟨flagF, padF, hgf, hopt, hnopt, hfl⟩ := h1.hfields
  have hfs : fields = (done ++ flagF) ++ Field.mk n (sizeofTy t) (countOf_p13 k) :: (padF ++ restF) := by
    rw [hfields, hgf]; simp [List.append_assoc]
  have := fieldOffset_uniq_p13 (done ++ flagF) (Field.mk n (sizeofTy t) (countOf_p13 k)) (padF ++ restF)
    (by rw [← hfs]; exact hnames)
  rw [← hfs] at this
  simp only [totalSize_append_p13, hdone, hfl] at this
  exact this

theorem walk_unl (all : List Member) (allv : List Val) (A ssize : Nat) (skind : Kind) (S : Nat) (d : Bool)
    (hA : A = Spec.alignMs all) (hS : A ∣ S)
    (huq : WF.uniq (all.map (·.name)) = true) (hw : wfMs all all = true) (hhall : hasMs all all allv = true)
    (hshift : shiftOk all = true) (hdd : ∀ m ∈ all, Spec.endsBlock m = true → d = true) :
    (r : List Member) → ∀ (n : String) (t : Ty) (k : MKind) (v : Val) (vs : List Val) (before : List Member)
      (g : MG) (gs' cur : List MG) (rest : List (List MG)) (first : Bool) (o : Nat)
      (fields done : List Field) (ppos palign : Nat) (isMain : Bool) (off : Nat) (pre post : Bytes)
      (sizers : List (String × Nat × Nat)) (fuelP fuelM : Nat),
    all = before ++ .mk n t k :: r →
    frontMs all (.mk n t k :: r) before = true → pyRtMs all (.mk n t k :: r) before = true →
    partsOkMs (.mk n t k :: r) = true → Spec.unlMs (.mk n t k :: r) = true →
    hasMs all (.mk n t k :: r) (v :: vs) = true → agreeFields (.mk n t k :: r) (v :: vs) = true →
    lensOk all allv (.mk n t k :: r) (v :: vs) →
    (∀ x ∈ v :: vs, DeepOK x) →
    GSpec_p13 A d (g :: gs') (.mk n t k :: r) first o →
    partition (fun (g : MG) => g.isDyn) (g :: gs') = cur :: rest →
    fields = done ++ cur.flatMap (·.fields) → totalSize done = o →
    WF.uniq ((fields ++ rest.flatten.flatMap (·.fields)).map (·.name)) = true →
    pre.length = S + off →
    S + alignUp off (if first then Spec.blockAlign (.mk n t k :: r) else Spec.alignMember (.mk n t k)) = ppos + o →
    Spec.blockAlign (.mk n t k :: r) ∣ ppos →
    (isMain = false → d = true ∧ IsAl palign ∧ palign ∣ A ∧ palign ∣ ppos ∧ Spec.blockAlign (.mk n t k :: r) ∣ palign) →
    (isMain = true → ppos = S ∧ first = false) →
    (isMain = false → ∀ q rest', rest = q :: rest' → palign ≤ partAlign q ∨ lastAlign cur = palign) →
    monoParts rest = true →
    SInv all allv before sizers pre →
    needMs (.mk n t k :: r) (v :: vs) ≤ fuelP → needMs (.mk n t k :: r) (v :: vs) ≤ fuelM →
    finishPart fuelP A ssize skind rest isMain palign ppos fields S
        (swapMembers fuelM cur fields
          (pre ++ (Spec.render .big (Spec.chunksMs all allv (.mk n t k :: r) (v :: vs) off first) ++ post)) ppos sizers) =
      some (pre ++ (outMs all allv (.mk n t k :: r) (v :: vs) off first ++ post),
        S + alignUp (lastStart all allv (.mk n t k :: r) (v :: vs) off first) A)
  | [], n, t, k, v, vs, before, g, gs', cur, rest, first, o, fields, done, ppos, palign, isMain, off, pre, post,
      sizers, fuelP, fuelM, hall, hfm, hpm, hdm, hum, hh, hag, hlens, hdeep, hg, hpart, hfields, hdone, hnames,
      hpre, hpos, hbp, hnm, hmn, hpair, hmono, hsinv, hfP, hfM => by
    obtain ⟨h1, h2⟩ := hg
    have hgs : gs' = [] := by cases gs' with
      | nil => rfl
      | cons a b => simp [GSpec_p13] at h2
    subst hgs
    have hcr : cur = [g] ∧ rest = [] := by
      simp only [partition] at hpart
      injection hpart with a b
      exact ⟨a.symm, b.symm⟩
    obtain ⟨rfl, rfl⟩ := hcr
    obtain ⟨ht, ho, hs, hak, hl, hr⟩ := frontMs_cons_playou all n t k [] before hfm
    obtain ⟨hcn, hfd, hhr⟩ := (hasMs_cons all n t k [] v vs).1 hh
    have hvs : vs = [] := by cases vs <;> simp_all [hasMs]
    subst hvs
    rw [needMs_cons] at hfM
    obtain ⟨fM, rfl⟩ : ∃ f, fuelM = f + 1 := ⟨fuelM - 1, by omega⟩
    have hAal : IsAl A := by rw [hA]; exact Spec.alignMs_isAl all
    simp only [List.flatMap_cons, List.flatMap_nil] at hfields
    have hnm' : WF.uniq (fields.map (·.name)) = true := by
      simpa using hnames
    obtain ⟨hul, hfl0⟩ := unl_last n t k ht hum
    have hoff := fieldOffset_of_group A d g n t k [] first o fields done [] h1 hfields hdone hnm'
    rw [hfl0, Nat.add_zero] at hoff
    generalize ha : (if first then Spec.blockAlign [.mk n t k] else Spec.alignMember (.mk n t k)) = a at *
    have hchunks : Spec.chunksMs all allv [.mk n t k] [v] off first =
        .pad (padTo off a) :: (Spec.fieldChunks all allv n t k v ++ []) := by
      rw [Spec.chunksMs_cons, ha]; simp [Spec.chunksMs]
    have hout : outMs all allv [.mk n t k] [v] off first =
        zeros (padTo off a) ++ (Spec.render .big (Spec.fieldChunks all allv n t k v) ++ []) := by
      rw [outMs_cons, ha]; simp [outMs]
    have hls : lastStart all allv [.mk n t k] [v] off first = off + padTo off a := by
      rw [lastStart_cons, ha]; simp
    rw [hchunks, hout, hls]
    simp only [render_cons_p13, Spec.render_append, render_nil_p13, List.append_nil, Spec.Chunk.render, List.append_assoc]
    rw [swapMembers_cons]
    simp only [List.isEmpty_nil]
    have hstep : memberStep fM g fields
        (pre ++ (zeros (padTo off a) ++ (Spec.render .big (Spec.fieldChunks all allv n t k v) ++ post))) ppos sizers true =
        some (pre ++ (zeros (padTo off a) ++ (Spec.render .big (Spec.fieldChunks all allv n t k v) ++ post)), ppos + o) := by
      unfold memberStep
      rw [h1.hm]
      simp only [Member.kind, Member.name, h1.hkind, hoff]
      rw [if_pos]
      have := hul
      cases k <;> simp_all [isGreedyKind]
    rw [hstep]
    have hunl : (g.kind == 2 || isGreedyKind g.m.kind) = true := by
      rw [h1.hkind, h1.hm]; exact hul
    simp only [if_true, finishPart, hunl]
    simp only [h1.hm, Member.name, hoff]
    have hposE : ppos + o = S + (off + padTo off a) := by rw [← hpos]; unfold alignUp; omega
    rw [hposE]
    congr 2
    have hp : IsAl (if isMain = true then A else palign) ∧ (if isMain = true then A else palign) ∣ A := by
      cases isMain with
      | true => exact ⟨hAal, Nat.dvd_refl _⟩
      | false => exact ⟨(hnm rfl).2.1, (hnm rfl).2.2.1⟩
    exact final_dyn_p13 S (off + padTo off a) A _ hAal hp.1 hp.2 hS
  | .mk n' t' k' :: r', n, t, k, v, vs, before, g, gs', cur, rest, first, o, fields, done, ppos, palign, isMain, off,
      pre, post, sizers, fuelP, fuelM, hall, hfm, hpm, hdm, hum, hh, hag, hlens, hdeep, hg, hpart, hfields, hdone,
      hnames, hpre, hpos, hbp, hnm, hmn, hpair, hmono, hsinv, hfP, hfM => by
    obtain ⟨h1, h2⟩ := hg
    obtain ⟨g2, gs'', rfl⟩ : ∃ g2 gs'', gs' = g2 :: gs'' := by
      cases gs' with
      | nil => simp [GSpec_p13] at h2
      | cons a b => exact ⟨a, b, rfl⟩
    obtain ⟨ht, ho, hs, hak, hl, hr⟩ := frontMs_cons_playou all n t k (.mk n' t' k' :: r') before hfm
    obtain ⟨hpt, _, _, _, _, _, _, hpr⟩ := (Accept.pyRtMs_cons all n t k (.mk n' t' k' :: r') before).1 hpm
    obtain ⟨hgr, hk2⟩ := hl (by simp)
    have hng : k ≠ .greedy := by intro h; subst h; simp [isGreedy] at hgr
    have hur : Spec.unlMs (.mk n' t' k' :: r') = true := unlMs_tail n t k _ ht hk2 hng hum
    obtain ⟨hcn, hfd, hhr⟩ := (hasMs_cons all n t k (.mk n' t' k' :: r') v vs).1 hh
    obtain ⟨v2, vs', rfl⟩ : ∃ v2 vs', vs = v2 :: vs' := by
      cases vs with
      | nil => simp [hasMs] at hhr
      | cons a b => exact ⟨a, b, rfl⟩
    have hdr : partsOkMs (.mk n' t' k' :: r') = true := by
      simp only [partsOkMs, Bool.and_eq_true] at hdm ⊢; exact hdm.2
    have hagr : agreeFields (.mk n' t' k' :: r') (v2 :: vs') = true := by
      simp only [agreeFields, Bool.and_eq_true] at hag ⊢; exact hag.2
    have hdeepr : ∀ x ∈ v2 :: vs', DeepOK x := fun x hx => hdeep x (List.mem_cons_of_mem _ hx)
    have hall' : all = (before ++ [.mk n t k]) ++ .mk n' t' k' :: r' := by rw [hall]; simp
    rw [needMs_cons] at hfM hfP
    obtain ⟨fM, rfl⟩ : ∃ f, fuelM = f + 1 := ⟨fuelM - 1, by omega⟩
    have hAal : IsAl A := by rw [hA]; exact Spec.alignMs_isAl all
    have hmem : Member.mk n t k ∈ all := by rw [hall]; simp
    have hmem' : Member.mk n' t' k' ∈ all := by rw [hall]; simp
    have hsub : ∀ m ∈ (Member.mk n' t' k' :: r'), m ∈ all := by
      intro m hm; rw [hall]; exact List.mem_append_right _ (List.mem_cons_of_mem _ hm)
    have hB'A : Spec.blockAlign (.mk n' t' k' :: r') ∣ A := by
      rw [hA]
      exact Spec.blockAlign_dvd _ (Spec.alignMs_isAl all) _ (fun m hm => Spec.alignMember_dvd_alignMs m all (hsub m hm))
    have hB'al := Spec.blockAlign_isAl (.mk n' t' k' :: r')
    generalize ha : (if first then Spec.blockAlign (.mk n t k :: .mk n' t' k' :: r') else Spec.alignMember (.mk n t k)) = a at *
    have hchunks : Spec.chunksMs all allv (.mk n t k :: .mk n' t' k' :: r') (v :: v2 :: vs') off first =
        .pad (padTo off a) :: (Spec.fieldChunks all allv n t k v ++
          Spec.chunksMs all allv (.mk n' t' k' :: r') (v2 :: vs')
            (off + padTo off a + Spec.clen (Spec.fieldChunks all allv n t k v)) (Spec.endsBlock (.mk n t k))) := by
      rw [Spec.chunksMs_cons, ha]
    have hposE : ppos + o = S + (off + padTo off a) := by rw [← hpos]; unfold alignUp; omega
    have hout : outMs all allv (.mk n t k :: .mk n' t' k' :: r') (v :: v2 :: vs') off first =
        zeros (padTo off a) ++ (Spec.render .little (Spec.fieldChunks all allv n t k v) ++
          outMs all allv (.mk n' t' k' :: r') (v2 :: vs')
            (off + padTo off a + Spec.clen (Spec.fieldChunks all allv n t k v)) (Spec.endsBlock (.mk n t k))) := by
      rw [outMs_cons, ha]; rfl
    have hls : lastStart all allv (.mk n t k :: .mk n' t' k' :: r') (v :: v2 :: vs') off first =
        lastStart all allv (.mk n' t' k' :: r') (v2 :: vs')
          (off + padTo off a + Spec.clen (Spec.fieldChunks all allv n t k v)) (Spec.endsBlock (.mk n t k)) := by
      rw [lastStart_cons, ha]; rfl
    cases heb : Spec.endsBlock (.mk n t k) with
    | false =>
      obtain ⟨hd, tl, hp1, hp2⟩ := partition_cons_static_p13 (fun (g : MG) => g.isDyn) g g2 gs'' (by rw [h1.hdyn hk2 hng]; exact heb)
      rw [hp2] at hpart
      injection hpart with hc1 hc2
      subst hc1; subst hc2
      have hdne : hd ≠ [] := partition_head_ne_nil_p13 _ g2 gs'' hd tl hp1
      have hde : hd.isEmpty = false := by cases hd with
        | nil => exact absurd rfl hdne
        | cons a b => rfl
      simp only [List.flatMap_cons] at hfields
      have hnm' : WF.uniq (fields.map (·.name)) = true := by
        rw [List.map_append] at hnames; exact (uniq_append_p13 _ _ hnames).1
      obtain ⟨e, he1, he2, he3⟩ := member_at all allv A S d hA hS huq hw hhall hshift (.mk n' t' k' :: r') n t k v
        (v2 :: vs') before g first o fields done (hd.flatMap (·.fields)) ppos off pre
        (Spec.render .big (Spec.chunksMs all allv (.mk n' t' k' :: r') (v2 :: vs')
            (off + padTo off a + Spec.clen (Spec.fieldChunks all allv n t k v)) false) ++ post)
        sizers fM false hall hfm hpm hdm hk2 hng hh hag hlens
        (hdeep v (List.mem_cons_self ..)) h1 hfields hdone hnm' hpre (by rw [ha]; exact hpos) hsinv (by omega)
      rw [ha] at he1 he3
      have hcl := clen_static_p13 all allv n t k v ht ho hs heb hfd
      rw [heb] at h2 hchunks hout hls
      have hno : nextOff_p13 n t k (.mk n' t' k' :: r') o = alignUp (o + Spec.slot t k) (Spec.alignMember (.mk n' t' k')) := by
        simp [nextOff_p13, heb]
      rw [hno] at h2
      have hBB := blockAlign_cons_static_p13 (.mk n t k) (.mk n' t' k' :: r') heb
      have ha'S : Spec.alignMember (.mk n' t' k') ∣ S :=
        Nat.dvd_trans (Nat.dvd_trans (Spec.alignMember_dvd_blockAlign _ r') hB'A) hS
      have ha'p : Spec.alignMember (.mk n' t' k') ∣ ppos :=
        Nat.dvd_trans (Nat.dvd_trans (Spec.alignMember_dvd_blockAlign _ r') hBB) hbp
      have ih := walk_unl all allv A ssize skind S d hA hS huq hw hhall hshift hdd r' n' t' k' v2 vs'
        (before ++ [.mk n t k]) g2 gs'' hd tl false (alignUp (o + Spec.slot t k) (Spec.alignMember (.mk n' t' k')))
        fields (done ++ g.fields) ppos palign isMain
        (off + padTo off a + Spec.clen (Spec.fieldChunks all allv n t k v))
        (pre ++ zeros (padTo off a) ++ Spec.render .little (Spec.fieldChunks all allv n t k v)) post
        (sizersAfter g (ppos + fieldOffset fields g.m.name) sizers) fuelP fM
        hall' hr hpr hdr hur hhr hagr hlens.2 hdeepr h2 hp1
        (by rw [hfields]; simp [List.append_assoc])
        (by rw [totalSize_append_p13, hdone]; exact h1.hnext heb _ _ rfl)
        hnames
        (by simp [hpre]; omega)
        (by
          simp only [Bool.false_eq_true, if_false]
          rw [← alignUp_add_left_p13 S _ _ ha'S, ← alignUp_add_left_p13 ppos _ _ ha'p]
          congr 1; rw [hcl]; omega)
        (Nat.dvd_trans hBB hbp)
        (fun hm => by
          obtain ⟨q1, q2, q3, q4, q5⟩ := hnm hm
          exact ⟨q1, q2, q3, q4, Nat.dvd_trans hBB q5⟩)
        (fun hm => ⟨(hmn hm).1, rfl⟩)
        (fun hm q rest' hq => by
          rcases hpair hm q rest' hq with h | h
          · exact Or.inl h
          · right; rw [← h, lastAlign_cons_p13 g hd hdne])
        hmono he3 (by omega) (by omega)
      rw [hchunks, hout, hls]
      simp only [render_cons_p13, Spec.render_append, Spec.Chunk.render, List.append_assoc,
        Spec.clen_cons, Spec.clen_append, Spec.Chunk.len] at ih ⊢
      rw [swapMembers_cons, hde, he1]
      simp only [Bool.false_eq_true, if_false]
      rw [ih]
    | true =>
      have hpd := partition_cons_dyn_p13 (fun (g : MG) => g.isDyn) g g2 gs'' (by rw [h1.hdyn hk2 hng]; exact heb)
      rw [hpd] at hpart
      injection hpart with hc1 hc2
      subst hc1
      obtain ⟨q, rest', hq⟩ : ∃ q rest', partition (fun (g : MG) => g.isDyn) (g2 :: gs'') = q :: rest' := by
        cases hp : partition (fun (g : MG) => g.isDyn) (g2 :: gs'') with
        | nil => exact absurd hp (partition_ne_nil_p13 _ _)
        | cons a b => exact ⟨a, b, rfl⟩
      rw [hq] at hc2; subst hc2
      obtain ⟨q', rfl⟩ := partition_head_cons_p13 _ g2 gs'' q rest' hq
      simp only [List.flatMap_cons, List.flatMap_nil] at hfields
      have hnm' : WF.uniq (fields.map (·.name)) = true := by
        rw [List.map_append] at hnames; exact (uniq_append_p13 _ _ hnames).1
      obtain ⟨e, he1, he2, he3⟩ := member_at all allv A S d hA hS huq hw hhall hshift (.mk n' t' k' :: r') n t k v
        (v2 :: vs') before g first o fields done [] ppos off pre
        (Spec.render .big (Spec.chunksMs all allv (.mk n' t' k' :: r') (v2 :: vs')
            (off + padTo off a + Spec.clen (Spec.fieldChunks all allv n t k v)) true) ++ post)
        sizers fM true hall hfm hpm hdm hk2 hng hh hag hlens
        (hdeep v (List.mem_cons_self ..)) h1 hfields hdone hnm' hpre (by rw [ha]; exact hpos) hsinv (by omega)
      rw [ha] at he1 he3
      have he := he2 heb
      rw [heb] at h2 hchunks hout hls
      have hno : nextOff_p13 n t k (.mk n' t' k' :: r') o = 0 := by simp [nextOff_p13, heb]
      rw [hno] at h2
      have hal2 : g2.align = Spec.blockAlign (.mk n' t' k' :: r') := by
        have := h2.1.halign; simpa using this
      obtain ⟨fP, rfl⟩ : ∃ f, fuelP = f + 1 := ⟨fuelP - 1, by omega⟩
      -- the pointer at which the next part starts
      have heS : e = S + (off + padTo off a + Spec.clen (Spec.fieldChunks all allv n t k v)) := by
        rw [he, hposE]; omega
      have hda : Spec.alignMember (.mk n t k) ∣ a := by
        cases first
        · simp at ha; subst ha; exact Nat.dvd_refl _
        · simp at ha; subst ha; exact Spec.alignMember_dvd_blockAlign (.mk n t k) _
      have hapos : 0 < a := by
        cases first
        · simp at ha; subst ha; exact Spec.alignMember_pos _
        · simp at ha; subst ha; exact (Spec.blockAlign_isAl _).pos
      have hdme : Spec.alignMember (.mk n t k) ∣ e := by
        have hdyn : isMemberDynamic (memOf (nodeTy t) k) = true := by
          rw [isMemberDynamic_memOf t k ht hk2, endsPart_memOf n t k ht ho hs hk2, heb]
        have h3 := (dvd_dynamic all n t k v ht ho hs hdyn hfd).1
        rw [← Spec.clen_fieldChunks all allv n t k v hfd (by
          intro hne hst
          cases k <;> simp_all [Spec.endsBlock, Member.kind, MKind.isStatic])] at h3
        rw [he]
        refine Nat.dvd_add ?_ h3
        rw [hposE, ← Nat.add_assoc]
        have hdA : Spec.alignMember (.mk n t k) ∣ A := by rw [hA]; exact Spec.alignMember_dvd_alignMs _ all hmem
        have := Nat.dvd_trans hda (dvd_alignUp off a hapos)
        unfold alignUp at this
        rw [Nat.add_assoc]
        exact Nat.dvd_add (Nat.dvd_trans hdA hS) this
      have hptr := next_part_ptr_p13 S (off + padTo off a + Spec.clen (Spec.fieldChunks all allv n t k v)) A
        (Spec.blockAlign (.mk n' t' k' :: r')) palign e isMain hAal hS hB'al hB'A heS
        (fun hm => by
          obtain ⟨_, q2, _, _, _⟩ := hnm hm
          refine ⟨q2, ?_⟩
          rcases hpair hm _ _ rfl with h | h
          · left; simpa [partAlign, hal2] using h
          · right
            rw [← h]
            simp only [lastAlign, h1.hm]
            exact hdme)
      obtain ⟨hmono', hpair'⟩ := monoParts_cons_p13 _ _ hmono
      have hnames2 : WF.uniq ((((g2 :: q').flatMap (·.fields)) ++ rest'.flatten.flatMap (·.fields)).map (·.name)) = true := by
        simp only [List.flatten_cons, List.flatMap_append, List.map_append] at hnames ⊢
        exact (uniq_append_p13 _ _ hnames).2.1
      have ih := walk_unl all allv A ssize skind S d hA hS huq hw hhall hshift hdd r' n' t' k' v2 vs'
        (before ++ [.mk n t k]) g2 gs'' (g2 :: q') rest' true 0
        ((g2 :: q').flatMap (·.fields)) [] (S + alignUp (off + padTo off a + Spec.clen (Spec.fieldChunks all allv n t k v))
          (Spec.blockAlign (.mk n' t' k' :: r'))) (Spec.blockAlign (.mk n' t' k' :: r')) false
        (off + padTo off a + Spec.clen (Spec.fieldChunks all allv n t k v))
        (pre ++ zeros (padTo off a) ++ Spec.render .little (Spec.fieldChunks all allv n t k v)) post
        (sizersAfter g (ppos + fieldOffset fields g.m.name) sizers) fP fP
        hall' hr hpr hdr hur hhr hagr hlens.2 hdeepr h2 hq
        (List.nil_append _).symm rfl hnames2
        (by simp [hpre]; omega)
        (by simp)
        (Nat.dvd_add (Nat.dvd_trans hB'A hS) (dvd_alignUp _ _ hB'al.pos))
        (fun _ => ⟨hdd _ hmem heb, hB'al, hB'A,
          Nat.dvd_add (Nat.dvd_trans hB'A hS) (dvd_alignUp _ _ hB'al.pos), Nat.dvd_refl _⟩)
        (fun h => by cases h)
        (fun _ q2 rest2 hq2 => by
          have := hpair' q2 rest2 hq2
          simpa [partAlign, hal2] using this)
        hmono' he3 (by omega) (by omega)
      rw [hchunks, hout, hls]
      simp only [render_cons_p13, Spec.render_append, Spec.Chunk.render, List.append_assoc,
        Spec.clen_cons, Spec.clen_append, Spec.Chunk.len] at ih ⊢
      rw [swapMembers_cons]
      simp only [List.isEmpty_nil]
      rw [he1]
      simp only [if_true, finishPart]
      rw [swapParts_cons]
      simp only [palignOf, Bool.false_eq_true, if_false]
      rw [hal2, hptr, ih]

/-! ## the unlimited struct -/

/-- a struct with a dynamic member (in the documented sense) has one in prophyc's sense -/
theorem dyn_any_p13 : (ms allF before : List Member) → frontMs allF ms before = true →
    Spec.dynMs ms = true → (memsOf ms).any isMemberDynamic = false → False
  | [], _, _, _, hd, _ => by simp [Spec.dynMs] at hd
  | .mk n t k :: r, allF, before, hf, hd, ha => by
    obtain ⟨ht, ho, hs, hak, hl, hr⟩ := frontMs_cons_playou allF n t k r before hf
    simp only [memsOf, List.any_cons, Bool.or_eq_false_iff] at ha
    rw [dynMs_cons_eq_p13, Bool.or_eq_true] at hd
    rcases hd with hd | hd
    · -- the member ends a block: it is dynamic for prophyc
      have hle := specKind_le t
      rw [← nodeTy_kind' t ht] at hle
      have h1 := ha.1
      unfold isMemberDynamic at h1
      cases k with
      | plain =>
        have hdt : Spec.dynTy t = true := by simpa [Spec.endsBlock, Member.kind, Member.ty] using hd
        have hk : (nodeTy t).kind ≠ 0 := by
          rw [nodeTy_kind' t ht]; unfold specKind; rw [hdt]; split <;> simp
        simp [memOf] at h1
        exact hk h1
      | optional => simp [Spec.endsBlock, Member.kind] at hd
      | fixed c => simp [Spec.endsBlock, Member.kind] at hd
      | limited s c => simp [Spec.endsBlock, Member.kind] at hd
      | dyn s sh => simp [memOf] at h1
      | greedy => simp [memOf] at h1
    · exact dyn_any_p13 r allF _ hr hd ha.2

theorem swap_unl_struct (nm : String) (ms : List Member) (vs : List Val) (pre post : Bytes) (fuel pos : Nat)
    (hf : front (.struct nm ms) = true) (hp : pyRt (.struct nm ms) = true) (hd : partsOk (.struct nm ms) = true)
    (hh : hasField [] .plain (.struct nm ms) (.struct vs) = true) (ha : agreeTy (.struct nm ms) (.struct vs) = true)
    (hu : Spec.unlMs ms = true) (hpre : pre.length = pos) (hal : Spec.alignMs ms ∣ pos)
    (hfuel : needTy (.struct nm ms) (.struct vs) ≤ fuel) :
    swapTy fuel (.struct nm ms) (pre ++ Spec.render .big (Spec.chunksTy (.struct nm ms) (.struct vs)) ++ post) pos =
      some (pre ++ (outMs ms vs ms vs 0 false ++
          (zeros (padTo (Spec.clen (Spec.chunksMs ms vs ms vs 0 false)) (Spec.alignMs ms)) ++ post)),
        pos + alignUp (lastStart ms vs ms vs 0 false) (Spec.alignMs ms)) := by
  obtain ⟨hne, huq, hw, hfm, hpm⟩ := Accept.struct_facts nm ms hf hp
  have hhm : hasMs ms ms vs = true := by simpa [hasField] using hh
  simp only [agreeTy, Bool.and_eq_true] at ha
  obtain ⟨hagm, hagf⟩ := ha
  simp only [partsOk, Bool.and_eq_true] at hd
  obtain ⟨⟨⟨hnames, hmono⟩, hshift⟩, hdms⟩ := hd
  simp only [needTy] at hfuel
  obtain ⟨f, rfl⟩ : ∃ f, fuel = f + 2 := ⟨fuel - 2, by omega⟩
  have hsz := sizeofMs_ok_p13 ms ms [] hfm
  have hg := groups_spec_p13 ms hne hfm hsz
  have hna : (nodeTy (.struct nm ms)).align = Spec.alignMs ms := by rw [nodeTy_align']; simp [Spec.alignTy]
  obtain ⟨cur, rest, hpart⟩ : ∃ cur rest, partition (fun (g : MG) => g.isDyn) (groupsOf ms) = cur :: rest := by
    cases hp : partition (fun (g : MG) => g.isDyn) (groupsOf ms) with
    | nil => exact absurd hp (partition_ne_nil_p13 _ _)
    | cons a b => exact ⟨a, b, rfl⟩
  obtain ⟨m, r, rfl⟩ : ∃ m r, ms = m :: r := by
    cases ms with
    | nil => exact absurd rfl hne
    | cons a b => exact ⟨a, b, rfl⟩
  obtain ⟨n, t, k⟩ := m
  obtain ⟨v, vs', rfl⟩ : ∃ v vs', vs = v :: vs' := by
    cases vs with
    | nil => simp [hasMs] at hhm
    | cons a b => exact ⟨a, b, rfl⟩
  obtain ⟨g, gs', hgs⟩ : ∃ g gs', groupsOf (.mk n t k :: r) = g :: gs' := by
    cases hgo : groupsOf (.mk n t k :: r) with
    | nil => rw [hgo] at hg; simp [GSpec_p13] at hg
    | cons a b => exact ⟨a, b, rfl⟩
  rw [hgs] at hg hpart
  have hflat : groupsOf (.mk n t k :: r) = cur ++ rest.flatten := by
    have := partition_flatten_p13 (fun (g : MG) => g.isDyn) (groupsOf (.mk n t k :: r))
    rw [hgs, hpart] at this
    rw [hgs, ← this]; rfl
  have hmono' : monoParts rest = true := by
    unfold monoOk at hmono; rw [hgs, hpart] at hmono; exact hmono
  have hnames' : WF.uniq (((cur.flatMap (·.fields)) ++ rest.flatten.flatMap (·.fields)).map (·.name)) = true := by
    unfold namesOk at hnames; rw [hflat, List.flatMap_append] at hnames; exact hnames
  have hdd : ∀ m ∈ (Member.mk n t k :: r), Spec.endsBlock m = true →
      (memsOf (.mk n t k :: r)).any isMemberDynamic = true := by
    intro m hm he
    -- a struct with an unlimited last member has a dynamic member: the last one
    cases hd : (memsOf (.mk n t k :: r)).any isMemberDynamic with
    | true => rfl
    | false =>
      exfalso
      have hdm : Spec.dynMs (.mk n t k :: r) = true := dynMs_of_unl_p13 _ hu
      exact dyn_any_p13 _ _ [] hfm hdm hd
  have hbody := walk_unl (.mk n t k :: r) (v :: vs') (Spec.alignMs (.mk n t k :: r)) (sizeofTy (.struct nm (.mk n t k :: r)))
    (nodeTy (.struct nm (.mk n t k :: r))).kind pos ((memsOf (.mk n t k :: r)).any isMemberDynamic) rfl hal huq hw hhm hshift
    hdd
    r n t k v vs' [] g gs' cur rest false 0 (cur.flatMap (·.fields)) [] pos 1 true 0 pre
    (zeros (padTo (Spec.clen (Spec.chunksMs (.mk n t k :: r) (v :: vs') (.mk n t k :: r) (v :: vs') 0 false))
      (Spec.alignMs (.mk n t k :: r))) ++ post) [] (f + 0) f
    rfl hfm hpm hdms hu hhm hagf (lensOk_of_agree _ _ hagm) (all_ok _) hg hpart (List.nil_append _).symm rfl hnames'
    (by simp [hpre])
    (by simp [alignUp_zero])
    (Nat.dvd_trans (Spec.blockAlign_dvd _ (Spec.alignMs_isAl _) _
      (fun m hm => Spec.alignMember_dvd_alignMs m _ hm)) hal)
    (fun h => by cases h)
    (fun _ => ⟨rfl, rfl⟩)
    (fun h => by cases h)
    hmono'
    (fun s p hm => by cases hm)
    (by omega) (by omega)
  simp only [Spec.chunksTy, Spec.render_append, render_cons_p13, render_nil_p13, Spec.Chunk.render, List.append_nil,
    List.append_assoc]
  rw [show f + 2 = (f + 1) + 1 from rfl, swapTy_struct, hgs, hpart, swapParts_cons]
  have hpa : palignOf cur true = 1 := by cases cur <;> rfl
  simp only [hpa, padTo_one, Nat.add_zero, hna]
  simp only [Nat.zero_add, Nat.add_zero] at hbody
  rw [hbody]

/-! ## the result as a prefix of the little-endian and a suffix of the big-endian encoding -/

theorem take_app_p13 {α : Type} (l1 l2 : List α) (i : Nat) : (l1 ++ l2).take (l1.length + i) = l1 ++ l2.take i := by
  induction l1 with
  | nil => simp
  | cons a r ih => simp only [List.cons_append, List.length_cons]; rw [show r.length + 1 + i = (r.length + i) + 1 by omega]; simp [ih]

theorem drop_app_p13 {α : Type} (l1 l2 : List α) (i : Nat) : (l1 ++ l2).drop (l1.length + i) = l2.drop i := by
  induction l1 with
  | nil => simp
  | cons a r ih => simp only [List.cons_append, List.length_cons]; rw [show r.length + 1 + i = (r.length + i) + 1 by omega]; simp [ih]

theorem lastStart_ge (all : List Member) (allv : List Val) : (ms : List Member) → (vs : List Val) → (off : Nat) →
    (ad : Bool) → off ≤ lastStart all allv ms vs off ad
  | [], _, _, _ => by simp [lastStart]
  | .mk n t k :: r, [], _, _ => by simp [lastStart]
  | .mk n t k :: r, v :: vs, off, ad => by
    rw [lastStart_cons]
    split
    · omega
    · have := lastStart_ge all allv r vs
        (off + padTo off (if ad then Spec.blockAlign (.mk n t k :: r) else Spec.alignMember (.mk n t k))
          + Spec.clen (Spec.fieldChunks all allv n t k v)) (Spec.endsBlock (.mk n t k))
      omega

theorem lastStart_le (all : List Member) (allv : List Val) : (ms : List Member) → (vs : List Val) → (off : Nat) →
    (ad : Bool) → lastStart all allv ms vs off ad ≤ off + Spec.clen (Spec.chunksMs all allv ms vs off ad)
  | [], _, _, _ => by simp [lastStart]
  | .mk n t k :: r, [], _, _ => by simp [lastStart]
  | .mk n t k :: r, v :: vs, off, ad => by
    rw [lastStart_cons, Spec.chunksMs_cons]
    simp only [Spec.clen_cons, Spec.clen_append, Spec.Chunk.len]
    split
    · omega
    · have := lastStart_le all allv r vs
        (off + padTo off (if ad then Spec.blockAlign (.mk n t k :: r) else Spec.alignMember (.mk n t k))
          + Spec.clen (Spec.fieldChunks all allv n t k v)) (Spec.endsBlock (.mk n t k))
      omega

theorem outMs_take_drop (all : List Member) (allv : List Val) : (ms : List Member) → (vs : List Val) → (off : Nat) →
    (ad : Bool) →
    outMs all allv ms vs off ad =
      (Spec.render .little (Spec.chunksMs all allv ms vs off ad)).take (lastStart all allv ms vs off ad - off) ++
      (Spec.render .big (Spec.chunksMs all allv ms vs off ad)).drop (lastStart all allv ms vs off ad - off)
  | [], _, _, _ => by simp [outMs, Spec.chunksMs, lastStart, render_nil_p13]
  | .mk n t k :: r, [], _, _ => by simp [outMs, Spec.chunksMs, lastStart, render_nil_p13]
  | .mk n t k :: r, v :: vs, off, ad => by
    have ih := outMs_take_drop all allv r vs
      (off + padTo off (if ad then Spec.blockAlign (.mk n t k :: r) else Spec.alignMember (.mk n t k))
        + Spec.clen (Spec.fieldChunks all allv n t k v)) (Spec.endsBlock (.mk n t k))
    have hge := lastStart_ge all allv r vs
      (off + padTo off (if ad then Spec.blockAlign (.mk n t k :: r) else Spec.alignMember (.mk n t k))
        + Spec.clen (Spec.fieldChunks all allv n t k v)) (Spec.endsBlock (.mk n t k))
    rw [outMs_cons, lastStart_cons, Spec.chunksMs_cons]
    generalize (if ad then Spec.blockAlign (.mk n t k :: r) else Spec.alignMember (.mk n t k)) = a at *
    simp only [render_cons_p13, Spec.render_append, Spec.Chunk.render]
    cases hr : r.isEmpty with
    | true =>
      have : r = [] := by simpa using hr
      subst this
      simp only [if_true]
      rw [show off + padTo off a - off = (zeros (padTo off a)).length + 0 by simp]
      rw [take_app_p13, drop_app_p13]
      simp [outMs, Spec.chunksMs, render_nil_p13]
    | false =>
      simp only [Bool.false_eq_true, if_false]
      have h1 : lastStart all allv r vs (off + padTo off a + Spec.clen (Spec.fieldChunks all allv n t k v))
          (Spec.endsBlock (.mk n t k)) - off =
          (zeros (padTo off a)).length + ((Spec.render .little (Spec.fieldChunks all allv n t k v)).length +
            (lastStart all allv r vs (off + padTo off a + Spec.clen (Spec.fieldChunks all allv n t k v))
              (Spec.endsBlock (.mk n t k)) - (off + padTo off a + Spec.clen (Spec.fieldChunks all allv n t k v)))) := by
        simp; omega
      have h2 : lastStart all allv r vs (off + padTo off a + Spec.clen (Spec.fieldChunks all allv n t k v))
          (Spec.endsBlock (.mk n t k)) - off =
          (zeros (padTo off a)).length + ((Spec.render .big (Spec.fieldChunks all allv n t k v)).length +
            (lastStart all allv r vs (off + padTo off a + Spec.clen (Spec.fieldChunks all allv n t k v))
              (Spec.endsBlock (.mk n t k)) - (off + padTo off a + Spec.clen (Spec.fieldChunks all allv n t k v)))) := by
        simp; omega
      rw [ih]
      conv => rhs; arg 1; rw [h1, take_app_p13, take_app_p13]
      conv => rhs; arg 2; rw [h2, drop_app_p13, drop_app_p13]
      simp [List.append_assoc]

/-- offset of the unlimited last member's own bytes in the encoding of an unlimited struct -/
def unlStart : Ty → Val → Nat
  | .struct _ ms, .struct vs => lastStart ms vs ms vs 0 false
  | _, _ => 0

end Raw

/-- C09 for unlimited messages (prefix variant): everything before the own bytes of the unlimited last member is
    converted, the rest of the buffer is untouched, the returned pointer is the aligned address of that member -/
theorem Raw.swapTy_unl_spec (t : Ty) (v : Val) (pre post : Bytes) (fuel pos : Nat)
    (hf : Accept.front t = true) (hp : Accept.pyRt t = true) (hd : Raw.partsOk t = true)
    (hv : hasType t v = true) (ha : WF.agreeTy t v = true) (hu : Spec.unlTy t = true)
    (hpre : pre.length = pos) (hal : Spec.alignTy t ∣ pos) (hfuel : Raw.needTy t v ≤ fuel) :
    Raw.swapTy fuel t (pre ++ Spec.enc t v .big ++ post) pos =
      some (pre ++ ((Spec.enc t v .little).take (Raw.unlStart t v) ++ (Spec.enc t v .big).drop (Raw.unlStart t v)) ++ post,
        pos + alignUp (Raw.unlStart t v) (Spec.alignTy t)) := by
  simp only [hasType, Bool.and_eq_true, Bool.not_eq_true'] at hv
  cases t with
  | prim p => simp [Spec.unlTy] at hu
  | byte => simp [Spec.unlTy] at hu
  | enum nm es => simp [Spec.unlTy] at hu
  | union nm arms => simp [Spec.unlTy] at hu
  | struct nm ms =>
    cases v with
    | struct vs =>
      have hum : Spec.unlMs ms = true := by simpa [Spec.unlTy] using hu
      have hal' : Spec.alignMs ms ∣ pos := by simpa [Spec.alignTy] using hal
      have h := Raw.swap_unl_struct nm ms vs pre post fuel pos hf hp hd hv.2 ha hum hpre hal' hfuel
      unfold Spec.enc
      rw [h]
      have hle := Raw.lastStart_le ms vs ms vs 0 false
      have htd := Raw.outMs_take_drop ms vs ms vs 0 false
      simp only [Nat.zero_add, Nat.sub_zero] at hle htd
      simp only [Raw.unlStart, Spec.chunksTy, Spec.render_append, Raw.render_cons_p13, Raw.render_nil_p13,
        Spec.Chunk.render, List.append_nil, Spec.alignTy]
      rw [List.take_append_of_le_length (by simpa using hle), List.drop_append_of_le_length (by simpa using hle), htd]
      simp [List.append_assoc]
    | int i => simp [hasField] at hv
    | bytes b => simp [hasField] at hv
    | arr xs => simp [hasField] at hv
    | union i x => simp [hasField] at hv
    | absent => simp [hasField] at hv
    | present x => simp [hasField] at hv
    | sizer => simp [Val.isCounter] at hv

end Prophy

/-
  P20 - the file processor with symbolic links (`ProphyModel/FilesL.lean`):
  cache transparency (every input of a successful run gets what `eval` - a fresh, cache-free walk -
  gives it), order independence, and the refinement of the older model without links
  (`ProphyModel/Files.lean`).
-/
import ProphyModel.FilesL
import ProphyModel.Files
import ProphyModel.Lemmas.FilesOrder
namespace Prophy.FilesL
open Prophy

abbrev Cache_l := List (Path × Option Result)
abbrev IncTab_l := List (Path × List (String × Option Path))

/-! ## Unfolding lemmas -/

theorem eval_zero_l (fs : FS) (incs : List String) (anc : List Path) (p : Path) :
    eval fs incs 0 anc p = .error (.cyclic p) := by
  rw [eval]; try rfl

theorem eval_succ_l (fs : FS) (incs : List String) (n : Nat) (anc : List Path) (p : Path) :
    eval fs incs (n + 1) anc p =
      match ident fs p with
      | none => .error (.notFound p.leaf)
      | some r =>
        if anc.contains r then .error (.cyclic p)
        else
          match content fs r with
          | none => .error (.notFound p.leaf)
          | some file =>
            match eval.go fs incs n anc p r file.includes with
            | .error e => .error e
            | .ok (vis, shapes) => .ok (file.defines, vis ++ file.defines, (0, r) :: shapes) := by
  rw [eval]; try rfl

theorem evalGo_nil_l (fs : FS) (incs : List String) (n : Nat) (anc : List Path) (p r : Path) :
    eval.go fs incs n anc p r [] = .ok ([], []) := by
  rw [eval.go]; try rfl

theorem evalGo_cons_l (fs : FS) (incs : List String) (n : Nat) (anc : List Path) (p r : Path)
    (leaf : String) (rest : List String) :
    eval.go fs incs n anc p r (leaf :: rest) =
      match find fs leaf (searchDirs fs incs p) with
      | none => .error (.notFound leaf)
      | some g =>
        match eval fs incs n (r :: anc) g with
        | .error e => .error e
        | .ok (ex, _, sh) =>
          match eval.go fs incs n anc p r rest with
          | .error e => .error e
          | .ok (vis, shapes) => .ok (ex ++ vis, deeper sh ++ shapes) := by
  rw [eval.go]; try rfl

theorem sameIncludes_zero_l (fs : FS) (incs : List String) (st : State) (r p : Path) :
    sameIncludes fs incs 0 st r p = .error (.cyclic p) := by
  rw [sameIncludes]; try rfl

theorem sameIncludes_succ_l (fs : FS) (incs : List String) (n : Nat) (st : State) (r p : Path) :
    sameIncludes fs incs (n + 1) st r p =
      if st.verified.contains (r, directoriesOf fs p) then .ok st
      else sameIncludes.go fs incs n p { st with verified := (r, directoriesOf fs p) :: st.verified }
        ((st.includesOf.lookup r).getD []) := by
  rw [sameIncludes]; try rfl

theorem sameGo_nil_l (fs : FS) (incs : List String) (n : Nat) (p : Path) (st : State) :
    sameIncludes.go fs incs n p st [] = .ok st := by
  rw [sameIncludes.go]; try rfl

theorem sameGo_cons_l (fs : FS) (incs : List String) (n : Nat) (p : Path) (st : State)
    (leaf : String) (found : Option Path) (rest : List (String × Option Path)) :
    sameIncludes.go fs incs n p st ((leaf, found) :: rest) =
      if (find fs leaf (searchDirs fs incs p)).bind (ident fs) ≠ found then .error (.ambiguous p leaf)
      else
        match find fs leaf (searchDirs fs incs p), found with
        | some h, some f =>
          match sameIncludes fs incs n st f h with
          | .error e => .error e
          | .ok st' => sameIncludes.go fs incs n p st' rest
        | _, _ => sameIncludes.go fs incs n p st rest := by
  cases hh : find fs leaf (searchDirs fs incs p) with
  | none =>
    rw [sameIncludes.go.eq_3 _ _ _ _ _ _ _ _ (by intro h f h1; simp [hh] at h1)]
    simp [hh]
  | some h =>
    cases found with
    | none =>
      rw [sameIncludes.go.eq_3 _ _ _ _ _ _ _ _ (by intro h f _ h2; simp at h2)]
      simp [hh]
    | some f =>
      rw [sameIncludes.go.eq_2 _ _ _ _ _ _ _ _ _ hh]
      simp only [hh]
      rfl

/-! ## `eval`: more fuel, same answer; the answer depends on the path only through its identity (`ident`)
    and its search directories -/

theorem evalGo_mono_step_l (fs : FS) (incs : List String) (n : Nat)
    (h : ∀ anc p x, eval fs incs n anc p = .ok x → eval fs incs (n + 1) anc p = .ok x) :
    ∀ (l : List String) anc p r x, eval.go fs incs n anc p r l = .ok x →
      eval.go fs incs (n + 1) anc p r l = .ok x := by
  intro l
  induction l with
  | nil => intro anc p r x hx; rw [evalGo_nil_l] at *; exact hx
  | cons leaf rest ih =>
    intro anc p r x hx
    rw [evalGo_cons_l] at hx ⊢
    cases hf : find fs leaf (searchDirs fs incs p) with
    | none => simp [hf] at hx
    | some g =>
      simp only [hf] at hx ⊢
      cases he : eval fs incs n (r :: anc) g with
      | error e => simp [he] at hx
      | ok y =>
        obtain ⟨ex, vv, sh⟩ := y
        simp only [he] at hx
        rw [h _ _ _ he]
        cases hg : eval.go fs incs n anc p r rest with
        | error e => simp [hg] at hx
        | ok z =>
          simp only [hg] at hx
          rw [ih _ _ _ _ hg]
          exact hx

theorem eval_mono_step_l (fs : FS) (incs : List String) (n : Nat)
    (h : ∀ (l : List String) anc p r x, eval.go fs incs n anc p r l = .ok x →
      eval.go fs incs (n + 1) anc p r l = .ok x) :
    ∀ anc p x, eval fs incs (n + 1) anc p = .ok x → eval fs incs (n + 2) anc p = .ok x := by
  intro anc p x hx
  rw [eval_succ_l] at hx ⊢
  cases hr : ident fs p with
  | none => simp [hr] at hx
  | some r =>
    simp only [hr] at hx ⊢
    by_cases hc : anc.contains r = true
    · rw [if_pos hc] at hx; cases hx
    · rw [if_neg hc] at hx ⊢
      cases hf : content fs r with
      | none => simp [hf] at hx
      | some file =>
        simp only [hf] at hx ⊢
        cases hg : eval.go fs incs n anc p r file.includes with
        | error e => simp [hg] at hx
        | ok z =>
          simp only [hg] at hx
          rw [h _ _ _ _ _ hg]
          exact hx

theorem eval_mono_succ_l (fs : FS) (incs : List String) :
    ∀ n anc p x, eval fs incs n anc p = .ok x → eval fs incs (n + 1) anc p = .ok x := by
  intro n
  induction n with
  | zero => intro anc p x hx; simp [eval_zero_l] at hx
  | succ n ih => exact eval_mono_step_l fs incs n (evalGo_mono_step_l fs incs n ih)

theorem eval_mono_l (fs : FS) (incs : List String) {n m : Nat} (hnm : n ≤ m) {anc : List Path} {p : Path}
    {x : List String × List String × List (Nat × Path)} (h : eval fs incs n anc p = .ok x) :
    eval fs incs m anc p = .ok x := by
  induction hnm with
  | refl => exact h
  | step _ ih => exact eval_mono_succ_l fs incs _ _ _ _ ih

theorem evalGo_mono_l (fs : FS) (incs : List String) {n m : Nat} (hnm : n ≤ m) {anc : List Path} {p r : Path}
    {l : List String} {x : List String × List (Nat × Path)} (h : eval.go fs incs n anc p r l = .ok x) :
    eval.go fs incs m anc p r l = .ok x := by
  induction hnm with
  | refl => exact h
  | step _ ih => exact evalGo_mono_step_l fs incs _ (eval_mono_succ_l fs incs _) _ _ _ _ _ ih

/-- two successful evaluations of one path (any two fuels) agree -/
theorem eval_det_l (fs : FS) (incs : List String) {n m : Nat} {anc : List Path} {p : Path}
    {x y : List String × List String × List (Nat × Path)}
    (h : eval fs incs n anc p = .ok x) (h' : eval fs incs m anc p = .ok y) : x = y := by
  have a := eval_mono_l fs incs (Nat.le_max_left n m) h
  have b := eval_mono_l fs incs (Nat.le_max_right n m) h'
  rw [a] at b
  injection b

theorem evalGo_congr_l (fs : FS) (incs : List String) (n : Nat) (anc : List Path) (p p' r : Path)
    (hd : searchDirs fs incs p' = searchDirs fs incs p) :
    ∀ l : List String, eval.go fs incs n anc p' r l = eval.go fs incs n anc p r l := by
  intro l
  induction l with
  | nil => rw [evalGo_nil_l, evalGo_nil_l]
  | cons leaf rest ih => rw [evalGo_cons_l, evalGo_cons_l, hd, ih]

/-- `eval` depends on the path only through (identity, directories): the key of `verified`
    (the identity `ident fs p` is the file; the real path only enters through `directoriesOf`) -/
theorem eval_congr_l (fs : FS) (incs : List String) {n : Nat} {anc : List Path} {p p' : Path}
    {x : List String × List String × List (Nat × Path)}
    (hr : ident fs p' = ident fs p) (hd : directoriesOf fs p' = directoriesOf fs p)
    (h : eval fs incs n anc p = .ok x) : eval fs incs n anc p' = .ok x := by
  cases n with
  | zero => simp [eval_zero_l] at h
  | succ n =>
    rw [eval_succ_l] at h ⊢
    rw [hr]
    cases hrr : ident fs p with
    | none => simp [hrr] at h
    | some r =>
      simp only [hrr] at h ⊢
      by_cases hc : anc.contains r = true
      · rw [if_pos hc] at h; cases h
      · rw [if_neg hc] at h ⊢
        cases hf : content fs r with
        | none => simp [hf] at h
        | some file =>
          simp only [hf] at h ⊢
          rw [evalGo_congr_l fs incs n anc p p' r (by simp only [searchDirs, hd])]
          exact h

/-! ## The invariant -/

theorem lookup_cons_l {α β : Type} [DecidableEq α] (a k : α) (b : β) (c : List (α × β)) :
    List.lookup a ((k, b) :: c) = if a = k then some b else List.lookup a c := by
  rw [List.lookup_cons]
  by_cases h : a = k
  · subst h; simp
  · have hb : (a == k) = false := by simpa using h
    rw [hb]; simp [h]

theorem flatMap_congr_l {α β : Type} {f g : α → List β} :
    ∀ {l : List α}, (∀ e ∈ l, f e = g e) → l.flatMap f = l.flatMap g
  | [], _ => rfl
  | a :: l, h => by
    rw [List.flatMap_cons, List.flatMap_cons, h a (List.mem_cons_self ..),
      flatMap_congr_l (fun e he => h e (List.mem_cons_of_mem _ he))]

theorem length_le_flatMap_l {α β : Type} (f : α → List β) :
    ∀ {l : List α} {e : α}, e ∈ l → (f e).length ≤ (l.flatMap f).length
  | a :: l, e, h => by
    rw [List.flatMap_cons, List.length_append]
    rcases List.mem_cons.mp h with rfl | h
    · omega
    · have := length_le_flatMap_l f h
      omega

theorem nodup_of_map_l {α β : Type} (f : α → β) : ∀ {l : List α}, (l.map f).Nodup → l.Nodup
  | [], _ => List.nodup_nil
  | a :: l, h => by
    rw [List.map_cons, List.nodup_cons] at h
    exact List.nodup_cons.mpr ⟨fun hm => h.1 (List.mem_map_of_mem hm), nodup_of_map_l f h.2⟩

theorem length_deeper_l (t : List (Nat × Path)) : (deeper t).length = t.length := by
  simp [deeper]

/-- `r` is a finished entry of the cache, with result `res` -/
def fin_l (c : Cache_l) (r : Path) (res : Result) : Prop := c.lookup r = some (some res)

theorem fin_fun_l {c : Cache_l} {r : Path} {a b : Result} (h : fin_l c r a) (h' : fin_l c r b) : a = b := by
  unfold fin_l at h h'
  rw [h] at h'
  injection h' with h'
  injection h'

/-- the cached result of an include (`default` when there is none) -/
def cres_l (c : Cache_l) : Option Path → Result
  | some f =>
    match c.lookup f with
    | some (some res) => res
    | _ => default
  | none => default

theorem cres_of_fin_l {c : Cache_l} {f : Path} {res : Result} (h : fin_l c f res) : cres_l c (some f) = res := by
  unfold fin_l at h
  simp only [cres_l, h]

/-- every finished entry of `c` is a finished entry of `c'` (with the same result) -/
def Sub_l (c c' : Cache_l) : Prop := ∀ x res, fin_l c x res → fin_l c' x res

theorem Sub_refl_l (c : Cache_l) : Sub_l c c := fun _ _ h => h

theorem Sub_trans_l {a b c : Cache_l} (h : Sub_l a b) (h' : Sub_l b c) : Sub_l a c :=
  fun x res hx => h' x res (h x res hx)

/-- the ancestors that are finished files are all bigger (longer include tree) than `k`: a file with an include tree
    of length `k` cannot reach them -/
def ancOK_l (c : Cache_l) (k : Nat) (anc : List Path) : Prop :=
  ∀ a ∈ anc, ∀ res, fin_l c a res → k < res.shape.length

theorem ancOK_mono_l {c c' : Cache_l} (h : Sub_l c c') {k : Nat} {anc : List Path} (ha : ancOK_l c' k anc) :
    ancOK_l c k anc := fun a hm res hf => ha a hm res (h a res hf)

/-- the cache-free walk from `p` gives the three components of `res`, under every list of ancestors that cannot be met -/
def EvalsTo_l (fs : FS) (incs : List String) (c : Cache_l) (p : Path) (res : Result) : Prop :=
  ∀ anc, ancOK_l c res.shape.length anc → ∃ n, eval fs incs n anc p = .ok (res.exports, res.visible, res.shape)

theorem EvalsTo_mono_l {fs : FS} {incs : List String} {c c' : Cache_l} (h : Sub_l c c') {p : Path} {res : Result}
    (he : EvalsTo_l fs incs c p res) : EvalsTo_l fs incs c' p res :=
  fun anc ha => he anc (ancOK_mono_l h ha)

/-- the meaning of `(r, dirs) ∈ verified` once `r` is finished with `res` -/
def Correct_l (fs : FS) (incs : List String) (c : Cache_l) (key : Path × List String) (res : Result) : Prop :=
  ∀ p, ident fs p = some key.1 → directoriesOf fs p = key.2 → EvalsTo_l fs incs c p res

theorem Correct_mono_l {fs : FS} {incs : List String} {c c' : Cache_l} (h : Sub_l c c') {key : Path × List String}
    {res : Result} (he : Correct_l fs incs c key res) : Correct_l fs incs c' key res :=
  fun p h1 h2 => EvalsTo_mono_l h (he p h1 h2)

theorem Correct_of_EvalsTo_l {fs : FS} {incs : List String} {c : Cache_l} {p r : Path} {res : Result}
    (hr : ident fs p = some r) (he : EvalsTo_l fs incs c p res) :
    Correct_l fs incs c (r, directoriesOf fs p) res := by
  intro p' h1 h2 anc ha
  obtain ⟨n, hn⟩ := he anc ha
  exact ⟨n, eval_congr_l fs incs (h1.trans hr.symm) h2 hn⟩

/-- a finished entry is what its content and the finished entries of its includes (as recorded in `includesOf`) make it -/
def StructAt_l (fs : FS) (c : Cache_l) (io : IncTab_l) (r : Path) (res : Result) : Prop :=
  ∃ file l, content fs r = some file ∧ io.lookup r = some l ∧ l.map (·.1) = file.includes ∧
    (∀ e ∈ l, ∃ f rf, e.2 = some f ∧ fin_l c f rf) ∧ res.exports = file.defines ∧
    res.visible = l.flatMap (fun e => (cres_l c e.2).exports) ++ file.defines ∧
    res.shape = (0, r) :: l.flatMap (fun e => deeper (cres_l c e.2).shape)

theorem cres_congr_l {c c' : Cache_l} (h : Sub_l c c') {l : List (String × Option Path)}
    (hl : ∀ e ∈ l, ∃ f rf, e.2 = some f ∧ fin_l c f rf) : ∀ e ∈ l, cres_l c e.2 = cres_l c' e.2 := by
  intro e he
  obtain ⟨f, rf, h1, h2⟩ := hl e he
  rw [h1, cres_of_fin_l h2, cres_of_fin_l (h f rf h2)]

theorem StructAt_mono_l {fs : FS} {c c' : Cache_l} {io io' : IncTab_l} {r : Path} {res : Result}
    (h : Sub_l c c') (hio : io'.lookup r = io.lookup r) (hs : StructAt_l fs c io r res) :
    StructAt_l fs c' io' r res := by
  obtain ⟨file, l, h1, h2, h3, h4, h5, h6, h7⟩ := hs
  have hc := cres_congr_l h h4
  refine ⟨file, l, h1, hio.trans h2, h3, ?_, h5, ?_, ?_⟩
  · intro e he
    obtain ⟨f, rf, a, b⟩ := h4 e he
    exact ⟨f, rf, a, h f rf b⟩
  · rw [h6, flatMap_congr_l (fun e he => by rw [hc e he])]
  · rw [h7, flatMap_congr_l (fun e he => by rw [hc e he])]

/-- an include of a finished entry has a strictly shorter include tree -/
theorem StructAt_rank_l {fs : FS} {c : Cache_l} {io : IncTab_l} {r : Path} {res : Result}
    (hs : StructAt_l fs c io r res) {l : List (String × Option Path)} (hl : io.lookup r = some l)
    {e : String × Option Path} (he : e ∈ l) {f : Path} {rf : Result} (hf : e.2 = some f) (hfin : fin_l c f rf) :
    rf.shape.length < res.shape.length := by
  obtain ⟨file, l', h1, h2, h3, h4, h5, h6, h7⟩ := hs
  rw [hl] at h2
  injection h2 with h2
  subst h2
  rw [h7, List.length_cons]
  have := length_le_flatMap_l (fun e : String × Option Path => deeper (cres_l c e.2).shape) he
  simp only [hf, cres_of_fin_l hfin, length_deeper_l] at this
  omega

/-- composition: if every recorded include of the finished `r`, searched again from `p`, is found as a path whose
    walk gives the cached result of the recorded real file, then the walk from `p` gives the cached result of `r` -/
theorem comp_go_l (fs : FS) (incs : List String) (c : Cache_l) (p r : Path) (anc : List Path) :
    ∀ l : List (String × Option Path),
      (∀ e ∈ l, ∃ h f rf, find fs e.1 (searchDirs fs incs p) = some h ∧ e.2 = some f ∧ fin_l c f rf ∧
        EvalsTo_l fs incs c h rf ∧ ancOK_l c rf.shape.length (r :: anc)) →
      ∃ n, eval.go fs incs n anc p r (l.map (·.1)) =
        .ok (l.flatMap (fun e => (cres_l c e.2).exports), l.flatMap (fun e => deeper (cres_l c e.2).shape)) := by
  intro l
  induction l with
  | nil => intro _; exact ⟨0, by rw [List.map_nil, evalGo_nil_l]; rfl⟩
  | cons e rest ih =>
    intro hall
    obtain ⟨h, f, rf, h1, h2, h3, h4, h5⟩ := hall e (List.mem_cons_self ..)
    obtain ⟨n1, hn1⟩ := h4 _ h5
    obtain ⟨n2, hn2⟩ := ih (fun e' he' => hall e' (List.mem_cons_of_mem _ he'))
    refine ⟨max n1 n2, ?_⟩
    rw [List.map_cons, evalGo_cons_l, h1]
    simp only
    rw [eval_mono_l fs incs (Nat.le_max_left n1 n2) hn1]
    simp only
    rw [evalGo_mono_l fs incs (Nat.le_max_right n1 n2) hn2]
    simp only [List.flatMap_cons, h2, cres_of_fin_l h3]

theorem comp_l {fs : FS} {incs : List String} {c : Cache_l} {io : IncTab_l} {p r : Path} {res : Result}
    (hs : StructAt_l fs c io r res) (hr : ident fs p = some r) (hfin : fin_l c r res)
    (hinc : ∀ l, io.lookup r = some l → ∀ e ∈ l, ∃ h f rf, find fs e.1 (searchDirs fs incs p) = some h ∧
      e.2 = some f ∧ fin_l c f rf ∧ EvalsTo_l fs incs c h rf) :
    EvalsTo_l fs incs c p res := by
  intro anc ha
  have hs' := hs
  obtain ⟨file, l, h1, h2, h3, h4, h5, h6, h7⟩ := hs
  have hnot : ¬ (anc.contains r = true) := by
    intro hc
    have := ha r (List.contains_iff_mem.mp hc) res hfin
    omega
  obtain ⟨n, hn⟩ := comp_go_l fs incs c p r anc l (by
    intro e he
    obtain ⟨h, f, rf, a, b, c1, d⟩ := hinc l h2 e he
    refine ⟨h, f, rf, a, b, c1, d, ?_⟩
    have hlt := StructAt_rank_l hs' h2 he b c1
    intro x hx rx hfx
    rcases List.mem_cons.mp hx with rfl | hx
    · rw [fin_fun_l hfx hfin]; exact hlt
    · have := ha x hx rx hfx
      omega)
  refine ⟨n + 1, ?_⟩
  rw [eval_succ_l, hr]
  simp only
  rw [if_neg hnot, h1]
  simp only
  rw [← h3, hn]
  simp only [h5, h6, h7]

/-! ## `sameIncludes` (the check on a cache hit) -/

def Struct_l (fs : FS) (c : Cache_l) (io : IncTab_l) : Prop :=
  ∀ x rx, fin_l c x rx → StructAt_l fs c io x rx

/-- the verified pairs of finished files with an include tree of length at most `K` mean what they should -/
def VOK_l (fs : FS) (incs : List String) (c : Cache_l) (K : Nat) (v : List (Path × List String)) : Prop :=
  ∀ key ∈ v, ∀ rk, fin_l c key.1 rk → rk.shape.length ≤ K → Correct_l fs incs c key rk

/-- the pairs of `v'` that are not in `v` belong to finished files with an include tree of length at most `J` -/
def NewLe_l (c : Cache_l) (J : Nat) (v v' : List (Path × List String)) : Prop :=
  ∀ key ∈ v', key ∈ v ∨ ∃ rk, fin_l c key.1 rk ∧ rk.shape.length ≤ J

def SIStmt_l (fs : FS) (incs : List String) (n : Nat) : Prop :=
  ∀ (c : Cache_l) (io : IncTab_l), Struct_l fs c io →
  ∀ (st : State) (r p : Path) (st' : State) (res : Result) (K : Nat),
    st.cache = c → st.includesOf = io → sameIncludes fs incs n st r p = .ok st' →
    ident fs p = some r → fin_l c r res → res.shape.length ≤ K → VOK_l fs incs c K st.verified →
    st'.cache = c ∧ st'.includesOf = io ∧ (∀ key ∈ st.verified, key ∈ st'.verified) ∧
    (r, directoriesOf fs p) ∈ st'.verified ∧ NewLe_l c res.shape.length st.verified st'.verified ∧
    VOK_l fs incs c K st'.verified

theorem sameGo_spec_l (fs : FS) (incs : List String) (n : Nat) (ih : SIStmt_l fs incs n)
    (c : Cache_l) (io : IncTab_l) (hS : Struct_l fs c io) (p : Path) (J : Nat) :
    ∀ (l : List (String × Option Path)) (stA st' : State),
      stA.cache = c → stA.includesOf = io → sameIncludes.go fs incs n p stA l = .ok st' →
      (∀ e ∈ l, ∃ f rf, e.2 = some f ∧ fin_l c f rf ∧ rf.shape.length ≤ J) →
      VOK_l fs incs c J stA.verified →
      st'.cache = c ∧ st'.includesOf = io ∧ (∀ key ∈ stA.verified, key ∈ st'.verified) ∧
      NewLe_l c J stA.verified st'.verified ∧ VOK_l fs incs c J st'.verified ∧
      (∀ e ∈ l, ∃ h f, find fs e.1 (searchDirs fs incs p) = some h ∧ ident fs h = some f ∧ e.2 = some f ∧
        (f, directoriesOf fs h) ∈ st'.verified) := by
  intro l
  induction l with
  | nil =>
    intro stA st' hc hio hgo _ hv
    rw [sameGo_nil_l] at hgo
    injection hgo with hgo
    subst hgo
    exact ⟨hc, hio, fun _ h => h, fun _ h => .inl h, hv, fun _ h => by cases h⟩
  | cons e rest ihl =>
    intro stA st' hc hio hgo hall hv
    obtain ⟨leaf, found⟩ := e
    obtain ⟨f, rf, hf, hfin, hrk⟩ := hall _ (List.mem_cons_self ..)
    simp only at hf
    subst hf
    rw [sameGo_cons_l] at hgo
    by_cases hne : (find fs leaf (searchDirs fs incs p)).bind (ident fs) ≠ some f
    · rw [if_pos hne] at hgo; cases hgo
    · rw [if_neg hne] at hgo
      have heq : (find fs leaf (searchDirs fs incs p)).bind (ident fs) = some f := Classical.not_not.mp hne
      cases hh : find fs leaf (searchDirs fs incs p) with
      | none => rw [hh] at heq; cases heq
      | some h =>
        rw [hh] at heq
        have hrh : ident fs h = some f := heq
        simp only [hh] at hgo
        cases hsi : sameIncludes fs incs n stA f h with
        | error err => simp [hsi] at hgo
        | ok stB =>
          simp only [hsi] at hgo
          obtain ⟨b1, b2, b3, b4, b5, b6⟩ := ih c io hS stA f h stB rf J hc hio hsi hrh hfin hrk hv
          obtain ⟨c1, c2, c3, c4, c5, c6⟩ := ihl stB st' b1 b2 hgo
            (fun e he => hall e (List.mem_cons_of_mem _ he)) b6
          refine ⟨c1, c2, fun k hk => c3 k (b3 k hk), ?_, c5, ?_⟩
          · intro key hk
            rcases c4 key hk with hk | hk
            · rcases b5 key hk with hk | ⟨rk, hk1, hk2⟩
              · exact .inl hk
              · exact .inr ⟨rk, hk1, by omega⟩
            · exact .inr hk
          · intro e he
            rcases List.mem_cons.mp he with rfl | he
            · exact ⟨h, f, hh, hrh, rfl, c3 _ b4⟩
            · exact c6 e he

theorem sameIncludes_spec_l (fs : FS) (incs : List String) : ∀ n, SIStmt_l fs incs n := by
  intro n
  induction n with
  | zero =>
    intro c io _ st r p st' res K _ _ h
    rw [sameIncludes_zero_l] at h
    cases h
  | succ n ih =>
    intro c io hS st r p st' res K hc hio h hr hfin hK hv
    rw [sameIncludes_succ_l] at h
    by_cases hcon : st.verified.contains (r, directoriesOf fs p) = true
    · rw [if_pos hcon] at h
      injection h with h
      subst h
      exact ⟨hc, hio, fun _ h => h, List.contains_iff_mem.mp hcon, fun _ h => .inl h, hv⟩
    · rw [if_neg hcon] at h
      have hSr := hS r res hfin
      obtain ⟨file, l, s1, s2, s3, s4, s5, s6, s7⟩ := hSr
      have hpos : 1 ≤ res.shape.length := by rw [s7]; simp
      have hl0 : (List.lookup r st.includesOf).getD [] = l := by rw [hio, s2]; rfl
      rw [hl0] at h
      obtain ⟨g1, g2, g3, g4, g5, g6⟩ := sameGo_spec_l fs incs n ih c io hS p (res.shape.length - 1) l
        { st with verified := (r, directoriesOf fs p) :: st.verified } st' hc hio h
        (by
          intro e he
          obtain ⟨f, rf, a, b⟩ := s4 e he
          have := StructAt_rank_l (hS r res hfin) s2 he a b
          exact ⟨f, rf, a, b, by omega⟩)
        (by
          intro key hk rk hfk hrk
          rcases List.mem_cons.mp hk with rfl | hk
          · have := fin_fun_l hfk hfin
            subst this
            omega
          · exact hv key hk rk hfk (by omega))
      refine ⟨g1, g2, fun k hk => g3 k (List.mem_cons_of_mem _ hk), g3 _ (List.mem_cons_self ..), ?_, ?_⟩
      · intro key hk
        rcases g4 key hk with hk | ⟨rk, hk1, hk2⟩
        · rcases List.mem_cons.mp hk with rfl | hk
          · exact .inr ⟨res, hfin, Nat.le_refl _⟩
          · exact .inl hk
        · exact .inr ⟨rk, hk1, by omega⟩
      · intro key hk rk hfk hrk
        by_cases hsmall : rk.shape.length ≤ res.shape.length - 1
        · exact g5 key hk rk hfk hsmall
        · rcases g4 key hk with hk | ⟨rk', hk1, hk2⟩
          · rcases List.mem_cons.mp hk with rfl | hk
            · have := fin_fun_l hfk hfin
              subst this
              apply Correct_of_EvalsTo_l hr
              apply comp_l (hS r rk hfin) hr hfin
              intro l' hl' e he
              rw [s2] at hl'
              injection hl' with hl'
              subst hl'
              obtain ⟨h, f, a, b, c1, d⟩ := g6 e he
              obtain ⟨f', rf, a', b'⟩ := s4 e he
              rw [c1] at a'
              injection a' with a'
              subst a'
              have hlt := StructAt_rank_l (hS r rk hfin) s2 he c1 b'
              exact ⟨h, f, rf, a, c1, b', g5 _ d rf b' (by omega) h b rfl⟩
            · exact hv key hk rk hfk hrk
          · have := fin_fun_l hfk hk1
            subst this
            omega

/-! ## Unfolding and inversion of `processFile` / `processKnown` / `processIncludes` -/

theorem processFile_succ_l (fs : FS) (incs : List String) (n : Nat) (st : State) (p : Path) :
    processFile fs incs (n + 1) st p =
      match ident fs p with
      | none => .error (.notFound p.leaf)
      | some r =>
        match st.names.lookup p.leaf with
        | some q => if q ≠ r then .error (.sameName p.leaf) else processNamed fs incs n st p r
        | none => processNamed fs incs n { st with names := (p.leaf, r) :: st.names } p r := by
  simp only [processFile]; rfl

theorem processNamed_succ_l (fs : FS) (incs : List String) (n : Nat) (st : State) (p r : Path) :
    processNamed fs incs (n + 1) st p r =
      match st.nameOf.lookup r with
      | some l => if l ≠ p.leaf then .error (.twoNames p) else processKnown fs incs n st p r
      | none => processKnown fs incs n { st with nameOf := (r, p.leaf) :: st.nameOf } p r := by
  simp only [processNamed]; rfl

theorem processKnown_succ_l (fs : FS) (incs : List String) (n : Nat) (st : State) (p r : Path) :
    processKnown fs incs (n + 1) st p r =
      match st.cache.lookup r with
      | some none => .error (.cyclic p)
      | some (some res) =>
        match sameIncludes fs incs (n + 1) st r p with
        | .error e => .error e
        | .ok st' => .ok ({ res with parsed := [] }, st')
      | none =>
        match content fs r with
        | none => .error (.notFound p.leaf)
        | some file =>
          let st1 : State := { st with cache := (r, none) :: st.cache,
                                       includesOf := (r, []) :: st.includesOf,
                                       verified := (r, directoriesOf fs p) :: st.verified }
          match processIncludes fs incs n st1 p r file.includes with
          | .error e => .error e
          | .ok (vis, parsed, found, shapes, st2) =>
            let h := 1 + maxList (found.map fun f => (st2.heights.lookup f).getD 0)
            if h > depthLimit then .error (.tooDeep p)
            else
              let res : Result := { exports := file.defines, visible := vis ++ file.defines, parsed := r :: parsed,
                                    shape := (0, r) :: shapes }
              .ok (res, { st2 with heights := (r, h) :: st2.heights, cache := (r, some res) :: st2.cache }) := by
  simp only [processKnown]; rfl

theorem processIncludes_nil_l (fs : FS) (incs : List String) (n : Nat) (st : State) (p r : Path) :
    processIncludes fs incs n st p r [] = .ok ([], [], [], [], st) := by
  cases n <;> simp only [processIncludes]

theorem processIncludes_succ_l (fs : FS) (incs : List String) (n : Nat) (st : State) (p r : Path)
    (leaf : String) (rest : List String) :
    processIncludes fs incs (n + 1) st p r (leaf :: rest) =
      match find fs leaf (searchDirs fs incs p) with
      | none => .error (.notFound leaf)
      | some g =>
        match processFile fs incs n { st with includesOf :=
            (r, (st.includesOf.lookup r).getD [] ++ [(leaf, ident fs g)]) :: st.includesOf } g with
        | .error e => .error e
        | .ok (res, st2) =>
          match processIncludes fs incs n st2 p r rest with
          | .error e => .error e
          | .ok (vis, parsed, found, shapes, st3) =>
            .ok (res.exports ++ vis, res.parsed ++ parsed, ((ident fs g).toList ++ found),
              deeper res.shape ++ shapes, st3) := by
  simp only [processIncludes]
  cases find fs leaf (searchDirs fs incs p) <;> rfl

theorem processFile_ok_inv_l {fs : FS} {incs : List String} {n : Nat} {st st' : State} {p : Path} {res : Result}
    (h : processFile fs incs n st p = .ok (res, st')) :
    ∃ m r st0, n = m + 1 ∧ ident fs p = some r ∧ st0.cache = st.cache ∧ st0.includesOf = st.includesOf ∧
      st0.verified = st.verified ∧ st0.nameOf = st.nameOf ∧ processNamed fs incs m st0 p r = .ok (res, st') := by
  cases n with
  | zero => simp [processFile] at h
  | succ m =>
    rw [processFile_succ_l] at h
    cases hr : ident fs p with
    | none => simp [hr] at h
    | some r =>
      simp only [hr] at h
      cases hn : st.names.lookup p.leaf with
      | none =>
        simp only [hn] at h
        exact ⟨m, r, { st with names := (p.leaf, r) :: st.names }, rfl, rfl, rfl, rfl, rfl, rfl, h⟩
      | some q =>
        simp only [hn] at h
        by_cases hq : q ≠ r
        · rw [if_pos hq] at h; cases h
        · rw [if_neg hq] at h
          exact ⟨m, r, st, rfl, rfl, rfl, rfl, rfl, rfl, h⟩

theorem processNamed_ok_inv_l {fs : FS} {incs : List String} {n : Nat} {st st' : State} {p r : Path} {res : Result}
    (h : processNamed fs incs n st p r = .ok (res, st')) :
    ∃ m st0, n = m + 1 ∧ st0.cache = st.cache ∧ st0.includesOf = st.includesOf ∧
      st0.verified = st.verified ∧ processKnown fs incs m st0 p r = .ok (res, st') := by
  cases n with
  | zero => simp [processNamed] at h
  | succ m =>
    rw [processNamed_succ_l] at h
    cases hn : st.nameOf.lookup r with
    | none =>
      simp only [hn] at h
      exact ⟨m, { st with nameOf := (r, p.leaf) :: st.nameOf }, rfl, rfl, rfl, rfl, h⟩
    | some l =>
      simp only [hn] at h
      by_cases hq : l ≠ p.leaf
      · rw [if_pos hq] at h; cases h
      · rw [if_neg hq] at h
        exact ⟨m, st, rfl, rfl, rfl, rfl, h⟩

theorem processKnown_ok_inv_l {fs : FS} {incs : List String} {n : Nat} {st st' : State} {p r : Path} {res : Result}
    (h : processKnown fs incs n st p r = .ok (res, st')) :
    (∃ res0, st.cache.lookup r = some (some res0) ∧ sameIncludes fs incs n st r p = .ok st' ∧
      res = { res0 with parsed := [] }) ∨
    (∃ m file vis parsed found shapes st2, n = m + 1 ∧ st.cache.lookup r = none ∧ content fs r = some file ∧
      processIncludes fs incs m { st with cache := (r, none) :: st.cache,
                                          includesOf := (r, []) :: st.includesOf,
                                          verified := (r, directoriesOf fs p) :: st.verified } p r file.includes
        = .ok (vis, parsed, found, shapes, st2) ∧
      res = ⟨file.defines, vis ++ file.defines, r :: parsed, (0, r) :: shapes⟩ ∧
      st'.cache = (r, some res) :: st2.cache ∧ st'.includesOf = st2.includesOf ∧ st'.verified = st2.verified) := by
  cases n with
  | zero => simp [processKnown] at h
  | succ m =>
    rw [processKnown_succ_l] at h
    cases hl : st.cache.lookup r with
    | some o =>
      cases o with
      | none => simp [hl] at h
      | some res0 =>
        simp only [hl] at h
        cases hs : sameIncludes fs incs (m + 1) st r p with
        | error e => simp [hs] at h
        | ok st1 =>
          simp only [hs] at h
          injection h with h
          injection h with h1 h2
          subst h2
          exact .inl ⟨res0, rfl, rfl, h1.symm⟩
    | none =>
      simp only [hl] at h
      cases hc : content fs r with
      | none => simp [hc] at h
      | some file =>
        simp only [hc] at h
        cases hi : processIncludes fs incs m ({ st with cache := (r, none) :: st.cache, includesOf := (r, []) :: st.includesOf, verified := (r, directoriesOf fs p) :: st.verified } : State) p r file.includes with
        | error e => simp [hi] at h
        | ok x =>
          obtain ⟨vis, parsed, found, shapes, st2⟩ := x
          simp only [hi] at h
          split at h
          · cases h
          · injection h with h
            injection h with h1 h2
            subst h2
            exact .inr ⟨m, file, vis, parsed, found, shapes, st2, rfl, rfl, rfl, hi, h1.symm, by rw [← h1], rfl, rfl⟩

theorem processIncludes_ok_inv_l {fs : FS} {incs : List String} {n : Nat} {st st' : State} {p r : Path}
    {l : List String} {vis : List String} {parsed found : List Path} {shapes : List (Nat × Path)}
    (h : processIncludes fs incs n st p r l = .ok (vis, parsed, found, shapes, st')) :
    (l = [] ∧ vis = [] ∧ shapes = [] ∧ st' = st) ∨
    (∃ m leaf rest g res st2 vis' parsed' found' shapes', n = m + 1 ∧ l = leaf :: rest ∧
      find fs leaf (searchDirs fs incs p) = some g ∧
      processFile fs incs m { st with includesOf :=
            (r, (st.includesOf.lookup r).getD [] ++ [(leaf, ident fs g)]) :: st.includesOf } g = .ok (res, st2) ∧
      processIncludes fs incs m st2 p r rest = .ok (vis', parsed', found', shapes', st') ∧
      vis = res.exports ++ vis' ∧ shapes = deeper res.shape ++ shapes') := by
  cases l with
  | nil =>
    rw [processIncludes_nil_l] at h
    injection h with h
    simp only [Prod.mk.injEq] at h
    obtain ⟨h1, _, _, h4, h5⟩ := h
    exact .inl ⟨rfl, h1.symm, h4.symm, h5.symm⟩
  | cons leaf rest =>
    cases n with
    | zero => simp [processIncludes] at h
    | succ m =>
      rw [processIncludes_succ_l] at h
      cases hg : find fs leaf (searchDirs fs incs p) with
      | none => simp [hg] at h
      | some g =>
        simp only [hg] at h
        cases hp : processFile fs incs m ({ st with includesOf :=
            (r, (st.includesOf.lookup r).getD [] ++ [(leaf, ident fs g)]) :: st.includesOf } : State) g with
        | error e => simp [hp] at h
        | ok x =>
          obtain ⟨res, st2⟩ := x
          simp only [hp] at h
          cases hi : processIncludes fs incs m st2 p r rest with
          | error e => simp [hi] at h
          | ok y =>
            obtain ⟨vis', parsed', found', shapes', st3⟩ := y
            simp only [hi] at h
            injection h with h
            simp only [Prod.mk.injEq] at h
            obtain ⟨h1, _, _, h4, h5⟩ := h
            subst h5
            exact .inr ⟨m, leaf, rest, g, res, st2, vis', parsed', found', shapes', rfl, rfl, hg, hp, hi,
              h1.symm, h4.symm⟩

/-! ## The invariant of the state, and what one call does to it -/

/-- the invariant of the processor state (cache, `includes_of`, `verified`):
    * every finished entry is composed of its content and the finished entries of the includes recorded for it;
    * every verified pair (identity, directories) of a finished file means: every path with that identity and these
      directories evaluates (cache-free) to the cached result;
    * verified pairs only mention files that are in the cache -/
structure Inv_l (fs : FS) (incs : List String) (c : Cache_l) (io : IncTab_l) (v : List (Path × List String)) : Prop where
  struct : Struct_l fs c io
  correct : ∀ key ∈ v, ∀ rk, fin_l c key.1 rk → Correct_l fs incs c key rk
  known : ∀ key ∈ v, c.lookup key.1 ≠ none

/-- what a call may do to cache and `verified`: entries of the cache are never changed, a new verified pair belongs to
    a file that is finished afterwards -/
structure Frame_l (c : Cache_l) (v : List (Path × List String)) (c' : Cache_l) (v' : List (Path × List String)) : Prop where
  cache : ∀ x, c.lookup x ≠ none → c'.lookup x = c.lookup x
  newkeys : ∀ key ∈ v', key ∈ v ∨ ∃ res, fin_l c' key.1 res

/-- the recorded includes of the files in the cache (other than `ex`) are not changed -/
def IOF_l (ex : Option Path) (c : Cache_l) (io io' : IncTab_l) : Prop :=
  ∀ x, some x ≠ ex → c.lookup x ≠ none → io'.lookup x = io.lookup x

theorem Frame_sub_l {c c' : Cache_l} {v v' : List (Path × List String)} (h : Frame_l c v c' v') : Sub_l c c' := by
  intro x res hx
  unfold fin_l at hx ⊢
  rw [h.cache x (by rw [hx]; simp), hx]

theorem Frame_refl_l (c : Cache_l) (v : List (Path × List String)) : Frame_l c v c v :=
  ⟨fun _ _ => rfl, fun _ h => .inl h⟩

theorem Frame_trans_l {c1 c2 c3 : Cache_l} {v1 v2 v3 : List (Path × List String)}
    (h : Frame_l c1 v1 c2 v2) (h' : Frame_l c2 v2 c3 v3) : Frame_l c1 v1 c3 v3 := by
  refine ⟨?_, ?_⟩
  · intro x hx
    have := h.cache x hx
    rw [h'.cache x (by rw [this]; exact hx), this]
  · intro key hk
    rcases h'.newkeys key hk with hk | hk
    · rcases h.newkeys key hk with hk | ⟨res, hr⟩
      · exact .inl hk
      · exact .inr ⟨res, Frame_sub_l h' _ _ hr⟩
    · exact .inr hk

/-- the outcome of `processFile` on `p`: the real file is finished, with the returned result (up to `parsed`), and the
    cache-free walk from `p` gives it -/
def Out_l (fs : FS) (incs : List String) (c' : Cache_l) (p : Path) (res : Result) : Prop :=
  ∃ r res0, ident fs p = some r ∧ fin_l c' r res0 ∧ res0.exports = res.exports ∧ res0.visible = res.visible ∧
    res0.shape = res.shape ∧ EvalsTo_l fs incs c' p res0

def PFStmt_l (fs : FS) (incs : List String) (n : Nat) : Prop :=
  ∀ (st : State) (p : Path) (res : Result) (st' : State), processFile fs incs n st p = .ok (res, st') →
    Inv_l fs incs st.cache st.includesOf st.verified →
    Inv_l fs incs st'.cache st'.includesOf st'.verified ∧ Frame_l st.cache st.verified st'.cache st'.verified ∧
    IOF_l none st.cache st.includesOf st'.includesOf ∧ Out_l fs incs st'.cache p res

def PKStmt_l (fs : FS) (incs : List String) (n : Nat) : Prop :=
  ∀ (st : State) (p r : Path) (res : Result) (st' : State), processKnown fs incs n st p r = .ok (res, st') →
    ident fs p = some r → Inv_l fs incs st.cache st.includesOf st.verified →
    Inv_l fs incs st'.cache st'.includesOf st'.verified ∧ Frame_l st.cache st.verified st'.cache st'.verified ∧
    IOF_l none st.cache st.includesOf st'.includesOf ∧ Out_l fs incs st'.cache p res

def PNStmt_l (fs : FS) (incs : List String) (n : Nat) : Prop :=
  ∀ (st : State) (p r : Path) (res : Result) (st' : State), processNamed fs incs n st p r = .ok (res, st') →
    ident fs p = some r → Inv_l fs incs st.cache st.includesOf st.verified →
    Inv_l fs incs st'.cache st'.includesOf st'.verified ∧ Frame_l st.cache st.verified st'.cache st'.verified ∧
    IOF_l none st.cache st.includesOf st'.includesOf ∧ Out_l fs incs st'.cache p res

def PIStmt_l (fs : FS) (incs : List String) (n : Nat) : Prop :=
  ∀ (st : State) (p r : Path) (leaves vis : List String) (parsed found : List Path) (shapes : List (Nat × Path))
    (st' : State) (l0 : List (String × Option Path)),
    processIncludes fs incs n st p r leaves = .ok (vis, parsed, found, shapes, st') →
    st.cache.lookup r = some none → st.includesOf.lookup r = some l0 →
    Inv_l fs incs st.cache st.includesOf st.verified →
    Inv_l fs incs st'.cache st'.includesOf st'.verified ∧ Frame_l st.cache st.verified st'.cache st'.verified ∧
    IOF_l (some r) st.cache st.includesOf st'.includesOf ∧
    ∃ new : List (String × Option Path), st'.includesOf.lookup r = some (l0 ++ new) ∧ new.map (·.1) = leaves ∧
      vis = new.flatMap (fun e => (cres_l st'.cache e.2).exports) ∧
      shapes = new.flatMap (fun e => deeper (cres_l st'.cache e.2).shape) ∧
      ∀ e ∈ new, ∃ h f rf, find fs e.1 (searchDirs fs incs p) = some h ∧ e.2 = some f ∧ fin_l st'.cache f rf ∧
        EvalsTo_l fs incs st'.cache h rf

theorem PF_step_l (fs : FS) (incs : List String) (n : Nat) (hK : PNStmt_l fs incs n) : PFStmt_l fs incs (n + 1) := by
  intro st p res st' h hI
  obtain ⟨m, r, st0, hm, hr, e1, e2, e3, _, hk⟩ := processFile_ok_inv_l h
  have hm' : m = n := by omega
  subst hm'
  have := hK st0 p r res st' hk hr (by rw [e1, e2, e3]; exact hI)
  rw [e1, e2, e3] at this
  exact this

theorem PN_step_l (fs : FS) (incs : List String) (n : Nat) (hK : PKStmt_l fs incs n) : PNStmt_l fs incs (n + 1) := by
  intro st p r res st' h hr hI
  obtain ⟨m, st0, hm, e1, e2, e3, hk⟩ := processNamed_ok_inv_l h
  have hm' : m = n := by omega
  subst hm'
  have := hK st0 p r res st' hk hr (by rw [e1, e2, e3]; exact hI)
  rw [e1, e2, e3] at this
  exact this

theorem PK_hit_l (fs : FS) (incs : List String) (n : Nat) (st : State) (p r : Path) (res0 : Result) (st' : State)
    (hl : st.cache.lookup r = some (some res0)) (hs : sameIncludes fs incs n st r p = .ok st')
    (hr : ident fs p = some r) (hI : Inv_l fs incs st.cache st.includesOf st.verified) :
    Inv_l fs incs st'.cache st'.includesOf st'.verified ∧ Frame_l st.cache st.verified st'.cache st'.verified ∧
    IOF_l none st.cache st.includesOf st'.includesOf ∧ Out_l fs incs st'.cache p { res0 with parsed := [] } := by
  have hfin : fin_l st.cache r res0 := hl
  obtain ⟨a1, a2, a3, a4, a5, a6⟩ := sameIncludes_spec_l fs incs n st.cache st.includesOf hI.struct st r p st' res0
    res0.shape.length rfl rfl hs hr hfin (Nat.le_refl _) (fun key hk rk hf _ => hI.correct key hk rk hf)
  rw [a1, a2]
  refine ⟨⟨hI.struct, ?_, ?_⟩, ⟨fun _ _ => rfl, ?_⟩, fun _ _ _ => rfl, ?_⟩
  · intro key hk rk hf
    by_cases hsmall : rk.shape.length ≤ res0.shape.length
    · exact a6 key hk rk hf hsmall
    · rcases a5 key hk with hk | ⟨rk', h1, h2⟩
      · exact hI.correct key hk rk hf
      · have := fin_fun_l hf h1
        subst this
        omega
  · intro key hk
    rcases a5 key hk with hk | ⟨rk', h1, _⟩
    · exact hI.known key hk
    · unfold fin_l at h1; rw [h1]; simp
  · intro key hk
    rcases a5 key hk with hk | ⟨rk', h1, _⟩
    · exact .inl hk
    · exact .inr ⟨rk', h1⟩
  · exact ⟨r, res0, hr, hfin, rfl, rfl, rfl, a6 _ a4 res0 hfin (Nat.le_refl _) p hr rfl⟩

theorem fin_cons_none_l {c : Cache_l} {r x : Path} {rx : Result} (h : fin_l ((r, none) :: c) x rx) :
    x ≠ r ∧ fin_l c x rx := by
  unfold fin_l at h ⊢
  rw [lookup_cons_l] at h
  by_cases hx : x = r
  · rw [if_pos hx] at h; cases h
  · rw [if_neg hx] at h; exact ⟨hx, h⟩

theorem PK_miss_l (fs : FS) (incs : List String) (n : Nat) (hPI : PIStmt_l fs incs n)
    (st : State) (p r : Path) (file : File) (vis : List String) (parsed found : List Path)
    (shapes : List (Nat × Path)) (st2 st' : State) (res : Result)
    (hl : st.cache.lookup r = none) (hc : content fs r = some file)
    (hi : processIncludes fs incs n { st with cache := (r, none) :: st.cache, includesOf := (r, []) :: st.includesOf, verified := (r, directoriesOf fs p) :: st.verified } p r file.includes
        = .ok (vis, parsed, found, shapes, st2))
    (hres : res = ⟨file.defines, vis ++ file.defines, r :: parsed, (0, r) :: shapes⟩)
    (e1 : st'.cache = (r, some res) :: st2.cache) (e2 : st'.includesOf = st2.includesOf)
    (e3 : st'.verified = st2.verified)
    (hr : ident fs p = some r) (hI : Inv_l fs incs st.cache st.includesOf st.verified) :
    Inv_l fs incs st'.cache st'.includesOf st'.verified ∧ Frame_l st.cache st.verified st'.cache st'.verified ∧
    IOF_l none st.cache st.includesOf st'.includesOf ∧ Out_l fs incs st'.cache p res := by
  -- the state with the in-progress marker
  have hsub01 : Sub_l st.cache ((r, none) :: st.cache) := by
    intro x rx hx
    unfold fin_l at hx ⊢
    rw [lookup_cons_l]
    by_cases hxr : x = r
    · subst hxr; rw [hl] at hx; cases hx
    · rw [if_neg hxr]; exact hx
  have hI1 : Inv_l fs incs ((r, none) :: st.cache) ((r, []) :: st.includesOf)
      ((r, directoriesOf fs p) :: st.verified) := by
    refine ⟨?_, ?_, ?_⟩
    · intro x rx hx
      obtain ⟨hxr, hx'⟩ := fin_cons_none_l hx
      exact StructAt_mono_l hsub01 (by rw [lookup_cons_l, if_neg hxr]) (hI.struct x rx hx')
    · intro key hk rk hf
      obtain ⟨hxr, hf'⟩ := fin_cons_none_l hf
      rcases List.mem_cons.mp hk with rfl | hk
      · exact absurd rfl hxr
      · exact Correct_mono_l hsub01 (hI.correct key hk rk hf')
    · intro key hk
      rw [lookup_cons_l]
      by_cases hxr : key.1 = r
      · rw [if_pos hxr]; simp
      · rw [if_neg hxr]
        rcases List.mem_cons.mp hk with rfl | hk
        · exact absurd rfl hxr
        · exact hI.known key hk
  obtain ⟨hI2, F12, IO12, new, hio2, hmap, hvis, hshapes, hfacts⟩ :=
    hPI _ p r file.includes vis parsed found shapes st2 [] hi
      (by show List.lookup r ((r, none) :: st.cache) = some none; rw [lookup_cons_l, if_pos rfl])
      (by show List.lookup r ((r, []) :: st.includesOf) = some []; rw [lookup_cons_l, if_pos rfl]) hI1
  have F12 : Frame_l ((r, none) :: st.cache) ((r, directoriesOf fs p) :: st.verified) st2.cache st2.verified := F12
  have IO12 : IOF_l (some r) ((r, none) :: st.cache) ((r, []) :: st.includesOf) st2.includesOf := IO12
  rw [List.nil_append] at hio2
  have hr2 : st2.cache.lookup r = some none := by
    rw [F12.cache r (by rw [lookup_cons_l, if_pos rfl]; simp), lookup_cons_l, if_pos rfl]
  have hsub23 : Sub_l st2.cache ((r, some res) :: st2.cache) := by
    intro x rx hx
    unfold fin_l at hx ⊢
    rw [lookup_cons_l]
    by_cases hxr : x = r
    · subst hxr; rw [hr2] at hx; cases hx
    · rw [if_neg hxr]; exact hx
  have hfin3 : fin_l ((r, some res) :: st2.cache) r res := by
    unfold fin_l; rw [lookup_cons_l, if_pos rfl]
  have hmem2 : ∀ e ∈ new, ∃ f rf, e.2 = some f ∧ fin_l st2.cache f rf := by
    intro e he
    obtain ⟨_, f, rf, _, a, b, _⟩ := hfacts e he
    exact ⟨f, rf, a, b⟩
  have hcg := cres_congr_l hsub23 hmem2
  have hexp : res.exports = file.defines := by rw [hres]
  have hvisr : res.visible = vis ++ file.defines := by rw [hres]
  have hshr : res.shape = (0, r) :: shapes := by rw [hres]
  have hSr : StructAt_l fs ((r, some res) :: st2.cache) st2.includesOf r res := by
    refine ⟨file, new, hc, hio2, hmap, ?_, hexp, ?_, ?_⟩
    · intro e he
      obtain ⟨f, rf, a, b⟩ := hmem2 e he
      exact ⟨f, rf, a, hsub23 f rf b⟩
    · rw [hvisr, hvis, flatMap_congr_l (fun e he => by rw [hcg e he])]
    · rw [hshr, hshapes, flatMap_congr_l (fun e he => by rw [hcg e he])]
  have hev : EvalsTo_l fs incs ((r, some res) :: st2.cache) p res := by
    apply comp_l hSr hr hfin3
    intro l' hl' e he
    rw [hio2] at hl'
    injection hl' with hl'
    subst hl'
    obtain ⟨h, f, rf, a, b, c1, d⟩ := hfacts e he
    exact ⟨h, f, rf, a, b, hsub23 f rf c1, EvalsTo_mono_l hsub23 d⟩
  rw [e1, e2, e3]
  refine ⟨⟨?_, ?_, ?_⟩, ⟨?_, ?_⟩, ?_, ?_⟩
  · intro x rx hx
    by_cases hxr : x = r
    · subst hxr
      rw [fin_fun_l hx hfin3]
      exact hSr
    · have hx2 : fin_l st2.cache x rx := by
        unfold fin_l at hx ⊢
        rw [lookup_cons_l, if_neg hxr] at hx
        exact hx
      exact StructAt_mono_l hsub23 rfl (hI2.struct x rx hx2)
  · intro key hk rk hf
    by_cases hxr : key.1 = r
    · have hrk : rk = res := by
        rw [hxr] at hf
        exact fin_fun_l hf hfin3
      subst hrk
      rcases F12.newkeys key hk with hk1 | ⟨res', hf'⟩
      · rcases List.mem_cons.mp hk1 with rfl | hk0
        · exact Correct_of_EvalsTo_l hr hev
        · exact absurd (hxr ▸ hl) (hI.known key hk0)
      · unfold fin_l at hf'
        rw [hxr, hr2] at hf'
        cases hf'
    · have hf2 : fin_l st2.cache key.1 rk := by
        unfold fin_l at hf ⊢
        rw [lookup_cons_l, if_neg hxr] at hf
        exact hf
      exact Correct_mono_l hsub23 (hI2.correct key hk rk hf2)
  · intro key hk
    rw [lookup_cons_l]
    by_cases hxr : key.1 = r
    · rw [if_pos hxr]; simp
    · rw [if_neg hxr]; exact hI2.known key hk
  · intro x hx
    have hxr : x ≠ r := by
      intro hxr; subst hxr; exact hx hl
    rw [lookup_cons_l, if_neg hxr, F12.cache x (by rw [lookup_cons_l, if_neg hxr]; exact hx), lookup_cons_l, if_neg hxr]
  · intro key hk
    rcases F12.newkeys key hk with hk1 | ⟨res', hf'⟩
    · rcases List.mem_cons.mp hk1 with rfl | hk0
      · exact .inr ⟨res, hfin3⟩
      · exact .inl hk0
    · exact .inr ⟨res', hsub23 _ _ hf'⟩
  · intro x _ hx
    have hxr : x ≠ r := by
      intro hxr; subst hxr; exact hx hl
    rw [IO12 x (by intro h; injection h with h; exact hxr h) (by rw [lookup_cons_l, if_neg hxr]; exact hx),
      lookup_cons_l, if_neg hxr]
  · exact ⟨r, res, hr, hfin3, rfl, rfl, rfl, hev⟩

theorem PK_step_l (fs : FS) (incs : List String) (n : Nat) (hPI : PIStmt_l fs incs n) : PKStmt_l fs incs (n + 1) := by
  intro st p r res st' h hr hI
  rcases processKnown_ok_inv_l h with ⟨res0, hl, hs, hres⟩ |
    ⟨m, file, vis, parsed, found, shapes, st2, hm, hl, hc, hi, hres, e1, e2, e3⟩
  · subst hres
    exact PK_hit_l fs incs (n + 1) st p r res0 st' hl hs hr hI
  · have hm' : m = n := by omega
    subst hm'
    exact PK_miss_l fs incs m hPI st p r file vis parsed found shapes st2 st' res hl hc hi hres e1 e2 e3 hr hI

theorem PI_nil_l (fs : FS) (incs : List String) (st : State) (p r : Path) (vis : List String)
    (shapes : List (Nat × Path)) (st' : State) (l0 : List (String × Option Path))
    (hv : vis = []) (hs : shapes = []) (hst : st' = st) (hio : st.includesOf.lookup r = some l0)
    (hI : Inv_l fs incs st.cache st.includesOf st.verified) :
    Inv_l fs incs st'.cache st'.includesOf st'.verified ∧ Frame_l st.cache st.verified st'.cache st'.verified ∧
    IOF_l (some r) st.cache st.includesOf st'.includesOf ∧
    ∃ new : List (String × Option Path), st'.includesOf.lookup r = some (l0 ++ new) ∧ new.map (·.1) = [] ∧
      vis = new.flatMap (fun e => (cres_l st'.cache e.2).exports) ∧
      shapes = new.flatMap (fun e => deeper (cres_l st'.cache e.2).shape) ∧
      ∀ e ∈ new, ∃ h f rf, find fs e.1 (searchDirs fs incs p) = some h ∧ e.2 = some f ∧ fin_l st'.cache f rf ∧
        EvalsTo_l fs incs st'.cache h rf := by
  subst hv hs hst
  exact ⟨hI, Frame_refl_l _ _, fun _ _ _ => rfl, [], by rw [List.append_nil]; exact hio, rfl, rfl, rfl,
    fun _ h => by cases h⟩

theorem PI_step_l (fs : FS) (incs : List String) (n : Nat) (hPF : PFStmt_l fs incs n) (hPI : PIStmt_l fs incs n) :
    PIStmt_l fs incs (n + 1) := by
  intro st p r leaves vis parsed found shapes st' l0 h hmark hio hI
  rcases processIncludes_ok_inv_l h with ⟨hl, hv, hs, hst⟩ |
    ⟨m, leaf, rest, g, res, st2, vis', parsed', found', shapes', hm, hl, hg, hp, hi, hv, hs⟩
  · subst hl
    exact PI_nil_l fs incs st p r vis shapes st' l0 hv hs hst hio hI
  · have hm' : m = n := by omega
    subst hm'
    subst hl
    -- the state after the include is recorded
    have hI1 : Inv_l fs incs st.cache ((r, l0 ++ [(leaf, ident fs g)]) :: st.includesOf) st.verified := by
      refine ⟨?_, hI.correct, hI.known⟩
      intro x rx hx
      have hxr : x ≠ r := by
        intro hxr; subst hxr
        unfold fin_l at hx; rw [hmark] at hx; cases hx
      exact StructAt_mono_l (Sub_refl_l _) (by rw [lookup_cons_l, if_neg hxr]) (hI.struct x rx hx)
    rw [hio] at hp
    obtain ⟨hI2, F12, IO12, f, res0, hrg, hfin2, x1, x2, x3, hev2⟩ := hPF _ g res st2 hp hI1
    have F12 : Frame_l st.cache st.verified st2.cache st2.verified := F12
    have IO12 : IOF_l none st.cache ((r, l0 ++ [(leaf, ident fs g)]) :: st.includesOf) st2.includesOf := IO12
    have hmark2 : st2.cache.lookup r = some none := by
      rw [F12.cache r (by rw [hmark]; simp), hmark]
    have hio2 : st2.includesOf.lookup r = some (l0 ++ [(leaf, some f)]) := by
      rw [IO12 r (by simp) (by rw [hmark]; simp), lookup_cons_l, if_pos rfl, hrg]
    obtain ⟨hI3, F23, IO23, new', hio3, hmap, hvis', hshapes', hfacts⟩ :=
      hPI st2 p r rest vis' parsed' found' shapes' st' (l0 ++ [(leaf, some f)]) hi hmark2 hio2 hI2
    have hsub23 := Frame_sub_l F23
    have hfin3 : fin_l st'.cache f res0 := hsub23 f res0 hfin2
    refine ⟨hI3, Frame_trans_l F12 F23, ?_, (leaf, some f) :: new', ?_, ?_, ?_, ?_, ?_⟩
    · intro x hxr hx
      have hxr' : x ≠ r := fun h => hxr (by rw [h])
      rw [IO23 x hxr (by rw [F12.cache x hx]; exact hx), IO12 x (by simp) hx, lookup_cons_l, if_neg hxr']
    · rw [hio3, List.append_assoc]; rfl
    · rw [List.map_cons, hmap]
    · rw [hv, hvis', List.flatMap_cons]
      simp only [cres_of_fin_l hfin3, x1]
    · rw [hs, hshapes', List.flatMap_cons]
      simp only [cres_of_fin_l hfin3, x3]
    · intro e he
      rcases List.mem_cons.mp he with rfl | he
      · exact ⟨g, f, res0, hg, rfl, hfin3, EvalsTo_mono_l hsub23 hev2⟩
      · exact hfacts e he

theorem PI_zero_l (fs : FS) (incs : List String) : PIStmt_l fs incs 0 := by
  intro st p r leaves vis parsed found shapes st' l0 h hmark hio hI
  rcases processIncludes_ok_inv_l h with ⟨hl, hv, hs, hst⟩ | ⟨m, _, _, _, _, _, _, _, _, _, hm, _⟩
  · subst hl
    exact PI_nil_l fs incs st p r vis shapes st' l0 hv hs hst hio hI
  · omega

theorem all_stmts_l (fs : FS) (incs : List String) :
    ∀ n, PFStmt_l fs incs n ∧ PNStmt_l fs incs n ∧ PKStmt_l fs incs n ∧ PIStmt_l fs incs n := by
  intro n
  induction n with
  | zero =>
    refine ⟨?_, ?_, ?_, PI_zero_l fs incs⟩
    · intro st p res st' h; simp [processFile] at h
    · intro st p r res st' h; simp [processNamed] at h
    · intro st p r res st' h; simp [processKnown] at h
  | succ n ih =>
    obtain ⟨hF, hN, hK, hI⟩ := ih
    exact ⟨PF_step_l fs incs n hN, PN_step_l fs incs n hK, PK_step_l fs incs n hI, PI_step_l fs incs n hF hI⟩

theorem Inv_init_l (fs : FS) (incs : List String) : Inv_l fs incs [] [] [] := by
  refine ⟨?_, ?_, ?_⟩
  · intro x rx hx; unfold fin_l at hx; simp at hx
  · intro key hk; cases hk
  · intro key hk; cases hk

/-- **Cache transparency, general form**: from any state that satisfies the invariant -/
theorem processMains_transparent_l (fs : FS) (incs : List String) :
    ∀ (ms : List Path) (st : State) (rs : List (Path × Result)),
      Inv_l fs incs st.cache st.includesOf st.verified → processMains fs incs ms st = .ok rs →
      ∀ m res, (m, res) ∈ rs → ∃ n, eval fs incs n [] m = .ok (res.exports, res.visible, res.shape)
  | [], st, rs, _, h => by
    simp only [processMains] at h
    injection h with h
    subst h
    intro m res hm
    cases hm
  | m0 :: ms, st, rs, hI, h => by
    simp only [processMains] at h
    cases hp : processFile fs incs (fuelOf fs) st m0 with
    | error e => simp [hp] at h
    | ok x =>
      obtain ⟨res0, st1⟩ := x
      simp only [hp] at h
      cases hm : processMains fs incs ms st1 with
      | error e => simp [hm] at h
      | ok rs1 =>
        simp only [hm] at h
        injection h with h
        subst h
        obtain ⟨hI1, _, _, r, rr, _, _, y1, y2, y3, hev⟩ := (all_stmts_l fs incs (fuelOf fs)).1 st m0 res0 st1 hp hI
        intro m res hmem
        rcases List.mem_cons.mp hmem with heq | hmem
        · injection heq with h1 h2
          subst h1 h2
          obtain ⟨n, hn⟩ := hev [] (fun a ha => by cases ha)
          rw [y1, y2, y3] at hn
          exact ⟨n, hn⟩
        · exact processMains_transparent_l fs incs ms st1 rs1 hI1 hm m res hmem

/-- **A. Cache transparency.** -/
theorem cache_transparent_l (fs : FS) (incs : List String) (ms : List Path) (rs : List (Path × Result))
    (h : processMains fs incs ms {} = .ok rs) :
    ∀ m res, (m, res) ∈ rs → ∃ n, eval fs incs n [] m = .ok (res.exports, res.visible, res.shape) :=
  processMains_transparent_l fs incs ms {} rs (Inv_init_l fs incs) h

/-- **B. Order independence**: any two successful runs agree on every input they share -/
theorem order_independent_l (fs : FS) (incs : List String) (ms ms' : List Path) (rs rs' : List (Path × Result))
    (h : processMains fs incs ms {} = .ok rs) (h' : processMains fs incs ms' {} = .ok rs') :
    ∀ m r r', (m, r) ∈ rs → (m, r') ∈ rs' →
      r.exports = r'.exports ∧ r.visible = r'.visible ∧ r.shape = r'.shape := by
  intro m r r' hm hm'
  obtain ⟨n, hn⟩ := cache_transparent_l fs incs ms rs h m r hm
  obtain ⟨n', hn'⟩ := cache_transparent_l fs incs ms' rs' h' m r' hm'
  have := eval_det_l fs incs hn hn'
  simp only [Prod.mk.injEq] at this
  exact this

/-! ## C. Refinement of the model without links (`ProphyModel/Files.lean`) -/

/-- the older model: more fuel, same answer -/
theorem Files_mono_succ_l (fs : List Files.File) :
    ∀ n, (∀ dirs cache f x, Files.processFile fs n dirs cache f = .ok x →
            Files.processFile fs (n + 1) dirs cache f = .ok x) ∧
         (∀ dirs cache l x, Files.processIncludes fs n dirs cache l = .ok x →
            Files.processIncludes fs (n + 1) dirs cache l = .ok x) := by
  intro n
  induction n with
  | zero =>
    refine ⟨?_, ?_⟩
    · intro dirs cache f x h; simp [Files.processFile] at h
    · intro dirs cache l x h
      cases l with
      | nil => rw [Files.processIncludes_nil_p15] at *; exact h
      | cons a l => simp [Files.processIncludes] at h
  | succ n ih =>
    obtain ⟨ihF, ihI⟩ := ih
    refine ⟨?_, ?_⟩
    · intro dirs cache f x h
      rw [Files.processFile_succ_p15] at h ⊢
      cases hl : cache.lookup f with
      | some o =>
        cases o with
        | none => simp [hl] at h
        | some r0 => simp only [hl] at h ⊢; exact h
      | none =>
        simp only [hl] at h ⊢
        cases hf : Files.lookupFile fs f with
        | none => simp [hf] at h
        | some file =>
          simp only [hf] at h ⊢
          cases hi : Files.processIncludes fs n dirs ((f, none) :: cache) file.includes with
          | error e => simp [hi] at h
          | ok y =>
            rw [ihI _ _ _ _ hi]
            simp only [hi] at h
            exact h
    · intro dirs cache l x h
      cases l with
      | nil => rw [Files.processIncludes_nil_p15] at *; exact h
      | cons leaf rest =>
        rw [Files.processIncludes_succ_p15] at h ⊢
        cases hg : Files.findLeaf fs leaf dirs with
        | none => simp [hg] at h
        | some g =>
          simp only [hg] at h ⊢
          cases hp : Files.processFile fs n (Files.swapDir_p15 dirs g) cache g with
          | error e => simp [hp] at h
          | ok y =>
            rw [ihF _ _ _ _ hp]
            simp only [hp] at h
            obtain ⟨r, c1⟩ := y
            simp only at h ⊢
            cases hi : Files.processIncludes fs n dirs c1 rest with
            | error e => simp [hi] at h
            | ok z =>
              rw [ihI _ _ _ _ hi]
              simp only [hi] at h
              exact h

/-! ### the embedding -/

def toPath_l (f : Files.FileId) : Path := ⟨f.dir, f.leaf⟩
def toId_l (p : Path) : Files.FileId := ⟨p.dir, p.leaf⟩

@[simp] theorem toId_toPath_l (f : Files.FileId) : toId_l (toPath_l f) = f := rfl
@[simp] theorem toPath_toId_l (p : Path) : toPath_l (toId_l p) = p := rfl

theorem toId_inj_l {p q : Path} (h : toId_l p = toId_l q) : p = q := by
  have := congrArg toPath_l h
  simpa using this

/-- a file system without links: every file is an entry that targets itself -/
def ofFiles (fs : List Files.File) : FS :=
  { entries := fs.map fun f => ⟨toPath_l f.id, toPath_l f.id, toPath_l f.id⟩,
    files := fs.map fun f => ⟨toPath_l f.id, f.includes, f.defines⟩ }

def toFile_l (f : Files.File) : File := ⟨toPath_l f.id, f.includes, f.defines⟩

def toRes_l (r : Result) : Files.Result := ⟨r.exports, r.visible, r.parsed.map toId_l⟩

def toCache_l (c : Cache_l) : Files.Cache := c.map fun e => (toId_l e.1, e.2.map toRes_l)

theorem beq_toPath_l (f : Files.FileId) (p : Path) : (toPath_l f == p) = (f == toId_l p) := by
  by_cases h : f = toId_l p
  · subst h; simp
  · have : toPath_l f ≠ p := fun h' => h (by rw [← h']; rfl)
    rw [beq_eq_false_iff_ne.mpr this, beq_eq_false_iff_ne.mpr h]

theorem real_ofFiles_l (fs : List Files.File) (p : Path) :
    real (ofFiles fs) p = (Files.lookupFile fs (toId_l p)).map fun _ => p := by
  unfold real ofFiles Files.lookupFile
  induction fs with
  | nil => rfl
  | cons f fs ih =>
    simp only [List.map_cons, List.find?_cons, beq_toPath_l]
    by_cases h : f.id = toId_l p
    · simp [h]
    · have hb : (f.id == toId_l p) = false := by simpa using h
      rw [hb]
      exact ih

theorem real_ofFiles_eq_l {fs : List Files.File} {p r : Path} (h : real (ofFiles fs) p = some r) : r = p := by
  rw [real_ofFiles_l] at h
  cases hl : Files.lookupFile fs (toId_l p) with
  | none => simp [hl] at h
  | some f => simp [hl] at h; exact h.symm

/-- without links the identity of a path is its real path (itself) -/
theorem ident_eq_real_ofFiles_l (fs : List Files.File) (p : Path) : ident (ofFiles fs) p = real (ofFiles fs) p := by
  unfold real ident ofFiles
  induction fs with
  | nil => rfl
  | cons f fs ih =>
    simp only [List.map_cons, List.find?_cons]
    cases (toPath_l f.id == p) with
    | true => rfl
    | false => exact ih

theorem ident_ofFiles_eq_l {fs : List Files.File} {p r : Path} (h : ident (ofFiles fs) p = some r) : r = p := by
  rw [ident_eq_real_ofFiles_l] at h
  exact real_ofFiles_eq_l h

theorem content_ofFiles_l (fs : List Files.File) (p : Path) :
    content (ofFiles fs) p = (Files.lookupFile fs (toId_l p)).map toFile_l := by
  unfold content ofFiles Files.lookupFile
  induction fs with
  | nil => rfl
  | cons f fs ih =>
    simp only [List.map_cons, List.find?_cons, beq_toPath_l]
    by_cases h : f.id = toId_l p
    · simp [h, toFile_l]
    · have hb : (f.id == toId_l p) = false := by simpa using h
      rw [hb]
      exact ih

/-- without links the directories of a path are determined by the path -/
theorem directoriesOf_ofFiles_l (fs : List Files.File) (p : Path) : directoriesOf (ofFiles fs) p = [p.dir] := by
  unfold directoriesOf
  cases h : real (ofFiles fs) p with
  | none => rfl
  | some r =>
    have := real_ofFiles_eq_l h
    subst this
    show (if r.dir = r.dir then [r.dir] else [r.dir, r.dir]) = [r.dir]
    rw [if_pos rfl]

theorem searchDirs_ofFiles_l (fs : List Files.File) (incs : List String) (p : Path) :
    searchDirs (ofFiles fs) incs p = p.dir :: incs := by
  simp [searchDirs, directoriesOf_ofFiles_l]

theorem find_ofFiles_l (fs : List Files.File) (leaf : String) :
    ∀ dirs, find (ofFiles fs) leaf dirs = (Files.findLeaf fs leaf dirs).map toPath_l
  | [] => rfl
  | d :: r => by
    simp only [find, Files.findLeaf, real_ofFiles_l]
    have : toId_l ⟨d, leaf⟩ = (⟨d, leaf⟩ : Files.FileId) := rfl
    rw [this]
    cases Files.lookupFile fs ⟨d, leaf⟩ with
    | none => simp [find_ofFiles_l fs leaf r]
    | some f => simp [toPath_l]

theorem lookup_toCache_l (c : Cache_l) (p : Path) :
    (toCache_l c).lookup (toId_l p) = (c.lookup p).map (Option.map toRes_l) := by
  induction c with
  | nil => rfl
  | cons e c ih =>
    obtain ⟨q, o⟩ := e
    show List.lookup (toId_l p) ((toId_l q, o.map toRes_l) :: toCache_l c) = _
    rw [lookup_cons_l, lookup_cons_l]
    by_cases h : p = q
    · subst h; simp
    · have : toId_l p ≠ toId_l q := fun h' => h (toId_inj_l h')
      rw [if_neg h, if_neg this]
      exact ih

/-- `sameIncludes` only touches `verified` -/
theorem sameIncludes_frame_l (fs : FS) (incs : List String) :
    ∀ n st r p st', sameIncludes fs incs n st r p = .ok st' →
      st'.cache = st.cache ∧ st'.includesOf = st.includesOf ∧ st'.names = st.names ∧ st'.heights = st.heights := by
  intro n
  induction n with
  | zero => intro st r p st' h; rw [sameIncludes_zero_l] at h; cases h
  | succ n ih =>
    have hgo : ∀ (p : Path) (l : List (String × Option Path)) (stA st' : State),
        sameIncludes.go fs incs n p stA l = .ok st' →
        st'.cache = stA.cache ∧ st'.includesOf = stA.includesOf ∧ st'.names = stA.names ∧
          st'.heights = stA.heights := by
      intro p l
      induction l with
      | nil =>
        intro stA st' h
        rw [sameGo_nil_l] at h
        injection h with h
        subst h
        exact ⟨rfl, rfl, rfl, rfl⟩
      | cons e rest ihl =>
        intro stA st' h
        obtain ⟨leaf, found⟩ := e
        rw [sameGo_cons_l] at h
        split at h
        · cases h
        · split at h
          · rename_i h' f' _ _
            cases hs : sameIncludes fs incs n stA f' h' with
            | error e => simp [hs] at h
            | ok stB =>
              simp only [hs] at h
              obtain ⟨a1, a2, a3, a4⟩ := ih _ _ _ _ hs
              obtain ⟨b1, b2, b3, b4⟩ := ihl _ _ h
              exact ⟨b1.trans a1, b2.trans a2, b3.trans a3, b4.trans a4⟩
          · exact ihl _ _ h
    intro st r p st' h
    rw [sameIncludes_succ_l] at h
    split at h
    · injection h with h; subst h; exact ⟨rfl, rfl, rfl, rfl⟩
    · exact hgo _ _ { st with verified := (r, directoriesOf fs p) :: st.verified } _ h

def SimF_l (fs : List Files.File) (incs : List String) (n : Nat) : Prop :=
  ∀ (st : State) (p : Path) (res : Result) (st' : State),
    processFile (ofFiles fs) incs n st p = .ok (res, st') →
    Files.processFile fs n (p.dir :: incs) (toCache_l st.cache) (toId_l p) = .ok (toRes_l res, toCache_l st'.cache)

def SimN_l (fs : List Files.File) (incs : List String) (n : Nat) : Prop :=
  ∀ (st : State) (p : Path) (res : Result) (st' : State),
    processNamed (ofFiles fs) incs n st p p = .ok (res, st') →
    Files.processFile fs n (p.dir :: incs) (toCache_l st.cache) (toId_l p) = .ok (toRes_l res, toCache_l st'.cache)

def SimK_l (fs : List Files.File) (incs : List String) (n : Nat) : Prop :=
  ∀ (st : State) (p : Path) (res : Result) (st' : State),
    processKnown (ofFiles fs) incs n st p p = .ok (res, st') →
    Files.processFile fs n (p.dir :: incs) (toCache_l st.cache) (toId_l p) = .ok (toRes_l res, toCache_l st'.cache)

def SimI_l (fs : List Files.File) (incs : List String) (n : Nat) : Prop :=
  ∀ (st : State) (p r : Path) (leaves vis : List String) (parsed found : List Path) (shapes : List (Nat × Path))
    (st' : State),
    processIncludes (ofFiles fs) incs n st p r leaves = .ok (vis, parsed, found, shapes, st') →
    Files.processIncludes fs n (p.dir :: incs) (toCache_l st.cache) leaves =
      .ok (vis, parsed.map toId_l, toCache_l st'.cache)

theorem SimF_step_l (fs : List Files.File) (incs : List String) (n : Nat) (hK : SimN_l fs incs n) :
    SimF_l fs incs (n + 1) := by
  intro st p res st' h
  obtain ⟨m, r, st0, hm, hr, e1, _, _, _, hk⟩ := processFile_ok_inv_l h
  have hm' : m = n := by omega
  subst hm'
  have := ident_ofFiles_eq_l hr
  subst this
  have := hK st0 r res st' hk
  rw [e1] at this
  exact (Files_mono_succ_l fs m).1 _ _ _ _ this

theorem SimN_step_l (fs : List Files.File) (incs : List String) (n : Nat) (hK : SimK_l fs incs n) :
    SimN_l fs incs (n + 1) := by
  intro st p res st' h
  obtain ⟨m, st0, hm, e1, _, _, hk⟩ := processNamed_ok_inv_l h
  have hm' : m = n := by omega
  subst hm'
  have := hK st0 p res st' hk
  rw [e1] at this
  exact (Files_mono_succ_l fs m).1 _ _ _ _ this

theorem SimK_step_l (fs : List Files.File) (incs : List String) (n : Nat) (hI : SimI_l fs incs n) :
    SimK_l fs incs (n + 1) := by
  intro st p res st' h
  rcases processKnown_ok_inv_l h with ⟨res0, hl, hs, hres⟩ |
    ⟨m, file', vis, parsed, found, shapes, st2, hm, hl, hc, hi, hres, e1, _, _⟩
  · obtain ⟨a1, _⟩ := sameIncludes_frame_l _ _ _ _ _ _ _ hs
    rw [Files.processFile_succ_p15, lookup_toCache_l, hl, a1, hres]
    rfl
  · have hm' : m = n := by omega
    subst hm'
    rw [content_ofFiles_l] at hc
    cases hf : Files.lookupFile fs (toId_l p) with
    | none => simp [hf] at hc
    | some file =>
      rw [hf] at hc
      simp only [Option.map_some, Option.some.injEq] at hc
      subst hc
      have hsim := hI _ p p _ vis parsed found shapes st2 hi
      have hsim : Files.processIncludes fs m (p.dir :: incs) ((toId_l p, none) :: toCache_l st.cache) file.includes =
          .ok (vis, parsed.map toId_l, toCache_l st2.cache) := hsim
      rw [Files.processFile_succ_p15, lookup_toCache_l, hl]
      simp only [Option.map_none, hf, hsim]
      rw [e1, hres]
      rfl

theorem SimI_step_l (fs : List Files.File) (incs : List String) (n : Nat) (hF : SimF_l fs incs n)
    (hI : SimI_l fs incs n) : SimI_l fs incs (n + 1) := by
  intro st p r leaves vis parsed found shapes st' h
  cases leaves with
  | nil =>
    rw [processIncludes_nil_l] at h
    injection h with h
    simp only [Prod.mk.injEq] at h
    obtain ⟨h1, h2, _, _, h5⟩ := h
    subst h1 h2 h5
    rw [Files.processIncludes_nil_p15]
    rfl
  | cons leaf rest =>
    rw [processIncludes_succ_l] at h
    rw [searchDirs_ofFiles_l, find_ofFiles_l] at h
    rw [Files.processIncludes_succ_p15]
    cases hg : Files.findLeaf fs leaf (p.dir :: incs) with
    | none => simp [hg] at h
    | some g =>
      simp only [hg, Option.map_some] at h ⊢
      rw [Files.swapDir_cons_p15]
      cases hp : processFile (ofFiles fs) incs n ({ st with includesOf := (r, (st.includesOf.lookup r).getD [] ++ [(leaf, ident (ofFiles fs) (toPath_l g))]) :: st.includesOf } : State) (toPath_l g) with
      | error e => simp [hp] at h
      | ok x =>
        obtain ⟨res, st2⟩ := x
        simp only [hp] at h
        have h1 := hF _ _ _ _ hp
        have h1 : Files.processFile fs n (g.dir :: incs) (toCache_l st.cache) g = .ok (toRes_l res, toCache_l st2.cache) := h1
        rw [h1]
        cases hi : processIncludes (ofFiles fs) incs n st2 p r rest with
        | error e => simp [hi] at h
        | ok y =>
          obtain ⟨vis', parsed', found', shapes', st3⟩ := y
          simp only [hi] at h
          injection h with h
          simp only [Prod.mk.injEq] at h
          obtain ⟨a1, a2, _, _, a5⟩ := h
          subst a1 a2 a5
          have h2 := hI _ _ _ _ _ _ _ _ _ hi
          simp only [h2, List.map_append]
          rfl

theorem Sim_all_l (fs : List Files.File) (incs : List String) :
    ∀ n, SimF_l fs incs n ∧ SimN_l fs incs n ∧ SimK_l fs incs n ∧ SimI_l fs incs n := by
  intro n
  induction n with
  | zero =>
    refine ⟨?_, ?_, ?_, ?_⟩
    · intro st p res st' h; simp [processFile] at h
    · intro st p res st' h; simp [processNamed] at h
    · intro st p res st' h; simp [processKnown] at h
    · intro st p r leaves vis parsed found shapes st' h
      cases leaves with
      | nil =>
        rw [processIncludes_nil_l] at h
        injection h with h
        simp only [Prod.mk.injEq] at h
        obtain ⟨h1, h2, _, _, h5⟩ := h
        subst h1 h2 h5
        rw [Files.processIncludes_nil_p15]
        rfl
      | cons leaf rest => simp [processIncludes] at h
  | succ n ih =>
    obtain ⟨hF, hN, hK, hI⟩ := ih
    exact ⟨SimF_step_l fs incs n hN, SimN_step_l fs incs n hK, SimK_step_l fs incs n hI, SimI_step_l fs incs n hF hI⟩

theorem fuelOf_ofFiles_l (fs : List Files.File) : fuelOf (ofFiles fs) = 5 * fs.length + 5 := by
  simp [fuelOf, ofFiles]

/-- `Files.processMains` with the fuel as a parameter (`Files.processMains` itself is the instance `4 * fs.length + 4`) -/
def filesMainsN_l (fs : List Files.File) (n : Nat) (includeDirs : List String) :
    List Files.FileId → Files.Cache → Except Files.Err (List (Files.FileId × Files.Result))
  | [], _ => .ok []
  | f :: r, cache =>
    match Files.processFile fs n (f.dir :: includeDirs) cache f with
    | .error e => .error e
    | .ok (res, cache1) =>
      match filesMainsN_l fs n includeDirs r cache1 with
      | .error e => .error e
      | .ok rs => .ok ((f, res) :: rs)

theorem filesMainsN_eq_l (fs : List Files.File) (incs : List String) :
    ∀ ms cache, filesMainsN_l fs (4 * fs.length + 4) incs ms cache = Files.processMains fs incs ms cache
  | [], _ => rfl
  | f :: r, cache => by
    simp only [filesMainsN_l, Files.processMains, filesMainsN_eq_l fs incs r]
    rfl

theorem Files_mono_l (fs : List Files.File) {n m : Nat} (hnm : n ≤ m) {dirs : List String} {cache : Files.Cache}
    {f : Files.FileId} {x : Files.Result × Files.Cache} (h : Files.processFile fs n dirs cache f = .ok x) :
    Files.processFile fs m dirs cache f = .ok x := by
  induction hnm with
  | refl => exact h
  | step _ ih => exact (Files_mono_succ_l fs _).1 _ _ _ _ ih

theorem filesMainsN_mono_l (fs : List Files.File) (incs : List String) {n m : Nat} (hnm : n ≤ m) :
    ∀ ms cache rs, filesMainsN_l fs n incs ms cache = .ok rs → filesMainsN_l fs m incs ms cache = .ok rs
  | [], _, rs, h => h
  | f :: r, cache, rs, h => by
    simp only [filesMainsN_l] at h ⊢
    cases hp : Files.processFile fs n (f.dir :: incs) cache f with
    | error e => simp [hp] at h
    | ok x =>
      obtain ⟨res, c1⟩ := x
      simp only [hp] at h
      rw [Files_mono_l fs hnm hp]
      cases hm : filesMainsN_l fs n incs r c1 with
      | error e => simp [hm] at h
      | ok rs1 =>
        simp only [hm] at h
        simp only [filesMainsN_mono_l fs incs hnm r c1 rs1 hm]
        exact h

/-- **C. Refinement**, from any state: a successful run of the model with links over a file system without links is
    a successful run of the older model WITH THE SAME FUEL (`5 * fs.length + 5`; see `C20Links.lean` for why the fuel
    `4 * fs.length + 4` that `Files.processMains` fixes is not always enough), with the same results -/
theorem processMains_refines_l (fs : List Files.File) (incs : List String) :
    ∀ (ms : List Path) (st : State) (rs : List (Path × Result)),
      processMains (ofFiles fs) incs ms st = .ok rs →
      filesMainsN_l fs (5 * fs.length + 5) incs (ms.map toId_l) (toCache_l st.cache) =
        .ok (rs.map fun mr => (toId_l mr.1, toRes_l mr.2))
  | [], st, rs, h => by
    simp only [processMains] at h
    injection h with h
    subst h
    rfl
  | m :: ms, st, rs, h => by
    simp only [processMains] at h
    cases hp : processFile (ofFiles fs) incs (fuelOf (ofFiles fs)) st m with
    | error e => simp [hp] at h
    | ok x =>
      obtain ⟨res, st1⟩ := x
      simp only [hp] at h
      cases hm : processMains (ofFiles fs) incs ms st1 with
      | error e => simp [hm] at h
      | ok rs1 =>
        simp only [hm] at h
        injection h with h
        subst h
        have h1 := (Sim_all_l fs incs (fuelOf (ofFiles fs))).1 st m res st1 hp
        rw [fuelOf_ofFiles_l] at h1
        have h2 := processMains_refines_l fs incs ms st1 rs1 hm
        simp only [List.map_cons, filesMainsN_l]
        have : (toId_l m).dir = m.dir := rfl
        rw [this, h1]
        simp only [h2]

/-- whenever the older model, with its own fuel, succeeds as well, it gives the same results -/
theorem processMains_refines_agree_l (fs : List Files.File) (incs : List String) (ms : List Path) (st : State)
    (rs : List (Path × Result)) (rs' : List (Files.FileId × Files.Result))
    (h : processMains (ofFiles fs) incs ms st = .ok rs)
    (h' : Files.processMains fs incs (ms.map toId_l) (toCache_l st.cache) = .ok rs') :
    rs' = rs.map fun mr => (toId_l mr.1, toRes_l mr.2) := by
  have h1 := processMains_refines_l fs incs ms st rs h
  rw [← filesMainsN_eq_l] at h'
  have h2 := filesMainsN_mono_l fs incs (by omega : 4 * fs.length + 4 ≤ 5 * fs.length + 5) _ _ _ h'
  rw [h1] at h2
  injection h2 with h2
  exact h2.symm

/-- `Files.parsed_once_p15` for any fuel -/
theorem filesMainsN_parsedInv_l (fs : List Files.File) (n : Nat) (inc : List String) :
    ∀ (ms : List Files.FileId) (cache : Files.Cache) (rs : List (Files.FileId × Files.Result)),
      filesMainsN_l fs n inc ms cache = .ok rs →
      (Files.allParsed_p15 rs).Nodup ∧ ∀ g ∈ Files.allParsed_p15 rs, cache.lookup g = none
  | [], cache, rs, h => by
    simp only [filesMainsN_l] at h
    injection h with h
    subst h
    simp [Files.allParsed_p15]
  | f :: ms, cache, rs, h => by
    simp only [filesMainsN_l] at h
    cases hp : Files.processFile fs n (f.dir :: inc) cache f with
    | error e => simp [hp] at h
    | ok res =>
      obtain ⟨r, c1⟩ := res
      simp only [hp] at h
      cases hm : filesMainsN_l fs n inc ms c1 with
      | error e => simp [hm] at h
      | ok rs1 =>
        simp only [hm] at h
        injection h with h
        subst h
        have h1 := Files.processFile_parsedInv_p15 hp
        have ⟨h2, h3⟩ := filesMainsN_parsedInv_l fs n inc ms c1 rs1 hm
        have hall : Files.allParsed_p15 ((f, r) :: rs1) = r.parsed ++ Files.allParsed_p15 rs1 := by
          simp [Files.allParsed_p15]
        rw [hall]
        refine ⟨List.nodup_append.mpr ⟨h1.nodup, h2, ?_⟩, ?_⟩
        · intro a ha b hb hab
          subst hab
          exact h1.added a ha (h3 a hb)
        · intro a ha
          rcases List.mem_append.mp ha with ha | ha
          · exact h1.fresh a ha
          · have := h3 a ha
            cases hc : List.lookup a cache with
            | none => rfl
            | some o => exact absurd this (h1.mono a (by simp [hc]))

/-! ### without links `sameIncludes` always succeeds (and changes nothing) -/

/-- every finished file has been verified for its own directory - without links the only directories it can have -/
def VerInv_l (st : State) : Prop :=
  ∀ r res, st.cache.lookup r = some (some res) → (r, [r.dir]) ∈ st.verified

/-- without links a finished file that is reached again has been verified for the very same (real path, directories)
    pair, so `sameIncludes` returns at once, with the state unchanged -/
theorem sameIncludes_ofFiles_l (fs : List Files.File) (incs : List String) (n : Nat) (st : State) (r p : Path)
    (res : Result) (hI : VerInv_l st) (hr : real (ofFiles fs) p = some r) (hl : st.cache.lookup r = some (some res)) :
    sameIncludes (ofFiles fs) incs (n + 1) st r p = .ok st := by
  have := real_ofFiles_eq_l hr
  subst this
  rw [sameIncludes_succ_l, directoriesOf_ofFiles_l, if_pos (List.contains_iff_mem.mpr (hI r res hl))]

def VStmtF_l (fs : List Files.File) (incs : List String) (n : Nat) : Prop :=
  ∀ (st : State) (p : Path) (res : Result) (st' : State),
    processFile (ofFiles fs) incs n st p = .ok (res, st') → VerInv_l st →
    VerInv_l st' ∧ (∀ k ∈ st.verified, k ∈ st'.verified) ∧ (∀ x, st.cache.lookup x ≠ none → st'.cache.lookup x = st.cache.lookup x)

def VStmtK_l (fs : List Files.File) (incs : List String) (n : Nat) : Prop :=
  ∀ (st : State) (p : Path) (res : Result) (st' : State),
    processKnown (ofFiles fs) incs n st p p = .ok (res, st') → real (ofFiles fs) p = some p → VerInv_l st →
    VerInv_l st' ∧ (∀ k ∈ st.verified, k ∈ st'.verified) ∧ (∀ x, st.cache.lookup x ≠ none → st'.cache.lookup x = st.cache.lookup x)

def VStmtN_l (fs : List Files.File) (incs : List String) (n : Nat) : Prop :=
  ∀ (st : State) (p : Path) (res : Result) (st' : State),
    processNamed (ofFiles fs) incs n st p p = .ok (res, st') → real (ofFiles fs) p = some p → VerInv_l st →
    VerInv_l st' ∧ (∀ k ∈ st.verified, k ∈ st'.verified) ∧ (∀ x, st.cache.lookup x ≠ none → st'.cache.lookup x = st.cache.lookup x)

def VStmtI_l (fs : List Files.File) (incs : List String) (n : Nat) : Prop :=
  ∀ (st : State) (p r : Path) (leaves vis : List String) (parsed found : List Path) (shapes : List (Nat × Path))
    (st' : State),
    processIncludes (ofFiles fs) incs n st p r leaves = .ok (vis, parsed, found, shapes, st') → VerInv_l st →
    VerInv_l st' ∧ (∀ k ∈ st.verified, k ∈ st'.verified) ∧ (∀ x, st.cache.lookup x ≠ none → st'.cache.lookup x = st.cache.lookup x)

theorem VStmt_all_l (fs : List Files.File) (incs : List String) :
    ∀ n, VStmtF_l fs incs n ∧ VStmtN_l fs incs n ∧ VStmtK_l fs incs n ∧ VStmtI_l fs incs n := by
  intro n
  induction n with
  | zero =>
    refine ⟨?_, ?_, ?_, ?_⟩
    · intro st p res st' h; simp [processFile] at h
    · intro st p res st' h; simp [processNamed] at h
    · intro st p res st' h; simp [processKnown] at h
    · intro st p r leaves vis parsed found shapes st' h hI
      rcases processIncludes_ok_inv_l h with ⟨_, _, _, hst⟩ | ⟨m, _, _, _, _, _, _, _, _, _, hm, _⟩
      · subst hst; exact ⟨hI, fun _ h => h, fun _ _ => rfl⟩
      · omega
  | succ n ih =>
    obtain ⟨hF, hN, hK, hI⟩ := ih
    refine ⟨?_, ?_, ?_, ?_⟩
    · intro st p res st' h hV
      obtain ⟨m, r, st0, hm, hr, e1, _, e3, _, hk⟩ := processFile_ok_inv_l h
      have hm' : m = n := by omega
      subst hm'
      rw [ident_eq_real_ofFiles_l] at hr
      have := real_ofFiles_eq_l hr
      subst this
      have := hN st0 r res st' hk hr (by intro x rx hx; rw [e1] at hx; rw [e3]; exact hV x rx hx)
      rw [e1, e3] at this
      exact this
    · intro st p res st' h hr hV
      obtain ⟨m, st0, hm, e1, _, e3, hk⟩ := processNamed_ok_inv_l h
      have hm' : m = n := by omega
      subst hm'
      have := hK st0 p res st' hk hr (by intro x rx hx; rw [e1] at hx; rw [e3]; exact hV x rx hx)
      rw [e1, e3] at this
      exact this
    · intro st p res st' h hr hV
      rcases processKnown_ok_inv_l h with ⟨res0, hl, hs, _⟩ |
        ⟨m, file, vis, parsed, found, shapes, st2, hm, hl, _, hi, _, e1, _, e3⟩
      · rw [sameIncludes_ofFiles_l fs incs n st p p res0 hV hr hl] at hs
        injection hs with hs
        subst hs
        exact ⟨hV, fun _ h => h, fun _ _ => rfl⟩
      · have hm' : m = n := by omega
        subst hm'
        obtain ⟨b1, b2, b3⟩ := hI _ p p _ vis parsed found shapes st2 hi (by
          intro x rx hx
          have hx : List.lookup x ((p, none) :: st.cache) = some (some rx) := hx
          obtain ⟨_, hx'⟩ := fin_cons_none_l hx
          exact List.mem_cons_of_mem _ (hV x rx hx'))
        have b2 : ∀ k ∈ (p, directoriesOf (ofFiles fs) p) :: st.verified, k ∈ st2.verified := b2
        have b3 : ∀ x, List.lookup x ((p, none) :: st.cache) ≠ none →
            st2.cache.lookup x = List.lookup x ((p, none) :: st.cache) := b3
        have hp2 : st2.cache.lookup p = some none := by
          rw [b3 p (by rw [lookup_cons_l, if_pos rfl]; simp), lookup_cons_l, if_pos rfl]
        refine ⟨?_, ?_, ?_⟩
        · intro x rx hx
          rw [e1, lookup_cons_l] at hx
          rw [e3]
          by_cases hxp : x = p
          · subst hxp
            have := b2 (x, directoriesOf (ofFiles fs) x) (List.mem_cons_self ..)
            rw [directoriesOf_ofFiles_l] at this
            exact this
          · rw [if_neg hxp] at hx
            exact b1 x rx hx
        · intro k hk
          rw [e3]
          exact b2 k (List.mem_cons_of_mem _ hk)
        · intro x hx
          have hxp : x ≠ p := by intro hxp; subst hxp; exact hx hl
          rw [e1, lookup_cons_l, if_neg hxp, b3 x (by rw [lookup_cons_l, if_neg hxp]; exact hx), lookup_cons_l,
            if_neg hxp]
    · intro st p r leaves vis parsed found shapes st' h hV
      rcases processIncludes_ok_inv_l h with ⟨_, _, _, hst⟩ |
        ⟨m, leaf, rest, g, res, st2, vis', parsed', found', shapes', hm, _, _, hp, hi, _, _⟩
      · subst hst; exact ⟨hV, fun _ h => h, fun _ _ => rfl⟩
      · have hm' : m = n := by omega
        subst hm'
        obtain ⟨a1, a2, a3⟩ := hF _ g res st2 hp hV
        obtain ⟨b1, b2, b3⟩ := hI st2 p r rest vis' parsed' found' shapes' st' hi a1
        refine ⟨b1, fun k hk => b2 k (a2 k hk), ?_⟩
        intro x hx
        have := a3 x hx
        rw [b3 x (by rw [this]; exact hx), this]

/-- the invariant holds initially and after every input: so in a run over a file system without links no call of
    `sameIncludes` ever fails (`sameIncludes_ofFiles_l`) -/
theorem VerInv_init_l : VerInv_l {} := by
  intro r res h
  simp at h

theorem VerInv_processFile_l (fs : List Files.File) (incs : List String) (n : Nat) (st : State) (p : Path)
    (res : Result) (st' : State) (h : processFile (ofFiles fs) incs n st p = .ok (res, st')) (hV : VerInv_l st) :
    VerInv_l st' := ((VStmt_all_l fs incs n).1 st p res st' h hV).1

/-! ### without links `processNamed` never refuses (`TwoNamesError` cannot happen) -/

/-- every real path is registered under its own leaf - without links the only name it can be used under -/
def NameInv_l (st : State) : Prop := ∀ r l, st.nameOf.lookup r = some l → l = r.leaf

theorem NameInv_init_l : NameInv_l {} := by
  intro r l h
  simp at h

/-- without links a path is its own real path, so the registered name is the leaf used now: `processNamed` goes on to
    `processKnown`, in a state that satisfies the invariant again -/
theorem processNamed_ofFiles_l (fs : List Files.File) (incs : List String) (n : Nat) (st : State) (p r : Path)
    (hI : NameInv_l st) (hr : real (ofFiles fs) p = some r) :
    ∃ st0, NameInv_l st0 ∧ st0.cache = st.cache ∧ st0.includesOf = st.includesOf ∧ st0.verified = st.verified ∧
      st0.names = st.names ∧
      processNamed (ofFiles fs) incs (n + 1) st p r = processKnown (ofFiles fs) incs n st0 p r := by
  have := real_ofFiles_eq_l hr
  subst this
  rw [processNamed_succ_l]
  cases hn : st.nameOf.lookup r with
  | some l =>
    have := hI r l hn
    subst this
    exact ⟨st, hI, rfl, rfl, rfl, rfl, by simp⟩
  | none =>
    refine ⟨{ st with nameOf := (r, r.leaf) :: st.nameOf }, ?_, rfl, rfl, rfl, rfl, rfl⟩
    intro x l hx
    have hx : List.lookup x ((r, r.leaf) :: st.nameOf) = some l := hx
    rw [lookup_cons_l] at hx
    by_cases hxr : x = r
    · rw [if_pos hxr] at hx
      injection hx with hx
      rw [← hx, hxr]
    · rw [if_neg hxr] at hx
      exact hI x l hx

/-- `sameIncludes` does not touch `nameOf` and never reports `twoNames` -/
def SameOK_l (st : State) (x : Except Err State) : Prop :=
  match x with
  | .ok st' => st'.nameOf = st.nameOf
  | .error e => ∀ q, e ≠ .twoNames q

theorem SameOK_trans_l {stA stB : State} {x : Except Err State} (h : SameOK_l stB x) (hn : stB.nameOf = stA.nameOf) :
    SameOK_l stA x := by
  cases x with
  | error e => exact h
  | ok st' => exact (show st'.nameOf = stB.nameOf from h).trans hn

theorem sameIncludes_nameOf_l (fs : FS) (incs : List String) :
    ∀ n st r p, SameOK_l st (sameIncludes fs incs n st r p) := by
  intro n
  induction n with
  | zero => intro st r p; rw [sameIncludes_zero_l]; intro q h; cases h
  | succ n ih =>
    have hgo : ∀ (p : Path) (l : List (String × Option Path)) (stA : State),
        SameOK_l stA (sameIncludes.go fs incs n p stA l) := by
      intro p l
      induction l with
      | nil => intro stA; rw [sameGo_nil_l]; exact rfl
      | cons e rest ihl =>
        intro stA
        obtain ⟨leaf, found⟩ := e
        rw [sameGo_cons_l]
        by_cases hne : (find fs leaf (searchDirs fs incs p)).bind (ident fs) ≠ found
        · rw [if_pos hne]; intro q h; cases h
        · rw [if_neg hne]
          cases hh : find fs leaf (searchDirs fs incs p) with
          | none => exact ihl stA
          | some h' =>
            cases found with
            | none => exact ihl stA
            | some f' =>
              simp only
              have h1 := ih stA f' h'
              cases hs : sameIncludes fs incs n stA f' h' with
              | error e => rw [hs] at h1; exact h1
              | ok stB =>
                rw [hs] at h1
                exact SameOK_trans_l (ihl stB) h1
    intro st r p
    rw [sameIncludes_succ_l]
    by_cases hc : st.verified.contains (r, directoriesOf fs p) = true
    · rw [if_pos hc]; exact rfl
    · rw [if_neg hc]
      exact hgo p _ { st with verified := (r, directoriesOf fs p) :: st.verified }

def NoTwoF_l (x : Except Err (Result × State)) : Prop :=
  match x with
  | .ok (_, st') => NameInv_l st'
  | .error e => ∀ q, e ≠ .twoNames q

def NoTwoI_l (x : Except Err (List String × List Path × List Path × List (Nat × Path) × State)) : Prop :=
  match x with
  | .ok (_, _, _, _, st') => NameInv_l st'
  | .error e => ∀ q, e ≠ .twoNames q

theorem NoTwo_all_l (fs : List Files.File) (incs : List String) :
    ∀ n, (∀ st p, NameInv_l st → NoTwoF_l (processFile (ofFiles fs) incs n st p)) ∧
         (∀ st p r, NameInv_l st → real (ofFiles fs) p = some r → NoTwoF_l (processNamed (ofFiles fs) incs n st p r)) ∧
         (∀ st p r, NameInv_l st → NoTwoF_l (processKnown (ofFiles fs) incs n st p r)) ∧
         (∀ st p r l, NameInv_l st → NoTwoI_l (processIncludes (ofFiles fs) incs n st p r l)) := by
  intro n
  induction n with
  | zero =>
    refine ⟨?_, ?_, ?_, ?_⟩
    · intro st p _; simp only [processFile]; intro q h; cases h
    · intro st p r _ _; simp only [processNamed]; intro q h; cases h
    · intro st p r _; simp only [processKnown]; intro q h; cases h
    · intro st p r l hI
      cases l with
      | nil => rw [processIncludes_nil_l]; exact hI
      | cons a l => simp only [processIncludes]; intro q h; cases h
  | succ n ih =>
    obtain ⟨hF, hN, hK, hI⟩ := ih
    refine ⟨?_, ?_, ?_, ?_⟩
    · intro st p hV
      rw [processFile_succ_l]
      cases hr : ident (ofFiles fs) p with
      | none => intro q h; cases h
      | some r =>
        simp only
        cases hn : st.names.lookup p.leaf with
        | none => exact hN { st with names := (p.leaf, r) :: st.names } p r hV (ident_eq_real_ofFiles_l fs p ▸ hr)
        | some q0 =>
          simp only
          split
          · intro q h; cases h
          · exact hN st p r hV (ident_eq_real_ofFiles_l fs p ▸ hr)
    · intro st p r hV hr
      obtain ⟨st0, h0, _, _, _, _, heq⟩ := processNamed_ofFiles_l fs incs n st p r hV hr
      rw [heq]
      exact hK st0 p r h0
    · intro st p r hV
      rw [processKnown_succ_l]
      cases hl : st.cache.lookup r with
      | some o =>
        cases o with
        | none => intro q h; cases h
        | some res0 =>
          simp only
          have h1 := sameIncludes_nameOf_l (ofFiles fs) incs (n + 1) st r p
          cases hs : sameIncludes (ofFiles fs) incs (n + 1) st r p with
          | error e => rw [hs] at h1; exact h1
          | ok st' =>
            rw [hs] at h1
            have h1 : st'.nameOf = st.nameOf := h1
            intro x l hx
            have hx : st'.nameOf.lookup x = some l := hx
            rw [h1] at hx
            exact hV x l hx
      | none =>
        simp only
        cases hc : content (ofFiles fs) r with
        | none => intro q h; cases h
        | some file =>
          simp only
          have h1 := hI ({ st with cache := (r, none) :: st.cache, includesOf := (r, []) :: st.includesOf, verified := (r, directoriesOf (ofFiles fs) p) :: st.verified } : State) p r file.includes hV
          cases hi : processIncludes (ofFiles fs) incs n ({ st with cache := (r, none) :: st.cache, includesOf := (r, []) :: st.includesOf, verified := (r, directoriesOf (ofFiles fs) p) :: st.verified } : State) p r file.includes with
          | error e => rw [hi] at h1; exact h1
          | ok y =>
            obtain ⟨vis, parsed, found, shapes, st2⟩ := y
            rw [hi] at h1
            simp only
            split
            · intro q h; cases h
            · exact h1
    · intro st p r l hV
      cases l with
      | nil => rw [processIncludes_nil_l]; exact hV
      | cons leaf rest =>
        rw [processIncludes_succ_l]
        cases hg : find (ofFiles fs) leaf (searchDirs (ofFiles fs) incs p) with
        | none => intro q h; cases h
        | some g =>
          simp only
          have h1 := hF ({ st with includesOf := (r, (st.includesOf.lookup r).getD [] ++ [(leaf, ident (ofFiles fs) g)]) :: st.includesOf } : State) g hV
          cases hp : processFile (ofFiles fs) incs n ({ st with includesOf := (r, (st.includesOf.lookup r).getD [] ++ [(leaf, ident (ofFiles fs) g)]) :: st.includesOf } : State) g with
          | error e => rw [hp] at h1; exact h1
          | ok y =>
            obtain ⟨res, st2⟩ := y
            rw [hp] at h1
            simp only
            have h2 := hI st2 p r rest h1
            cases hi : processIncludes (ofFiles fs) incs n st2 p r rest with
            | error e => rw [hi] at h2; exact h2
            | ok z =>
              obtain ⟨vis, parsed, found, shapes, st3⟩ := z
              rw [hi] at h2
              exact h2

/-- a run over a file system without links never ends with `twoNames` -/
theorem processMains_noTwoNames_l (fs : List Files.File) (incs : List String) :
    ∀ (ms : List Path) (st : State), NameInv_l st → ∀ q, processMains (ofFiles fs) incs ms st ≠ .error (.twoNames q)
  | [], st, _, q => by simp only [processMains]; intro h; cases h
  | m :: ms, st, hV, q => by
    simp only [processMains]
    have h1 := (NoTwo_all_l fs incs (fuelOf (ofFiles fs))).1 st m hV
    cases hp : processFile (ofFiles fs) incs (fuelOf (ofFiles fs)) st m with
    | error e =>
      rw [hp] at h1
      simp only
      intro h
      injection h with h
      exact h1 q h
    | ok y =>
      obtain ⟨res, st1⟩ := y
      rw [hp] at h1
      simp only
      have h2 := processMains_noTwoNames_l fs incs ms st1 h1 q
      cases hm : processMains (ofFiles fs) incs ms st1 with
      | error e =>
        rw [hm] at h2
        simp only
        intro h
        injection h with h
        exact h2 (by rw [h])
      | ok rs => simp only; intro h; cases h

/-! ## Executable copies

  `sameIncludes` (and `eval`) are compiled by well-founded recursion (the nested `let rec go`), so `decide` cannot unfold
  them.  The following copies are structurally recursive on the fuel, are proved equal to the model's functions, and make
  the concrete examples of `Properties/C20Links.lean` checkable by `decide` (after one rewrite with the equality). -/

def sameGoS_l (rec : State → Path → Path → Except Err State) (fs : FS) (incs : List String) (p : Path) :
    State → List (String × Option Path) → Except Err State
  | st, [] => .ok st
  | st, (leaf, found) :: rest =>
    if (find fs leaf (searchDirs fs incs p)).bind (ident fs) ≠ found then .error (.ambiguous p leaf)
    else
      match find fs leaf (searchDirs fs incs p), found with
      | some h, some f =>
        match rec st f h with
        | .error e => .error e
        | .ok st' => sameGoS_l rec fs incs p st' rest
      | _, _ => sameGoS_l rec fs incs p st rest

def sameIncludesS_l (fs : FS) (incs : List String) : Nat → State → Path → Path → Except Err State
  | 0, _, _, p => .error (.cyclic p)
  | fuel + 1, st, r, p =>
    if st.verified.contains (r, directoriesOf fs p) then .ok st
    else sameGoS_l (sameIncludesS_l fs incs fuel) fs incs p
      { st with verified := (r, directoriesOf fs p) :: st.verified } ((st.includesOf.lookup r).getD [])

theorem sameGoS_eq_l (rec : State → Path → Path → Except Err State) (fs : FS) (incs : List String) (n : Nat) (p : Path)
    (hrec : ∀ st f h, rec st f h = sameIncludes fs incs n st f h) :
    ∀ (l : List (String × Option Path)) (st : State),
      sameGoS_l rec fs incs p st l = sameIncludes.go fs incs n p st l := by
  intro l
  induction l with
  | nil => intro st; rw [sameGo_nil_l]; rfl
  | cons e rest ih =>
    intro st
    obtain ⟨leaf, found⟩ := e
    rw [sameGo_cons_l]
    simp only [sameGoS_l]
    split
    · rfl
    · cases find fs leaf (searchDirs fs incs p) with
      | none => simp only [ih]
      | some h =>
        cases found with
        | none => simp only [ih]
        | some f =>
          simp only [hrec]
          cases sameIncludes fs incs n st f h with
          | error e => rfl
          | ok st' => simp only [ih]

theorem sameIncludesS_eq_l (fs : FS) (incs : List String) :
    ∀ n st r p, sameIncludesS_l fs incs n st r p = sameIncludes fs incs n st r p := by
  intro n
  induction n with
  | zero => intro st r p; rw [sameIncludes_zero_l]; rfl
  | succ n ih =>
    intro st r p
    rw [sameIncludes_succ_l]
    simp only [sameIncludesS_l]
    rw [sameGoS_eq_l _ fs incs n p (fun st f h => ih st f h)]

mutual
  def processFileS_l (fs : FS) (incs : List String) : Nat → State → Path → Except Err (Result × State)
    | 0, _, p => .error (.cyclic p)
    | fuel + 1, st, p =>
      match ident fs p with
      | none => .error (.notFound p.leaf)
      | some r =>
        match st.names.lookup p.leaf with
        | some q => if q ≠ r then .error (.sameName p.leaf) else processNamedS_l fs incs fuel st p r
        | none => processNamedS_l fs incs fuel { st with names := (p.leaf, r) :: st.names } p r
  def processNamedS_l (fs : FS) (incs : List String) : Nat → State → Path → Path → Except Err (Result × State)
    | 0, _, p, _ => .error (.cyclic p)
    | fuel + 1, st, p, r =>
      match st.nameOf.lookup r with
      | some l => if l ≠ p.leaf then .error (.twoNames p) else processKnownS_l fs incs fuel st p r
      | none => processKnownS_l fs incs fuel { st with nameOf := (r, p.leaf) :: st.nameOf } p r
  def processKnownS_l (fs : FS) (incs : List String) : Nat → State → Path → Path → Except Err (Result × State)
    | 0, _, p, _ => .error (.cyclic p)
    | fuel + 1, st, p, r =>
      match st.cache.lookup r with
      | some none => .error (.cyclic p)
      | some (some res) =>
        match sameIncludesS_l fs incs (fuel + 1) st r p with
        | .error e => .error e
        | .ok st' => .ok ({ res with parsed := [] }, st')
      | none =>
        match content fs r with
        | none => .error (.notFound p.leaf)
        | some file =>
          let st1 : State := { st with cache := (r, none) :: st.cache,
                                       includesOf := (r, []) :: st.includesOf,
                                       verified := (r, directoriesOf fs p) :: st.verified }
          match processIncludesS_l fs incs fuel st1 p r file.includes with
          | .error e => .error e
          | .ok (vis, parsed, found, shapes, st2) =>
            let h := 1 + maxList (found.map fun f => (st2.heights.lookup f).getD 0)
            if h > depthLimit then .error (.tooDeep p)
            else
              let res : Result := { exports := file.defines, visible := vis ++ file.defines, parsed := r :: parsed,
                                    shape := (0, r) :: shapes }
              .ok (res, { st2 with heights := (r, h) :: st2.heights, cache := (r, some res) :: st2.cache })
  def processIncludesS_l (fs : FS) (incs : List String) : Nat → State → Path → Path → List String →
      Except Err (List String × List Path × List Path × List (Nat × Path) × State)
    | _, st, _, _, [] => .ok ([], [], [], [], st)
    | 0, _, _, _, leaf :: _ => .error (.notFound leaf)
    | fuel + 1, st, p, r, leaf :: rest =>
      let here := find fs leaf (searchDirs fs incs p)
      let st1 := { st with includesOf := (r, (st.includesOf.lookup r).getD [] ++ [(leaf, here.bind (ident fs))]) :: st.includesOf }
      match here with
      | none => .error (.notFound leaf)
      | some g =>
        match processFileS_l fs incs fuel st1 g with
        | .error e => .error e
        | .ok (res, st2) =>
          match processIncludesS_l fs incs fuel st2 p r rest with
          | .error e => .error e
          | .ok (vis, parsed, found, shapes, st3) =>
            .ok (res.exports ++ vis, res.parsed ++ parsed, ((ident fs g).toList ++ found), deeper res.shape ++ shapes, st3)
end

def processMainsS_l (fs : FS) (incs : List String) : List Path → State → Except Err (List (Path × Result))
  | [], _ => .ok []
  | m :: rest, st =>
    match processFileS_l fs incs (fuelOf fs) st m with
    | .error e => .error e
    | .ok (res, st1) =>
      match processMainsS_l fs incs rest st1 with
      | .error e => .error e
      | .ok rs => .ok ((m, res) :: rs)

theorem processS_eq_l (fs : FS) (incs : List String) :
    ∀ n, (∀ st p, processFileS_l fs incs n st p = processFile fs incs n st p) ∧
         (∀ st p r, processNamedS_l fs incs n st p r = processNamed fs incs n st p r) ∧
         (∀ st p r, processKnownS_l fs incs n st p r = processKnown fs incs n st p r) ∧
         (∀ st p r l, processIncludesS_l fs incs n st p r l = processIncludes fs incs n st p r l) := by
  intro n
  induction n with
  | zero =>
    refine ⟨?_, ?_, ?_, ?_⟩
    · intro st p; simp only [processFileS_l, processFile]
    · intro st p r; simp only [processNamedS_l, processNamed]
    · intro st p r; simp only [processKnownS_l, processKnown]
    · intro st p r l; cases l <;> simp only [processIncludesS_l, processIncludes]
  | succ n ih =>
    obtain ⟨hF, hN, hK, hI⟩ := ih
    refine ⟨?_, ?_, ?_, ?_⟩
    · intro st p; simp only [processFileS_l, processFile, hN]; rfl
    · intro st p r; simp only [processNamedS_l, processNamed, hK]; rfl
    · intro st p r; simp only [processKnownS_l, processKnown, hI, sameIncludesS_eq_l]; rfl
    · intro st p r l; cases l <;> simp only [processIncludesS_l, processIncludes, hF, hI] <;> rfl

theorem processMainsS_eq_l (fs : FS) (incs : List String) :
    ∀ ms st, processMains fs incs ms st = processMainsS_l fs incs ms st
  | [], st => by simp only [processMains, processMainsS_l]
  | m :: ms, st => by
    simp only [processMains, processMainsS_l, (processS_eq_l fs incs _).1, processMainsS_eq_l fs incs ms]
    rfl

def evalGoS_l (rec : List Path → Path → Except Err (List String × List String × List (Nat × Path)))
    (fs : FS) (incs : List String) (anc : List Path) (p r : Path) :
    List String → Except Err (List String × List (Nat × Path))
  | [] => .ok ([], [])
  | leaf :: rest =>
    match find fs leaf (searchDirs fs incs p) with
    | none => .error (.notFound leaf)
    | some g =>
      match rec (r :: anc) g with
      | .error e => .error e
      | .ok (ex, _, sh) =>
        match evalGoS_l rec fs incs anc p r rest with
        | .error e => .error e
        | .ok (vis, shapes) => .ok (ex ++ vis, deeper sh ++ shapes)

def evalS_l (fs : FS) (incs : List String) : Nat → List Path → Path →
    Except Err (List String × List String × List (Nat × Path))
  | 0, _, p => .error (.cyclic p)
  | fuel + 1, anc, p =>
    match ident fs p with
    | none => .error (.notFound p.leaf)
    | some r =>
      if anc.contains r then .error (.cyclic p)
      else
        match content fs r with
        | none => .error (.notFound p.leaf)
        | some file =>
          match evalGoS_l (evalS_l fs incs fuel) fs incs anc p r file.includes with
          | .error e => .error e
          | .ok (vis, shapes) => .ok (file.defines, vis ++ file.defines, (0, r) :: shapes)

theorem evalGoS_eq_l (rec : List Path → Path → Except Err (List String × List String × List (Nat × Path)))
    (fs : FS) (incs : List String) (n : Nat) (anc : List Path) (p r : Path)
    (hrec : ∀ a g, rec a g = eval fs incs n a g) :
    ∀ l : List String, evalGoS_l rec fs incs anc p r l = eval.go fs incs n anc p r l := by
  intro l
  induction l with
  | nil => rw [evalGo_nil_l]; rfl
  | cons leaf rest ih =>
    rw [evalGo_cons_l]
    simp only [evalGoS_l, hrec, ih]

theorem evalS_eq_l (fs : FS) (incs : List String) :
    ∀ n anc p, eval fs incs n anc p = evalS_l fs incs n anc p := by
  intro n
  induction n with
  | zero => intro anc p; rw [eval_zero_l]; rfl
  | succ n ih =>
    intro anc p
    rw [eval_succ_l]
    simp only [evalS_l, evalGoS_eq_l _ fs incs n _ _ _ (fun a g => (ih a g).symm)]

end Prophy.FilesL

#print axioms Prophy.FilesL.cache_transparent_l
#print axioms Prophy.FilesL.order_independent_l
#print axioms Prophy.FilesL.processMains_refines_l
#print axioms Prophy.FilesL.sameIncludes_ofFiles_l
#print axioms Prophy.FilesL.processMainsS_eq_l
#print axioms Prophy.FilesL.processMains_refines_agree_l
#print axioms Prophy.FilesL.processMains_noTwoNames_l
#print axioms Prophy.FilesL.evalS_eq_l

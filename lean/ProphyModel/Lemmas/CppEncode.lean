/-
  The generated C++ full codec encodes canonically and within get_byte_size (C03 / C05).

  Part 1  the layout prophyc computes (`PL`) against the documented layout (`Spec`): alignments,
          kinds, sizes of fixed types, and the signed paddings of struct members
          (`Cpp.structMembers_eq_lay`).
  Part 2  lengths of canonical encodings (fixed types encode to their static size, every encoding
          is a multiple of its type's alignment) and the padding statement after a member
          (`Cpp.padOf_step`, `Cpp.layInv_step`).
  Part 3  the pointer encoder (`Cpp.cfield_ok / cms_ok / celems_ok`), `get_byte_size`
          (`Cpp.bfield_ok / bms_ok / belems_ok`), the theorems `Cpp.encodeVec_canonical`,
          `Cpp.getByteSize_spec`, and the counterexamples to the statements without the added
          hypotheses.
-/
import ProphyModel.Cpp
import ProphyModel.Accept
import ProphyModel.Lemmas.PyEncode
import ProphyModel.Lemmas.WFAccept

/-! ## Part 1: prophyc's layout and the documented layout -/
namespace Prophy
open Prophy

/-! ### arithmetic -/
theorem padTo_zero (a : Nat) : padTo 0 a = 0 := by unfold padTo; simp

theorem mod_of_dvd_mod (off bs a A : Nat) (ha : a ∣ A) (h : off % A = bs % A) : off % a = bs % a := by
  rw [← Nat.mod_mod_of_dvd off ha, h, Nat.mod_mod_of_dvd bs ha]

theorem padTo_congr (off bs a A : Nat) (ha : a ∣ A) (h : off % A = bs % A) : padTo off a = padTo bs a := by
  have := mod_of_dvd_mod off bs a A ha h
  unfold padTo; rw [this]

theorem alignUp_congr (off bs a A : Nat) (ha : a ∣ A) (h : off % A = bs % A) :
    alignUp off a % A = alignUp bs a % A := by
  unfold alignUp
  rw [padTo_congr off bs a A ha h, Nat.add_mod, h, ← Nat.add_mod]

theorem add_mod_congr (x y l A : Nat) (h : x % A = y % A) : (x + l) % A = (y + l) % A := by
  rw [Nat.add_mod, h, ← Nat.add_mod]

theorem IsAl.dvd_of_le_cppenc {a b : Nat} (ha : IsAl a) (hb : IsAl b) (h : a ≤ b) : a ∣ b := by
  unfold IsAl at *
  rcases ha with rfl | rfl | rfl | rfl <;> rcases hb with rfl | rfl | rfl | rfl <;> first | decide | omega

theorem max_dvd_of {a b c : Nat} (h1 : a ∣ c) (h2 : b ∣ c) : max a b ∣ c := by
  rcases Nat.le_total a b with h | h
  · rw [Nat.max_eq_right h]; exact h2
  · rw [Nat.max_eq_left h]; exact h1

namespace PL

theorem partMax_le : (ms : List Mem) → partMax ms ≤ maxAlign ms
  | [] => Nat.le_refl _
  | m :: r => by
    have := partMax_le r
    simp only [partMax, maxAlign]
    split <;> omega

theorem bump_maxAlign : (ms : List Mem) → (f : Bool) → maxAlign (bump ms f) = maxAlign ms
  | [], _ => rfl
  | m :: r, f => by
    have ih := bump_maxAlign r (endsPart m)
    have hp := partMax_le (m :: r)
    simp only [bump, maxAlign, ih] at hp ⊢
    cases f <;> simp <;> omega

end PL

/-! ### alignment: prophyc's alignment is the documented one -/
theorem PL.memOf_align_cppenc (n : PL.Node) (k : MKind) :
    (PL.memOf n k).align = match k with
      | .optional => max 4 n.align
      | _ => n.align := by
  cases k <;> rfl

theorem PL.structSize_align_cppenc (b : PL.Mem) (B : List PL.Mem) : (PL.structSize (b :: B)).2.1 = PL.maxAlign (b :: B) := by
  simp [PL.structSize]

mutual
  theorem PL.nodeTy_align_cppenc : (t : Ty) → (PL.nodeTy t).align = Spec.alignTy t
    | .prim p => by simp [PL.nodeTy, Spec.alignTy]
    | .byte => by simp [PL.nodeTy, Spec.alignTy]
    | .enum _ _ => by simp [PL.nodeTy, Spec.alignTy, PL.enumSize]
    | .struct _ ms => by
      cases ms with
      | nil => simp [PL.nodeTy, PL.memsOf, PL.bump, PL.structSize, Spec.alignTy, Spec.alignMs]
      | cons m r =>
        obtain ⟨n, t, k⟩ := m
        have h := PL.memsOf_align_cppenc (.mk n t k :: r)
        have ht := PL.nodeTy_align_cppenc t
        have hp := Spec.alignTy_pos t
        simp only [PL.nodeTy, Spec.alignTy]
        rw [← h]
        simp only [PL.memsOf, PL.bump]
        rw [PL.structSize_align_cppenc]
        have := PL.bump_maxAlign (PL.memOf (PL.nodeTy t) k :: PL.memsOf r) false
        simp only [PL.bump] at this
        rw [this]
        simp only [PL.maxAlign, PL.memOf_align_cppenc, ht]
        cases k <;> simp <;> omega
    | .union _ arms => by
      have h := PL.armsOf_align_cppenc arms
      simp only [PL.nodeTy, PL.unionNode, Spec.alignTy, Spec.flagSize, PL.discSize]
      rw [← h]
      cases arms with
      | nil => simp [PL.armsOf, PL.maxNodeAlign]
      | cons a r =>
        obtain ⟨an, ad, at'⟩ := a
        simp [PL.armsOf, PL.maxNodeAlign]; omega
  theorem PL.memsOf_align_cppenc : (ms : List Member) → max 1 (PL.maxAlign (PL.memsOf ms)) = Spec.alignMs ms
    | [] => by simp [PL.memsOf, PL.maxAlign, Spec.alignMs]
    | .mk _ t k :: r => by
      have ih := PL.memsOf_align_cppenc r
      have ht := PL.nodeTy_align_cppenc t
      have hp := Spec.alignTy_pos t
      simp only [PL.memsOf, PL.maxAlign, Spec.alignMs, PL.memOf_align_cppenc, ht, ← ih, Spec.flagSize]
      cases k <;> simp <;> omega
  theorem PL.armsOf_align_cppenc : (arms : List Arm) → max 1 (PL.maxNodeAlign (PL.armsOf arms)) = Spec.alignArms arms
    | [] => by simp [PL.armsOf, PL.maxNodeAlign, Spec.alignArms]
    | .mk _ _ t :: r => by
      have ih := PL.armsOf_align_cppenc r
      have ht := PL.nodeTy_align_cppenc t
      have hp := Spec.alignTy_pos t
      simp only [PL.armsOf, PL.maxNodeAlign, Spec.alignArms, ht, ← ih]
      omega
end

/-! ### kinds -/
namespace Cpp
open Accept

/- what the proofs use of `Accept.front`: the composability rules in terms of prophyc's kinds -/
mutual
  def okTy : Ty → Bool
    | .struct _ ms => okMs ms
    | .union _ arms => okArms arms
    | _ => true
  def okMs : List Member → Bool
    | [] => true
    | .mk _ t k :: r =>
      okTy t
      && (!(isOptional k) || (PL.nodeTy t).kind == 0)
      && (!((sizeOf? k).isSome) || (PL.nodeTy t).kind == 0)
      && (!(isArrayKind k) || (PL.nodeTy t).kind != 2)
      && (r.isEmpty || (!(isGreedy k) && (PL.nodeTy t).kind != 2))
      && okMs r
  def okArms : List Arm → Bool
    | [] => true
    | .mk _ _ t :: r => okTy t && (PL.nodeTy t).kind == 0 && okArms r
end

theorem okMs_cons (n : String) (t : Ty) (k : MKind) (r : List Member) :
    okMs (.mk n t k :: r) = true ↔
      okTy t = true ∧ (isOptional k = true → (PL.nodeTy t).kind = 0) ∧
      ((sizeOf? k).isSome = true → (PL.nodeTy t).kind = 0) ∧
      (isArrayKind k = true → (PL.nodeTy t).kind ≠ 2) ∧
      (r = [] ∨ (isGreedy k = false ∧ (PL.nodeTy t).kind ≠ 2)) ∧ okMs r = true := by
  simp only [okMs, Bool.and_eq_true, Bool.or_eq_true, Bool.not_eq_true', beq_iff_eq, bne_iff_ne, List.isEmpty_iff]
  constructor
  · rintro ⟨⟨⟨⟨⟨h1, h2⟩, h3⟩, h4⟩, h5⟩, h6⟩
    refine ⟨h1, ?_, ?_, ?_, h5, h6⟩
    · intro hk; simpa [hk] using h2
    · intro hk; simpa [hk] using h3
    · intro hk; simpa [hk] using h4
  · rintro ⟨h1, h2, h3, h4, h5, h6⟩
    refine ⟨⟨⟨⟨⟨h1, ?_⟩, ?_⟩, ?_⟩, h5⟩, h6⟩
    · cases hk : isOptional k <;> simp_all
    · cases hk : (sizeOf? k).isSome <;> simp_all
    · cases hk : isArrayKind k <;> simp_all

mutual
  theorem ok_of_front : (t : Ty) → front t = true → okTy t = true
    | .prim _, _ => rfl
    | .byte, _ => rfl
    | .enum _ _, _ => rfl
    | .struct _ ms, h => by
      simp only [front, Bool.and_eq_true] at h
      simp only [okTy]
      exact okMs_of_front ms ms [] h.2
    | .union _ arms, h => by
      simp only [front, Bool.and_eq_true] at h
      simp only [okTy]
      exact okArms_of_front arms h.2
  theorem okMs_of_front (all : List Member) : (ms before : List Member) → frontMs all ms before = true → okMs ms = true
    | [], _, _ => rfl
    | .mk n t k :: r, before, h => by
      simp only [frontMs, Bool.and_eq_true, Bool.not_eq_true', Bool.or_eq_true, Bool.and_eq_false_iff,
        bne_iff_ne, List.isEmpty_iff] at h
      obtain ⟨⟨⟨⟨⟨⟨⟨⟨h1, h2⟩, h3⟩, h4⟩, _⟩, _⟩, h7⟩, _⟩, h9⟩ := h
      rw [okMs_cons]
      refine ⟨ok_of_front t h1, ?_, ?_, ?_, ?_, okMs_of_front all r _ h9⟩
      · intro hk; simpa [hk] using h2
      · intro hk; simpa [hk] using h3
      · intro hk; simpa [hk] using h4
      · rcases h7 with h7 | h7
        · exact Or.inl h7
        · exact Or.inr (by simpa using h7)
  theorem okArms_of_front : (arms : List Arm) → frontArms arms = true → okArms arms = true
    | [], _ => rfl
    | .mk _ _ t :: r, h => by
      simp only [frontArms, Bool.and_eq_true, beq_iff_eq] at h
      simp only [okArms, Bool.and_eq_true, beq_iff_eq]
      exact ⟨⟨ok_of_front t h.1.1.1, h.1.1.2⟩, okArms_of_front r h.2⟩
end

end Cpp

namespace PL

def maxKind_cppenc : List Mem → Nat
  | [] => 0
  | m :: r => Nat.max m.kind (maxKind_cppenc r)

theorem nat_max_eq_zero (a b : Nat) : Nat.max a b = 0 ↔ a = 0 ∧ b = 0 := by
  show max a b = 0 ↔ _
  omega

theorem foldl_maxKind_cppenc : (ms : List Mem) → (k0 : Nat) → ms.foldl (fun k m => max k m.kind) k0 = max k0 (maxKind_cppenc ms)
  | [], k0 => by simp [maxKind_cppenc]
  | m :: r, k0 => by
    simp only [List.foldl, maxKind_cppenc, foldl_maxKind_cppenc r]
    show max (max k0 (m.kind : Nat)) (maxKind_cppenc r) = max k0 (max (m.kind : Nat) (maxKind_cppenc r))
    omega

theorem maxKind_eq_zero : (ms : List Mem) → (maxKind_cppenc ms = 0 ↔ ∀ m ∈ ms, m.kind = 0)
  | [] => by simp [maxKind_cppenc]
  | m :: r => by
    have ih := maxKind_eq_zero r
    simp only [maxKind_cppenc, List.mem_cons, forall_eq_or_imp, ← ih]
    exact nat_max_eq_zero _ _

theorem memOf_kind (n : Node) (k : MKind) : (memOf n k).kind = n.kind := by cases k <;> rfl

theorem structKind_zero_of (ms : List Mem)
    (h : ∀ m ∈ ms, m.kind = 0 ∧ m.isDynamic = false ∧ m.greedy = false) : structKind ms = 0 := by
  unfold structKind
  cases hl : ms.getLast? with
  | none => rfl
  | some l =>
    have hm : l ∈ ms := List.mem_of_getLast? hl
    have hany : ms.any (·.isDynamic) = false := by
      rw [List.any_eq_false]; intro m hm; simp [(h m hm).2.1]
    have hk : maxKind_cppenc ms = 0 := (maxKind_eq_zero ms).2 (fun m hm => (h m hm).1)
    simp [(h l hm).2.2, hany, foldl_maxKind_cppenc, hk]

theorem structKind_eq_zero (ms : List Mem) (h : structKind ms = 0) :
    (∀ m ∈ ms, m.kind = 0 ∧ m.isDynamic = false) ∧ (∀ l, ms.getLast? = some l → l.greedy = false) := by
  unfold structKind at h
  cases hl : ms.getLast? with
  | none =>
    have : ms = [] := List.getLast?_eq_none_iff.1 hl
    subst this
    simp
  | some l =>
    rw [hl] at h
    simp only [foldl_maxKind_cppenc] at h
    by_cases hg : l.greedy = true
    · simp [hg] at h
    · have hg' : l.greedy = false := by simpa using hg
      simp only [hg', Bool.false_eq_true, if_false] at h
      by_cases hany : ms.any (·.isDynamic) = true
      · rw [if_pos hany] at h
        have h' : Nat.max (Nat.max 0 (maxKind_cppenc ms)) 1 = 0 := h
        have := (nat_max_eq_zero _ _).1 h'
        omega
      · rw [if_neg hany] at h
        have hk : maxKind_cppenc ms = 0 := by
          have h' : Nat.max 0 (maxKind_cppenc ms) = 0 := h
          exact ((nat_max_eq_zero _ _).1 h').2
        have hany' : ms.any (·.isDynamic) = false := by simpa using hany
        rw [List.any_eq_false] at hany'
        refine ⟨fun m hm => ⟨(maxKind_eq_zero ms).1 hk m hm, by simpa using hany' m hm⟩, ?_⟩
        intro l' hl'
        cases hl'
        exact hg'

end PL

/-! fixed types have kind 0, and on accepted schemas only they -/
mutual
  theorem PL.kind_of_fixed : (t : Ty) → Spec.fixedTy t = true → (PL.nodeTy t).kind = 0
    | .prim _, _ => rfl
    | .byte, _ => rfl
    | .enum _ _, _ => rfl
    | .union _ _, _ => rfl
    | .struct _ ms, h => by
      have hf : Spec.fixedMs ms = true := by simpa [Spec.fixedTy] using h
      simp only [PL.nodeTy]
      exact PL.structKind_zero_of _ (PL.kind_of_fixedMs ms hf)
  theorem PL.kind_of_fixedMs : (ms : List Member) → Spec.fixedMs ms = true →
      ∀ m ∈ PL.memsOf ms, m.kind = 0 ∧ m.isDynamic = false ∧ m.greedy = false
    | [], _ => by simp [PL.memsOf]
    | .mk n t k :: r, h => by
      obtain ⟨hk, ht, hr⟩ := (Spec.fixedMs_cons n t k r).1 h
      have ih := PL.kind_of_fixedMs r hr
      have iht := PL.kind_of_fixed t ht
      intro m hm
      simp only [PL.memsOf, List.mem_cons] at hm
      rcases hm with rfl | hm
      · rw [PL.memOf_kind]
        refine ⟨iht, ?_⟩
        cases k <;> simp_all [PL.memOf, MKind.isStatic]
      · exact ih m hm
end

mutual
  theorem Cpp.fixed_of_kind : (t : Ty) → Cpp.okTy t = true → (PL.nodeTy t).kind = 0 → Spec.fixedTy t = true
    | .prim _, _, _ => rfl
    | .byte, _, _ => rfl
    | .enum _ _, _, _ => rfl
    | .union _ arms, h, _ => by
      simp only [Cpp.okTy] at h
      simp only [Spec.fixedTy]
      exact Cpp.fixedArms_of_ok arms h
    | .struct _ ms, h, hk => by
      simp only [Cpp.okTy] at h
      simp only [PL.nodeTy] at hk
      obtain ⟨h1, h2⟩ := PL.structKind_eq_zero _ hk
      simp only [Spec.fixedTy]
      exact Cpp.fixedMs_of_kind ms h h1 h2
  theorem Cpp.fixedMs_of_kind : (ms : List Member) → Cpp.okMs ms = true →
      (∀ m ∈ PL.memsOf ms, m.kind = 0 ∧ m.isDynamic = false) →
      (∀ l, (PL.memsOf ms).getLast? = some l → l.greedy = false) → Spec.fixedMs ms = true
    | [], _, _, _ => rfl
    | .mk n t k :: r, h, h1, h2 => by
      obtain ⟨hot, _, _, _, hlast, hor⟩ := (Cpp.okMs_cons n t k r).1 h
      have hm := h1 (PL.memOf (PL.nodeTy t) k) (by simp [PL.memsOf])
      rw [PL.memOf_kind] at hm
      have iht := Cpp.fixed_of_kind t hot hm.1
      rw [Spec.fixedMs_cons]
      cases r with
      | nil =>
        have hg := h2 (PL.memOf (PL.nodeTy t) k) (by simp [PL.memsOf])
        refine ⟨?_, iht, rfl⟩
        cases k <;> simp_all [PL.memOf, MKind.isStatic]
      | cons m' r' =>
        have ihr := Cpp.fixedMs_of_kind (m' :: r') hor
          (fun m hm' => h1 m (by simp only [PL.memsOf, List.mem_cons]; exact Or.inr hm'))
          (fun l hl => h2 l (by
            obtain ⟨n', t', k'⟩ := m'
            simp only [PL.memsOf] at hl ⊢
            rw [List.getLast?_cons_cons]; exact hl))
        refine ⟨?_, iht, ihr⟩
        rcases hlast with hl | hl
        · cases hl
        · cases k <;> simp_all [PL.memOf, MKind.isStatic, Accept.isGreedy]
  theorem Cpp.fixedArms_of_ok : (arms : List Arm) → Cpp.okArms arms = true → Spec.fixedArms arms = true
    | [], _ => rfl
    | .mk _ _ t :: r, h => by
      simp only [Cpp.okArms, Bool.and_eq_true, beq_iff_eq] at h
      simp only [Spec.fixedArms, Bool.and_eq_true]
      exact ⟨Cpp.fixed_of_kind t h.1.1 h.1.2, Cpp.fixedArms_of_ok r h.2⟩
end

/-! on well-formed schemas a type is of fixed size iff it is not dynamic -/
mutual
  theorem WF.fixed_of_not_dyn : (t : Ty) → WF.wfTy t = true → Spec.dynTy t = false → Spec.fixedTy t = true
    | .prim _, _, _ => rfl
    | .byte, _, _ => rfl
    | .enum _ _, _, _ => rfl
    | .union _ arms, h, _ => by
      simp only [WF.wfTy, Bool.and_eq_true] at h
      simp only [Spec.fixedTy]
      exact WF.fixedArms_of_wf arms h.2
    | .struct _ ms, h, hd => by
      simp only [WF.wfTy, Bool.and_eq_true] at h
      simp only [Spec.fixedTy]
      exact WF.fixedMs_of_not_dyn ms ms h.2 (by simpa [Spec.dynTy] using hd)
  theorem WF.fixedMs_of_not_dyn (all : List Member) : (ms : List Member) → WF.wfMs all ms = true →
      Spec.dynMs ms = false → Spec.fixedMs ms = true
    | [], _, _ => rfl
    | .mk n t k :: r, h, hd => by
      obtain ⟨hwt, hfx, _, _, hwr⟩ := (WF.wfMs_cons all n t k r).1 h
      simp only [Spec.dynMs, Bool.or_eq_false_iff] at hd
      rw [Spec.fixedMs_cons]
      refine ⟨?_, ?_, WF.fixedMs_of_not_dyn all r hwr hd.2⟩
      · cases k <;> simp_all [MKind.isStatic]
      · cases k with
        | plain => exact WF.fixed_of_not_dyn t hwt (by simpa using hd.1)
        | optional => exact hfx rfl
        | fixed c => exact hfx rfl
        | limited s c => exact hfx rfl
        | dyn s sh => simp at hd
        | greedy => simp at hd
end

/-- prophyc's kind is non-zero exactly for the dynamic types -/
theorem Cpp.kind_ne_zero_iff (t : Ty) (hw : WF.wfTy t = true) (ho : Cpp.okTy t = true) :
    (PL.nodeTy t).kind ≠ 0 ↔ Spec.dynTy t = true := by
  constructor
  · intro hk
    cases hd : Spec.dynTy t with
    | true => rfl
    | false => exact absurd (PL.kind_of_fixed t (WF.fixed_of_not_dyn t hw hd)) hk
  · intro hd hk
    have := Spec.dynTy_of_fixed t (Cpp.fixed_of_kind t ho hk)
    rw [hd] at this; cases this


/-! ### sizes -/
theorem div_mul_eq_alignUp (s a : Nat) (ha : 0 < a) : (s + a - 1) / a * a = alignUp s a := by
  obtain ⟨c, hc⟩ := dvd_alignUp s a ha
  have h1 := le_alignUp s a
  have h2 := alignUp_lt s a ha
  have : (s + a - 1) / a = c := by
    apply Nat.div_eq_of_lt_le
    · rw [Nat.mul_comm, ← hc]; omega
    · rw [Nat.add_mul, Nat.mul_comm, ← hc]; omega
  rw [this, Nat.mul_comm, ← hc]

namespace PL

def endLoop : List Mem → Nat → Nat
  | [], bs => bs
  | m :: r, bs => endLoop r (bs + m.size + padTo bs m.align)

theorem sizeLoop_fst_cppenc : (r : List Mem) → (prev : Mem) → (bs : Nat) → (sizeLoop r prev bs).1 = endLoop r bs
  | [], _, _ => rfl
  | m :: r, prev, bs => by
    have ih := sizeLoop_fst_cppenc r m (bs + m.size + padTo bs m.align)
    simp only [sizeLoop, endLoop]
    exact ih

theorem structSize_fst (b : Mem) (B : List Mem) :
    (structSize (b :: B)).1 = alignUp (endLoop B (b.size + padTo 0 b.align)) (maxAlign (b :: B)) := by
  simp only [structSize, alignUp]
  rw [← sizeLoop_fst_cppenc B b]

theorem bump_of_noEnds : (ms : List Mem) → (∀ m ∈ ms, endsPart m = false) → bump ms false = ms
  | [], _ => rfl
  | m :: r, h => by
    have ih := bump_of_noEnds r (fun x hx => h x (List.mem_cons_of_mem _ hx))
    have hm := h m (List.mem_cons_self ..)
    simp [bump, hm, ih]

end PL

theorem PL.memOf_size_fixed (t : Ty) (k : MKind) (hs : (PL.nodeTy t).size = Spec.sizeTy t) :
    (PL.memOf (PL.nodeTy t) k).size = Spec.slot t k := by
  have ha := PL.nodeTy_align_cppenc t
  cases k <;> simp [PL.memOf, Spec.slot, hs, ha, PL.discSize, Spec.flagSize, Nat.mul_comm] <;> omega

theorem PL.memOf_align_member (n : String) (t : Ty) (k : MKind) :
    (PL.memOf (PL.nodeTy t) k).align = Spec.alignMember (.mk n t k) := by
  rw [PL.memOf_align_cppenc, PL.nodeTy_align_cppenc]
  unfold Spec.alignMember
  cases k <;> simp [Member.kind, Member.ty, Spec.flagSize]

theorem PL.endsPart_static (n : PL.Node) (k : MKind) (hn : n.kind = 0) (hk : k.isStatic = true) :
    PL.endsPart (PL.memOf n k) = false := by
  cases k <;> simp_all [PL.endsPart, PL.memOf, MKind.isStatic]

theorem PL.endsPart_of_fixedMs : (ms : List Member) → Spec.fixedMs ms = true →
    ∀ m ∈ PL.memsOf ms, PL.endsPart m = false
  | [], _ => by simp [PL.memsOf]
  | .mk n t k :: r, h => by
    obtain ⟨hk, ht, hr⟩ := (Spec.fixedMs_cons n t k r).1 h
    intro m hm
    simp only [PL.memsOf, List.mem_cons] at hm
    rcases hm with rfl | hm
    · exact PL.endsPart_static _ k (PL.kind_of_fixed t ht) hk
    · exact PL.endsPart_of_fixedMs r hr m hm

mutual
  theorem PL.nodeTy_size_fixed : (t : Ty) → Spec.fixedTy t = true → (PL.nodeTy t).size = Spec.sizeTy t
    | .prim _, _ => rfl
    | .byte, _ => rfl
    | .enum _ _, _ => rfl
    | .struct nm ms, h => by
      have hf : Spec.fixedMs ms = true := by simpa [Spec.fixedTy] using h
      cases ms with
      | nil => simp [PL.nodeTy, PL.memsOf, PL.bump, PL.structSize, Spec.sizeTy, Spec.endMs, alignUp, padTo_zero]
      | cons m r =>
        obtain ⟨n, t, k⟩ := m
        obtain ⟨hk, ht, hr⟩ := (Spec.fixedMs_cons n t k r).1 hf
        have hal := PL.nodeTy_align_cppenc (.struct nm (.mk n t k :: r))
        have hb := PL.bump_of_noEnds _ (PL.endsPart_of_fixedMs _ hf)
        have hsz := PL.memOf_size_fixed t k (PL.nodeTy_size_fixed t ht)
        have hma := PL.memOf_align_member n t k
        have hloop := PL.memsOf_size_fixed r hr
        simp only [PL.nodeTy, hb, Spec.alignTy] at hal ⊢
        simp only [PL.memsOf] at hal ⊢
        rw [PL.structSize_align_cppenc] at hal
        rw [PL.structSize_fst, hal, hloop, padTo_zero, hsz]
        simp only [Spec.sizeTy]
        rw [Spec.endMs_cons, Spec.endsBlock_of_fixed n t k r hf]
        simp [alignUp, padTo_zero]
    | .union _ arms, h => by
      have hf : Spec.fixedArms arms = true := by simpa [Spec.fixedTy] using h
      have hal := PL.nodeTy_align_cppenc (.union "" arms)
      have hm := PL.armsOf_size_fixed arms hf
      simp only [PL.nodeTy, PL.unionNode, Spec.alignTy] at hal ⊢
      simp only [Spec.sizeTy]
      rw [hal, hm]
      rw [div_mul_eq_alignUp _ _ (by simp [Spec.flagSize]; omega)]
      congr 1; omega
  theorem PL.memsOf_size_fixed : (ms : List Member) → Spec.fixedMs ms = true →
      ∀ bs, PL.endLoop (PL.memsOf ms) bs = Spec.endMs ms bs false
    | [], _, bs => by simp [PL.memsOf, PL.endLoop, Spec.endMs]
    | .mk n t k :: r, h, bs => by
      obtain ⟨hk, ht, hr⟩ := (Spec.fixedMs_cons n t k r).1 h
      have hsz := PL.memOf_size_fixed t k (PL.nodeTy_size_fixed t ht)
      have hma := PL.memOf_align_member n t k
      have ih := PL.memsOf_size_fixed r hr
      simp only [PL.memsOf, PL.endLoop]
      rw [ih, hsz, hma, Spec.endMs_cons, Spec.endsBlock_of_fixed n t k r h]
      simp only [Bool.false_eq_true, if_false, alignUp]
      congr 1; omega
  theorem PL.armsOf_size_fixed : (arms : List Arm) → Spec.fixedArms arms = true →
      PL.maxSize (PL.armsOf arms) = Spec.maxArm arms
    | [], _ => rfl
    | .mk _ _ t :: r, h => by
      have h' : Spec.fixedTy t = true ∧ Spec.fixedArms r = true := by simpa [Spec.fixedArms] using h
      simp only [PL.armsOf, PL.maxSize, Spec.maxArm]
      rw [PL.nodeTy_size_fixed t h'.1, PL.armsOf_size_fixed r h'.2]
end

/-- every type's static size is a multiple of its alignment -/
theorem PL.nodeTy_align_dvd_size (t : Ty) : (PL.nodeTy t).align ∣ (PL.nodeTy t).size := by
  cases t with
  | prim p => exact Nat.dvd_refl _
  | byte => exact Nat.dvd_refl _
  | enum _ _ => exact Nat.dvd_refl _
  | union nm arms =>
    simp only [PL.nodeTy, PL.unionNode]
    exact Nat.dvd_mul_left _ _
  | struct nm ms =>
    have hal := PL.nodeTy_align_cppenc (.struct nm ms)
    have hp := Spec.alignTy_pos (.struct nm ms)
    cases ms with
    | nil => simp [PL.nodeTy, PL.memsOf, PL.bump, PL.structSize]
    | cons m r =>
      obtain ⟨n, t, k⟩ := m
      rw [← hal] at hp
      simp only [PL.nodeTy, PL.memsOf, PL.bump] at hp ⊢
      rw [PL.structSize_align_cppenc] at hp ⊢
      rw [PL.structSize_fst]
      exact dvd_alignUp _ _ hp


/-! ### the signed paddings of prophyc in terms of the documented layout -/
namespace Cpp

/-- `member.byte_size`: the static size of the member (0 for dynamic and greedy arrays) -/
def mslot (m : Member) : Nat := (PL.memOf (PL.nodeTy m.ty) m.kind).size

/-- the alignment the document pads to before the first of `ms` (after a dynamic member: the block
    alignment); at the end of the struct: the struct's alignment `S` -/
def aN (S : Nat) (ad : Bool) : List Member → Nat
  | [] => S
  | m :: r => if ad then Spec.blockAlign (m :: r) else Spec.alignMember m

/-- is the padding after `m` allowed to be an alignment request? -/
def dynFlag (any : Bool) (m : Member) : List Member → Bool
  | [] => any
  | _ :: _ => Spec.endsBlock m

/-- the signed padding after member `m` (followed by `r`); `bs1` is the static offset after `m` -/
def padOf (S : Nat) (any : Bool) (m : Member) (r : List Member) (bs1 : Nat) : Int :=
  if dynFlag any m r && decide (Spec.alignMember m < aN S (Spec.endsBlock m) r)
  then -((aN S (Spec.endsBlock m) r : Nat) : Int) else ((padTo bs1 (aN S (Spec.endsBlock m) r) : Nat) : Int)

/-- `PL.structMembers` from the member at static offset `bs` on -/
def lay (S : Nat) (any : Bool) : List Member → Bool → Nat → List (Nat × Nat × Int)
  | [], _, _ => []
  | m :: r, ad, bs =>
    (mslot m, aN S ad (m :: r), padOf S any m r (bs + mslot m)) ::
      lay S any r (Spec.endsBlock m) (alignUp (bs + mslot m) (aN S (Spec.endsBlock m) r))

end Cpp


namespace PL

/-- the padding after the last member (evaluate_struct_size) -/
def plast (S : Nat) (any : Bool) (last : Mem) (bsF : Nat) : Int :=
  if any then (if last.align < S then -(S : Int) else ((padTo bsF S : Nat) : Int)) else ((padTo bsF S : Nat) : Int)

/-- `structMembers` from the member at static offset `bs` on, in prophyc's own terms -/
def tailM (S : Nat) (any : Bool) : List Mem → Nat → List (Nat × Nat × Int)
  | [], _ => []
  | [m], bs => [(m.size, m.align, plast S any m (bs + m.size))]
  | m :: m' :: r, bs =>
    (m.size, m.align,
      if isMemberDynamic m && decide (m.align < m'.align) then -(m'.align : Int)
      else ((padTo (bs + m.size) m'.align : Nat) : Int)) ::
      tailM S any (m' :: r) (bs + m.size + padTo (bs + m.size) m'.align)

theorem sizeLoop_zip (S : Nat) (any : Bool) : (r : List Mem) → (prev : Mem) → (bs : Nat) →
    (((prev :: r).zip ((sizeLoop r prev (bs + prev.size)).2.1
        ++ [plast S any (sizeLoop r prev (bs + prev.size)).2.2 (sizeLoop r prev (bs + prev.size)).1])).map
      (fun (m, p) => (m.size, m.align, p))) = tailM S any (prev :: r) bs
  | [], prev, bs => by simp [sizeLoop, tailM]
  | m :: r, prev, bs => by
    have ih := sizeLoop_zip S any r m (bs + prev.size + padTo (bs + prev.size) m.align)
    have he : bs + prev.size + m.size + padTo (bs + prev.size) m.align
        = bs + prev.size + padTo (bs + prev.size) m.align + m.size := by omega
    simp only [sizeLoop, tailM, he]
    simp only [List.zip_cons_cons, List.cons_append, List.map_cons]
    rw [ih]

end PL

theorem PL.structMembers_eq_tailM (ms : List Member) :
    PL.structMembers ms =
      PL.tailM (PL.maxAlign (PL.bump (PL.memsOf ms) false)) ((PL.bump (PL.memsOf ms) false).any PL.isMemberDynamic)
        (PL.bump (PL.memsOf ms) false) 0 := by
  unfold PL.structMembers
  cases hb : PL.bump (PL.memsOf ms) false with
  | nil => simp [PL.structSize, PL.tailM]
  | cons b B =>
    have := PL.sizeLoop_zip (PL.maxAlign (b :: B)) ((b :: B).any PL.isMemberDynamic) B b 0
    simp only [Nat.zero_add] at this
    simp only [PL.structSize, padTo_zero, Nat.add_zero]
    rw [← this]
    rfl


namespace PL

theorem maxKind_le_two : (ms : List Mem) → (∀ m ∈ ms, m.kind ≤ 2) → maxKind_cppenc ms ≤ 2
  | [], _ => by simp [maxKind_cppenc]
  | m :: r, h => by
    have ih := maxKind_le_two r (fun x hx => h x (List.mem_cons_of_mem _ hx))
    have hm : (m.kind : Nat) ≤ 2 := h m (List.mem_cons_self ..)
    simp only [maxKind_cppenc]
    exact Nat.max_le.2 ⟨hm, ih⟩

theorem structKind_le_two (ms : List Mem) (h : ∀ m ∈ ms, m.kind ≤ 2) : structKind ms ≤ 2 := by
  have hk := maxKind_le_two ms h
  unfold structKind
  cases ms.getLast? with
  | none => simp
  | some l =>
    simp only [foldl_maxKind_cppenc]
    have h0 : Nat.max 0 (maxKind_cppenc ms) ≤ 2 := Nat.max_le.2 ⟨by omega, hk⟩
    have h1 : Nat.max (Nat.max 0 (maxKind_cppenc ms)) 1 ≤ 2 := Nat.max_le.2 ⟨h0, by omega⟩
    split
    · exact Nat.le_refl _
    · split
      · exact h1
      · exact h0

end PL

mutual
  theorem PL.kind_le_two : (t : Ty) → (PL.nodeTy t).kind ≤ 2
    | .prim _ => by simp [PL.nodeTy]
    | .byte => by simp [PL.nodeTy]
    | .enum _ _ => by simp [PL.nodeTy]
    | .union _ _ => by simp [PL.nodeTy, PL.unionNode]
    | .struct _ ms => by
      simp only [PL.nodeTy]
      exact PL.structKind_le_two _ (PL.memsOf_kind_le_two ms)
  theorem PL.memsOf_kind_le_two : (ms : List Member) → ∀ m ∈ PL.memsOf ms, m.kind ≤ 2
    | [] => by simp [PL.memsOf]
    | .mk _ t k :: r => by
      intro m hm
      simp only [PL.memsOf, List.mem_cons] at hm
      rcases hm with rfl | hm
      · rw [PL.memOf_kind]; exact PL.kind_le_two t
      · exact PL.memsOf_kind_le_two r m hm
end

namespace Cpp
open Accept

/-- what `okMs` says of one member -/
structure MemberOk (t : Ty) (k : MKind) : Prop where
  wf : WF.wfTy t = true
  ok : okTy t = true
  opt : isOptional k = true → (PL.nodeTy t).kind = 0
  sized : (sizeOf? k).isSome = true → (PL.nodeTy t).kind = 0

theorem isMemberDynamic_eq (n : String) (t : Ty) (k : MKind) (h : MemberOk t k) :
    PL.isMemberDynamic (PL.memOf (PL.nodeTy t) k) = Spec.endsBlock (.mk n t k) := by
  have hk := kind_ne_zero_iff t h.wf h.ok
  have ho := h.opt
  have hs := h.sized
  unfold PL.isMemberDynamic Spec.endsBlock
  cases k with
  | plain =>
    simp only [PL.memOf, Member.kind, Member.ty, Bool.false_or]
    cases hd : Spec.dynTy t with
    | true => simpa using hk.2 hd
    | false =>
      have : ¬ ((PL.nodeTy t).kind ≠ 0) := fun hne => by rw [hk.1 hne] at hd; cases hd
      simpa using this
  | optional => simp [PL.memOf, Member.kind, ho rfl]
  | fixed c => simp [PL.memOf, Member.kind, hs rfl]
  | limited s c => simp [PL.memOf, Member.kind, hs rfl]
  | dyn s sh => simp [PL.memOf, Member.kind]
  | greedy => simp [PL.memOf, Member.kind]

theorem nat_eq_one (k : Nat) (h : k ≤ 2) (h0 : k ≠ 0) (h2 : k ≠ 2) : k = 1 := by omega

theorem endsPart_eq (n : String) (t : Ty) (k : MKind) (h : MemberOk t k) (h2 : (PL.nodeTy t).kind ≠ 2) :
    PL.endsPart (PL.memOf (PL.nodeTy t) k) = Spec.endsBlock (.mk n t k) := by
  have hk := kind_ne_zero_iff t h.wf h.ok
  have hle := PL.kind_le_two t
  have ho := h.opt
  have hs := h.sized
  unfold PL.endsPart Spec.endsBlock
  cases k with
  | plain =>
    simp only [PL.memOf, Member.kind, Member.ty, Bool.false_and, Bool.or_false]
    cases hd : Spec.dynTy t with
    | true =>
      have := hk.2 hd
      have h1 : (PL.nodeTy t).kind = 1 := nat_eq_one _ hle this h2
      simp [h1]
    | false =>
      have : ¬ ((PL.nodeTy t).kind ≠ 0) := fun hne => by rw [hk.1 hne] at hd; cases hd
      have h0 : (PL.nodeTy t).kind = 0 := by simpa using this
      simp [h0]
  | optional => simp [PL.memOf, Member.kind, ho rfl]
  | fixed c => simp [PL.memOf, Member.kind, hs rfl]
  | limited s c => simp [PL.memOf, Member.kind, hs rfl]
  | dyn s sh => simp [PL.memOf, Member.kind]
  | greedy => simp [PL.memOf, Member.kind]

end Cpp


namespace Cpp
open Accept

theorem memberOk_of (all : List Member) (n : String) (t : Ty) (k : MKind) (r : List Member)
    (hw : WF.wfMs all (.mk n t k :: r) = true) (ho : okMs (.mk n t k :: r) = true) :
    MemberOk t k ∧ (r = [] ∨ (isGreedy k = false ∧ (PL.nodeTy t).kind ≠ 2)) ∧
      (isArrayKind k = true → (PL.nodeTy t).kind ≠ 2) ∧ WF.wfMs all r = true ∧ okMs r = true := by
  obtain ⟨hwt, _, _, _, hwr⟩ := (WF.wfMs_cons all n t k r).1 hw
  obtain ⟨hot, h2, h3, h4, h5, hor⟩ := (okMs_cons n t k r).1 ho
  exact ⟨⟨hwt, hot, h2, h3⟩, h5, h4, hwr, hor⟩

theorem blockAlign_single (m : Member) : Spec.blockAlign [m] = Spec.alignMember m := by
  have := Spec.alignMember_pos m
  simp only [Spec.blockAlign]
  split
  · rfl
  · omega

theorem partMax_eq (all : List Member) : (ms : List Member) → WF.wfMs all ms = true → okMs ms = true → ms ≠ [] →
    PL.partMax (PL.memsOf ms) = Spec.blockAlign ms
  | [], _, _, h => absurd rfl h
  | .mk n t k :: r, hw, ho, _ => by
    obtain ⟨hm, hl, _, hwr, hor⟩ := memberOk_of all n t k r hw ho
    have ha := PL.memOf_align_member n t k
    have hp := Spec.alignMember_pos (.mk n t k)
    cases r with
    | nil =>
      rw [blockAlign_single]
      simp only [PL.memsOf, PL.partMax, ha]
      split
      · rfl
      · omega
    | cons m' r' =>
      have he := endsPart_eq n t k hm (by
        rcases hl with h | h
        · cases h
        · exact h.2)
      have ih := partMax_eq all (m' :: r') hwr hor (by simp)
      simp only [PL.memsOf, PL.partMax, Spec.blockAlign, ha, he] at ih ⊢
      rw [ih]

/-- the member at the head of `bump` -/
def bumped (m : PL.Mem) (R : List PL.Mem) (f : Bool) : PL.Mem :=
  if f then { m with align := max m.align (PL.partMax (m :: R)) } else m

theorem bump_cons (m : PL.Mem) (R : List PL.Mem) (f : Bool) :
    PL.bump (m :: R) f = bumped m R f :: PL.bump R (PL.endsPart m) := rfl

theorem bumped_size (m : PL.Mem) (R : List PL.Mem) (f : Bool) : (bumped m R f).size = m.size := by
  unfold bumped; split <;> rfl

theorem bumped_dyn (m : PL.Mem) (R : List PL.Mem) (f : Bool) :
    PL.isMemberDynamic (bumped m R f) = PL.isMemberDynamic m := by
  unfold bumped; split <;> rfl

theorem bumped_align (all : List Member) (n : String) (t : Ty) (k : MKind) (r : List Member)
    (hw : WF.wfMs all (.mk n t k :: r) = true) (ho : okMs (.mk n t k :: r) = true) (S : Nat) (f : Bool) :
    (bumped (PL.memOf (PL.nodeTy t) k) (PL.memsOf r) f).align = aN S f (.mk n t k :: r) := by
  have hpm := partMax_eq all (.mk n t k :: r) hw ho (by simp)
  have ha := PL.memOf_align_member n t k
  have hle : Spec.alignMember (.mk n t k) ≤ Spec.blockAlign (.mk n t k :: r) :=
    Nat.le_of_dvd (Spec.blockAlign_isAl _).pos (Spec.alignMember_dvd_blockAlign _ _)
  simp only [PL.memsOf] at hpm
  unfold bumped aN
  cases f
  · simp [ha]
  · simp only [if_true, hpm, ha]
    omega

theorem aN_of_endsBlock (S : Nat) (f : Bool) (m : Member) (r : List Member) (h : Spec.endsBlock m = true) :
    aN S f (m :: r) = Spec.alignMember m := by
  unfold aN
  cases f
  · simp
  · simp [Spec.blockAlign, h]

theorem lay_cons (S : Nat) (any : Bool) (m : Member) (r : List Member) (ad : Bool) (bs : Nat) :
    lay S any (m :: r) ad bs =
      (mslot m, aN S ad (m :: r), padOf S any m r (bs + mslot m)) ::
        lay S any r (Spec.endsBlock m) (alignUp (bs + mslot m) (aN S (Spec.endsBlock m) r)) := rfl

theorem tailM_eq_lay (all : List Member) (S : Nat) (any : Bool) : (ms : List Member) →
    WF.wfMs all ms = true → okMs ms = true → ∀ (ad : Bool) (bs : Nat),
    PL.tailM S any (PL.bump (PL.memsOf ms) ad) bs = lay S any ms ad bs
  | [], _, _, ad, bs => by simp [PL.memsOf, PL.bump, PL.tailM, lay]
  | [.mk n t k], hw, ho, ad, bs => by
    have hal := bumped_align all n t k [] hw ho S ad
    have hsz := bumped_size (PL.memOf (PL.nodeTy t) k) [] ad
    have hA : aN S ad [.mk n t k] = Spec.alignMember (.mk n t k) := by
      unfold aN; cases ad
      · simp
      · simp [blockAlign_single]
    simp only [PL.memsOf] at hal
    simp only [PL.memsOf, bump_cons, PL.bump, PL.tailM, lay, hsz, mslot, Member.ty, Member.kind, padOf, dynFlag,
      PL.plast, hal, hA]
    simp only [aN]
    by_cases hlt : Spec.alignMember (.mk n t k) < S <;> cases any <;> simp [hlt]
  | .mk n t k :: .mk n' t' k' :: r, hw, ho, ad, bs => by
    obtain ⟨hm, hl, _, hwr, hor⟩ := memberOk_of all n t k _ hw ho
    have hk2 : (PL.nodeTy t).kind ≠ 2 := by
      rcases hl with h | h
      · cases h
      · exact h.2
    have he := endsPart_eq n t k hm hk2
    have hd := isMemberDynamic_eq n t k hm
    have hal := bumped_align all n t k _ hw ho S ad
    have hsz := bumped_size (PL.memOf (PL.nodeTy t) k) (PL.memsOf (.mk n' t' k' :: r)) ad
    have hdy := bumped_dyn (PL.memOf (PL.nodeTy t) k) (PL.memsOf (.mk n' t' k' :: r)) ad
    have hal' := bumped_align all n' t' k' r hwr hor S (Spec.endsBlock (.mk n t k))
    have ih := tailM_eq_lay all S any (.mk n' t' k' :: r) hwr hor (Spec.endsBlock (.mk n t k))
    simp only [PL.memsOf, bump_cons] at ih hal hsz hdy ⊢
    simp only [PL.tailM, he, hal, hsz, hdy, hd, hal']
    have hms : mslot (.mk n t k) = (PL.memOf (PL.nodeTy t) k).size := rfl
    rw [ih, lay_cons S any (.mk n t k), hms]
    congr 1
    congr 2
    unfold padOf dynFlag
    cases heb : Spec.endsBlock (.mk n t k)
    · simp
    · have := aN_of_endsBlock S ad (.mk n t k) (.mk n' t' k' :: r) heb
      simp [this]

end Cpp


theorem Spec.dynMs_cons (n : String) (t : Ty) (k : MKind) (r : List Member) :
    Spec.dynMs (.mk n t k :: r) = (Spec.endsBlock (.mk n t k) || Spec.dynMs r) := by
  cases k <;> rfl

namespace Cpp

theorem bump_any : (ms : List PL.Mem) → (f : Bool) →
    (PL.bump ms f).any PL.isMemberDynamic = ms.any PL.isMemberDynamic
  | [], _ => rfl
  | m :: r, f => by
    rw [bump_cons, List.any_cons, List.any_cons, bumped_dyn, bump_any r]

theorem memsOf_any (all : List Member) : (ms : List Member) → WF.wfMs all ms = true → okMs ms = true →
    (PL.memsOf ms).any PL.isMemberDynamic = Spec.dynMs ms
  | [], _, _ => rfl
  | .mk n t k :: r, hw, ho => by
    obtain ⟨hm, _, _, hwr, hor⟩ := memberOk_of all n t k r hw ho
    rw [Spec.dynMs_cons, ← isMemberDynamic_eq n t k hm, ← memsOf_any all r hwr hor]
    simp [PL.memsOf]

/-- the member layout prophyc hands to the C++ generator, in the document's terms -/
theorem structMembers_eq_lay (ms : List Member) (hw : WF.wfMs ms ms = true) (ho : okMs ms = true) :
    PL.structMembers ms = lay (Spec.alignMs ms) (Spec.dynMs ms) ms false 0 := by
  rw [PL.structMembers_eq_tailM, bump_any, memsOf_any ms ms hw ho]
  cases ms with
  | nil => simp [PL.memsOf, PL.bump, PL.tailM, lay]
  | cons m r =>
    have hal := PL.nodeTy_align_cppenc (.struct "" (m :: r))
    obtain ⟨n, t, k⟩ := m
    simp only [PL.nodeTy, Spec.alignTy, PL.memsOf, bump_cons] at hal
    rw [PL.structSize_align_cppenc] at hal
    simp only [PL.memsOf, bump_cons]
    rw [hal]
    exact tailM_eq_lay (.mk n t k :: r) _ _ (.mk n t k :: r) hw ho false 0

end Cpp

end Prophy

/-! ## Part 2: lengths of encodings, padding statements -/
namespace Prophy
open Prophy WF

theorem Spec.clen_cons (c : Spec.Chunk) (r : List Spec.Chunk) : Spec.clen (c :: r) = c.len + Spec.clen r := rfl
theorem Spec.clen_nil : Spec.clen [] = 0 := rfl

theorem Spec.sizeTy_union_name (nm nm' : String) (arms : List Arm) :
    Spec.sizeTy (.union nm arms) = Spec.sizeTy (.union nm' arms) := by simp [Spec.sizeTy]

theorem Spec.le_maxArm : (arms : List Arm) → (idx : Nat) → (a : Arm) → arms[idx]? = some a →
    Spec.sizeTy a.ty ≤ Spec.maxArm arms
  | [], idx, a, h => by simp at h
  | .mk n d t :: r, idx, a, h => by
    cases idx with
    | zero => simp at h; subst h; simp only [Spec.maxArm, Arm.ty]; omega
    | succ i =>
      simp at h
      have := Spec.le_maxArm r i a h
      simp only [Spec.maxArm]; omega

theorem Spec.fixedArms_get_cppenc : (arms : List Arm) → Spec.fixedArms arms = true → ∀ (idx : Nat) (a : Arm),
    arms[idx]? = some a → Spec.fixedTy a.ty = true
  | [], _, idx, a, h => by simp at h
  | .mk n d t :: r, hf, idx, a, h => by
    have h' : Spec.fixedTy t = true ∧ Spec.fixedArms r = true := by simpa [Spec.fixedArms] using hf
    cases idx with
    | zero => simp at h; subst h; exact h'.1
    | succ i => simp at h; exact Spec.fixedArms_get_cppenc r h'.2 i a h

/-- the static size of every type is a multiple of its alignment -/
theorem Spec.alignTy_dvd_sizeTy (t : Ty) : Spec.alignTy t ∣ Spec.sizeTy t := by
  cases t with
  | prim p => exact Nat.dvd_refl _
  | byte => exact Nat.dvd_refl _
  | enum _ _ => exact Nat.dvd_refl _
  | struct nm ms => simp only [Spec.sizeTy, Spec.alignTy]; exact dvd_alignUp _ _ (Spec.alignMs_pos ms)
  | union nm arms =>
    simp only [Spec.sizeTy, Spec.alignTy]
    exact dvd_alignUp _ _ (by simp [Spec.flagSize]; omega)

mutual
  /-- a member of static kind and fixed type encodes to its slot -/
  theorem Spec.flen : (v : Val) → ∀ (all : List Member) (allv : List Val) (n : String) (t : Ty) (k : MKind),
      Spec.fixedTy t = true → k.isStatic = true → hasField all k t v = true →
      Spec.clen (Spec.fieldChunks all allv n t k v) = Spec.slot t k
    | .sizer, all, allv, n, t, k, hfx, hk, hh => by
      have hk : k = .plain := by cases k <;> simp_all [hasField]
      subst hk
      simp [Spec.fieldChunks, Spec.slot, Spec.clen, Spec.Chunk.len]
    | .int i, all, allv, n, t, k, hfx, hk, hh => by
      have hk : k = .plain := by cases k <;> cases t <;> simp_all [hasField]
      subst hk
      cases t <;> simp_all [hasField, Spec.fieldChunks, Spec.chunksTy, Spec.slot, Spec.clen, Spec.Chunk.len, Spec.sizeTy]
    | .struct vs, all, allv, n, t, k, hfx, hk, hh => by
      cases t with
      | struct nm ms =>
        have hk : k = .plain := by cases k <;> simp_all [hasField]
        subst hk
        have hhm : hasMs ms ms vs = true := by simpa [hasField] using hh
        have hf : Spec.fixedMs ms = true := by simpa [Spec.fixedTy] using hfx
        have := Spec.mslen vs ms ms vs hf hhm 0
        simp only [Nat.zero_add] at this
        simp [Spec.fieldChunks, Spec.chunksTy, Spec.slot, Spec.sizeTy, Spec.clen, Spec.Chunk.len, this, alignUp]
      | prim p => cases k <;> simp [hasField] at hh
      | byte => cases k <;> simp [hasField] at hh
      | enum nm es => cases k <;> simp [hasField] at hh
      | union nm arms => cases k <;> simp [hasField] at hh
    | .union idx x, all, allv, n, t, k, hfx, hk, hh => by
      cases t with
      | union nm arms =>
        have hk : k = .plain := by cases k <;> simp_all [hasField]
        subst hk
        simp only [hasField, Bool.true_and] at hh
        cases ha : arms[idx]? with
        | none => simp [ha] at hh
        | some a =>
          obtain ⟨an, d, t'⟩ := a
          simp only [ha, Bool.and_eq_true, Bool.not_eq_true'] at hh
          have hfa : Spec.fixedArms arms = true := by simpa [Spec.fixedTy] using hfx
          have hft := Spec.fixedArms_get_cppenc arms hfa idx _ ha
          have h1 := Spec.flen x [] [] "" t' .plain hft rfl hh.2
          rw [Spec.fieldChunks_plain [] [] "" t' x hh.1] at h1
          have hle := Spec.le_maxArm arms idx _ ha
          simp only [Arm.ty, Spec.slot] at hle h1
          have hsz : Spec.sizeTy (.union "" arms) = Spec.sizeTy (.union nm arms) := Spec.sizeTy_union_name _ _ _
          have hge := le_alignUp (max Spec.flagSize (Spec.alignArms arms) + Spec.maxArm arms) (max Spec.flagSize (Spec.alignArms arms))
          simp only [Spec.fieldChunks, Spec.chunksTy, ha, Spec.slot, hsz, Spec.clen_append, Spec.clen_cons, Spec.clen_nil,
            Spec.Chunk.len, h1]
          simp only [Spec.sizeTy, Spec.flagSize] at hge ⊢
          omega
      | prim p => cases k <;> simp [hasField] at hh
      | byte => cases k <;> simp [hasField] at hh
      | enum nm es => cases k <;> simp [hasField] at hh
      | struct nm ms => cases k <;> simp [hasField] at hh
    | .absent, all, allv, n, t, k, hfx, hk, hh => by
      have hk : k = .optional := by cases k <;> simp_all [hasField]
      subst hk
      simp [Spec.fieldChunks, Spec.slot, Spec.clen, Spec.Chunk.len]
    | .present x, all, allv, n, t, k, hfx, hk, hh => by
      have hk : k = .optional := by cases k <;> simp_all [hasField]
      subst hk
      simp only [hasField, Bool.true_and, Bool.and_eq_true, Bool.not_eq_true'] at hh
      have hx : hasField [] .plain t x = true := by rw [hasField_plain_indep [] all]; exact hh.2
      have h1 := Spec.flen x [] [] "" t .plain hfx rfl hx
      rw [Spec.fieldChunks_plain [] [] "" t x hh.1] at h1
      simp only [Spec.slot] at h1
      simp only [Spec.fieldChunks, Spec.slot, Spec.clen_append, Spec.clen_cons, Spec.clen_nil, Spec.Chunk.len, h1,
        Spec.flagSize]
      omega
    | .bytes b, all, allv, n, t, k, hfx, hk, hh => by
      have ht : t = .byte := by cases t <;> simp_all [hasField]
      subst ht
      cases k with
      | plain => simp [hasField] at hh
      | optional => simp [hasField] at hh
      | fixed c =>
        have hl : b.length = c := by simpa [hasField] using hh
        simp [Spec.fieldChunks, Spec.slot, Spec.clen, Spec.Chunk.len, Spec.sizeTy, hl]
      | dyn s sh => simp [MKind.isStatic] at hk
      | limited s c =>
        have hl : b.length ≤ c := by
          simp only [hasField, Bool.true_and, Bool.and_eq_true, decide_eq_true_eq] at hh
          exact hh.1
        simp only [Spec.fieldChunks, Spec.slot, Spec.clen, Spec.Chunk.len, Spec.sizeTy]
        omega
      | greedy => simp [MKind.isStatic] at hk
    | .arr xs, all, allv, n, t, k, hfx, hk, hh => by
      have hel : hasElems t xs = true := by
        cases t <;> simp_all [hasField]
      have h1 := Spec.elen xs t hfx hel
      cases k with
      | plain => cases t <;> simp [hasField] at hh
      | optional => cases t <;> simp [hasField] at hh
      | fixed c =>
        have hl : xs.length = c := by cases t <;> simp_all [hasField]
        simp [Spec.fieldChunks, Spec.slot, h1, hl]
      | dyn s sh => simp [MKind.isStatic] at hk
      | greedy => simp [MKind.isStatic] at hk
      | limited s c =>
        have hl : xs.length ≤ c := by cases t <;> simp_all [hasField]
        have := Nat.mul_le_mul_right (Spec.sizeTy t) hl
        simp only [Spec.fieldChunks, Spec.slot, Spec.clen_append, Spec.clen_cons, Spec.clen_nil, Spec.Chunk.len, h1]
        omega
  theorem Spec.mslen : (vs : List Val) → ∀ (ms all : List Member) (allv : List Val),
      Spec.fixedMs ms = true → hasMs all ms vs = true → ∀ (off : Nat),
      off + Spec.clen (Spec.chunksMs all allv ms vs off false) = Spec.endMs ms off false
    | [], ms, all, allv, hf, hh, off => by
      have hms : ms = [] := by cases ms <;> simp_all [hasMs]
      subst hms
      simp [Spec.chunksMs, Spec.endMs, Spec.clen]
    | v :: vs, ms, all, allv, hf, hh, off => by
      cases ms with
      | nil => simp [hasMs] at hh
      | cons m r =>
        obtain ⟨n, t, k⟩ := m
        obtain ⟨hk, ht, hr⟩ := (Spec.fixedMs_cons n t k r).1 hf
        obtain ⟨_, hfld, hhr⟩ := (hasMs_cons all n t k r v vs).1 hh
        have h1 := Spec.flen v all allv n t k ht hk hfld
        have heb := Spec.endsBlock_of_fixed n t k r hf
        rw [Spec.chunksMs_cons, Spec.endMs_cons, heb]
        simp only [Bool.false_eq_true, if_false, Spec.clen_cons, Spec.clen_append, Spec.Chunk.len, h1]
        have ih := Spec.mslen vs r all allv hr hhr
          (off + padTo off (Spec.alignMember (.mk n t k)) + Spec.slot t k)
        simp only [alignUp]
        rw [← ih]
        omega
  theorem Spec.elen : (xs : List Val) → ∀ (t : Ty), Spec.fixedTy t = true → hasElems t xs = true →
      Spec.clen (Spec.chunksElems t xs) = xs.length * Spec.sizeTy t
    | [], t, _, _ => by simp [Spec.chunksElems, Spec.clen]
    | x :: xs, t, hfx, hh => by
      simp only [hasElems, Bool.and_eq_true, Bool.not_eq_true'] at hh
      have h1 := Spec.flen x [] [] "" t .plain hfx rfl hh.1.2
      rw [Spec.fieldChunks_plain [] [] "" t x hh.1.1] at h1
      have h2 := Spec.elen xs t hfx hh.2
      simp only [Spec.slot] at h1
      simp only [Spec.chunksElems, Spec.clen_append, h1, h2, List.length_cons, Nat.add_mul]
      omega
end


/-- every encoding is a multiple of its type's alignment long -/
theorem Spec.clen_dvd (all : List Member) (t : Ty) (v : Val) (hw : wfTy t = true)
    (hh : hasField all .plain t v = true) (hc : v.isCounter = false) :
    Spec.alignTy t ∣ Spec.clen (Spec.chunksTy t v) := by
  have hfix : Spec.fixedTy t = true → Spec.alignTy t ∣ Spec.clen (Spec.chunksTy t v) := by
    intro hf
    have := Spec.flen v all [] "" t .plain hf rfl hh
    rw [Spec.fieldChunks_plain all [] "" t v hc] at this
    rw [this]
    exact Spec.alignTy_dvd_sizeTy t
  cases t with
  | prim p => exact hfix rfl
  | byte => exact hfix rfl
  | enum _ _ => exact hfix rfl
  | union nm arms =>
    apply hfix
    simp only [wfTy, Bool.and_eq_true] at hw
    simpa [Spec.fixedTy] using WF.fixedArms_of_wf arms hw.2
  | struct nm ms =>
    cases v with
    | struct vs =>
      simp only [Spec.chunksTy, Spec.alignTy, Spec.clen_append, Spec.clen_cons, Spec.clen_nil, Spec.Chunk.len, Nat.add_zero]
      exact dvd_alignUp _ _ (Spec.alignMs_pos ms)
    | _ => simp_all [hasField, Val.isCounter]

theorem Spec.elems_dvd : (xs : List Val) → (t : Ty) → wfTy t = true → hasElems t xs = true →
    Spec.alignTy t ∣ Spec.clen (Spec.chunksElems t xs)
  | [], t, _, _ => by simp [Spec.chunksElems, Spec.clen]
  | x :: xs, t, hw, hh => by
    simp only [hasElems, Bool.and_eq_true, Bool.not_eq_true'] at hh
    have h1 := Spec.clen_dvd [] t x hw hh.1.2 hh.1.1
    have h2 := Spec.elems_dvd xs t hw hh.2
    simp only [Spec.chunksElems, Spec.clen_append]
    exact Nat.dvd_add h1 h2

namespace Cpp

/-- a member that does not end a block is of fixed size -/
theorem fixed_of_not_endsBlock (n : String) (t : Ty) (k : MKind) (hw : wfTy t = true)
    (hfx : needsFixed k = true → Spec.fixedTy t = true) (hne : Spec.endsBlock (.mk n t k) = false) :
    Spec.fixedTy t = true ∧ k.isStatic = true := by
  unfold Spec.endsBlock at hne
  cases k with
  | plain => exact ⟨WF.fixed_of_not_dyn t hw (by simpa [Member.kind, Member.ty] using hne), rfl⟩
  | optional => exact ⟨hfx rfl, rfl⟩
  | fixed c => exact ⟨hfx rfl, rfl⟩
  | limited s c => exact ⟨hfx rfl, rfl⟩
  | dyn s sh => simp [Member.kind] at hne
  | greedy => simp [Member.kind] at hne

theorem mslot_fixed (n : String) (t : Ty) (k : MKind) (hf : Spec.fixedTy t = true) :
    mslot (.mk n t k) = Spec.slot t k :=
  PL.memOf_size_fixed t k (PL.nodeTy_size_fixed t hf)

theorem field_len_static (all : List Member) (allv : List Val) (n : String) (t : Ty) (k : MKind) (v : Val)
    (hw : wfTy t = true) (hfx : needsFixed k = true → Spec.fixedTy t = true)
    (hh : hasField all k t v = true) (hne : Spec.endsBlock (.mk n t k) = false) :
    Spec.clen (Spec.fieldChunks all allv n t k v) = mslot (.mk n t k) := by
  obtain ⟨hf, hk⟩ := fixed_of_not_endsBlock n t k hw hfx hne
  rw [mslot_fixed n t k hf]
  exact Spec.flen v all allv n t k hf hk hh

theorem field_len_dyn (all : List Member) (allv : List Val) (n : String) (t : Ty) (k : MKind) (v : Val)
    (hw : wfTy t = true) (hh : hasField all k t v = true) (hc : v.isCounter = isSizer n all)
    (hs : isSizer n all = true → ∃ p, t = .prim p)
    (he : Spec.endsBlock (.mk n t k) = true) :
    Spec.alignMember (.mk n t k) ∣ Spec.clen (Spec.fieldChunks all allv n t k v) ∧
      Spec.alignMember (.mk n t k) ∣ mslot (.mk n t k) := by
  unfold Spec.endsBlock at he
  cases k with
  | plain =>
    have hd : Spec.dynTy t = true := by simpa [Member.kind, Member.ty] using he
    have hnc : v.isCounter = false := by
      cases hsz : isSizer n all with
      | false => rw [hc, hsz]
      | true =>
        obtain ⟨p, rfl⟩ := hs hsz
        simp [Spec.dynTy] at hd
    rw [Spec.fieldChunks_plain all allv n t v hnc]
    have ha : Spec.alignMember (.mk n t .plain) = Spec.alignTy t := rfl
    rw [ha]
    refine ⟨Spec.clen_dvd all t v hw hh hnc, ?_⟩
    have := PL.nodeTy_align_dvd_size t
    rw [PL.nodeTy_align_cppenc] at this
    exact this
  | optional => simp [Member.kind] at he
  | fixed c => simp [Member.kind] at he
  | limited s c => simp [Member.kind] at he
  | dyn s sh =>
    have ha : Spec.alignMember (.mk n t (.dyn s sh)) = Spec.alignTy t := rfl
    rw [ha]
    refine ⟨?_, by simp [mslot, PL.memOf, Member.kind]⟩
    cases v with
    | arr xs =>
      have hel : hasElems t xs = true := by cases t <;> simp_all [hasField]
      simpa [Spec.fieldChunks] using Spec.elems_dvd xs t hw hel
    | bytes b =>
      have ht : t = .byte := by cases t <;> simp_all [hasField]
      subst ht
      simp [Spec.alignTy]
    | _ => cases t <;> simp_all [hasField]
  | greedy =>
    have ha : Spec.alignMember (.mk n t .greedy) = Spec.alignTy t := rfl
    rw [ha]
    refine ⟨?_, by simp [mslot, PL.memOf, Member.kind]⟩
    cases v with
    | arr xs =>
      have hel : hasElems t xs = true := by cases t <;> simp_all [hasField]
      simpa [Spec.fieldChunks] using Spec.elems_dvd xs t hw hel
    | bytes b =>
      have ht : t = .byte := by cases t <;> simp_all [hasField]
      subst ht
      simp [Spec.alignTy]
    | _ => cases t <;> simp_all [hasField]

end Cpp


/-! ### the padding statement after a member writes the padding the document prescribes -/
namespace Cpp

/-- number of cells the padding statement skips at position `pos` -/
def padLen (p : Int) (pos : Nat) : Nat := if p < 0 then padTo pos p.natAbs else p.toNat

theorem aN_isAl (S : Nat) (hS : IsAl S) (ad : Bool) (ms : List Member) : IsAl (aN S ad ms) := by
  unfold aN
  cases ms with
  | nil => exact hS
  | cons m r =>
    cases ad
    · exact Spec.alignMember_isAl m
    · exact Spec.blockAlign_isAl _

theorem alignMember_dvd_aN (S : Nat) (ad : Bool) (m : Member) (r : List Member) :
    Spec.alignMember m ∣ aN S ad (m :: r) := by
  unfold aN
  cases ad
  · exact Nat.dvd_refl _
  · exact Spec.alignMember_dvd_blockAlign m r

theorem blockAlign_dvd (S : Nat) : (ms : List Member) → (∀ m ∈ ms, Spec.alignMember m ∣ S) → Spec.blockAlign ms ∣ S
  | [], _ => Nat.one_dvd _
  | m :: r, h => by
    have hm := h m (List.mem_cons_self ..)
    have ih := blockAlign_dvd S r (fun x hx => h x (List.mem_cons_of_mem _ hx))
    simp only [Spec.blockAlign]
    split
    · exact hm
    · exact max_dvd_of hm ih

theorem aN_dvd (S : Nat) (ad : Bool) (ms : List Member) (h : ∀ m ∈ ms, Spec.alignMember m ∣ S) : aN S ad ms ∣ S := by
  unfold aN
  cases ms with
  | nil => exact Nat.dvd_refl _
  | cons m r =>
    cases ad
    · exact h m (List.mem_cons_self ..)
    · exact blockAlign_dvd S _ h

theorem blockAlign_tail_dvd (m : Member) (r : List Member) (h : Spec.endsBlock m = false) :
    Spec.blockAlign r ∣ Spec.blockAlign (m :: r) := by
  simp only [Spec.blockAlign, h, Bool.false_eq_true, if_false]
  exact IsAl.dvd_max_right (Spec.alignMember_isAl m) (Spec.blockAlign_isAl r)

/-- the invariants of the walk over the members: `off0` is the offset reached in the encoding
    (before the padding in front of the first of `ms`), `bs` the static offset prophyc computed for
    the first of `ms`; they agree modulo `A`, which every alignment of the current block divides -/
structure LayInv (S : Nat) (any : Bool) (ms : List Member) (ad : Bool) (off0 bs A : Nat) : Prop where
  bsdvd : aN S ad ms ∣ bs
  cong : alignUp off0 (aN S ad ms) % A = bs % A
  blk : Spec.blockAlign ms ∣ A
  anyA : any = false → S ∣ A
  anyd : Spec.dynMs ms = true → any = true
  memS : ∀ m ∈ ms, Spec.alignMember m ∣ S

/-- what is known of the byte length `L` of the member's own encoding -/
structure LenOk (m : Member) (L : Nat) : Prop where
  stat : Spec.endsBlock m = false → L = mslot m
  dyn : Spec.endsBlock m = true → Spec.alignMember m ∣ L ∧ Spec.alignMember m ∣ mslot m

theorem dynMs_of_endsBlock (m : Member) (r : List Member) (h : Spec.endsBlock m = true) : Spec.dynMs (m :: r) = true := by
  obtain ⟨n, t, k⟩ := m
  rw [Spec.dynMs_cons, h]; rfl

theorem dynMs_tail (m : Member) (r : List Member) (h : Spec.dynMs r = true) : Spec.dynMs (m :: r) = true := by
  obtain ⟨n, t, k⟩ := m
  rw [Spec.dynMs_cons, h]; simp

theorem padOf_step (S : Nat) (hS : IsAl S) (any : Bool) (m : Member) (r : List Member) (ad : Bool)
    (off0 bs A base L : Nat) (inv : LayInv S any (m :: r) ad off0 bs A) (hL : LenOk m L) (hb : S ∣ base) :
    padLen (padOf S any m r (bs + mslot m)) (base + alignUp off0 (aN S ad (m :: r)) + L)
        = padTo (alignUp off0 (aN S ad (m :: r)) + L) (aN S (Spec.endsBlock m) r) ∧
      (Spec.endsBlock m = true → 0 ≤ padOf S any m r (bs + mslot m) → padOf S any m r (bs + mslot m) = 0) := by
  have ha'al := aN_isAl S hS (Spec.endsBlock m) r
  have ha'S : aN S (Spec.endsBlock m) r ∣ S := aN_dvd S _ r (fun x hx => inv.memS x (List.mem_cons_of_mem _ hx))
  have hapos := (aN_isAl S hS ad (m :: r)).pos
  have hmoff : Spec.alignMember m ∣ alignUp off0 (aN S ad (m :: r)) :=
    Nat.dvd_trans (alignMember_dvd_aN S ad m r) (dvd_alignUp _ _ hapos)
  have hmbs : Spec.alignMember m ∣ bs := Nat.dvd_trans (alignMember_dvd_aN S ad m r) inv.bsdvd
  have hmA : Spec.alignMember m ∣ A := Nat.dvd_trans (Spec.alignMember_dvd_blockAlign m r) inv.blk
  have hcong := inv.cong
  generalize hoff : alignUp off0 (aN S ad (m :: r)) = off at *
  generalize ha' : aN S (Spec.endsBlock m) r = a' at *
  unfold padOf
  rw [ha']
  by_cases hc : (dynFlag any m r && decide (Spec.alignMember m < a')) = true
  · rw [if_pos hc]
    have hneg : -((a' : Nat) : Int) < 0 := by have := ha'al.pos; omega
    refine ⟨?_, fun _ h0 => by omega⟩
    unfold padLen
    rw [if_pos hneg]
    have : (-((a' : Nat) : Int)).natAbs = a' := by omega
    rw [this, Nat.add_assoc, padTo_add_mul base _ a' (Nat.dvd_trans ha'S hb)]
  · rw [if_neg hc]
    have hnn : ¬ (((padTo (bs + mslot m) a' : Nat) : Int) < 0) := by omega
    unfold padLen
    rw [if_neg hnn]
    simp only [Int.toNat_natCast]
    cases he : Spec.endsBlock m with
    | true =>
      have hany := inv.anyd (dynMs_of_endsBlock m r he)
      have hflag : dynFlag any m r = true := by
        unfold dynFlag
        cases r with
        | nil => exact hany
        | cons m' r' => exact he
      have hle : a' ≤ Spec.alignMember m := by
        rw [hflag] at hc
        simp only [Bool.true_and, decide_eq_true_eq] at hc
        omega
      have hdvd : a' ∣ Spec.alignMember m := IsAl.dvd_of_le_cppenc ha'al (Spec.alignMember_isAl m) hle
      obtain ⟨hL1, hL2⟩ := hL.dyn he
      have h1 : padTo (bs + mslot m) a' = 0 :=
        padTo_eq_zero_of_dvd _ _ (Nat.dvd_trans hdvd (Nat.dvd_add hmbs hL2))
      have h2 : padTo (off + L) a' = 0 :=
        padTo_eq_zero_of_dvd _ _ (Nat.dvd_trans hdvd (Nat.dvd_add hmoff hL1))
      rw [h1, h2]
      exact ⟨rfl, fun _ _ => rfl⟩
    | false =>
      refine ⟨?_, fun h => by cases h⟩
      have hLs := hL.stat he
      rw [hLs]
      have hcg : (off + mslot m) % A = (bs + mslot m) % A := add_mod_congr _ _ _ _ hcong
      have ha'A : a' ∣ A := by
        cases r with
        | nil =>
          have ha'S' : a' = S := by rw [← ha']; rfl
          rw [ha'S']
          cases hany : any with
          | false => exact inv.anyA hany
          | true =>
            have hflag : dynFlag any m [] = true := hany
            rw [hflag, ha'S'] at hc
            simp only [Bool.true_and, decide_eq_true_eq] at hc
            have hle : S ≤ Spec.alignMember m := by omega
            exact Nat.dvd_trans (IsAl.dvd_of_le_cppenc hS (Spec.alignMember_isAl m) hle) hmA
        | cons m' r' =>
          have : a' = Spec.alignMember m' := by rw [← ha', he]; rfl
          rw [this]
          exact Nat.dvd_trans (Spec.alignMember_dvd_blockAlign m' r')
            (Nat.dvd_trans (blockAlign_tail_dvd m _ he) inv.blk)
      exact (padTo_congr _ _ a' A ha'A hcg).symm

/-- the invariants carry over to the remaining members -/
theorem layInv_step (S : Nat) (hS : IsAl S) (any : Bool) (m m' : Member) (r : List Member) (ad : Bool)
    (off0 bs A L : Nat) (inv : LayInv S any (m :: m' :: r) ad off0 bs A) (hL : LenOk m L) :
    ∃ A', LayInv S any (m' :: r) (Spec.endsBlock m) (alignUp off0 (aN S ad (m :: m' :: r)) + L)
      (alignUp (bs + mslot m) (aN S (Spec.endsBlock m) (m' :: r))) A' := by
  have ha'al := aN_isAl S hS (Spec.endsBlock m) (m' :: r)
  have hmemS : ∀ x ∈ m' :: r, Spec.alignMember x ∣ S := fun x hx => inv.memS x (List.mem_cons_of_mem _ hx)
  have hanyd : Spec.dynMs (m' :: r) = true → any = true := fun h => inv.anyd (dynMs_tail m _ h)
  cases he : Spec.endsBlock m with
  | true =>
    refine ⟨aN S true (m' :: r), ⟨dvd_alignUp _ _ (by rw [he] at ha'al; exact ha'al.pos), ?_, ?_, ?_, hanyd, hmemS⟩⟩
    · have hp := (aN_isAl S hS true (m' :: r)).pos
      rw [Nat.mod_eq_zero_of_dvd (dvd_alignUp _ _ hp), Nat.mod_eq_zero_of_dvd (dvd_alignUp _ _ hp)]
    · exact Nat.dvd_refl _
    · intro hany
      have := inv.anyd (dynMs_of_endsBlock m _ he)
      rw [hany] at this; cases this
  | false =>
    have ha'A : aN S false (m' :: r) ∣ A :=
      Nat.dvd_trans (Spec.alignMember_dvd_blockAlign m' r) (Nat.dvd_trans (blockAlign_tail_dvd m _ he) inv.blk)
    refine ⟨A, ⟨dvd_alignUp _ _ (by rw [he] at ha'al; exact ha'al.pos), ?_, ?_, inv.anyA, hanyd, hmemS⟩⟩
    · rw [hL.stat he]
      exact alignUp_congr _ _ _ A ha'A (add_mod_congr _ _ _ _ inv.cong)
    · exact Nat.dvd_trans (blockAlign_tail_dvd m _ he) inv.blk

end Cpp

end Prophy

/-! ## Part 3: the encoder, get_byte_size, the theorems -/
namespace Prophy
open Prophy WF

namespace Cpp

/-! ### cells -/
/-- what `encode<E>()` leaves in the zero-initialised vector -/
def fill (cs : List Cell) : Bytes := cs.map (·.getD 0)

@[simp] theorem fill_nil : fill [] = [] := rfl
@[simp] theorem fill_append (a b : List Cell) : fill (a ++ b) = fill a ++ fill b := by simp [fill]
@[simp] theorem fill_length (a : List Cell) : (fill a).length = a.length := by simp [fill]
@[simp] theorem fill_written (b : Bytes) : fill (written b) = b := by
  simp [fill, written, List.map_map, Function.comp_def]
@[simp] theorem fill_skip (n : Nat) : fill (skip n) = zeros n := by simp [fill, skip, zeros]
@[simp] theorem written_length (b : Bytes) : (written b).length = b.length := by simp [written]
@[simp] theorem skip_length (n : Nat) : (skip n).length = n := by simp [skip]

theorem fill_overlay (cs : List Cell) (n : Nat) : fill (overlay cs n) = fill cs ++ zeros (n - cs.length) := by
  simp [overlay]

theorem overlay_length (cs : List Cell) (n : Nat) : (overlay cs n).length = cs.length + (n - cs.length) := by
  simp [overlay]

theorem leBytes_zero : (k : Nat) → leBytes k 0 = zeros k
  | 0 => rfl
  | k + 1 => by
    simp only [leBytes, Nat.zero_mod, Nat.zero_div, leBytes_zero k, zeros, List.replicate_succ]
    rfl

theorem scalarBytes_zero (e : Endian) (k : Nat) : scalarBytes e k 0 = zeros k := by
  cases e <;> simp [scalarBytes, leBytes_zero, zeros]

/-! ### schemas without shifted counters (prophyc never emits a shift; the C++ generator has none) -/
mutual
  def noShift_cppenc : Ty → Bool
    | .struct _ ms => noShiftMs_cppenc ms
    | .union _ arms => noShiftArms_cppenc arms
    | _ => true
  def noShiftMs_cppenc : List Member → Bool
    | [] => true
    | .mk _ t k :: r => (k.shift == 0) && noShift_cppenc t && noShiftMs_cppenc r
  def noShiftArms_cppenc : List Arm → Bool
    | [] => true
    | .mk _ _ t :: r => noShift_cppenc t && noShiftArms_cppenc r
end

theorem sizerShift_zero (s : String) : (ms : List Member) → noShiftMs_cppenc ms = true → sizerShift s ms = 0
  | [], _ => rfl
  | .mk n t k :: r, h => by
    simp only [noShiftMs_cppenc, Bool.and_eq_true, beq_iff_eq] at h
    simp only [sizerShift]
    by_cases hk : (Member.mk n t k).kind.sizer? = some s
    · rw [if_pos hk]; exact h.1.1
    · rw [if_neg hk]; exact sizerShift_zero s r h.2

/-! ### views of the inline matches of the model -/

/-- `do_encode` of a value that is an element, an optional's value or a plain member: fixed-size
    types advance by `codec_traits<T>::size` -/
def encVal (e : Endian) (t : Ty) (v : Val) (pos : Nat) : List Cell :=
  if codecSize t ≥ 0 then overlay (encTy e t v pos) (codecSize t).toNat else encTy e t v pos

/-- the counter statement of generate_struct_encode -/
def counterCells (e : Endian) (all : List Member) (allv : List Val) (n : String) : List Cell :=
  match boundOf n all allv with
  | some (.mk _ _ (.limited _ lim), bv) =>
    written (scalarBytes e (sizerPrimOf n all).size (castCount (sizerPrimOf n all) (min bv.len lim)))
  | some (_, bv) =>
    written (scalarBytes e (sizerPrimOf n all).size (castCount (sizerPrimOf n all) bv.len))
  | none => []

/-- the cells of one member's own statement -/
def fieldCells (e : Endian) (all : List Member) (allv : List Val) (n : String) (t : Ty) (k : MKind) (v : Val)
    (msize pos : Nat) : List Cell :=
  match k, v with
  | .plain, v => if isSizer n all then counterCells e all allv n else encVal e t v pos
  | .optional, .absent =>
    written (scalarBytes e 4 0) ++ skip (if cppAlign t > 4 then cppAlign t - 4 else 0) ++ skip (codecSize t).toNat
  | .optional, .present x =>
    (written (scalarBytes e 4 1) ++ skip (if cppAlign t > 4 then cppAlign t - 4 else 0)) ++
      encVal e t x (pos + (written (scalarBytes e 4 1) ++ skip (if cppAlign t > 4 then cppAlign t - 4 else 0)).length)
  | .fixed c, .arr xs => encElems e t xs c pos
  | .fixed c, .bytes b => written (b.take c)
  | .dyn s _, .arr xs => encElems e t xs (castCount (sizerPrimOf s all) xs.length) pos
  | .dyn s _, .bytes b => written (b.take (castCount (sizerPrimOf s all) b.length))
  | .limited s lim, .arr xs =>
    overlay (encElems e t xs (castCount (sizerPrimOf s all) (min xs.length lim)) pos) msize
  | .limited s lim, .bytes b =>
    overlay (written (b.take (castCount (sizerPrimOf s all) (min b.length lim)))) msize
  | .greedy, .arr xs => encElems e t xs xs.length pos
  | .greedy, .bytes b => written b
  | _, _ => []

theorem encMs_cons (e : Endian) (all : List Member) (allv : List Val) (n : String) (t : Ty) (k : MKind)
    (r : List Member) (v : Val) (vs : List Val) (msize al : Nat) (padding : Int) (ls : List (Nat × Nat × Int))
    (pos : Nat) :
    encMs e all allv (.mk n t k :: r) (v :: vs) ((msize, al, padding) :: ls) pos =
      fieldCells e all allv n t k v msize pos
        ++ skip (padLen padding (pos + (fieldCells e all allv n t k v msize pos).length))
        ++ encMs e all allv r vs ls
            (pos + (fieldCells e all allv n t k v msize pos).length
              + padLen padding (pos + (fieldCells e all allv n t k v msize pos).length)) := by
  have hp : ∀ pos1, (if padding < 0 then skip (padTo pos1 padding.natAbs) else skip padding.toNat)
      = skip (padLen padding pos1) := by
    intro pos1; unfold padLen; split <;> rfl
  cases k <;> cases v <;>
    (simp only [encMs, fieldCells, encVal, counterCells, hp, skip_length]; try rfl)

theorem encElems_cons (e : Endian) (t : Ty) (x : Val) (xs : List Val) (n pos : Nat) :
    encElems e t (x :: xs) (n + 1) pos = encVal e t x pos ++ encElems e t xs n (pos + (encVal e t x pos).length) := by
  simp only [encElems, encVal]


/-! ### the hypotheses on the schema, bundled -/

/-- what the encoder proofs use of a type; all of it follows from `Accept.front`, `Accept.pyRt`,
    `optMisaligned t = false` and `noShift_cppenc t` -/
structure TyOk (t : Ty) : Prop where
  wf : wfTy t = true
  ok : okTy t = true
  al : optMisaligned t = false
  ns : noShift_cppenc t = true

structure MsOk (all ms : List Member) : Prop where
  wf : wfMs all ms = true
  ok : okMs ms = true
  al : optMisalignedMs ms = false
  ns : noShiftMs_cppenc ms = true

theorem TyOk.struct {nm : String} {ms : List Member} (h : TyOk (.struct nm ms)) :
    uniq (ms.map (·.name)) = true ∧ MsOk ms ms := by
  have h1 := h.wf
  simp only [wfTy, Bool.and_eq_true] at h1
  exact ⟨h1.1, ⟨h1.2, by simpa [okTy] using h.ok, by simpa [optMisaligned] using h.al, by simpa [noShift_cppenc] using h.ns⟩⟩

theorem MsOk.cons {all : List Member} {n : String} {t : Ty} {k : MKind} {r : List Member}
    (h : MsOk all (.mk n t k :: r)) :
    TyOk t ∧ (needsFixed k = true → Spec.fixedTy t = true) ∧ (∀ s, k.sizer? = some s → sizerOk all s = true) ∧
      (k = .optional → max 4 (cppAlign t) = max 4 (Spec.alignTy t)) ∧ MsOk all r := by
  obtain ⟨hwt, hfx, hsz, _, hwr⟩ := (wfMs_cons all n t k r).1 h.wf
  obtain ⟨hot, _, _, _, _, hor⟩ := (okMs_cons n t k r).1 h.ok
  have hal := h.al
  have hns := h.ns
  simp only [optMisalignedMs, Bool.or_eq_false_iff] at hal
  simp only [noShiftMs_cppenc, Bool.and_eq_true, beq_iff_eq] at hns
  refine ⟨⟨hwt, hot, hal.1.2, hns.1.2⟩, hfx, hsz, ?_, ⟨hwr, hor, hal.2, hns.2⟩⟩
  intro hk
  subst hk
  have := hal.1.1
  rw [PL.nodeTy_align_cppenc] at this
  simpa using this

theorem arms_get : (arms : List Arm) → wfArms arms = true → okArms arms = true →
    optMisalignedArms arms = false → noShiftArms_cppenc arms = true → ∀ (idx : Nat) (a : Arm), arms[idx]? = some a →
    TyOk a.ty ∧ Spec.fixedTy a.ty = true
  | [], _, _, _, _, idx, a, h => by simp at h
  | .mk n d t :: r, hw, ho, hal, hns, idx, a, h => by
    obtain ⟨h1, h2, h3⟩ := (wfArms_cons n d t r).1 hw
    simp only [okArms, Bool.and_eq_true, beq_iff_eq] at ho
    simp only [optMisalignedArms, Bool.or_eq_false_iff] at hal
    simp only [noShiftArms_cppenc, Bool.and_eq_true] at hns
    cases idx with
    | zero => simp at h; subst h; exact ⟨⟨h1, ho.1.1, hal.1, hns.1⟩, h2⟩
    | succ i => simp at h; exact arms_get r h3 ho.2 hal.2 hns.2 i a h

theorem TyOk.arm {nm : String} {arms : List Arm} (h : TyOk (.union nm arms)) (idx : Nat) (a : Arm)
    (ha : arms[idx]? = some a) : TyOk a.ty ∧ Spec.fixedTy a.ty = true ∧ a.disc < 2 ^ 32 := by
  have h1 := h.wf
  simp only [wfTy, Bool.and_eq_true] at h1
  obtain ⟨h2, h3⟩ := arms_get arms h1.2 (by simpa [okTy] using h.ok) (by simpa [optMisaligned] using h.al)
    (by simpa [noShift_cppenc] using h.ns) idx a ha
  refine ⟨h2, h3, ?_⟩
  have := List.all_eq_true.1 h1.1 a (List.mem_of_getElem? ha)
  exact of_decide_eq_true this

theorem TyOk.union_fixed {nm : String} {arms : List Arm} (h : TyOk (.union nm arms)) :
    Spec.fixedTy (.union nm arms) = true := by
  have h1 := h.wf
  simp only [wfTy, Bool.and_eq_true] at h1
  simpa [Spec.fixedTy] using WF.fixedArms_of_wf arms h1.2

/-- `CT(x.size())` does not truncate a length the sizer can hold -/
theorem castCount_of_sizerOk (all : List Member) (s : String) (h : sizerOk all s = true) (len : Nat)
    (hl : (len : Int) ≤ sizerMax s all) : castCount (sizerPrimOf s all) len = len := by
  unfold sizerOk at h
  unfold sizerMax at hl
  unfold sizerPrimOf castCount
  cases hf : all.find? (fun m => m.name == s) with
  | none => simp [hf] at h
  | some m =>
    obtain ⟨mn, mt, mk⟩ := m
    rw [hf] at h hl
    cases mt with
    | prim p =>
      cases mk <;> simp at h
      have := (primRange_nonfloat p h).2
      simp only at hl ⊢
      apply Nat.mod_eq_of_lt
      have hpos : 0 < 256 ^ p.size := Nat.pow_pos (by decide)
      omega
    | _ => simp at h

structure FieldOk (all : List Member) (t : Ty) (k : MKind) : Prop where
  ty : TyOk t
  fx : needsFixed k = true → Spec.fixedTy t = true
  opt : k = .optional → max 4 (cppAlign t) = max 4 (Spec.alignTy t)
  cast : ∀ s, k.sizer? = some s → ∀ len : Nat, (len : Int) ≤ sizerMax s all → castCount (sizerPrimOf s all) len = len

theorem FieldOk.plain {t : Ty} (all : List Member) (h : TyOk t) : FieldOk all t .plain :=
  ⟨h, (by intro h; cases h), (by intro h; cases h), (by intro s h; cases h)⟩

theorem MsOk.field {all : List Member} {n : String} {t : Ty} {k : MKind} {r : List Member}
    (h : MsOk all (.mk n t k :: r)) : FieldOk all t k := by
  obtain ⟨h1, h2, h3, h4, _⟩ := h.cons
  exact ⟨h1, h2, h4, fun s hs len hl => castCount_of_sizerOk all s (h3 s hs) len hl⟩

/-! ### counters -/
def SizerEncC (e : Endian) (all : List Member) (allv : List Val) (n : String) (t : Ty) : Prop :=
  isSizer n all = true → ∃ p, t = .prim p ∧
    counterCells e all allv n = written (scalarBytes e p.size (Spec.counter n all allv + sizerShift n all))

structure SizerFactsC (e : Endian) (all : List Member) (allv : List Val) : Prop where
  enc : ∀ n t k, Member.mk n t k ∈ all → SizerEncC e all allv n t

theorem boundOf_spec (all : List Member) (s : String) : (ms : List Member) → (vs : List Val) →
    hasMs all ms vs = true → (∃ m ∈ ms, m.kind.sizer? = some s) →
    ∃ m bv, boundOf s ms vs = some (m, bv) ∧ m.kind.sizer? = some s ∧ (boundLens s ms vs).headD 0 = bv.len ∧
      hasField all m.kind m.ty bv = true
  | [], _, _, ⟨m, hm, _⟩ => by cases hm
  | _ :: _, [], hh, _ => by simp [hasMs] at hh
  | .mk n t k :: r, v :: vs, hh, ⟨m, hm, hs⟩ => by
    obtain ⟨_, hf, hhr⟩ := (hasMs_cons all n t k r v vs).1 hh
    simp only [boundOf, boundLens]
    by_cases hk : (Member.mk n t k).kind.sizer? = some s
    · rw [if_pos hk, if_pos hk]
      exact ⟨_, _, rfl, hk, rfl, hf⟩
    · rw [if_neg hk, if_neg hk]
      rcases List.mem_cons.1 hm with rfl | hr
      · exact absurd hs hk
      · exact boundOf_spec all s r vs hhr ⟨m, hr, hs⟩

theorem sizerFactsC (e : Endian) (all : List Member) (allv : List Val)
    (hu : uniq (all.map (·.name)) = true) (hw : wfMs all all = true)
    (hh : hasMs all all allv = true) (hns : noShiftMs_cppenc all = true) : SizerFactsC e all allv := by
  refine ⟨fun n t k hm hs => ?_⟩
  obtain ⟨p, rfl, rfl, hfl, hmax⟩ := WF.sizer_prim all hu hw n t k hm hs
  have hfind : all.find? (fun x => x.name == n) = some (.mk n (.prim p) .plain) := WF.uniq_find all hu _ hm
  have hsp : sizerPrimOf n all = p := by unfold sizerPrimOf; rw [hfind]
  obtain ⟨m', hm', hs'⟩ := (isSizer_iff n all).1 hs
  obtain ⟨m, bv, hb, hks, hcnt, hfld⟩ := boundOf_spec all n all allv hh ⟨m', hm', hs'⟩
  have hlen := hasField_len all m.kind m.ty bv n hks hfld
  have hcast : castCount p bv.len = bv.len := by
    unfold castCount
    apply Nat.mod_eq_of_lt
    have := (primRange_nonfloat p hfl).2
    have hpos : 0 < 256 ^ p.size := Nat.pow_pos (by decide)
    rw [hmax] at hlen
    omega
  refine ⟨p, rfl, ?_⟩
  have hc : Spec.counter n all allv = bv.len := hcnt
  rw [hc, sizerShift_zero n all hns, Nat.add_zero]
  unfold counterCells
  rw [hb, hsp]
  obtain ⟨mn, mt, mk⟩ := m
  cases mk with
  | limited s' lim =>
    have hle : bv.len ≤ lim := by
      cases bv <;> cases mt <;> simp_all [hasField, Member.kind, Member.ty, Val.len]
    simp only [Nat.min_eq_left hle, hcast]
  | _ => simp only [hcast]


/-! ### helpers of the main induction -/
theorem codecSize_nonneg (t : Ty) (h : codecSize t ≥ 0) :
    (codecSize t).toNat = (PL.nodeTy t).size ∧ (PL.nodeTy t).kind = 0 := by
  cases t with
  | prim p => simp [codecSize, PL.nodeTy]
  | byte => simp [codecSize, PL.nodeTy]
  | enum _ _ => simp [codecSize, PL.nodeTy, PL.enumSize]
  | union nm arms =>
    simp only [codecSize]
    exact ⟨Int.toNat_natCast _, by simp [PL.nodeTy, PL.unionNode]⟩
  | struct nm ms =>
    simp only [codecSize] at h ⊢
    by_cases hk : (PL.nodeTy (.struct nm ms)).kind = 0
    · simp [hk]
    · rw [if_neg hk] at h; omega

theorem codecSize_fixed (t : Ty) (hf : Spec.fixedTy t = true) : codecSize t = (Spec.sizeTy t : Int) := by
  have hs := PL.nodeTy_size_fixed t hf
  have hk := PL.kind_of_fixed t hf
  cases t with
  | prim p => simp [codecSize, Spec.sizeTy]
  | byte => simp [codecSize, Spec.sizeTy]
  | enum _ _ => simp [codecSize, Spec.sizeTy]
  | union nm arms => simp only [codecSize]; rw [hs]
  | struct nm ms => simp only [codecSize]; rw [if_pos hk, hs]

theorem encVal_ok (e : Endian) (t : Ty) (v : Val) (pos : Nat) (hok : okTy t = true)
    (h : fill (encTy e t v pos) = Spec.render e (Spec.chunksTy t v))
    (hlen : Spec.fixedTy t = true → Spec.clen (Spec.chunksTy t v) = Spec.sizeTy t) :
    fill (encVal e t v pos) = Spec.render e (Spec.chunksTy t v) := by
  unfold encVal
  split
  · rename_i hc
    obtain ⟨h1, h2⟩ := codecSize_nonneg t hc
    have hf := fixed_of_kind t hok h2
    have hl : (encTy e t v pos).length = (PL.nodeTy t).size := by
      rw [← fill_length, h, Spec.render_length, hlen hf, PL.nodeTy_size_fixed t hf]
    rw [fill_overlay, h1, hl, h]
    simp [zeros]
  · exact h

theorem fieldCells_plain (e : Endian) (all : List Member) (allv : List Val) (n : String) (t : Ty) (v : Val)
    (msize pos : Nat) (h : isSizer n all = false) :
    fieldCells e all allv n t .plain v msize pos = encVal e t v pos := by
  simp [fieldCells, h]

/-- from the pointer encoder's cells of a value to the member statement's -/
theorem plain_pair (e : Endian) (all : List Member) (allv : List Val) (n : String) (t : Ty) (v : Val)
    (msize pos : Nat) (hT : TyOk t) (hh : hasField all .plain t v = true) (hns : isSizer n all = false)
    (hnc : v.isCounter = false) (H : fill (encTy e t v pos) = Spec.render e (Spec.chunksTy t v)) :
    fill (fieldCells e all allv n t .plain v msize pos) = Spec.render e (Spec.fieldChunks all allv n t .plain v) ∧
      (MKind.plain = .plain → v.isCounter = false → fill (encTy e t v pos) = Spec.render e (Spec.chunksTy t v)) := by
  refine ⟨?_, fun _ _ => H⟩
  rw [fieldCells_plain e all allv n t v msize pos hns, Spec.fieldChunks_plain all allv n t v hnc]
  apply encVal_ok e t v pos hT.ok H
  intro hf
  have := Spec.flen v all allv n t .plain hf rfl hh
  rw [Spec.fieldChunks_plain all allv n t v hnc] at this
  exact this

theorem Spec.alignTy_le_alignArms : (arms : List Arm) → ∀ (idx : Nat) (a : Arm), arms[idx]? = some a →
    Spec.alignTy a.ty ≤ Spec.alignArms arms
  | [], idx, a, h => by simp at h
  | .mk n d t :: r, idx, a, h => by
    cases idx with
    | zero => simp at h; subst h; simp only [Spec.alignArms, Arm.ty]; omega
    | succ i =>
      simp at h
      have := Spec.alignTy_le_alignArms r i a h
      simp only [Spec.alignArms]; omega

theorem Spec.alignTy_arm_dvd (arms : List Arm) (idx : Nat) (a : Arm) (h : arms[idx]? = some a) :
    Spec.alignTy a.ty ∣ max 4 (Spec.alignArms arms) := by
  apply IsAl.dvd_of_le_cppenc (Spec.alignTy_isAl _) (IsAl.max IsAl.four (Spec.alignArms_isAl arms))
  have := Spec.alignTy_le_alignArms arms idx a h
  omega

theorem Spec.alignMember_le_alignMs' : (ms : List Member) → ∀ m ∈ ms, Spec.alignMember m ≤ Spec.alignMs ms
  | [], m, hm => by cases hm
  | .mk n t k :: r, m, hm => by
    rcases List.mem_cons.1 hm with rfl | hr
    · exact Spec.alignMember_le_alignMs n t k r
    · have := Spec.alignMember_le_alignMs' r m hr
      simp only [Spec.alignMs]; omega

theorem Spec.alignMember_dvd_alignMs (ms : List Member) (m : Member) (hm : m ∈ ms) :
    Spec.alignMember m ∣ Spec.alignMs ms :=
  IsAl.dvd_of_le_cppenc (Spec.alignMember_isAl m) (Spec.alignMs_isAl ms) (Spec.alignMember_le_alignMs' ms m hm)

/-- the chunks of the members `ms` from offset `off` on, with the struct's end padding -/
def restChunks (S : Nat) (all : List Member) (allv : List Val) (ms : List Member) (vs : List Val) (off : Nat)
    (ad : Bool) : List Spec.Chunk :=
  Spec.chunksMs all allv ms vs off ad ++ [.pad (padTo (off + Spec.clen (Spec.chunksMs all allv ms vs off ad)) S)]

theorem restChunks_cons (S : Nat) (all : List Member) (allv : List Val) (n : String) (t : Ty) (k : MKind)
    (r : List Member) (v : Val) (vs : List Val) (off : Nat) (ad : Bool) :
    restChunks S all allv (.mk n t k :: r) (v :: vs) off ad =
      .pad (padTo off (aN S ad (.mk n t k :: r))) ::
        (Spec.fieldChunks all allv n t k v ++
          restChunks S all allv r vs
            (alignUp off (aN S ad (.mk n t k :: r)) + Spec.clen (Spec.fieldChunks all allv n t k v))
            (Spec.endsBlock (.mk n t k))) := by
  unfold restChunks
  rw [Spec.chunksMs_cons]
  simp only [aN, alignUp, List.cons_append, List.append_assoc, Spec.clen_cons, Spec.clen_append, Spec.Chunk.len,
    Nat.add_assoc]

theorem restChunks_nil (S : Nat) (all : List Member) (allv : List Val) (vs : List Val) (off : Nat) (ad : Bool) :
    restChunks S all allv [] vs off ad = [.pad (padTo off S)] := by
  unfold restChunks
  cases vs <;> simp [Spec.chunksMs, Spec.clen]

theorem layInv_init (ms : List Member) :
    LayInv (Spec.alignMs ms) (Spec.dynMs ms) ms false 0 0 (Spec.alignMs ms) := by
  have hmem : ∀ m ∈ ms, Spec.alignMember m ∣ Spec.alignMs ms := Spec.alignMember_dvd_alignMs ms
  refine ⟨Nat.dvd_zero _, ?_, blockAlign_dvd _ ms hmem, fun _ => Nat.dvd_refl _, fun h => h, hmem⟩
  simp [alignUp, padTo_zero]


theorem optPad (t : Ty) (h : max 4 (cppAlign t) = max 4 (Spec.alignTy t)) :
    (if cppAlign t > 4 then cppAlign t - 4 else 0) = max 4 (Spec.alignTy t) - 4 := by
  split <;> omega

/-! ### the pointer encoder writes the canonical encoding (cells left untouched are zero) -/
mutual
  theorem cfield_ok (e : Endian) : (v : Val) → ∀ (all : List Member) (allv : List Val) (n : String) (t : Ty)
      (k : MKind) (msize pos : Nat), FieldOk all t k → hasField all k t v = true → agreeTy t v = true →
      v.isCounter = isSizer n all → SizerEncC e all allv n t →
      (∀ s lim, k = .limited s lim → msize = lim * Spec.sizeTy t) → Spec.alignMember (.mk n t k) ∣ pos →
      fill (fieldCells e all allv n t k v msize pos) = Spec.render e (Spec.fieldChunks all allv n t k v) ∧
        (k = .plain → v.isCounter = false → fill (encTy e t v pos) = Spec.render e (Spec.chunksTy t v))
    | .sizer, all, allv, n, t, k, msize, pos, hF, hh, hag, hc, hs, hms, hpos => by
      have hk : k = .plain := by cases k <;> simp_all [hasField]
      subst hk
      have hsz : isSizer n all = true := by simpa [Val.isCounter] using hc.symm
      obtain ⟨p, rfl, hcc⟩ := hs hsz
      refine ⟨?_, fun _ h => by simp [Val.isCounter] at h⟩
      simp [fieldCells, hsz, hcc, Spec.fieldChunks, render_scalar, Spec.sizeTy]
    | .int i, all, allv, n, t, k, msize, pos, hF, hh, hag, hc, hs, hms, hpos => by
      have hns : isSizer n all = false := by simpa [Val.isCounter] using hc.symm
      have hk : k = .plain := by cases k <;> cases t <;> simp_all [hasField]
      subst hk
      apply plain_pair e all allv n t _ msize pos hF.ty hh hns rfl
      cases t with
      | prim p => simp [encTy, Spec.chunksTy, render_scalar]
      | byte => simp [encTy, Spec.chunksTy, render_scalar]
      | enum nm es => simp [encTy, Spec.chunksTy, render_scalar]
      | struct nm ms => simp [hasField] at hh
      | union nm arms => simp [hasField] at hh
    | .struct vs, all, allv, n, t, k, msize, pos, hF, hh, hag, hc, hs, hms, hpos => by
      have hns : isSizer n all = false := by simpa [Val.isCounter] using hc.symm
      cases t with
      | struct nm ms =>
        have hk : k = .plain := by cases k <;> simp_all [hasField]
        subst hk
        apply plain_pair e all allv n _ _ msize pos hF.ty hh hns rfl
        have hhm : hasMs ms ms vs = true := by simpa [hasField] using hh
        obtain ⟨hu, hM⟩ := hF.ty.struct
        simp only [agreeTy, Bool.and_eq_true] at hag
        have sf := sizerFactsC e ms vs hu hM.wf hhm hM.ns
        have hS : Spec.alignMs ms ∣ pos := hpos
        have H := cms_ok e vs ms ms vs (Spec.alignMs ms) false 0 0 (Spec.alignMs ms) pos (Spec.alignMs_isAl ms) hS sf
          (fun m hm => hm) hM hhm hag.2 (layInv_init ms)
        simp only [padTo_zero, alignUp, zeros_zero, List.nil_append, Nat.add_zero] at H
        simp only [encTy, Spec.chunksTy]
        rw [structMembers_eq_lay ms hM.wf hM.ok, H]
        simp [restChunks]
      | prim p => cases k <;> simp [hasField] at hh
      | byte => cases k <;> simp [hasField] at hh
      | enum nm es => cases k <;> simp [hasField] at hh
      | union nm arms => cases k <;> simp [hasField] at hh
    | .union idx x, all, allv, n, t, k, msize, pos, hF, hh, hag, hc, hs, hms, hpos => by
      have hns : isSizer n all = false := by simpa [Val.isCounter] using hc.symm
      cases t with
      | union nm arms =>
        have hk : k = .plain := by cases k <;> simp_all [hasField]
        subst hk
        apply plain_pair e all allv n _ _ msize pos hF.ty hh hns rfl
        simp only [hasField, Bool.true_and] at hh
        cases ha : arms[idx]? with
        | none => simp [ha] at hh
        | some a =>
          obtain ⟨an, d, t'⟩ := a
          simp only [ha, Bool.and_eq_true, Bool.not_eq_true'] at hh
          obtain ⟨hT', hfx', hd⟩ := hF.ty.arm idx _ ha
          simp only [Arm.ty, Arm.disc] at hT' hfx' hd
          have hfu := hF.ty.union_fixed
          have hnal := PL.nodeTy_align_cppenc (.union nm arms)
          have hnsz := PL.nodeTy_size_fixed (.union nm arms) hfu
          have hA : Spec.alignTy (.union nm arms) = max 4 (Spec.alignArms arms) := by simp [Spec.alignTy, Spec.flagSize]
          have hposA : max 4 (Spec.alignArms arms) ∣ pos := by
            have : Spec.alignMember (.mk n (.union nm arms) .plain) = max 4 (Spec.alignArms arms) := hA
            rw [← this]; exact hpos
          have hdp' : ∀ al, al = max 4 (Spec.alignArms arms) →
              (if al > PL.discSize then al - PL.discSize else 0) = max 4 (Spec.alignArms arms) - 4 := by
            intro al h; subst h
            have hd4 : PL.discSize = 4 := rfl
            by_cases h4 : max 4 (Spec.alignArms arms) > PL.discSize
            · rw [if_pos h4, hd4]
            · rw [if_neg h4]; omega
          have hdp := hdp' _ (hnal.trans hA)
          have hge : max 4 (Spec.alignArms arms) + Spec.maxArm arms ≤ Spec.sizeTy (.union nm arms) := by
            simp only [Spec.sizeTy, Spec.flagSize]; exact le_alignUp _ _
          have hpos' : Spec.alignMember (.mk "" t' .plain) ∣ pos + 4 + (max 4 (Spec.alignArms arms) - 4) := by
            have h1 : Spec.alignTy t' ∣ max 4 (Spec.alignArms arms) := Spec.alignTy_arm_dvd arms idx _ ha
            have h2 : pos + 4 + (max 4 (Spec.alignArms arms) - 4) = pos + max 4 (Spec.alignArms arms) := by omega
            rw [h2]
            exact Nat.dvd_add (Nat.dvd_trans h1 hposA) h1
          have hx := (cfield_ok e x [] [] "" t' .plain 0 (pos + 4 + (max 4 (Spec.alignArms arms) - 4))
            (FieldOk.plain [] hT') hh.2 (by simpa [agreeTy, ha] using hag) (by rw [hh.1]; rfl)
            (by intro h; cases h) (by intro s lim h; cases h) hpos').2 rfl hh.1
          have hlen := Spec.flen x [] [] "" t' .plain hfx' rfl hh.2
          rw [Spec.fieldChunks_plain [] [] "" t' x hh.1] at hlen
          simp only [Spec.slot] at hlen
          have hle := Spec.le_maxArm arms idx _ ha
          simp only [Arm.ty] at hle
          have hnm : Spec.sizeTy (.union "" arms) = Spec.sizeTy (.union nm arms) := Spec.sizeTy_union_name _ _ _
          have hcl : (encTy e t' x (pos + 4 + (max 4 (Spec.alignArms arms) - 4))).length = Spec.sizeTy t' := by
            rw [← fill_length, hx, Spec.render_length, hlen]
          simp only [encTy, Spec.chunksTy, ha, hdp, hnsz, hnm]
          simp only [fill_append, fill_written, fill_skip, fill_overlay, hx, hcl, Spec.render_append, render_cons,
            Spec.Chunk.render, Spec.render, hlen, PL.discSize, Spec.flagSize, List.append_assoc, List.append_nil,
            List.cons_append, List.nil_append]
          have hz : Spec.sizeTy (.union nm arms) - 4 - (max 4 (Spec.alignArms arms) - 4) - Spec.sizeTy t'
              = Spec.sizeTy (.union nm arms) - max 4 (Spec.alignArms arms) - Spec.sizeTy t' := by omega
          rw [hz]
      | prim p => cases k <;> simp [hasField] at hh
      | byte => cases k <;> simp [hasField] at hh
      | enum nm es => cases k <;> simp [hasField] at hh
      | struct nm ms => cases k <;> simp [hasField] at hh
    | .absent, all, allv, n, t, k, msize, pos, hF, hh, hag, hc, hs, hms, hpos => by
      have hk : k = .optional := by cases k <;> simp_all [hasField]
      subst hk
      refine ⟨?_, fun h => by cases h⟩
      have hcs := codecSize_fixed t (hF.fx rfl)
      have hop := optPad t (hF.opt rfl)
      simp only [fieldCells, Spec.fieldChunks, hcs, hop, fill_append, fill_written, fill_skip, scalarBytes_zero,
        Int.toNat_natCast, Spec.render, Spec.Chunk.render, Spec.flagSize, List.append_nil]
      rw [← zeros_add, ← zeros_add]
      congr 1; omega
    | .present x, all, allv, n, t, k, msize, pos, hF, hh, hag, hc, hs, hms, hpos => by
      have hk : k = .optional := by cases k <;> simp_all [hasField]
      subst hk
      refine ⟨?_, fun h => by cases h⟩
      simp only [hasField, Bool.true_and, Bool.and_eq_true, Bool.not_eq_true'] at hh
      have hx : hasField [] .plain t x = true := by rw [hasField_plain_indep [] all]; exact hh.2
      have hop := optPad t (hF.opt rfl)
      have hposM : max 4 (Spec.alignTy t) ∣ pos := by
        have : Spec.alignMember (.mk n t .optional) = max 4 (Spec.alignTy t) := by
          simp [Spec.alignMember, Member.kind, Member.ty, Spec.flagSize]
        rw [← this]; exact hpos
      have hpl : (written (scalarBytes e 4 1) ++ skip (max 4 (Spec.alignTy t) - 4)).length = max 4 (Spec.alignTy t) := by
        simp; omega
      have hpos' : Spec.alignMember (.mk "" t .plain) ∣ pos + max 4 (Spec.alignTy t) := by
        have h1 : Spec.alignTy t ∣ max 4 (Spec.alignTy t) :=
          IsAl.dvd_max_right IsAl.four (Spec.alignTy_isAl t)
        exact Nat.dvd_add (Nat.dvd_trans h1 hposM) h1
      have h1 := (cfield_ok e x [] [] "" t .plain 0 (pos + max 4 (Spec.alignTy t)) (FieldOk.plain [] hF.ty) hx
        (by simpa [agreeTy] using hag) (by rw [hh.1]; rfl) (by intro h; cases h) (by intro s lim h; cases h) hpos').1
      rw [fieldCells_plain e [] [] "" t x 0 _ rfl, Spec.fieldChunks_plain [] [] "" t x hh.1] at h1
      simp only [fieldCells, Spec.fieldChunks, hop, hpl, fill_append, fill_written, fill_skip, h1,
        render_cons, Spec.Chunk.render, Spec.render, Spec.flagSize, List.append_assoc,
        List.cons_append, List.nil_append]
    | .bytes b, all, allv, n, t, k, msize, pos, hF, hh, hag, hc, hs, hms, hpos => by
      have ht : t = .byte := by cases t <;> simp_all [hasField]
      subst ht
      cases k with
      | plain => simp [hasField] at hh
      | optional => simp [hasField] at hh
      | fixed c =>
        refine ⟨?_, fun h => by cases h⟩
        have hl : b.length = c := by simpa [hasField] using hh
        simp [fieldCells, Spec.fieldChunks, ← hl, Spec.render, Spec.Chunk.render]
      | dyn s sh =>
        refine ⟨?_, fun h => by cases h⟩
        have hlen := hasField_len all (.dyn s sh) .byte (.bytes b) s rfl hh
        have hcast := hF.cast s rfl b.length (by simp only [Val.len] at hlen; omega)
        simp [fieldCells, Spec.fieldChunks, hcast, Spec.render, Spec.Chunk.render]
      | limited s c =>
        refine ⟨?_, fun h => by cases h⟩
        have hlen := hasField_len all (.limited s c) .byte (.bytes b) s rfl hh
        have hcast := hF.cast s rfl b.length (by simp only [Val.len] at hlen; omega)
        have hl : b.length ≤ c := by
          simp only [hasField, Bool.true_and, Bool.and_eq_true, decide_eq_true_eq] at hh
          exact hh.1
        have hm := hms s c rfl
        simp [fieldCells, Spec.fieldChunks, Nat.min_eq_left hl, hcast, fill_overlay, hm, Spec.sizeTy, Spec.render,
          Spec.Chunk.render]
      | greedy =>
        refine ⟨?_, fun h => by cases h⟩
        simp [fieldCells, Spec.fieldChunks, Spec.render, Spec.Chunk.render]
    | .arr xs, all, allv, n, t, k, msize, pos, hF, hh, hag, hc, hs, hms, hpos => by
      have hel : hasElems t xs = true := by
        cases t <;> simp_all [hasField]
      have hposT : Spec.alignTy t ∣ pos := by
        have h1 : Spec.alignTy t ∣ Spec.alignMember (.mk n t k) := by
          unfold Spec.alignMember
          cases k <;> simp only [Member.kind, Member.ty] <;>
            first | exact Nat.dvd_refl _ | exact IsAl.dvd_max_right IsAl.four (Spec.alignTy_isAl t)
        exact Nat.dvd_trans h1 hpos
      have h1 := celems_ok e xs t pos hF.ty hel (by simpa [agreeTy] using hag) hposT
      cases k with
      | plain => cases t <;> simp [hasField] at hh
      | optional => cases t <;> simp [hasField] at hh
      | fixed c =>
        refine ⟨?_, fun h => by cases h⟩
        have hl : xs.length = c := by cases t <;> simp_all [hasField]
        simp [fieldCells, Spec.fieldChunks, ← hl, h1]
      | dyn s sh =>
        refine ⟨?_, fun h => by cases h⟩
        have hlen := hasField_len all (.dyn s sh) t (.arr xs) s rfl hh
        have hcast := hF.cast s rfl xs.length (by simp only [Val.len] at hlen; omega)
        simp [fieldCells, Spec.fieldChunks, hcast, h1]
      | greedy =>
        refine ⟨?_, fun h => by cases h⟩
        simp [fieldCells, Spec.fieldChunks, h1]
      | limited s c =>
        refine ⟨?_, fun h => by cases h⟩
        have hlen := hasField_len all (.limited s c) t (.arr xs) s rfl hh
        have hcast := hF.cast s rfl xs.length (by simp only [Val.len] at hlen; omega)
        have hl : xs.length ≤ c := by cases t <;> simp_all [hasField]
        have hm := hms s c rfl
        have hcl : (encElems e t xs xs.length pos).length = Spec.clen (Spec.chunksElems t xs) := by
          rw [← fill_length, h1, Spec.render_length]
        simp [fieldCells, Spec.fieldChunks, Nat.min_eq_left hl, hcast, fill_overlay, hm, h1, hcl, Spec.render,
          Spec.Chunk.render]
  theorem cms_ok (e : Endian) : (vs : List Val) → ∀ (ms all : List Member) (allv : List Val) (S : Nat) (ad : Bool)
      (off0 bs A base : Nat), IsAl S → S ∣ base → SizerFactsC e all allv → (∀ m ∈ ms, m ∈ all) → MsOk all ms →
      hasMs all ms vs = true → agreeFields ms vs = true → LayInv S (Spec.dynMs all) ms ad off0 bs A →
      zeros (padTo off0 (aN S ad ms)) ++
          fill (encMs e all allv ms vs (lay S (Spec.dynMs all) ms ad bs) (base + alignUp off0 (aN S ad ms)))
        = Spec.render e (restChunks S all allv ms vs off0 ad)
    | [], ms, all, allv, S, ad, off0, bs, A, base, hS, hb, sf, hsub, hM, hh, hag, inv => by
      have hms : ms = [] := by cases ms <;> simp_all [hasMs]
      subst hms
      simp [restChunks_nil, encMs, aN, Spec.render, Spec.Chunk.render]
    | v :: vs, ms, all, allv, S, ad, off0, bs, A, base, hS, hb, sf, hsub, hM, hh, hag, inv => by
      cases ms with
      | nil => simp [hasMs] at hh
      | cons m r =>
        obtain ⟨n, t, k⟩ := m
        obtain ⟨hT, hfx, _, _, hMr⟩ := hM.cons
        obtain ⟨hcnt, hf, hhr⟩ := (hasMs_cons all n t k r v vs).1 hh
        simp only [agreeFields, Bool.and_eq_true] at hag
        have hmem : Member.mk n t k ∈ all := hsub _ (List.mem_cons_self ..)
        have hsz := sf.enc n t k hmem
        have hapos := (aN_isAl S hS ad (.mk n t k :: r)).pos
        generalize ha : aN S ad (.mk n t k :: r) = a at *
        have hmS : Spec.alignMember (.mk n t k) ∣ S := inv.memS _ (List.mem_cons_self ..)
        have hma : Spec.alignMember (.mk n t k) ∣ a := by rw [← ha]; exact alignMember_dvd_aN S ad _ r
        have hpos : Spec.alignMember (.mk n t k) ∣ base + alignUp off0 a :=
          Nat.dvd_add (Nat.dvd_trans hmS hb) (Nat.dvd_trans hma (dvd_alignUp _ _ hapos))
        have hmsz : ∀ s lim, k = .limited s lim → mslot (.mk n t k) = lim * Spec.sizeTy t := by
          intro s lim hk
          subst hk
          rw [mslot_fixed n t _ (hfx rfl)]
          rfl
        have hbody := (cfield_ok e v all allv n t k (mslot (.mk n t k)) (base + alignUp off0 a) hM.field hf hag.1 hcnt hsz
          hmsz hpos).1
        generalize hfc : Spec.fieldChunks all allv n t k v = fc at hbody
        generalize hcells : fieldCells e all allv n t k v (mslot (.mk n t k)) (base + alignUp off0 a) = cells at hbody
        have hclen : cells.length = Spec.clen fc := by rw [← fill_length, hbody, Spec.render_length]
        have hL : LenOk (.mk n t k) (Spec.clen fc) := by
          constructor
          · intro hne; rw [← hfc]; exact field_len_static all allv n t k v hT.wf hfx hf hne
          · intro he; rw [← hfc]
            exact field_len_dyn all allv n t k v hT.wf hf hcnt (fun h => by obtain ⟨p, hp, _⟩ := hsz h; exact ⟨p, hp⟩) he
        have hinv : LayInv S (Spec.dynMs all) (.mk n t k :: r) ad off0 bs A := inv
        obtain ⟨hpad, _⟩ := padOf_step S hS (Spec.dynMs all) (.mk n t k) r ad off0 bs A base (Spec.clen fc) hinv hL hb
        rw [ha] at hpad
        rw [lay_cons, encMs_cons, hcells, hclen, restChunks_cons, ha, hfc]
        rw [hpad]
        simp only [fill_append, fill_skip, hbody, render_cons, Spec.render_append, Spec.Chunk.render]
        have hposeq : base + alignUp off0 a + Spec.clen fc
              + padTo (alignUp off0 a + Spec.clen fc) (aN S (Spec.endsBlock (.mk n t k)) r)
            = base + alignUp (alignUp off0 a + Spec.clen fc) (aN S (Spec.endsBlock (.mk n t k)) r) := by
          simp only [alignUp]; omega
        rw [hposeq]
        cases r with
        | nil =>
          have hvs : vs = [] := by cases vs <;> simp_all [hasMs]
          subst hvs
          simp [restChunks_nil, encMs, aN, Spec.render, Spec.Chunk.render]
        | cons m' r' =>
          obtain ⟨A', inv'⟩ := layInv_step S hS (Spec.dynMs all) (.mk n t k) m' r' ad off0 bs A (Spec.clen fc) hinv hL
          rw [ha] at inv'
          have ih := cms_ok e vs (m' :: r') all allv S (Spec.endsBlock (.mk n t k)) (alignUp off0 a + Spec.clen fc)
            (alignUp (bs + mslot (.mk n t k)) (aN S (Spec.endsBlock (.mk n t k)) (m' :: r'))) A' base hS hb sf
            (fun m hm => hsub m (List.mem_cons_of_mem _ hm)) hMr hhr hag.2 inv'
          rw [← ih]
          simp [List.append_assoc]
  theorem celems_ok (e : Endian) : (xs : List Val) → ∀ (t : Ty) (pos : Nat), TyOk t → hasElems t xs = true →
      agreeElems t xs = true → Spec.alignTy t ∣ pos →
      fill (encElems e t xs xs.length pos) = Spec.render e (Spec.chunksElems t xs)
    | [], t, pos, hT, hh, hag, hpos => by
      simp [encElems, Spec.chunksElems, Spec.render]
    | x :: xs, t, pos, hT, hh, hag, hpos => by
      simp only [hasElems, Bool.and_eq_true, Bool.not_eq_true'] at hh
      simp only [agreeElems, Bool.and_eq_true] at hag
      have h1 := (cfield_ok e x [] [] "" t .plain 0 pos (FieldOk.plain [] hT) hh.1.2 hag.1 (by rw [hh.1.1]; rfl)
        (by intro h; cases h) (by intro s lim h; cases h) hpos).1
      rw [fieldCells_plain e [] [] "" t x 0 _ rfl, Spec.fieldChunks_plain [] [] "" t x hh.1.1] at h1
      have hlen : (encVal e t x pos).length = Spec.clen (Spec.chunksTy t x) := by
        rw [← fill_length, h1, Spec.render_length]
      have hd := Spec.clen_dvd [] t x hT.wf hh.1.2 hh.1.1
      have h2 := celems_ok e xs t (pos + (encVal e t x pos).length) hT hh.2 hag.2
        (by rw [hlen]; exact Nat.dvd_add hpos hd)
      simp only [List.length_cons, encElems_cons, fill_append, h1, h2, Spec.chunksElems, Spec.render_append]
end


/-! ### get_byte_size -/

theorem nearest_eq (n x : Nat) (hn : 0 < n) : nearest n (x : Int) = ((alignUp x n : Nat) : Int) := by
  unfold nearest
  rw [← div_mul_eq_alignUp x n hn]
  have h : ((x : Int) + (n : Int) - 1) = ((x + n - 1 : Nat) : Int) := by omega
  rw [h, Int.natCast_mul, Int.natCast_ediv]

/-- what one member adds to the running size (before its padding) -/
def bszInc (t : Ty) (k : MKind) (v : Val) (kind0 : Bool) (msize : Nat) : Int :=
  if kind0 then (if k.isStatic then (msize : Int) else (v.len : Int) * ((PL.nodeTy t).size : Int))
  else (if k.isStatic then byteSizeTy t v else (match v with | .arr xs => byteSizeElems t xs | _ => 0))

/-- the running size after a member and its padding statement -/
def bszStep (cur inc : Int) (static0 : Bool) (padding : Int) : Int :=
  if padding < 0 then nearest padding.natAbs (cur + inc + (if static0 then max padding 0 else 0))
  else cur + inc + (if static0 then max padding 0 else 0)

/-- the accumulators after one member of generate_struct_get_byte_size -/
def bszPair (t : Ty) (k : MKind) (v : Val) (kind : Nat) (msize : Nat) (padding : Int) (acc bytes : Int) : Int × Int :=
  let dynOrGreedy := match k with
    | .dyn _ _ => true
    | .greedy => true
    | _ => false
  let p1 : Int × Int :=
    if kind = 0 then
      if dynOrGreedy then (acc + (v.len : Int) * ((PL.nodeTy t).size : Int), bytes)
      else (acc, bytes + (msize : Int) + max padding 0)
    else
      if dynOrGreedy then (acc + (match v with | .arr xs => byteSizeElems t xs | _ => 0), bytes)
      else (acc + byteSizeTy t v, bytes)
  let p2 : Int × Int :=
    if padding < 0 then
      (nearest padding.natAbs (if p1.2 ≠ 0 then p1.1 + p1.2 else p1.1), 0)
    else (p1.1, p1.2)
  p2

/- Lean cannot generate equation lemmas for `byteSizeMs`; it unfolds by computation once the
   conditions are constructors -/
theorem byteSizeMs_unfold (all : List Member) (n : String) (t : Ty) (k : MKind) (r : List Member) (v : Val)
    (vs : List Val) (mem : PL.Mem) (mems : List PL.Mem) (msize al : Nat) (padding : Int)
    (ls : List (Nat × Nat × Int)) (acc bytes : Int) :
    byteSizeMs all (.mk n t k :: r) (v :: vs) (mem :: mems) ((msize, al, padding) :: ls) acc bytes =
      byteSizeMs all r vs mems ls (bszPair t k v mem.kind msize padding acc bytes).1
        (bszPair t k v mem.kind msize padding acc bytes).2 := by
  obtain ⟨sz, al', kind, d1, d2, d3, d4⟩ := mem
  cases kind <;> cases padding <;> cases k <;> cases v <;> rfl

theorem byteSizeMs_cons (all : List Member) (n : String) (t : Ty) (k : MKind) (r : List Member) (v : Val)
    (vs : List Val) (mem : PL.Mem) (mems : List PL.Mem) (msize al : Nat) (padding : Int)
    (ls : List (Nat × Nat × Int)) (acc bytes : Int) :
    ∃ acc2 bytes2, byteSizeMs all (.mk n t k :: r) (v :: vs) (mem :: mems) ((msize, al, padding) :: ls) acc bytes
        = byteSizeMs all r vs mems ls acc2 bytes2 ∧
      acc2 + bytes2 = bszStep (acc + bytes) (bszInc t k v (decide (mem.kind = 0)) msize)
        (decide (mem.kind = 0) && k.isStatic) padding := by
  refine ⟨_, _, byteSizeMs_unfold all n t k r v vs mem mems msize al padding ls acc bytes, ?_⟩
  have hif : ∀ (a b : Int), (if b ≠ 0 then a + b else a) = a + b := by
    intro a b; split <;> omega
  by_cases hk0 : mem.kind = 0 <;> by_cases hp : padding < 0 <;> cases k <;>
    simp only [bszPair, bszStep, bszInc, hk0, hp, hif, MKind.isStatic, decide_true, decide_false, if_true, if_false,
      Bool.and_true, Bool.and_false, Bool.false_eq_true, Int.add_zero] <;>
    first | omega | (congr 1; omega)

theorem byteSizeMs_nil (all : List Member) (vs : List Val) (mems : List PL.Mem) (ls : List (Nat × Nat × Int))
    (acc bytes : Int) : byteSizeMs all [] vs mems ls acc bytes = acc + bytes := by
  have : byteSizeMs all [] vs mems ls acc bytes = if bytes ≠ 0 then acc + bytes else acc := by
    cases vs <;> rfl
  rw [this]
  split <;> omega

theorem byteSizeTy_struct (nm : String) (ms : List Member) (vs : List Val) :
    byteSizeTy (.struct nm ms) (.struct vs) = byteSizeMs ms ms vs (PL.memsOf ms) (PL.structMembers ms) 0 0 := rfl

theorem byteSizeElems_cons (t : Ty) (x : Val) (xs : List Val) :
    byteSizeElems t (x :: xs) = byteSizeTy t x + byteSizeElems t xs := rfl

theorem byteSizeElems_nil (t : Ty) : byteSizeElems t [] = 0 := rfl


theorem byteSizeTy_other (t : Ty) (v : Val) (h : ∀ nm ms vs, ¬ (t = .struct nm ms ∧ v = .struct vs)) :
    byteSizeTy t v = ((PL.nodeTy t).size : Int) := by
  cases t <;> cases v <;> first | rfl | exact absurd ⟨rfl, rfl⟩ (h _ _ _)

theorem bszStep_eq (cur L : Nat) (static0 : Bool) (padding : Int)
    (hz : static0 = false → 0 ≤ padding → padding = 0) :
    bszStep (cur : Int) (L : Int) static0 padding = ((cur + L + padLen padding (cur + L) : Nat) : Int) := by
  unfold bszStep padLen
  by_cases hp : padding < 0
  · rw [if_pos hp, if_pos hp]
    have hm : max padding 0 = 0 := by omega
    have hn : 0 < padding.natAbs := by omega
    have hc : (cur : Int) + (L : Int) + (if static0 = true then max padding 0 else 0) = ((cur + L : Nat) : Int) := by
      cases static0 <;> simp [hm]
    rw [hc, nearest_eq _ _ hn]
    rfl
  · rw [if_neg hp, if_neg hp]
    cases hs : static0 with
    | true =>
      simp only [if_true]
      omega
    | false =>
      have := hz hs (by omega)
      subst this
      simp

/-- a member that does not count as "static of fixed type" for get_byte_size ends a block -/
theorem endsBlock_of_not_static0 (n : String) (t : Ty) (k : MKind) (hM : MemberOk t k)
    (h : (decide ((PL.nodeTy t).kind = 0) && k.isStatic) = false) : Spec.endsBlock (.mk n t k) = true := by
  have hk := kind_ne_zero_iff t hM.wf hM.ok
  have ho := hM.opt
  have hs := hM.sized
  unfold Spec.endsBlock
  cases k with
  | plain =>
    simp only [MKind.isStatic, Bool.and_true, decide_eq_false_iff_not] at h
    simpa [Member.kind, Member.ty] using hk.1 h
  | optional => simp [MKind.isStatic, ho rfl] at h
  | fixed c => simp [MKind.isStatic, hs rfl] at h
  | limited s c => simp [MKind.isStatic, hs rfl] at h
  | dyn s sh => rfl
  | greedy => rfl

theorem inc_of (all : List Member) (allv : List Val) (n : String) (t : Ty) (k : MKind) (v : Val)
    (hT : TyOk t) (hMO : MemberOk t k) (hfx : needsFixed k = true → Spec.fixedTy t = true)
    (hh : hasField all k t v = true) (hc : v.isCounter = isSizer n all)
    (hs : isSizer n all = true → ∃ p, t = .prim p)
    (H2 : k = .plain → v.isCounter = false → byteSizeTy t v = (Spec.clen (Spec.chunksTy t v) : Nat))
    (H3 : ∀ xs, v = .arr xs → byteSizeElems t xs = (Spec.clen (Spec.chunksElems t xs) : Nat)) :
    bszInc t k v (decide ((PL.nodeTy t).kind = 0)) (mslot (.mk n t k))
      = (Spec.clen (Spec.fieldChunks all allv n t k v) : Nat) := by
  unfold bszInc
  by_cases hk0 : (PL.nodeTy t).kind = 0
  · have hf := fixed_of_kind t hT.ok hk0
    simp only [hk0, decide_true, if_true]
    cases hst : k.isStatic with
    | true =>
      simp only [if_true]
      have hfm : Spec.fixedMs [.mk n t k] = true := by rw [Spec.fixedMs_cons]; exact ⟨hst, hf, rfl⟩
      have hne := Spec.endsBlock_of_fixed n t k [] hfm
      rw [field_len_static all allv n t k v hT.wf hfx hh hne]
    | false =>
      simp only [Bool.false_eq_true, if_false]
      rw [PL.nodeTy_size_fixed t hf]
      cases v with
      | arr xs =>
        have hel : hasElems t xs = true := by cases t <;> simp_all [hasField]
        have := Spec.elen xs t hf hel
        cases k <;> simp_all [MKind.isStatic, Spec.fieldChunks, Val.len]
      | bytes b =>
        have ht : t = .byte := by cases t <;> simp_all [hasField]
        subst ht
        cases k <;> simp_all [MKind.isStatic, Spec.fieldChunks, Val.len, Spec.sizeTy, Spec.clen, Spec.Chunk.len]
      | _ => cases k <;> cases t <;> simp_all [MKind.isStatic, hasField]
  · simp only [hk0, decide_false, Bool.false_eq_true, if_false]
    cases hst : k.isStatic with
    | true =>
      simp only [if_true]
      have hk : k = .plain := by
        cases k with
        | plain => rfl
        | optional => exact absurd (hMO.opt rfl) hk0
        | fixed c => exact absurd (hMO.sized rfl) hk0
        | limited s c => exact absurd (hMO.sized rfl) hk0
        | dyn s sh => simp [MKind.isStatic] at hst
        | greedy => simp [MKind.isStatic] at hst
      subst hk
      have hnc : v.isCounter = false := by
        cases hsz : isSizer n all with
        | false => rw [hc, hsz]
        | true =>
          obtain ⟨p, rfl⟩ := hs hsz
          simp [PL.nodeTy] at hk0
      rw [Spec.fieldChunks_plain all allv n t v hnc]
      exact H2 rfl hnc
    | false =>
      simp only [Bool.false_eq_true, if_false]
      cases v with
      | arr xs =>
        have := H3 xs rfl
        cases k <;> simp_all [MKind.isStatic, Spec.fieldChunks]
      | bytes b =>
        have ht : t = .byte := by cases t <;> simp_all [hasField]
        subst ht
        simp [PL.nodeTy] at hk0
      | _ => cases k <;> cases t <;> simp_all [MKind.isStatic, hasField]

mutual
  theorem bfield_ok : (v : Val) → ∀ (all : List Member) (allv : List Val) (n : String) (t : Ty) (k : MKind),
      TyOk t → MemberOk t k → (needsFixed k = true → Spec.fixedTy t = true) → hasField all k t v = true →
      v.isCounter = isSizer n all → (isSizer n all = true → ∃ p, t = .prim p) →
      bszInc t k v (decide ((PL.nodeTy t).kind = 0)) (mslot (.mk n t k))
          = (Spec.clen (Spec.fieldChunks all allv n t k v) : Nat) ∧
        (k = .plain → v.isCounter = false → byteSizeTy t v = (Spec.clen (Spec.chunksTy t v) : Nat))
    | .struct vs, all, allv, n, t, k, hT, hMO, hfx, hh, hc, hs => by
      have H2 : k = .plain → (Val.struct vs).isCounter = false →
          byteSizeTy t (.struct vs) = (Spec.clen (Spec.chunksTy t (.struct vs)) : Nat) := by
        intro hk _
        subst hk
        cases t with
        | struct nm ms =>
          have hhm : hasMs ms ms vs = true := by simpa [hasField] using hh
          obtain ⟨hu, hM⟩ := hT.struct
          have hprim : ∀ n t k, Member.mk n t k ∈ ms → isSizer n ms = true → ∃ p, t = .prim p := by
            intro n t k hm hsz
            obtain ⟨p, hp, _⟩ := WF.sizer_prim ms hu hM.wf n t k hm hsz
            exact ⟨p, hp⟩
          have H := bms_ok vs ms ms vs (Spec.alignMs ms) false 0 0 (Spec.alignMs ms) 0 0 (Spec.alignMs_isAl ms) hprim
            (fun m hm => hm) hM hhm (layInv_init ms) (by simp [alignUp, padTo_zero])
          rw [byteSizeTy_struct, structMembers_eq_lay ms hM.wf hM.ok, H]
          simp [restChunks, Spec.chunksTy]
        | prim p => simp [hasField] at hh
        | byte => simp [hasField] at hh
        | enum nm es => simp [hasField] at hh
        | union nm arms => simp [hasField] at hh
      exact ⟨inc_of all allv n t k _ hT hMO hfx hh hc hs H2 (fun xs h => by cases h), H2⟩
    | .arr xs, all, allv, n, t, k, hT, hMO, hfx, hh, hc, hs => by
      have hel : hasElems t xs = true := by cases t <;> simp_all [hasField]
      have H3 := belems_ok xs t hT hel
      have H2 : k = .plain → (Val.arr xs).isCounter = false →
          byteSizeTy t (.arr xs) = (Spec.clen (Spec.chunksTy t (.arr xs)) : Nat) := by
        intro hk _; subst hk; cases t <;> simp [hasField] at hh
      exact ⟨inc_of all allv n t k _ hT hMO hfx hh hc hs H2 (fun ys h => by cases h; exact H3), H2⟩
    | .int i, all, allv, n, t, k, hT, hMO, hfx, hh, hc, hs => by
      have H2 : k = .plain → (Val.int i).isCounter = false →
          byteSizeTy t (.int i) = (Spec.clen (Spec.chunksTy t (.int i)) : Nat) := by
        intro hk hnc; subst hk
        have hf : Spec.fixedTy t = true := by cases t <;> simp_all [hasField, Spec.fixedTy]
        have hl := Spec.flen (.int i) all allv n t .plain hf rfl hh
        rw [Spec.fieldChunks_plain all allv n t _ hnc] at hl
        rw [byteSizeTy_other t _ (by intro nm ms vs h; cases h.2), PL.nodeTy_size_fixed t hf, hl]
        rfl
      exact ⟨inc_of all allv n t k _ hT hMO hfx hh hc hs H2 (fun xs h => by cases h), H2⟩
    | .union idx x, all, allv, n, t, k, hT, hMO, hfx, hh, hc, hs => by
      have H2 : k = .plain → (Val.union idx x).isCounter = false →
          byteSizeTy t (.union idx x) = (Spec.clen (Spec.chunksTy t (.union idx x)) : Nat) := by
        intro hk hnc; subst hk
        have hf : Spec.fixedTy t = true := by
          cases t with
          | union nm arms => exact hT.union_fixed
          | _ => simp [hasField] at hh
        have hl := Spec.flen (.union idx x) all allv n t .plain hf rfl hh
        rw [Spec.fieldChunks_plain all allv n t _ hnc] at hl
        rw [byteSizeTy_other t _ (by intro nm ms vs h; cases h.2), PL.nodeTy_size_fixed t hf, hl]
        rfl
      exact ⟨inc_of all allv n t k _ hT hMO hfx hh hc hs H2 (fun xs h => by cases h), H2⟩
    | .sizer, all, allv, n, t, k, hT, hMO, hfx, hh, hc, hs => by
      have H2 : k = .plain → Val.sizer.isCounter = false →
          byteSizeTy t .sizer = (Spec.clen (Spec.chunksTy t .sizer) : Nat) := by
        intro _ h; simp [Val.isCounter] at h
      exact ⟨inc_of all allv n t k _ hT hMO hfx hh hc hs H2 (fun xs h => by cases h), H2⟩
    | .absent, all, allv, n, t, k, hT, hMO, hfx, hh, hc, hs => by
      have H2 : k = .plain → Val.absent.isCounter = false →
          byteSizeTy t .absent = (Spec.clen (Spec.chunksTy t .absent) : Nat) := by
        intro hk _; subst hk; simp [hasField] at hh
      exact ⟨inc_of all allv n t k _ hT hMO hfx hh hc hs H2 (fun xs h => by cases h), H2⟩
    | .present x, all, allv, n, t, k, hT, hMO, hfx, hh, hc, hs => by
      have H2 : k = .plain → (Val.present x).isCounter = false →
          byteSizeTy t (.present x) = (Spec.clen (Spec.chunksTy t (.present x)) : Nat) := by
        intro hk _; subst hk; simp [hasField] at hh
      exact ⟨inc_of all allv n t k _ hT hMO hfx hh hc hs H2 (fun xs h => by cases h), H2⟩
    | .bytes b, all, allv, n, t, k, hT, hMO, hfx, hh, hc, hs => by
      have H2 : k = .plain → (Val.bytes b).isCounter = false →
          byteSizeTy t (.bytes b) = (Spec.clen (Spec.chunksTy t (.bytes b)) : Nat) := by
        intro hk _; subst hk; cases t <;> simp [hasField] at hh
      exact ⟨inc_of all allv n t k _ hT hMO hfx hh hc hs H2 (fun xs h => by cases h), H2⟩
  theorem bms_ok : (vs : List Val) → ∀ (ms all : List Member) (allv : List Val) (S : Nat) (ad : Bool)
      (off0 bs A : Nat) (acc bytes : Int), IsAl S →
      (∀ n t k, Member.mk n t k ∈ all → isSizer n all = true → ∃ p, t = .prim p) →
      (∀ m ∈ ms, m ∈ all) → MsOk all ms → hasMs all ms vs = true → LayInv S (Spec.dynMs all) ms ad off0 bs A →
      acc + bytes = ((alignUp off0 (aN S ad ms) : Nat) : Int) →
      byteSizeMs all ms vs (PL.memsOf ms) (lay S (Spec.dynMs all) ms ad bs) acc bytes
        = ((off0 + Spec.clen (restChunks S all allv ms vs off0 ad) : Nat) : Int)
    | [], ms, all, allv, S, ad, off0, bs, A, acc, bytes, hS, hprim, hsub, hM, hh, inv, hsum => by
      have hms : ms = [] := by cases ms <;> simp_all [hasMs]
      subst hms
      rw [byteSizeMs_nil, hsum, restChunks_nil]
      simp [aN, alignUp, Spec.clen, Spec.Chunk.len]
    | v :: vs, ms, all, allv, S, ad, off0, bs, A, acc, bytes, hS, hprim, hsub, hM, hh, inv, hsum => by
      cases ms with
      | nil => simp [hasMs] at hh
      | cons m r =>
        obtain ⟨n, t, k⟩ := m
        obtain ⟨hT, hfx, _, _, hMr⟩ := hM.cons
        obtain ⟨hMO, _, _, _, _⟩ := memberOk_of all n t k r hM.wf hM.ok
        obtain ⟨hcnt, hf, hhr⟩ := (hasMs_cons all n t k r v vs).1 hh
        have hmem : Member.mk n t k ∈ all := hsub _ (List.mem_cons_self ..)
        have hsz := hprim n t k hmem
        have hinc := (bfield_ok v all allv n t k hT hMO hfx hf hcnt hsz).1
        generalize hfc : Spec.fieldChunks all allv n t k v = fc at hinc
        have hL : LenOk (.mk n t k) (Spec.clen fc) := by
          constructor
          · intro hne; rw [← hfc]; exact field_len_static all allv n t k v hT.wf hfx hf hne
          · intro he; rw [← hfc]; exact field_len_dyn all allv n t k v hT.wf hf hcnt hsz he
        obtain ⟨hpad, hzero⟩ := padOf_step S hS (Spec.dynMs all) (.mk n t k) r ad off0 bs A 0 (Spec.clen fc) inv hL
          (Nat.dvd_zero _)
        generalize ha : aN S ad (.mk n t k :: r) = a at *
        have hmm : PL.memsOf (.mk n t k :: r) = PL.memOf (PL.nodeTy t) k :: PL.memsOf r := by simp [PL.memsOf]
        rw [hmm, lay_cons]
        obtain ⟨acc2, bytes2, heq, hs2⟩ := byteSizeMs_cons all n t k r v vs (PL.memOf (PL.nodeTy t) k) (PL.memsOf r)
          (mslot (.mk n t k)) (aN S ad (.mk n t k :: r)) (padOf S (Spec.dynMs all) (.mk n t k) r (bs + mslot (.mk n t k)))
          (lay S (Spec.dynMs all) r (Spec.endsBlock (.mk n t k))
            (alignUp (bs + mslot (.mk n t k)) (aN S (Spec.endsBlock (.mk n t k)) r))) acc bytes
        rw [heq]
        rw [PL.memOf_kind, hinc, hsum] at hs2
        rw [bszStep_eq (alignUp off0 a) (Spec.clen fc) _ _
          (fun h0 hnn => hzero (endsBlock_of_not_static0 n t k hMO h0) hnn)] at hs2
        simp only [Nat.zero_add] at hpad
        rw [hpad] at hs2
        rw [restChunks_cons, ha, hfc]
        cases r with
        | nil =>
          have hvs : vs = [] := by cases vs <;> simp_all [hasMs]
          subst hvs
          rw [byteSizeMs_nil, hs2, restChunks_nil]
          simp only [aN, alignUp, Spec.clen_cons, Spec.clen_append, Spec.clen_nil, Spec.Chunk.len]
          omega
        | cons m' r' =>
          obtain ⟨A', inv'⟩ := layInv_step S hS (Spec.dynMs all) (.mk n t k) m' r' ad off0 bs A (Spec.clen fc) inv hL
          rw [ha] at inv'
          have ih := bms_ok vs (m' :: r') all allv S (Spec.endsBlock (.mk n t k)) (alignUp off0 a + Spec.clen fc)
            (alignUp (bs + mslot (.mk n t k)) (aN S (Spec.endsBlock (.mk n t k)) (m' :: r'))) A' acc2 bytes2 hS hprim
            (fun m hm => hsub m (List.mem_cons_of_mem _ hm)) hMr hhr inv' (by rw [hs2]; rfl)
          rw [ih]
          simp only [alignUp, Spec.clen_cons, Spec.clen_append, Spec.Chunk.len]
          omega
  theorem belems_ok : (xs : List Val) → ∀ (t : Ty), TyOk t → hasElems t xs = true →
      byteSizeElems t xs = (Spec.clen (Spec.chunksElems t xs) : Nat)
    | [], t, _, _ => by simp [byteSizeElems_nil, Spec.chunksElems, Spec.clen]
    | x :: xs, t, hT, hh => by
      simp only [hasElems, Bool.and_eq_true, Bool.not_eq_true'] at hh
      have hMO : MemberOk t .plain := ⟨hT.wf, hT.ok, (by intro h; cases h), (by intro h; cases h)⟩
      have h1 := (bfield_ok x [] [] "" t .plain hT hMO (by intro h; cases h) hh.1.2 (by rw [hh.1.1]; rfl)
        (by intro h; cases h)).2 rfl hh.1.1
      have h2 := belems_ok xs t hT hh.2
      rw [byteSizeElems_cons, h1, h2]
      simp [Spec.chunksElems]
end


/-! ### the theorems -/

theorem tyOk_of_accept (t : Ty) (hf : Accept.front t = true) (hp : Accept.pyRt t = true)
    (hm : optMisaligned t = false) (hn : noShift_cppenc t = true) : TyOk t :=
  ⟨Accept.wf_of_accept t hf hp, ok_of_front t hf, hm, hn⟩

/-- the pointer encoder: every cell it writes is the canonical byte, every cell it skips is a
    canonical padding zero -/
theorem encodePtr_canonical (t : Ty) (v : Val) (e : Endian) (hT : TyOk t) (hv : hasType t v = true)
    (ha : agreeTy t v = true) : fill (encodePtr t v e) = Spec.enc t v e := by
  simp only [hasType, Bool.and_eq_true, Bool.not_eq_true'] at hv
  exact (cfield_ok e v [] [] "" t .plain 0 0 (FieldOk.plain [] hT) hv.2 ha (by rw [hv.1]; rfl) (by intro h; cases h)
    (by intro s lim h; cases h) (Nat.dvd_zero _)).2 rfl hv.1

/-- `get_byte_size()` before its conversion to `size_t` is the length of the canonical encoding -/
theorem byteSizeTy_spec (t : Ty) (v : Val) (hT : TyOk t) (hv : hasType t v = true) :
    byteSizeTy t v = ((Spec.clen (Spec.chunksTy t v) : Nat) : Int) := by
  simp only [hasType, Bool.and_eq_true, Bool.not_eq_true'] at hv
  have hMO : MemberOk t .plain := ⟨hT.wf, hT.ok, (by intro h; cases h), (by intro h; cases h)⟩
  exact (bfield_ok v [] [] "" t .plain hT hMO (by intro h; cases h) hv.2 (by rw [hv.1]; rfl)
    (by intro h; cases h)).2 rfl hv.1

theorem getByteSize_of_tyOk (t : Ty) (v : Val) (e : Endian) (hT : TyOk t) (hv : hasType t v = true)
    (hlen : (Spec.enc t v e).length < 2 ^ 64) : getByteSize t v = (Spec.enc t v e).length := by
  unfold getByteSize
  rw [byteSizeTy_spec t v hT hv]
  simp only [Spec.enc, Spec.render_length] at hlen ⊢
  omega

end Cpp

/-- C05: `get_byte_size()` is the length of the canonical encoding.
    Added hypotheses (see the counterexamples below): `Cpp.noShift_cppenc t` - the C++ generator has no
    shifted counters (prophyc never emits one); `hlen` - the encoding fits the address space
    (`get_byte_size()` is a `size_t`). -/
theorem Cpp.getByteSize_spec (t : Ty) (v : Val) (e : Endian)
    (hf : Accept.front t = true) (hp : Accept.pyRt t = true) (hm : Cpp.optMisaligned t = false)
    (hns : Cpp.noShift_cppenc t = true) (hv : hasType t v = true) (_ha : WF.agreeTy t v = true)
    (hlen : (Spec.enc t v e).length < 2 ^ 64) :
    Cpp.getByteSize t v = (Spec.enc t v e).length :=
  Cpp.getByteSize_of_tyOk t v e (Cpp.tyOk_of_accept t hf hp hm hns) hv hlen

/-- C03 (encode half) / C05: `message::encode<E>()` returns the canonical encoding: the pointer
    encoder stays within `get_byte_size()` bytes and the bytes it leaves untouched are the zero
    padding of the canonical form. -/
theorem Cpp.encodeVec_canonical (t : Ty) (v : Val) (e : Endian)
    (hf : Accept.front t = true) (hp : Accept.pyRt t = true) (hm : Cpp.optMisaligned t = false)
    (hns : Cpp.noShift_cppenc t = true) (hv : hasType t v = true) (ha : WF.agreeTy t v = true)
    (hlen : (Spec.enc t v e).length < 2 ^ 64) :
    Cpp.encodeVec t v e = .ok (Spec.enc t v e) := by
  have hT := Cpp.tyOk_of_accept t hf hp hm hns
  have h1 := Cpp.encodePtr_canonical t v e hT hv ha
  have h2 := Cpp.getByteSize_of_tyOk t v e hT hv hlen
  have h3 : (Cpp.encodePtr t v e).length = (Spec.enc t v e).length := by rw [← h1, Cpp.fill_length]
  unfold Cpp.encodeVec
  simp only [h2, h3, Nat.le_refl, if_true, Nat.sub_self]
  have : (Cpp.encodePtr t v e).map (·.getD 0) = Spec.enc t v e := h1
  rw [this]
  simp [zeros]

end Prophy

/-! ### why the two added hypotheses are needed

  The statements as first proposed were

      theorem Cpp.encodeVec_canonical (t : Ty) (v : Val) (e : Endian)
          (hf : Accept.front t = true) (hp : Accept.pyRt t = true) (hm : Cpp.optMisaligned t = false)
          (hv : hasType t v = true) (ha : WF.agreeTy t v = true) :
          Cpp.encodeVec t v e = .ok (Spec.enc t v e)
      theorem Cpp.getByteSize_spec (... same hypotheses ...) : Cpp.getByteSize t v = (Spec.enc t v e).length

  Both are false in the model, for two independent reasons. -/
namespace Prophy
namespace Cpp.Counterexamples
open Prophy Cpp

/-- (1) a shifted counter (`prophy.array(..., bound="n", shift=1)`, which only hand-written Python
    classes can have): the document stores `count + shift`, the generated C++ stores `count` -/
def shiftT : Ty := .struct "X" [.mk "n" (.prim .u8) .plain, .mk "x" (.prim .u8) (.dyn "n" 1)]
def shiftV : Val := .struct [.sizer, .arr [.int 5]]

theorem shift_counterexample :
    Accept.front shiftT = true ∧ Accept.pyRt shiftT = true ∧ optMisaligned shiftT = false ∧
    hasType shiftT shiftV = true ∧ WF.agreeTy shiftT shiftV = true ∧
    encodeVec shiftT shiftV .little = .ok [1, 5] ∧ Spec.enc shiftT shiftV .little = [2, 5] ∧
    noShift_cppenc shiftT = false := by decide

/-- (2) a message of 2^64 bytes: `get_byte_size()` is a `size_t` and wraps to 0, so `encode<E>()`
    allocates an empty vector and the pointer encoder writes outside it -/
def bigT : Ty := .struct "X" [.mk "x" .byte .greedy]
def bigVof (b : Bytes) : Val := .struct [.bytes b]
def bigV : Val := bigVof (List.replicate (2 ^ 64) 0)

theorem big_hyps (b : Bytes) : Accept.front bigT = true ∧ Accept.pyRt bigT = true ∧ optMisaligned bigT = false ∧
    noShift_cppenc bigT = true ∧ hasType bigT (bigVof b) = true ∧ WF.agreeTy bigT (bigVof b) = true := by
  refine ⟨by decide, by decide, by decide, by decide, ?_, ?_⟩
  · simp [bigT, bigVof, hasType, hasField, hasMs, Val.isCounter, isSizer, MKind.sizer?, Member.kind]
  · simp [bigT, bigVof, WF.agreeTy, WF.agreeMs, WF.agreeFields, MKind.sizer?, Member.kind]

theorem big_length (b : Bytes) (e : Endian) : (Spec.enc bigT (bigVof b) e).length = b.length := by
  have ha : Spec.alignMs [Member.mk "x" Ty.byte MKind.greedy] = 1 := by decide
  simp [Spec.enc, bigT, bigVof, Spec.chunksTy, Spec.chunksMs, Spec.clen, Spec.Chunk.len, padTo, ha, Nat.mod_one]

theorem big_getByteSize (b : Bytes) (hb : b.length = 2 ^ 64) : getByteSize bigT (bigVof b) = 0 := by
  obtain ⟨hf, hp, hm, hns, hv, _⟩ := big_hyps b
  have h := byteSizeTy_spec bigT (bigVof b) (tyOk_of_accept bigT hf hp hm hns) hv
  have hl := big_length b .little
  simp only [Spec.enc, Spec.render_length] at hl
  unfold getByteSize
  rw [h, hl, hb]
  decide

theorem encodeVec_length (t : Ty) (v : Val) (e : Endian) (b : Bytes) (h : encodeVec t v e = .ok b) :
    b.length = getByteSize t v := by
  unfold encodeVec at h
  simp only at h
  split at h
  · injection h with h; subst h
    simp [zeros]; omega
  · split at h
    · injection h with h; subst h
      simp; omega
    · cases h

theorem big_counterexample_of (b : Bytes) (hb : b.length = 2 ^ 64) (e : Endian) :
    getByteSize bigT (bigVof b) ≠ (Spec.enc bigT (bigVof b) e).length ∧
      encodeVec bigT (bigVof b) e ≠ .ok (Spec.enc bigT (bigVof b) e) := by
  have h1 := big_getByteSize b hb
  have h2 := big_length b e
  rw [hb] at h2
  refine ⟨by rw [h1, h2]; decide, fun h => ?_⟩
  have := encodeVec_length _ _ _ _ h
  rw [h1, h2] at this
  exact absurd this (by decide)

/-- all hypotheses of the proposed statements hold of `bigT`, `bigV`, both conclusions fail -/
theorem big_counterexample (e : Endian) :
    (Accept.front bigT = true ∧ Accept.pyRt bigT = true ∧ optMisaligned bigT = false ∧
      noShift_cppenc bigT = true ∧ hasType bigT bigV = true ∧ WF.agreeTy bigT bigV = true) ∧
    getByteSize bigT bigV ≠ (Spec.enc bigT bigV e).length ∧ encodeVec bigT bigV e ≠ .ok (Spec.enc bigT bigV e) :=
  ⟨big_hyps _, big_counterexample_of _ (List.length_replicate ..) e⟩

end Cpp.Counterexamples
end Prophy

#print axioms Prophy.Cpp.Counterexamples.shift_counterexample
#print axioms Prophy.Cpp.Counterexamples.big_counterexample
#print axioms Prophy.Cpp.getByteSize_spec
#print axioms Prophy.Cpp.encodeVec_canonical

/-
  Lemmas for C12 (names): the name scan of `check_cpp_names` (`NameScan.scan`) against calc's lexer (`Expr.lex false`).
-/
import ProphyModel.Expr
import ProphyModel.NameScan
import ProphyModel.Lemmas.ExprLex
import ProphyModel.Lemmas.ExprCppLex
namespace Prophy
namespace NameScan
open Prophy.Expr

/-! ### unfolding -/

theorem scanGo_nil_p30 (b : Bool) : scanGo b [] = [] := by
  unfold scanGo; rfl

theorem scanGo_start_p30 (c : Char) (r : List Char) (hs : isIdStart c = true) :
    scanGo false (c :: r) = String.ofList (c :: r.takeWhile isIdChar) :: scanGo true r := by
  rw [scanGo]; simp [hs]

theorem scanGo_skip_p30 (b : Bool) (c : Char) (r : List Char) (hs : b = true ∨ isIdStart c = false) :
    scanGo b (c :: r) = scanGo (isIdChar c) r := by
  rw [scanGo]
  rcases hs with hs | hs <;> simp [hs]

/-- the flag matters only when the text starts with an identifier start -/
theorem scanGo_flag_p30 (b b' : Bool) (cs : List Char) (hh : ∀ x, cs.head? = some x → isIdStart x = false) :
    scanGo b cs = scanGo b' cs := by
  cases cs with
  | nil => rw [scanGo_nil_p30, scanGo_nil_p30]
  | cons c r =>
    rw [scanGo_skip_p30 b c r (Or.inr (hh c rfl)), scanGo_skip_p30 b' c r (Or.inr (hh c rfl))]

/-- after an identifier character, a run of identifier characters holds no name -/
theorem scanGo_ids_p30 : ∀ (pre rest : List Char), (∀ x ∈ pre, isIdChar x = true) →
    scanGo true (pre ++ rest) = scanGo true rest
  | [], _, _ => rfl
  | c :: pre, rest, h => by
    rw [List.cons_append, scanGo_skip_p30 true c _ (Or.inl rfl), h c (List.mem_cons_self ..)]
    exact scanGo_ids_p30 pre rest (fun x hx => h x (List.mem_cons_of_mem _ hx))

theorem not_idStart_of_not_idChar_p30 (x : Char) (h : isIdChar x = false) : isIdStart x = false := by
  rw [isIdChar_eq_p24, Bool.or_eq_false_iff] at h
  exact h.1

/-- after a maximal run, the scan goes on as from a fresh start -/
theorem scanGo_run_p30 (r : List Char) :
    scanGo true r = scanGo false (r.dropWhile isIdChar) := by
  conv => lhs; rw [← List.takeWhile_append_dropWhile (p := isIdChar) (l := r)]
  rw [scanGo_ids_p30 _ _ (takeWhile_all_p22 isIdChar r)]
  exact scanGo_flag_p30 _ _ _
    (fun x hx => not_idStart_of_not_idChar_p30 x (dropWhile_head_p22 isIdChar r x hx))

/-! ### the walk with fuel is the structural one -/

theorem length_dropWhile_le_p30 (p : Char → Bool) : ∀ (l : List Char), (l.dropWhile p).length ≤ l.length
  | [] => Nat.le_refl _
  | c :: r => by
    rw [List.dropWhile_cons]
    have := length_dropWhile_le_p30 p r
    split
    · simp only [List.length_cons]; omega
    · exact Nat.le_refl _

theorem scanF_eq_scanGo_p30 (n : Nat) : ∀ (b : Bool) (cs : List Char), cs.length < n → scanF n b cs = scanGo b cs := by
  induction n with
  | zero => intro b cs hn; omega
  | succ n ih =>
    intro b cs hn
    cases cs with
    | nil => rw [scanGo_nil_p30]; rfl
    | cons c r =>
      simp only [List.length_cons] at hn
      rw [scanF]
      by_cases hc : (!b && isIdStart c) = true
      · rw [if_pos hc]
        simp only [Bool.and_eq_true, Bool.not_eq_true'] at hc
        obtain ⟨rfl, hs⟩ := hc
        have hi := isIdStart_isIdChar_p22 c hs
        rw [takeWhileAcc_eq_p22]
        simp only [List.reverse_nil, List.nil_append, List.takeWhile_cons, List.dropWhile_cons, hi, if_true]
        rw [scanGo_start_p30 c r hs, scanGo_run_p30 r]
        have hlen : (r.dropWhile isIdChar).length < n := by
          have := length_dropWhile_le_p30 isIdChar r
          omega
        rw [ih true _ hlen]
        congr 1
        exact scanGo_flag_p30 _ _ _
          (fun x hx => not_idStart_of_not_idChar_p30 x (dropWhile_head_p22 isIdChar r x hx))
      · rw [if_neg hc, ih _ r (by omega)]
        have : b = true ∨ isIdStart c = false := by
          cases b <;> cases h : isIdStart c <;> simp_all
        rw [scanGo_skip_p30 b c r this]

theorem scan_eq_scanGo (cs : List Char) : scan cs = scanGo false cs :=
  scanF_eq_scanGo_p30 _ _ _ (Nat.lt_succ_self _)

/-! ### one step of calc's lexer, as the scan sees it -/

/-- a number: its characters are identifier characters -/
theorem lexHead_digit_run_p30 (c : Char) (r : List Char) (ot : Option Tok) (rest : List Char)
    (hdg : c.isDigit = true) (h : lexHead false c r = some (ot, rest)) :
    ∃ pre, r = pre ++ rest ∧ ∀ x ∈ pre, isIdChar x = true := by
  by_cases hx : ∃ r', c = '0' ∧ r = 'x' :: r'
  · obtain ⟨r', rfl, rfl⟩ := hx
    rw [lexHead_hex_p24] at h
    unfold numHex at h
    cases hw : takeWhileAcc (fun d => (hexVal? d).isSome) r' [] with
    | mk hxs rest' =>
      rw [hw] at h
      dsimp only at h
      split at h
      · cases h
      · cases h
        obtain ⟨e, hall, -⟩ := run_spec_p22 _ _ _ _ hw
        refine ⟨'x' :: hxs, by rw [e]; rfl, ?_⟩
        intro x hx
        rcases List.mem_cons.mp hx with hx | hx
        · subst hx; decide
        · exact isHexC_isIdChar_p24 x (hall x hx)
  · rw [lexHead_digit_p22 false c r hdg hx] at h
    unfold numDec at h
    cases hw : takeWhileAcc Char.isDigit (c :: r) [] with
    | mk ds rest' =>
      rw [hw] at h
      simp only [Bool.false_and, Bool.false_eq_true, if_false] at h
      cases h
      obtain ⟨-, hall, -⟩ := run_spec_p22 _ _ _ _ hw
      obtain ⟨ds', rfl, e'⟩ := run_ne_nil_p22 _ _ _ _ _ hdg hw
      exact ⟨ds', e', fun x hx => isDigit_isIdChar_p24 x (hall x (List.mem_cons_of_mem _ hx))⟩

/-- neither a digit nor a letter: no identifier token, and one or two characters that are not identifier characters -/
theorem lexHead_other_p30 (c : Char) (r : List Char) (ot : Option Tok) (rest : List Char)
    (hdg : c.isDigit = false) (hi : isIdStart c = false) (h : lexHead false c r = some (ot, rest)) :
    (∀ s, ot ≠ some (Tok.ident s)) ∧ (rest = r ∨ ∃ x, isIdChar x = false ∧ r = x :: rest) := by
  unfold lexHead at h
  simp only [hdg, hi, Bool.false_eq_true, if_false] at h
  repeat' split at h
  all_goals first
    | (cases h; done)
    | (cases h; exact ⟨fun s e => (by cases e), Or.inl rfl⟩)
    | (cases h; exact ⟨fun s e => (by cases e), Or.inr ⟨'<', by decide, rfl⟩⟩)
    | (cases h; exact ⟨fun s e => (by cases e), Or.inr ⟨'>', by decide, rfl⟩⟩)

theorem identsOf_cons_other_p30 (t : Tok) (ts : List Tok) (h : ∀ s, t ≠ Tok.ident s) :
    identsOf (t :: ts) = identsOf ts := by
  cases t <;> first | rfl | (exact absurd rfl (h _))

/-! ### the induction -/

theorem scanGo_is_idents_p30 (n : Nat) : ∀ (cs : List Char) (ts : List Tok) (st : Bool),
    lex false n cs = some ts → okSeq st ts = true → scanGo false cs = identsOf ts := by
  induction n with
  | zero => intro cs ts st hl; rw [lex_zero_p22] at hl; cases hl
  | succ n ih =>
    intro cs ts st hl hs
    cases cs with
    | nil =>
      rw [lex_succ_nil_p22] at hl
      cases hl
      rfl
    | cons c r =>
      rw [lex_succ_cons] at hl
      cases hh : lexHead false c r with
      | none => rw [hh] at hl; cases hl
      | some p =>
        obtain ⟨ot, rest⟩ := p
        rw [hh] at hl
        by_cases hdg : c.isDigit = true
        · -- a number: nothing is reported, and the next token is no name
          obtain ⟨v, rfl⟩ := lexHead_digit_num_p24 c r ot rest hdg hh
          obtain ⟨pre, rfl, hall⟩ := lexHead_digit_run_p30 c r _ rest hdg hh
          simp only [lexCont, Option.map_eq_some_iff] at hl
          obtain ⟨ts', hl', rfl⟩ := hl
          have hs' : okSeq false ts' = true := by cases st <;> simp [okSeq] at hs <;> exact hs
          have hns : isIdStart c = false := by
            cases h : isIdStart c with
            | false => rfl
            | true => rw [isIdStart_not_digit_p22 c h] at hdg; cases hdg
          rw [scanGo_skip_p30 false c _ (Or.inr hns), isDigit_isIdChar_p24 c hdg, scanGo_ids_p30 pre rest hall]
          have hflag : scanGo true rest = scanGo false rest := by
            apply scanGo_flag_p30
            intro x hx
            cases rest with
            | nil => cases hx
            | cons y r2 =>
              simp only [List.head?_cons, Option.some.injEq] at hx
              subst hx
              exact first_after_operand_p24 n _ r2 ts' hl' hs'
          rw [hflag, ih rest ts' false hl' hs']
          rfl
        · have hdg : c.isDigit = false := by simpa using hdg
          by_cases hi : isIdStart c = true
          · -- a name: the scan reports the same run
            rw [lexHead_ident_p22 false c r hi, takeWhileAcc_eq_p22] at hh
            simp only [List.reverse_nil, List.nil_append, List.takeWhile_cons, List.dropWhile_cons,
              isIdStart_isIdChar_p22 c hi, if_true, Option.some.injEq, Prod.mk.injEq] at hh
            obtain ⟨rfl, rfl⟩ := hh
            simp only [lexCont, Option.map_eq_some_iff] at hl
            obtain ⟨ts', hl', rfl⟩ := hl
            obtain ⟨st', hs'⟩ := okSeq_tail_p24 st _ ts' hs
            rw [scanGo_start_p30 c r hi, scanGo_run_p30 r, ih _ ts' st' hl' hs']
            rfl
          · have hi : isIdStart c = false := by simpa using hi
            obtain ⟨hot, hrest⟩ := lexHead_other_p30 c r ot rest hdg hi hh
            have hic : isIdChar c = false := by rw [isIdChar_eq_p24, hi, hdg]; rfl
            have hstep : scanGo false (c :: r) = scanGo false rest := by
              rw [scanGo_skip_p30 false c r (Or.inr hi), hic]
              rcases hrest with rfl | ⟨x, hx, rfl⟩
              · rfl
              · rw [scanGo_skip_p30 false x rest (Or.inr (not_idStart_of_not_idChar_p30 x hx)), hx]
            rw [hstep]
            cases ot with
            | none => exact ih rest ts st hl hs
            | some t =>
              simp only [lexCont, Option.map_eq_some_iff] at hl
              obtain ⟨ts', hl', rfl⟩ := hl
              obtain ⟨st', hs'⟩ := okSeq_tail_p24 st t ts' hs
              rw [ih rest ts' st' hl' hs', identsOf_cons_other_p30 t ts' (fun s e => hot s (by rw [e]))]

/-- on a text calc lexes, whose tokens alternate (operands and operators), the scan reports the identifier tokens -/
theorem scan_is_idents_of_okSeq (cs : List Char) (ts : List Tok) (n : Nat) (st : Bool)
    (hl : lex false n cs = some ts) (hs : okSeq st ts = true) : scan cs = identsOf ts := by
  rw [scan_eq_scanGo]
  exact scanGo_is_idents_p30 n cs ts st hl hs

end NameScan
end Prophy
